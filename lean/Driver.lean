import Gomacro.Drv.C19
import Gomacro.Drv.C17
import Gomacro.Drv.C20
import Gomacro.Drv.An
import Gomacro.Drv.C09
import Gomacro.Drv.C16
import Gomacro.Drv.C01
import Gomacro.Drv.Sem
import Gomacro.Drv.C15
import Gomacro.Drv.C03
import Gomacro.Drv.C04
import Gomacro.Drv.C06
/-! JSON-lines driver: one request object per line in, one reply per line out.
Unknown ops are `bad-op`, never defaulted.  Core-only imports (links as an executable). -/
open Lean Gomacro.Drv

def handlers : List (String × Handler) := [
  ("c19.write", c19Write),
  ("c17.root", c17Root),
  ("c20.run", c20Run),
  ("an.analyse", anAnalyse),
  ("c09.field", c09Field),
  ("c16.words", c16Words),
  ("c16.snake", c16Snake),
  ("c16.constraint", c16Constraint),
  ("c16.guard", c16Guard),
  ("c16.classify", c16Classify),
  ("c16.one", c16One),
  ("c16.query", c16Query),
  ("c01.idents", c01Idents),
  ("sem.encode", semEncode),
  ("c15.judge", c15Judge),
  ("c03.gen", c03Gen),
  ("c03.check", c03Check),
  ("c03.fragment", c03Fragment),
  ("c03.checkReal", c03CheckReal),
  ("c02.roundtrip", c02RoundTrip),
  ("c04.gen", c04Gen),
  ("c04.eval", c04Eval),
  ("c04.evalReal", c04EvalReal),
  ("c04.fragment", c04Fragment),
  ("c04.evalAst", c04EvalAst),
  ("c05.gen", c05Gen),
  ("c05.check", c05Check),
  ("c13.extract", c13Extract),
  ("c13.spec", c13Spec),
  ("c14.gen", c14Gen),
  ("c14.perform", c14Perform),
  ("c06.gen", c06Gen)
]

def handleLine (line : String) : String :=
  match Json.parse line with
  | .error e => (Json.mkObj [("error", Json.str ("parse: " ++ e))]).compress
  | .ok j =>
    match j.getObjValAs? String "op" with
    | .error _ => (Json.mkObj [("error", "no-op")]).compress
    | .ok op =>
      match handlers.lookup op with
      | none => (Json.mkObj [("error", "bad-op")]).compress
      | some h =>
        match h j with
        | .ok r => r.compress
        | .error e => (Json.mkObj [("error", Json.str e)]).compress

partial def loop (hin hout : IO.FS.Stream) : IO Unit := do
  let line ← hin.getLine
  if line.isEmpty then return ()
  let l := line.trimAscii.toString
  if !l.isEmpty then
    hout.putStrLn (handleLine l)
    hout.flush
  loop hin hout

def main : IO Unit := do
  let hin ← IO.getStdin
  let hout ← IO.getStdout
  loop hin hout
  hout.flush
