import Gomacro.Decls
import Gomacro.Paths
import Gomacro.Sched
import Gomacro.Facts.Generated
import Gomacro.Props.C19
import Gomacro.Props.C17
import Gomacro.Props.C20
