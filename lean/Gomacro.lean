import Gomacro.Decls
import Gomacro.Props.C19
