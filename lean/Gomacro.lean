import Gomacro.Decls
import Gomacro.Paths
import Gomacro.Props.C19
import Gomacro.Props.C17
