import Gomacro.IR
import Gomacro.Tags
import Gomacro.GoJson
/-!
Model of generator/typescript/types.go: IR ↦ TypeScript declarations (as ASTs), the reference
printer `typeName`, and a structural semantics of the emitted types (`inhabits`).
-/
namespace Gomacro.TsGen
open Gomacro.IR Gomacro.GoJson

inductive TsType
  | str | num | bool | null | unknown | never
  | litStr (s : String)
  | litNum (repr : String)
  | litBool (b : Bool)
  | arr (e : TsType)
  | tuple (es : List TsType)
  | record (k v : TsType)
  | union (ts : List TsType)
  | obj (fields : List (String × TsType))
  | ref (name : String)
  | brand (base : TsType) (tag : String)
deriving Repr, Inhabited

inductive TsDecl
  | header
  | alias (name : String) (origin : Option String) (ty : TsType)       -- export type N = T
  | iface (name : String) (origin : String) (fields : List (String × TsType))
  | emptyStruct (name : String) (origin : String)                       -- Record<string, never>
  | enum (name : String) (origin : String) (members : List (String × String × String × TsType))  -- name, value text, label, literal type
  | unionDecl (name : String) (origin : String) (members : List (String × String × TsType)) -- member type name, Kind, Data type
deriving Repr, Inhabited

/-- `Type().String()` of a node (declaration IDs, origins) -/
def goTypeString : Ty → String
  | .basic n _ => n
  | .time d => if d then "Date" else "Time"
  | .arr n e => (if n ≥ 0 then "[" ++ toString n ++ "]" else "[]") ++ goTypeString e
  | .map k e => "map[" ++ goTypeString k ++ "]" ++ goTypeString e
  | .ptr e => "*" ++ goTypeString e
  | .ref q => q

def structTsName (d : Decl) : String := d.targs.foldl (fun acc a => acc ++ "_" ++ a.name) d.name

/-- `typeName`: how a type is referred to; `none` = the generator panics with a diagnostic -/
def typeRef (env : Env) : Ty → Option (String × TsType)
  | .ptr _ => none
  | .basic _ bk =>
    match bk with
    | .str => some ("string", .str)
    | .int => some ("Int", .ref "Int")
    | .float => some ("number", .num)
    | .bool => some ("boolean", .bool)
    | .none => none
  | .time d => if d then some ("Date_", .ref "Date_") else some ("Time", .ref "Time")
  | .map k e =>
    match typeRef env k, typeRef env e with
    | some (kn, kt), some (en, et) => some ("(Record<" ++ kn ++ "," ++ en ++ "> | null)", .union [.record kt et, .null])
    | _, _ => none
  | .arr n e =>
    match typeRef env e with
    | none => none
    | some (en, et) =>
      if n ≥ 1 then
        (match e with
         | .arr m _ => if m == -1 then none else some ("Ar" ++ toString n ++ "_" ++ en, .ref ("Ar" ++ toString n ++ "_" ++ en))
         | .map _ _ => none
         | _ => some ("Ar" ++ toString n ++ "_" ++ en, .ref ("Ar" ++ toString n ++ "_" ++ en)))
      else some ("( " ++ en ++ "[] | null)", .union [.arr et, .null])
  | .ref q =>
    match env.find? q with
    | none => none
    | some d =>
      match d.body with
      | .struct _ _ _ => some (structTsName d, .ref (structTsName d))
      | _ => some (d.name, .ref d.name)

def refName (env : Env) (t : Ty) : String := match typeRef env t with | some (n, _) => n | none => "?"
def refTy (env : Env) (t : Ty) : TsType := match typeRef env t with | some (_, t) => t | none => .never

/-- the literal type of an enum constant -/
def enumLiteral (m : Member) : TsType :=
  if m.valStr.startsWith "\"" then .litStr m.str
  else if m.valStr == "true" then .litBool true
  else if m.valStr == "false" then .litBool false
  else .litNum m.valStr

def selectedFields (fs : List Field) : List Field := fs.filter fun f => Tags.exported f.tag f.goExported

/-- declarations emitted for one named type (without its dependencies) -/
def declOfNamed (env : Env) (d : Decl) : List (String × TsDecl) :=
  match d.body with
  | .named u =>
    (match u with
     | .basic _ .int => [(d.q, .alias d.name none (.brand .num d.name))]
     | _ =>
       if d.name == refName env u then []
       else [(d.q, .alias d.name (some d.q) (refTy env u))])
  | .enum _ _ ms _ =>
    [(d.q, .enum d.name d.q (ms.map fun m => (m.name, m.valStr, m.comment, enumLiteral m)))]
  | .struct fs _ _ =>
    let name := structTsName d
    if fs.isEmpty then [(d.q, .emptyStruct name d.q)]
    else
      [(d.q, .iface name d.q ((selectedFields fs).map fun f =>
        (Tags.jsonName f.tag f.name, if Tags.opaqueFor f.tag "typescript" then TsType.unknown else refTy env f.ty)))]
  | .union ms =>
    [(d.q, .unionDecl d.name d.q (ms.map fun m =>
      let localName := match m with
        | .ref q => (match env.find? q with | some md => md.name | none => "?")
        | _ => "?"
      (refName env m, localName, refTy env m)))]

/-- declarations emitted for an anonymous type expression itself (aliases of fixed arrays, the
predefined Int / Time / Date_) and for what it contains, stopping at named types -/
def declsOfAnon (env : Env) : Ty → List (String × TsDecl)
  | .basic _ bk => if bk == .int then [("__int_def", .alias "Int" none (.brand .num "Int"))] else []
  | .time d =>
    if d then [("__date_def", .alias "Date_" none (.brand .str "Date"))]
    else [("__time_def", .alias "Time" none (.brand .str "Time"))]
  | .arr n e =>
    declsOfAnon env e ++
    (if n ≥ 0 then
      [("__array_" ++ refName env (.arr n e), .alias (refName env (.arr n e)) none (.tuple (List.replicate n.toNat (refTy env e))))]
     else [])
  | .map k e => declsOfAnon env k ++ declsOfAnon env e
  | .ptr _ => []
  | .ref _ => []

/-- the type expressions the generator recurses into from a named declaration -/
def childTys (d : Decl) : List Ty :=
  match d.body with
  | .named u => (match u with | .basic _ .int => [] | _ => [u])
  | .enum _ _ _ _ => []
  | .struct fs _ _ => ((selectedFields fs).filter fun f => !Tags.opaqueFor f.tag "typescript").map (·.ty)
  | .union ms => ms

def tyRefs := Ty.refs

/-- one round of the traversal over named types -/
def expand (env : Env) (visited : List String) : List String :=
  visited.foldl (fun acc q =>
    match env.find? q with
    | none => acc
    | some d => ((childTys d).flatMap Ty.refs).foldl (fun a r => if a.contains r then a else a ++ [r]) acc) visited

def reachAux (env : Env) : Nat → List String → List String
  | 0, v => v
  | n + 1, v => let v' := expand env v; if v'.length == v.length then v else reachAux env n v'

/-- all declarations of `Generate(ana)` (before assembly; duplicates by ID are merged by WriteDeclarations) -/
def generate (env : Env) : List (String × TsDecl) :=
  let start := (env.source.flatMap Ty.refs).eraseDups
  let reach := reachAux env (env.decls.length + 1) start
  let named := reach.filterMap env.find?
  ("__header", TsDecl.header) ::
    (env.source.flatMap (declsOfAnon env)) ++
    named.flatMap (fun d => declOfNamed env d ++ (childTys d).flatMap (declsOfAnon env))

/-! ### printing (for the textual tie with the real output) -/

partial def printTy : TsType → String
  | .str => "string" | .num => "number" | .bool => "boolean" | .null => "null"
  | .unknown => "unknown" | .never => "never"
  | .litStr s => "\"" ++ s ++ "\"" | .litNum r => r | .litBool b => toString b
  | .arr e => printTy e ++ "[]"
  | .tuple es => "[" ++ String.join (es.map fun e => printTy e ++ ",") ++ "]"
  | .record k v => "Record<" ++ printTy k ++ "," ++ printTy v ++ ">"
  | .union [.record k v, .null] => "(Record<" ++ printTy k ++ "," ++ printTy v ++ "> | null)"
  | .union [.arr e, .null] => "( " ++ printTy e ++ "[] | null)"
  | .union ts => " | ".intercalate (ts.map printTy)
  | .obj fs => "{" ++ String.join (fs.map fun (k, t) => k ++ ": " ++ printTy t ++ ",") ++ "}"
  | .ref n => n
  | .brand b tag => printTy b ++ " & { __opaque__: '" ++ tag ++ "' }"

/-- Go's `%q` for the strings the generators feed it -/
def goQuote (s : String) : String :=
  "\"" ++ String.join (s.toList.map fun c =>
    if c == '"' then "\\\"" else if c == '\\' then "\\\\" else if c == '\n' then "\\n"
    else if c == '\t' then "\\t" else if c == '\r' then "\\r" else String.singleton c) ++ "\""

/-- text of a declaration, token-for-token what the Go templates print (comments and layout aside) -/
def printDecl : TsDecl → String
  | .header => ""
  | .alias name _ (.brand b tag) => "export type " ++ name ++ " = " ++ printTy b ++ " & { __opaque__: '" ++ tag ++ "' }"
  | .alias name _ ty => "export type " ++ name ++ " = " ++ printTy ty
  | .iface name _ fields =>
    "export interface " ++ name ++ " {\n" ++ "\n".intercalate (fields.map fun (k, t) => "\t" ++ k ++ ": " ++ printTy t ++ ",") ++ "\n}"
  | .emptyStruct name _ => "export type " ++ name ++ " = Record<string, never>"
  | .enum name _ ms =>
    "export const " ++ name ++ " = {\n" ++ "\n".intercalate (ms.map fun (n, v, _, _) => n ++ " : " ++ v ++ ",") ++ "\n} as const\n" ++
    "export type " ++ name ++ " = (typeof " ++ name ++ ")[keyof typeof " ++ name ++ "]\n" ++
    "export const " ++ name ++ "Labels: Record<" ++ name ++ ", string> = {\n" ++
      "\n".intercalate (ms.map fun (n, _, l, _) => "[" ++ name ++ "." ++ n ++ "]: " ++ goQuote l ++ ",") ++ "\n}"
  | .unionDecl name _ ms =>
    "export const " ++ name ++ "Kind = {\n" ++ ",\n".intercalate (ms.map fun (tn, lname, _) => tn ++ ": " ++ goQuote lname) ++ "\n} as const\n" ++
    "export type " ++ name ++ "Kind = (typeof " ++ name ++ "Kind)[keyof typeof " ++ name ++ "Kind]\n" ++
    "export type " ++ name ++ " = \n" ++ "\n".intercalate (ms.map fun (tn, lname, _) => "| { Kind : " ++ goQuote lname ++ ", Data: " ++ tn ++ "}")

/-! ### structural semantics of the emitted types -/

/-- the type environment declared by a list of declarations: name ↦ type -/
def tsEnvOf (decls : List (String × TsDecl)) : List (String × TsType) :=
  decls.flatMap fun (_, d) =>
    match d with
    | .header => []
    | .alias name _ ty => [(name, ty)]
    | .iface name _ fields => [(name, .obj fields)]
    | .emptyStruct name _ => [(name, .record .str .never)]
    | .enum name _ ms => [(name, .union (ms.map fun (_, _, _, lit) => lit))]
    | .unionDecl name _ ms =>
      [(name, .union (ms.map fun (_, lname, data) => .obj [("Kind", .litStr lname), ("Data", data)]))]

def isNumericText (s : String) : Bool :=
  let cs := s.toList
  let cs := match cs with | '-' :: r => r | r => r
  !cs.isEmpty && cs.all Char.isDigit

/-- can the text of an object key be read at key type `k`? -/
def keyParses (tenv : List (String × TsType)) : Nat → TsType → String → Bool
  | 0, _, _ => false
  | _ + 1, .str, _ => true
  | _ + 1, .num, key => isNumericText key
  | _ + 1, .litStr s, key => s == key
  | _ + 1, .litNum r, key => r == key
  | f + 1, .brand b _, key => keyParses tenv f b key
  | f + 1, .ref n, key => (match tenv.lookup n with | some t => keyParses tenv f t key | none => false)
  | f + 1, .union ts, key => ts.any fun t => keyParses tenv f t key
  | _ + 1, _, _ => false

/-- **inhabitation**: is the JSON document a structural inhabitant of the type?  Objects are exact
(no property missing, none extra); brands are erased; `Record<K,V>` accepts keys readable at `K`. -/
def inhabits (tenv : List (String × TsType)) : Nat → TsType → JVal → Bool
  | 0, _, _ => false
  | f + 1, t, j =>
    match t, j with
    | .str, .str _ => true
    | .num, .num _ => true
    | .bool, .bool _ => true
    | .null, .null => true
    | .unknown, _ => true
    | .never, _ => false
    | .litStr s, .str s' => s == s'
    | .litNum r, .num r' => r == r'
    | .litBool b, .bool b' => b == b'
    | .arr e, .arr l => l.all fun x => inhabits tenv f e x
    | .tuple es, .arr l => es.length == l.length && (es.zip l).all fun (e, x) => inhabits tenv f e x
    | .record k v, .obj kvs => kvs.all fun (key, x) => keyParses tenv f k key && inhabits tenv f v x
    | .union ts, j => ts.any fun t => inhabits tenv f t j
    | .obj fs, .obj kvs =>
      (fs.all fun (k, t) => match kvs.lookup k with | some x => inhabits tenv f t x | none => false) &&
      (kvs.all fun (k, _) => fs.any fun (k', _) => k' == k)
    | .ref n, j => (match tenv.lookup n with | some t => inhabits tenv f t j | none => false)
    | .brand b _, j => inhabits tenv f b j
    | _, _ => false

/-! ### well-formedness of the output as a whole -/

partial def tyNames : TsType → List String
  | .arr e => tyNames e
  | .tuple es => es.flatMap tyNames
  | .record k v => tyNames k ++ tyNames v
  | .union ts => ts.flatMap tyNames
  | .obj fs => fs.flatMap fun (_, t) => tyNames t
  | .ref n => [n]
  | .brand b _ => tyNames b
  | _ => []

/-- after assembly (one declaration per ID): every mentioned name is declared, and declared once -/
def closedOnce (decls : List (String × TsDecl)) : Bool :=
  let byId := decls.foldl (fun acc (p : String × TsDecl) => if acc.any (·.1 == p.1) then acc else acc ++ [p]) []
  let tenv := tsEnvOf byId
  let names := tenv.map (·.1)
  (tenv.all fun (_, t) => (tyNames t).all names.contains) && names.eraseDups.length == names.length

end Gomacro.TsGen
