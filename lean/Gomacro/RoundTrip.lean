import Gomacro.EndToEnd
import Gomacro.Unquote
/-!
# Decoding: `json.Unmarshal` with the generated wrappers, for the fragment of the end-to-end theorems

`decode env w fuel wrapped t j`: the Go value `json.Unmarshal` builds from the document `j` at static
type `t` (`none` = an error, or the "exhaustive switch" panic of the generated union code), with the
generated `UnmarshalJSON` methods: `{"Kind", "Data"}` objects are read in wrapped positions and
dispatched on the Kind; shadow structs read union fields through their wrappers; named slices and
maps of unions are read element-wise through the wrapper into a freshly made container; `[]byte` is
read from base64 text; a missing key leaves the zero value.
`wt`: typing with exact structs (a dumped struct value lists exactly the serialised fields: the
harness drops the fields `encoding/json` never writes before asking).
The round-trip theorem is in `Props/C02E2E.lean`.
-/
namespace Gomacro.RoundTrip
open Gomacro.IR Gomacro.GoJson Gomacro.E2E

def fkey (f : Field) : String := Tags.jsonName f.tag f.name
def isSer (f : Field) : Bool := (Tags.goJsonKey f.tag f.name f.goExported).isSome

/-- the key of a map entry read back at the key type -/
def decodeKey (k : Ty) (s : String) : Option GoVal :=
  match k with
  | .basic _ .str => some (.str s)
  | .basic _ .int => if TsGen.isNumericText s then some (.int s) else none
  | _ => none

/-- an enum value read back: the document's scalar, at the kind of the enum -/
def decodeScalar (bk : BKind) (j : JVal) : Option GoVal :=
  match bk, j with
  | .bool, .bool b => some (.bool b)
  | .int, .num r => some (.int r)
  | .float, .num r => some (.float r)
  | .str, .str s => some (.str s)
  | _, _ => none

def isByteElem : Ty → Bool
  | .basic g _ => g == "uint8" || g == "byte"
  | _ => false

def zeroScalar : BKind → GoVal
  | .bool => .bool false
  | .int => .int "0"
  | .float => .float "0"
  | _ => .str ""

mutual
/-- the zero value of a type (what a field keeps when its key is missing from the document), in the
exact-struct form -/
def zeroVal (env : Env) : Nat → Ty → GoVal
  | 0, _ => .iface none
  | fuel + 1, t =>
    match t with
    | .basic _ bk => zeroScalar bk
    | .time _ => .time "0001-01-01T00:00:00Z"
    | .arr n e =>
      if n < 0 then (if isByteElem e then .bytes true "" else .list true true [])
      else .list false false (List.replicate n.toNat (zeroVal env fuel e))
    | .map _ _ => .map true []
    | .ptr _ => .iface none
    | .ref q =>
      match env.find? q with
      | none => .iface none
      | some d =>
        match d.body with
        | .named u => zeroVal env fuel u
        | .enum _ bk _ _ => zeroScalar bk
        | .struct fs _ _ => .struct (zeroFields env fuel fs)
        | .union _ => .iface none
def zeroFields (env : Env) : Nat → List Field → List (String × GoVal)
  | _, [] => []
  | fuel, f :: fs =>
    if isSer f then (f.name, zeroVal env fuel f.ty) :: zeroFields env fuel fs else zeroFields env fuel fs
end

mutual
def decode (env : Env) (w : Wrappers) : Nat → Bool → Ty → JVal → Option GoVal
  | 0, _, _, _ => none
  | fuel + 1, wrapped, t, j =>
    match t, j with
    | .basic _ bk, j => decodeScalar bk j
    | .time _, .str s => some (.time s)
    | .arr n e, .null =>
      if n < 0 then (if isByteElem e then some (.bytes true "") else some (.list true true [])) else none
    | .arr n e, .str b => if n < 0 && isByteElem e then some (.bytes false b) else none
    | .arr n e, .arr l =>
      (decodeList env w fuel false e l).bind fun es =>
        if n < 0 then some (.list true false es)
        else if es.length == n.toNat then some (.list false false es) else none
    | .map _ _, .null => some (.map true [])
    | .map k e, .obj kvs => (decodeEntries env w fuel false k e kvs).map fun es => .map false es
    | .ref q, j =>
      match env.find? q with
      | none => none
      | some d =>
        match d.body, j with
        | .named u, j =>
          if w.nameds.contains q then
            -- the generated methods of a named slice / map of unions: element-wise through the
            -- wrapper, into a freshly made container
            match u, j with
            | .arr _ e, .arr l => (decodeList env w fuel true e l).map fun es => .list true false es
            | .arr _ _, .null => some (.list true false [])
            | .map k e, .obj kvs => (decodeEntries env w fuel true k e kvs).map fun es => .map false es
            | .map _ _, .null => some (.map false [])
            | _, _ => none
          else decode env w fuel false u j
        | .enum _ bk _ _, j => decodeScalar bk j
        | .struct fs _ _, .obj kvs =>
          (decodeFields env w fuel (w.structs.contains q) fs kvs).map fun vals => .struct vals
        | .union _, .obj kvs =>
          -- the generated wrapper: {"Kind": name, "Data": value}
          if wrapped then
            match kvs.lookup "Kind", kvs.lookup "Data" with
            | some (.str name), some data =>
              (decode env w fuel false (memberTy env d name) data).map fun mv => .iface (some (name, mv))
            | _, _ => none
          else none
        | _, _ => none
    | _, _ => none
def decodeList (env : Env) (w : Wrappers) : Nat → Bool → Ty → List JVal → Option (List GoVal)
  | _, _, _, [] => some []
  | fuel, wr, e, x :: xs =>
    match decode env w fuel wr e x, decodeList env w fuel wr e xs with
    | some v, some vs => some (v :: vs)
    | _, _ => none
def decodeEntries (env : Env) (w : Wrappers) : Nat → Bool → Ty → Ty → List (String × JVal) → Option (List (GoVal × GoVal))
  | _, _, _, _, [] => some []
  | fuel, wr, k, e, (s, x) :: rest =>
    match decodeKey k s, decode env w fuel wr e x, decodeEntries env w fuel wr k e rest with
    | some kv, some v, some vs => some ((kv, v) :: vs)
    | _, _, _ => none
/-- the serialised fields, each read from its key; a field whose key is missing keeps its zero value -/
def decodeFields (env : Env) (w : Wrappers) : Nat → Bool → List Field → List (String × JVal) → Option (List (String × GoVal))
  | _, _, [], _ => some []
  | fuel, shadow, f :: fs, kvs =>
    if isSer f then
      match kvs.lookup (fkey f) with
      | none => (decodeFields env w fuel shadow fs kvs).map fun vs => (f.name, zeroVal env fuel f.ty) :: vs
      | some x =>
        -- under the `string` option a field of scalar kind is read from the content of a JSON string
        match (Unquote.fieldDoc env f x).bind (decode env w fuel (shadow && isUnionTy env f.ty) f.ty), decodeFields env w fuel shadow fs kvs with
        | some v, some vs => some ((f.name, v) :: vs)
        | _, _ => none
    else decodeFields env w fuel shadow fs kvs
end

/-! ### strict typing -/

def kindMatches : BKind → GoVal → Bool
  | .bool, .bool _ => true
  | .int, .int _ => true
  | .float, .float _ => true
  | .str, .str _ => true
  | _, _ => false

mutual
/-- `hasType` with exact structs: the value lists exactly the serialised fields, in order -/
def wt (env : Env) : Nat → Ty → GoVal → Bool
  | 0, _, _ => false
  | fuel + 1, t, v =>
    match t, v with
    | .basic _ .bool, .bool _ => true
    | .basic _ .int, .int _ => true
    | .basic _ .float, .float _ => true
    | .basic _ .str, .str _ => true
    | .time _, .time _ => true
    | .arr n e, .bytes isNil b => decide (n < 0) && isByteElem e && (!isNil || b == "")
    | .arr n e, .list isSlice isNil es =>
      !(decide (n < 0) && isByteElem e) &&
      (isSlice == decide (n < 0)) && (n < 0 || es.length == n.toNat) && (!isNil || (isSlice && es.isEmpty)) && wtAll env fuel e es
    | .map k e, .map isNil kvs => (!isNil || kvs.isEmpty) && wtEntries env fuel k e kvs
    | .ref q, v =>
      match env.find? q with
      | none => false
      | some d =>
        match d.body, v with
        | .named u, v => wt env fuel u v
        | .enum _ bk ms _, v => (ms.any fun m => litOk m v) && kindMatches bk v
        | .struct fs _ _, .struct vals => wtFields env fuel fs vals
        | .union ms, .iface (some (name, mv)) =>
          ms.any (fun m => localNameOf env m == name) && wt env fuel (memberTy env d name) mv
        | _, _ => false
    | _, _ => false
def wtAll (env : Env) : Nat → Ty → List GoVal → Bool
  | _, _, [] => true
  | fuel, e, v :: vs => wt env fuel e v && wtAll env fuel e vs
def wtEntries (env : Env) : Nat → Ty → Ty → List (GoVal × GoVal) → Bool
  | _, _, _, [] => true
  | fuel, k, e, (key, v) :: kvs => keyOk k key && wt env fuel e v && wtEntries env fuel k e kvs
/-- field by field, skipping the fields that are not serialised: exactly the serialised ones -/
def wtFields (env : Env) : Nat → List Field → List (String × GoVal) → Bool
  | _, [], vals => vals.isEmpty
  | fuel, f :: fs, vals =>
    if isSer f then
      match vals with
      | (n, v) :: rest => n == f.name && wt env fuel f.ty v && wtFields env fuel fs rest
      | [] => false
    else wtFields env fuel fs vals
end

/-! ### the fragment -/

/-- the type expressions a declaration's values contain: every field `encoding/json` serialises
(also those opaque for TypeScript) -/
def rtChildTys (d : Decl) : List Ty :=
  match d.body with
  | .struct fs _ _ => (serialised fs).map (·.ty)
  | _ => TsGen.childTys d

structure FragmentRT (env : Env) (w : Wrappers) (ds : List Decl) : Prop where
  nameds : w.nameds = []
  found : ∀ d ∈ ds, env.find? d.q = some d
  closed : ∀ d ∈ ds, ∀ q ∈ (rtChildTys d).flatMap Ty.refs, ∃ d' ∈ ds, d'.q = q
  ok : ∀ d ∈ ds, declOk env w d = true

/-- the same, as a decidable check (what the driver evaluates) -/
def fragmentRTB (env : Env) (w : Wrappers) (ds : List Decl) : Bool :=
  w.nameds.isEmpty &&
  ds.all (fun d => decide (env.find? d.q = some d)) &&
  ds.all (fun d => ((rtChildTys d).flatMap Ty.refs).all fun q => ds.any fun d' => d'.q == q) &&
  ds.all (declOk env w)

/-! ### the larger fragment, modulo nil -/

mutual
/-- deep equality in which a nil and an empty slice or map count as equal (the equality of C02) -/
def eqNil : GoVal → GoVal → Bool
  | .bool a, .bool b => a == b
  | .int a, .int b => a == b
  | .float a, .float b => a == b
  | .str a, .str b => a == b
  | .time a, .time b => a == b
  | .list s _ es, .list s' _ es' => s == s' && eqNilList es es'
  | .bytes _ b, .bytes _ b' => b == b'
  | .map _ kvs, .map _ kvs' => eqNilEntries kvs kvs'
  | .struct fs, .struct fs' => eqNilFields fs fs'
  | .iface none, .iface none => true
  | .iface (some (n, v)), .iface (some (n', v')) => n == n' && eqNil v v'
  | _, _ => false
def eqNilList : List GoVal → List GoVal → Bool
  | [], [] => true
  | a :: as, b :: bs => eqNil a b && eqNilList as bs
  | _, _ => false
def eqNilEntries : List (GoVal × GoVal) → List (GoVal × GoVal) → Bool
  | [], [] => true
  | (k, a) :: as, (k', b) :: bs => eqNil k k' && eqNil a b && eqNilEntries as bs
  | _, _ => false
def eqNilFields : List (String × GoVal) → List (String × GoVal) → Bool
  | [], [] => true
  | (k, a) :: as, (k', b) :: bs => k == k' && eqNil a b && eqNilFields as bs
  | _, _ => false
end

/-- anonymous shapes the decoder model covers: no pointers, string / integer map keys -/
def shapeRT : Ty → Bool
  | .arr _ e => shapeRT e
  | .map k e => (match k with | .basic _ .str => true | .basic _ .int => true | _ => false) && shapeRT e
  | .ptr _ => false
  | .basic _ .none => false
  | _ => true

/-- a field under a key encoding/json accepts -/
def keyOkN (f : Field) : Bool :=
  (Tags.namePart (Tags.get f.tag "json") == "" || Tags.isValidTag (Tags.namePart (Tags.get f.tag "json")))

/-- a field without the `string` option, under a key encoding/json accepts -/
def fieldOkN (f : Field) : Bool :=
  !(tagOptions f.tag).contains "string" && keyOkN f

/-- a field under a key encoding/json accepts; the `string` option on the types the model decides it
for (`Unquote.stringOk`) -/
def fieldOkS (env : Env) (f : Field) : Bool :=
  (!(tagOptions f.tag).contains "string" || Unquote.stringOk env f.ty) && keyOkN f

def isOmit (f : Field) : Bool := (tagOptions f.tag).contains "omitempty"

/-- conditions on one declaration, for the round trip modulo nil: `omitempty`, `gomacro:"ignore"`,
empty structs, `[]byte`, zero-length arrays and wrapped named slices / maps of unions are inside -/
def declOkN (env : Env) (w : Wrappers) (d : Decl) : Bool :=
  match d.body with
  | .named u =>
    if w.nameds.contains d.q then
      (match u with
       | .arr n (.ref uq) => decide (n < 0) && isUnionTy env (.ref uq)
       | .map k (.ref uq) =>
         (match k with | .basic _ .str => true | .basic _ .int => true | _ => false) && isUnionTy env (.ref uq)
       | _ => false)
    else shapeRT u && noUnion env u
  | .enum _ _ _ _ => true
  | .struct fs _ _ =>
    (serialised fs).all (fun f => fieldOkS env f && shapeRT f.ty && (isUnionTy env f.ty || noUnion env f.ty)) &&
    ((serialised fs).map fun f => Tags.jsonName f.tag f.name).Nodup &&
    ((serialised fs).map (·.name)).Nodup &&
    ((serialised fs).any (fun f => isUnionTy env f.ty) → w.structs.contains d.q)
  | .union ms =>
    ms.all (fun m => noUnion env m && (match m with | .ref _ => true | _ => false)) &&
    (ms.map (localNameOf env)).Nodup

structure FragmentN (env : Env) (w : Wrappers) (ds : List Decl) : Prop where
  found : ∀ d ∈ ds, env.find? d.q = some d
  closed : ∀ d ∈ ds, ∀ q ∈ (rtChildTys d).flatMap Ty.refs, ∃ d' ∈ ds, d'.q = q
  ok : ∀ d ∈ ds, declOkN env w d = true

def fragmentNB (env : Env) (w : Wrappers) (ds : List Decl) : Bool :=
  ds.all (fun d => decide (env.find? d.q = some d)) &&
  ds.all (fun d => ((rtChildTys d).flatMap Ty.refs).all fun q => ds.any fun d' => d'.q == q) &&
  ds.all (declOkN env w)

/-! ### executable helpers of the driver -/

mutual
def goValBeq : GoVal → GoVal → Bool
  | .bool a, .bool b => a == b
  | .int a, .int b => a == b
  | .float a, .float b => a == b
  | .str a, .str b => a == b
  | .time a, .time b => a == b
  | .list s n es, .list s' n' es' => s == s' && n == n' && goValBeqList es es'
  | .bytes n b, .bytes n' b' => n == n' && b == b'
  | .map n kvs, .map n' kvs' => n == n' && goValBeqEntries kvs kvs'
  | .struct fs, .struct fs' => goValBeqFields fs fs'
  | .iface none, .iface none => true
  | .iface (some (n, v)), .iface (some (n', v')) => n == n' && goValBeq v v'
  | _, _ => false
def goValBeqList : List GoVal → List GoVal → Bool
  | [], [] => true
  | a :: as, b :: bs => goValBeq a b && goValBeqList as bs
  | _, _ => false
def goValBeqEntries : List (GoVal × GoVal) → List (GoVal × GoVal) → Bool
  | [], [] => true
  | (k, a) :: as, (k', b) :: bs => goValBeq k k' && goValBeq a b && goValBeqEntries as bs
  | _, _ => false
def goValBeqFields : List (String × GoVal) → List (String × GoVal) → Bool
  | [], [] => true
  | (k, a) :: as, (k', b) :: bs => k == k' && goValBeq a b && goValBeqFields as bs
  | _, _ => false
end

mutual
/-- a dumped value without the struct fields `encoding/json` never writes (the dumper lists every
exported field): the exact-struct form `wt` asks for -/
def strip (env : Env) : Nat → Ty → GoVal → GoVal
  | 0, _, v => v
  | fuel + 1, t, v =>
    match t, v with
    | .arr _ e, .list s n es => .list s n (stripList env fuel e es)
    | .map _ e, .map n kvs => .map n (stripEntries env fuel e kvs)
    | .ref q, v =>
      match env.find? q with
      | none => v
      | some d =>
        match d.body, v with
        | .named u, v => strip env fuel u v
        | .struct fs _ _, .struct vals => .struct (stripFields env fuel fs vals)
        | .union _, .iface (some (name, mv)) => .iface (some (name, strip env fuel (memberTy env d name) mv))
        | _, v => v
    | _, v => v
def stripList (env : Env) : Nat → Ty → List GoVal → List GoVal
  | _, _, [] => []
  | fuel, e, v :: vs => strip env fuel e v :: stripList env fuel e vs
def stripEntries (env : Env) : Nat → Ty → List (GoVal × GoVal) → List (GoVal × GoVal)
  | _, _, [] => []
  | fuel, e, (k, v) :: kvs => (k, strip env fuel e v) :: stripEntries env fuel e kvs
def stripFields (env : Env) : Nat → List Field → List (String × GoVal) → List (String × GoVal)
  | _, [], _ => []
  | fuel, f :: fs, vals =>
    let rest := stripFields env fuel fs vals
    if isSer f then
      match vals.lookup f.name with
      | some v => (f.name, strip env fuel f.ty v) :: rest
      | none => rest
    else rest
end

end Gomacro.RoundTrip
