import Gomacro.CrudGen
/-!
`Sem/MiniSql`: a store of rows and the execution of the statement forms sqlcrud emits against a
table with a serial `id`.  The abstract specification is the obvious map `id ↦ row`.
Values are opaque (`Nat` codes); SQL typing, NOT NULL, defaults and the lib/pq conversions are
outside this model (no database in the sandbox: trusted / not covered).
-/
namespace Gomacro.MiniSql
open Gomacro.CrudGen

abbrev Val := Nat
abbrev Row := List (String × Val)      -- column ↦ value, "id" included

structure Table where
  rows : List Row
  nextId : Nat
deriving Repr, Inhabited

def Row.get (r : Row) (c : String) : Val := (r.lookup c).getD 0
def Row.id (r : Row) : Val := Row.get r "id"

def project (cols : List String) (r : Row) : Row := cols.map fun c => (c, Row.get r c)

/-- does the row satisfy the conjunction of conditions, given the argument values ($n ↦ args[n-1])?
`any` takes its candidates from `anyArgs` (the array argument) -/
def holds (args : List Val) (anyArgs : List Val) (r : Row) : Cond → Bool
  | .eq c p => Row.get r c == args.getD (p - 1) 0
  | .eqOrNull c p => Row.get r c == args.getD (p - 1) 0
  | .any c _ => anyArgs.contains (Row.get r c)

def satisfies (args anyArgs : List Val) (conds : List Cond) (r : Row) : Bool := conds.all (holds args anyArgs r)

/-- the row an INSERT / UPDATE writes: the given id, then column i ↦ the argument bound to its placeholder -/
def newRow (id : Val) (cols : List String) (phs : List Nat) (args : List Val) : Row :=
  ("id", id) :: (cols.zip (phs.map fun p => args.getD (p - 1) 0))

/-- execution: new table and returned rows -/
def exec (t : Table) (s : Stmt) (args : List Val) (anyArgs : List Val := []) : Table × List Row :=
  match s with
  | .select cols _ conds => (t, (t.rows.filter (satisfies args anyArgs conds)).map (project cols))
  | .insert _ cols phs returning =>
    let row := newRow t.nextId cols phs args
    ({ rows := t.rows ++ [row], nextId := t.nextId + 1 }, if returning.isEmpty then [] else [project returning row])
  | .update _ cols phs conds returning =>
    let upd (r : Row) : Row :=
      if satisfies args anyArgs conds r then newRow (Row.id r) cols phs args else r
    let rows' := t.rows.map upd
    ({ t with rows := rows' }, (rows'.filter (satisfies args anyArgs conds)).map (project returning))
  | .delete _ conds returning =>
    ({ t with rows := t.rows.filter fun r => !satisfies args anyArgs conds r },
     (t.rows.filter (satisfies args anyArgs conds)).map (project returning))

/-- the abstract map model: the row stored under an id -/
def lookupId (t : Table) (i : Val) : Option Row := t.rows.find? fun r => Row.id r == i

/-- invariant: ids are unique and below `nextId` -/
def WF (t : Table) : Prop := (t.rows.map Row.id).Nodup ∧ ∀ r ∈ t.rows, Row.id r < t.nextId

end Gomacro.MiniSql
