import Gomacro.IR
import Gomacro.Tags
import Gomacro.GoJson
/-!
Model of generator/sql/json.go: the plpgsql validation functions of jsonb columns, as template-level
ASTs with a printer (textual tie) and a semantics (`call`) of the plpgsql fragment the six
templates use: three-valued logic, SQL NULL for missing keys, `bool_and` over zero rows = NULL,
`AND` / `OR` evaluated left to right with short-circuit (an assumption about the executor, stated).
-/
namespace Gomacro.PgGen
open Gomacro.IR Gomacro.GoJson

inductive PgFunc
  | basic (fn kind : String)
  | enum (fn kind : String) (isInt : Bool) (tuple : List String) (typeId : String)
  | array (fn elemFn : String) (len : Int)            -- len = -1 : slice
  | map (fn elemFn : String)
  | struct (fn : String) (fields : List (String × String))   -- (json key, validator of the field)
  | union (fn : String) (cases : List (String × String))     -- (Kind, validator of the member)
deriving Repr, Inhabited, DecidableEq

def PgFunc.name : PgFunc → String
  | .basic fn _ | .enum fn _ _ _ _ | .array fn _ _ | .map fn _ | .struct fn _ | .union fn _ => fn

def nameFromKind : BKind → Option String
  | .bool => some "boolean" | .int => some "number" | .float => some "number" | .str => some "string"
  | .none => none

def pkg4 (s : String) : String := if s.length > 4 then String.ofList (s.toList.take 4) else s

/-- `typeID`; `none` = diagnostic (pointer, unsupported basic kind) -/
def typeID (env : Env) : Nat → Ty → Option String
  | 0, _ => none
  | _ + 1, .ptr _ => none
  | _ + 1, .basic _ bk => nameFromKind bk
  | _ + 1, .time _ => some "string"
  | f + 1, .arr n e => (typeID env f e).map fun s => "array_" ++ (if n ≥ 0 then toString n ++ "_" else "") ++ s
  | f + 1, .map _ e => (typeID env f e).map fun s => "map_" ++ s
  | f + 1, .ref q =>
    match env.find? q with
    | none => none
    | some d =>
      match d.body with
      | .named u => typeID env f u
      | _ => some (pkg4 d.pkgName ++ "_" ++ d.name)

def fnName (env : Env) (t : Ty) : String :=
  "gomacro_validate_json_" ++ (typeID env 64 t).getD "?"

/-- `enumTuple`: the constants as written by Go, double quotes turned into single quotes -/
def enumTupleItem (m : Member) : String := String.ofList (m.val.toList.map fun c => if c == '"' then '\'' else c)

def selected (fs : List Field) : List Field := fs.filter fun f => Tags.exported f.tag f.goExported

/-- the validator of one type expression (not of what it contains) -/
def funcOf (env : Env) (t : Ty) : Option PgFunc :=
  match t with
  | .ptr _ => none
  | .basic _ bk => (nameFromKind bk).map fun k => .basic (fnName env t) k
  | .time _ => some (.basic (fnName env t) "string")
  | .arr n e => some (.array (fnName env t) (fnName env e) n)
  | .map _ e => some (.map (fnName env t) (fnName env e))
  | .ref q =>
    match env.find? q with
    | none => none
    | some d =>
      match d.body with
      | .named _ => none    -- a named type has the validator of its underlying type
      | .enum _ bk ms _ =>
        (nameFromKind bk).map fun k =>
          .enum (fnName env t) k (bk == .int) (ms.map enumTupleItem) ((typeID env 64 t).getD "?")
      | .struct fs _ _ =>
        some (.struct (fnName env t) ((selected fs).map fun f => (Tags.jsonName f.tag f.name, fnName env f.ty)))
      | .union ms =>
        some (.union (fnName env t) (ms.map fun m =>
          (match m with | .ref mq => (match env.find? mq with | some md => md.name | none => "?") | _ => "?",
           fnName env m)))

/-- type expressions the generator recurses into -/
def children (env : Env) : Ty → List Ty
  | .arr _ e => [e]
  | .map _ e => [e]
  | .ref q =>
    match env.find? q with
    | none => []
    | some d =>
      match d.body with
      | .named u => [u]
      | .enum _ _ _ _ => []
      | .struct fs _ _ => (selected fs).map (·.ty)
      | .union ms => ms
  | _ => []

/-- work-list traversal: every validator reachable from the given type expressions, each
(name, definition) once; `fuel` bounds the number of type expressions visited -/
def collect (env : Env) (pr : PgFunc → String) : Nat → List Ty → List (String × String) → List PgFunc → List PgFunc
  | 0, _, _, acc => acc
  | _, [], _, acc => acc
  | fuel + 1, t :: todo, seen, acc =>
    match funcOf env t with
    | none => collect env pr fuel (children env t ++ todo) seen acc
    | some fd =>
      let key := (fd.name, pr fd)
      if seen.contains key then collect env pr fuel todo seen acc
      else collect env pr fuel (children env t ++ todo) (key :: seen) (acc ++ [fd])

/-! ### printing: the six templates -/

def printFunc : PgFunc → String
  | .basic fn kind =>
    "CREATE OR REPLACE FUNCTION " ++ fn ++ " (data jsonb) RETURNS boolean AS $$ DECLARE is_valid boolean := jsonb_typeof(data) = '" ++ kind ++ "'; BEGIN IF NOT is_valid THEN RAISE WARNING '% is not a " ++ kind ++ "', data; END IF; RETURN is_valid; END; $$ LANGUAGE 'plpgsql' IMMUTABLE;"
  | .enum fn kind isInt tuple typeId =>
    "CREATE OR REPLACE FUNCTION " ++ fn ++ " (data jsonb) RETURNS boolean AS $$ DECLARE is_valid boolean := jsonb_typeof(data) = '" ++ kind ++ "' AND " ++ (if isInt then "data::int" else "data#>>'{}'") ++ " IN (" ++ ", ".intercalate tuple ++ "); BEGIN IF NOT is_valid THEN RAISE WARNING '% is not a " ++ typeId ++ "', data; END IF; RETURN is_valid; END; $$ LANGUAGE 'plpgsql' IMMUTABLE;"
  | .array fn elemFn len =>
    "CREATE OR REPLACE FUNCTION " ++ fn ++ " (data jsonb) RETURNS boolean AS $$ BEGIN " ++
    (if len == -1 then "IF jsonb_typeof(data) = 'null' THEN RETURN TRUE; END IF; " else "") ++
    "IF jsonb_typeof(data) != 'array' THEN RETURN FALSE; END IF; " ++
    (if len ≥ 0 then "" else "IF jsonb_array_length(data) = 0 THEN RETURN TRUE; END IF; ") ++
    "RETURN (SELECT bool_and( " ++ elemFn ++ "(value) ) FROM jsonb_array_elements(data)) " ++
    (if len ≥ 0 then "AND jsonb_array_length(data) = " ++ toString len else "") ++ "; END; $$ LANGUAGE 'plpgsql' IMMUTABLE;"
  | .map fn elemFn =>
    "CREATE OR REPLACE FUNCTION " ++ fn ++ " (data jsonb) RETURNS boolean AS $$ BEGIN IF jsonb_typeof(data) = 'null' THEN RETURN TRUE; END IF; RETURN jsonb_typeof(data) = 'object' AND (SELECT bool_and( " ++ elemFn ++ "(value) ) FROM jsonb_each(data)); END; $$ LANGUAGE 'plpgsql' IMMUTABLE;"
  | .struct fn fields =>
    "CREATE OR REPLACE FUNCTION " ++ fn ++ " (data jsonb) RETURNS boolean AS $$ DECLARE is_valid boolean; BEGIN IF jsonb_typeof(data) != 'object' THEN RETURN FALSE; END IF; is_valid := (SELECT bool_and( " ++
    (if fields.isEmpty then "TRUE" else "key IN (" ++ ", ".intercalate (fields.map fun (k, _) => "'" ++ k ++ "'") ++ ")") ++
    " ) FROM jsonb_each(data)) " ++ " ".intercalate (fields.map fun (k, f) => "AND " ++ f ++ "(data->'" ++ k ++ "')") ++
    "; RETURN is_valid; END; $$ LANGUAGE 'plpgsql' IMMUTABLE;"
  | .union fn cases =>
    "CREATE OR REPLACE FUNCTION " ++ fn ++ " (data jsonb) RETURNS boolean AS $$ BEGIN IF jsonb_typeof(data) != 'object' OR jsonb_typeof(data->'Kind') != 'string' OR jsonb_typeof(data->'Data') = 'null' THEN RETURN FALSE; END IF; CASE " ++
    " ".intercalate (cases.map fun (k, f) => "WHEN data->>'Kind' = '" ++ k ++ "' THEN RETURN " ++ f ++ "(data->'Data');") ++
    " ELSE RETURN FALSE; END CASE; END; $$ LANGUAGE 'plpgsql' IMMUTABLE;"

/-- all validators reachable from a column type -/
def funcsFrom (env : Env) (fuel : Nat) (t : Ty) : List PgFunc := collect env printFunc (fuel * 100) [t] [] []

/-! ### semantics -/

/-- SQL boolean results -/
inductive Tri | tt | ff | nul
deriving DecidableEq, Repr, Inhabited

def Tri.and : Tri → Tri → Tri          -- Kleene AND
  | .ff, _ => .ff
  | _, .ff => .ff
  | .tt, .tt => .tt
  | _, _ => .nul

/-- `bool_and` over a set of rows: NULL on zero rows, NULLs ignored otherwise -/
def boolAnd (l : List Tri) : Tri :=
  let nn := l.filter (· != .nul)
  if nn.isEmpty then .nul else if nn.all (· == .tt) then .tt else .ff

/-- `jsonb_typeof` -/
def typeOf : JVal → String
  | .null => "null" | .bool _ => "boolean" | .num _ => "number" | .str _ => "string"
  | .arr _ => "array" | .obj _ => "object"

/-- text of an enum tuple item ↔ JSON value: `data::int IN (…)` / `data#>>'{}' IN (…)` -/
def enumItemMatches (isInt : Bool) (item : String) (j : JVal) : Bool :=
  match j with
  | .num r => isInt && item == r
  | .str s => !isInt && item == "'" ++ s ++ "'"
  | _ => false

/-- `jsonb_typeof(x) = 'null'` for a present JSON null (not for SQL NULL) -/
def isJsonNull : Option JVal → Bool
  | some .null => true
  | _ => false

def lookupFunc (script : List PgFunc) (fn : String) : Option PgFunc := script.find? (·.name == fn)

/-- calling a validator on a jsonb argument (`none` = SQL NULL, e.g. `data->'k'` of a missing key).
An undefined function is an SQL error, modelled as `none` at the outer `Option`. -/
def call (script : List PgFunc) : Nat → String → Option JVal → Option Tri
  | 0, _, _ => none
  | f + 1, fn, arg =>
    match lookupFunc script fn with
    | none => none                                   -- function does not exist: error
    | some fd =>
      match arg with
      | none =>
        -- NULL argument: every test on it is NULL; array/map fall through to NULL (zero rows)
        (match fd with
         | .union _ _ => some .ff        -- no WHEN matches NULL: ELSE RETURN FALSE
         | .struct _ fields =>
           -- no key test (zero rows), every field validator is called on NULL
           (fields.mapM fun (p : String × String) => call script f p.2 none).map fun (rs : List Tri) => rs.foldl Tri.and .nul
         | _ => some .nul)
      | some j =>
        match fd with
        | .basic _ kind => some (if typeOf j == kind then .tt else .ff)
        | .enum _ kind isInt tuple _ =>
          some (if typeOf j == kind && tuple.any (fun it => enumItemMatches isInt it j) then .tt else .ff)
        | .array _ elemFn len =>
          (match j with
           | .null => if len == -1 then some .tt else some .ff
           | .arr l =>
             if len == -1 && l.isEmpty then some .tt
             else
               (l.mapM fun x => call script f elemFn (some x)).map fun rs =>
                 if len ≥ 0 then Tri.and (boolAnd rs) (if (l.length : Int) == len then .tt else .ff)
                 else boolAnd rs
           | _ => some .ff)
        | .map _ elemFn =>
          (match j with
           | .null => some .tt
           | .obj kvs => (kvs.mapM fun (p : String × JVal) => call script f elemFn (some p.2)).map fun rs => Tri.and .tt (boolAnd rs)
           | _ => some .ff)
        | .struct _ fields =>
          (match j with
           | .obj kvs =>
             let keysOk := boolAnd (kvs.map fun (k, _) => if fields.isEmpty || fields.any (·.1 == k) then Tri.tt else Tri.ff)
             (fields.mapM fun (p : String × String) => call script f p.2 (kvs.lookup p.1)).map fun (rs : List Tri) => rs.foldl Tri.and keysOk
           | _ => some .ff)
        | .union _ cases =>
          (match j with
           | .obj kvs =>
             (match kvs.lookup "Kind", kvs.lookup "Data" with
              | some (.str k), data =>
                if isJsonNull data then some .ff
                else (match cases.lookup k with
                  | some vf => call script f vf data
                  | none => some .ff)
              | some _, _ => some .ff
              | none, _ => some .ff)
           | _ => some .ff)

/-- a CHECK constraint admits a row iff the expression is TRUE or NULL -/
def admits : Option Tri → Bool
  | some .tt => true
  | some .nul => true
  | _ => false

/-- every function called by a function of the script is defined in the script -/
def calledFns : PgFunc → List String
  | .array _ e _ => [e] | .map _ e => [e]
  | .struct _ fs => fs.map (·.2) | .union _ cs => cs.map (·.2) | _ => []

def closedScript (script : List PgFunc) : Bool :=
  script.all fun fd => (calledFns fd).all fun g => script.any (·.name == g)

/-- equal IDs carry equal definitions (otherwise the assembly keeps an arbitrary one) -/
def consistentScript (script : List PgFunc) : Bool :=
  script.all fun a => script.all fun b => a.name != b.name || printFunc a == printFunc b

end Gomacro.PgGen
