/-
Model of `analysis.commonPrefix` (analysis/analysis.go), the "common root" of `LoadSources`.

Paths are lists of components (`"/a/b"` = `["", "a", "b"]`, as `strings.Split(p, "/")` gives).
`commonAll` mirrors the code after the repair `fix: commonPrefix compares whole path components`;
`bytewise` is the code as it was at the pinned commit (kept to state the defect as a theorem).
-/
namespace Gomacro.Paths

/-- longest common prefix of two lists -/
def common2 {α} [DecidableEq α] : List α → List α → List α
  | a :: as, b :: bs => if a = b then a :: common2 as bs else []
  | _, _ => []

/-- the repaired `commonPrefix`: fold over the component lists (`paths[0]` first) -/
def commonAll : List (List String) → List String
  | [] => []
  | p :: ps => ps.foldl common2 p

/-- the original byte-wise function, on characters -/
def bytewise : List (List Char) → List Char
  | [] => []
  | p :: ps => ps.foldl common2 p

def splitSlash (s : String) : List String := s.splitOn "/"
def joinSlash (l : List String) : String := "/".intercalate l

/-- what `commonPrefix` returns on cleaned absolute directory strings (string glue included):
the joined common components, and "/" when only the root is shared. -/
def commonPrefixStr (paths : List String) : String :=
  let r := joinSlash (commonAll (paths.map splitSlash))
  if r = "" then
    match paths with
    | p :: _ => if p.startsWith "/" then "/" else ""
    | [] => ""
  else r

end Gomacro.Paths
