import Gomacro.PgGen
/-!
# A deep embedding of the plpgsql fragment of the generated validators

`Expr` / `Stmt` / `Func`: the syntax of the functions generator/sql/json.go writes (and of nearby
variants), `evalFunc`: its semantics (three-valued logic, SQL NULL, `bool_and` over rows, strict
functions, `AND` / `OR` left to right with short-circuit, errors as `none`), `astOf`: the syntax tree
of each of the six templates.  `Props/C04Ast.lean` proves that the template-level semantics
`PgGen.call` is refined by `evalFunc ∘ astOf`; the driver parses the REAL text (`PgParse.lean`) and
evaluates it with `evalFunc`, so that a changed template is judged on documents, not only on tokens.
-/
namespace Gomacro.PgAst
open Gomacro.GoJson Gomacro.PgGen

inductive Expr
  | var (name : String)
  | lit (raw : String)                    -- a literal token, verbatim: 'text' or 12
  | tru | fls | null
  | typeof (e : Expr)                     -- jsonb_typeof(e)
  | arrow (e : Expr) (k : String)         -- e->'k'
  | arrowText (e : Expr) (k : String)     -- e->>'k'
  | castInt (e : Expr)                    -- e::int
  | pathText (e : Expr)                   -- e#>>'{}'
  | eq (a b : Expr) | ne (a b : Expr)
  | and (a b : Expr) | or (a b : Expr) | not (a : Expr)
  | inList (e : Expr) (items : List String)   -- e IN (literal, …), the literal tokens verbatim
  | arrLen (e : Expr)                     -- jsonb_array_length(e)
  | call (fn : String) (arg : Expr)
  | allElems (body src : Expr)            -- (SELECT bool_and(body) FROM jsonb_array_elements(src)), binds value
  | allEach (body src : Expr)             -- (SELECT bool_and(body) FROM jsonb_each(src)), binds key, value
deriving Repr, Inhabited, DecidableEq

mutual
inductive Stmt
  | ifThen (c : Expr) (body els : Block)
  | ret (e : Expr)
  | assign (v : String) (e : Expr)
  | raise
  | case (arms : Arms) (els : Block)
inductive Block
  | nil
  | cons (s : Stmt) (rest : Block)
inductive Arms
  | nil
  | cons (c : Expr) (b : Block) (rest : Arms)
end

structure Func where
  name : String
  decls : List (String × Option Expr)     -- DECLARE v type [:= e];
  body : Block

/-- the token of a text literal -/
def q (s : String) : String := "'" ++ s ++ "'"

/-- SQL values of the fragment (`none` = NULL) -/
inductive SVal
  | jb (v : Option JVal)
  | txt (v : Option String)
  | int (v : Option String)               -- integers by their decimal text
  | bool (v : Tri)
  | lit (raw : String)                    -- an untyped literal, compared by its token

def Tri.not : Tri → Tri | .tt => .ff | .ff => .tt | .nul => .nul
def Tri.or : Tri → Tri → Tri
  | .tt, _ => .tt | _, .tt => .tt | .ff, .ff => .ff | _, _ => .nul
def Tri.ofBool (b : Bool) : Tri := if b then .tt else .ff

/-- `=` on two values (`none` = type error) -/
def sqlEq : SVal → SVal → Option Tri
  | .txt none, _ | _, .txt none | .int none, _ | _, .int none => some .nul
  | .txt (some s), .lit raw | .lit raw, .txt (some s) => some (Tri.ofBool (raw == q s))
  | .int (some r), .lit raw | .lit raw, .int (some r) => some (Tri.ofBool (raw == r))
  | .txt (some s), .txt (some t) => some (Tri.ofBool (s == t))
  | .int (some r), .int (some t) => some (Tri.ofBool (r == t))
  | .lit a, .lit b => some (Tri.ofBool (a == b))
  | .bool a, .bool b => some (match a, b with | .nul, _ | _, .nul => .nul | a, b => Tri.ofBool (a == b))
  | _, _ => none

def asBool : Option SVal → Option Tri
  | some (.bool t) => some t
  | _ => none

/-- expressions; `callF` = the functions of the script, one unit of fuel down -/
def evalExpr (callF : String → Option JVal → Option Tri) : List (String × SVal) → Expr → Option SVal
  | env, .var n => env.lookup n
  | _, .lit raw => some (.lit raw)
  | _, .tru => some (.bool .tt)
  | _, .fls => some (.bool .ff)
  | _, .null => some (.bool .nul)
  | env, .typeof e =>
    match evalExpr callF env e with
    | some (.jb none) => some (.txt none)
    | some (.jb (some j)) => some (.txt (some (typeOf j)))
    | _ => none
  | env, .arrow e k =>
    match evalExpr callF env e with
    | some (.jb none) => some (.jb none)
    | some (.jb (some (.obj kvs))) => some (.jb (kvs.lookup k))
    | some (.jb (some _)) => some (.jb none)
    | _ => none
  | env, .arrowText e k =>
    match evalExpr callF env e with
    | some (.jb none) => some (.txt none)
    | some (.jb (some (.obj kvs))) =>
      (match kvs.lookup k with
       | none => some (.txt none)
       | some .null => some (.txt none)
       | some (.str s) => some (.txt (some s))
       | some _ => none)                   -- the JSON text of other values: outside the fragment
    | some (.jb (some _)) => some (.txt none)
    | _ => none
  | env, .castInt e =>
    match evalExpr callF env e with
    | some (.jb none) => some (.int none)
    | some (.jb (some (.num r))) => some (.int (some r))
    | _ => none                            -- cannot cast jsonb string / object / … to integer
  | env, .pathText e =>
    match evalExpr callF env e with
    | some (.jb none) => some (.txt none)
    | some (.jb (some .null)) => some (.txt none)
    | some (.jb (some (.str s))) => some (.txt (some s))
    | _ => none
  | env, .eq a b =>
    match evalExpr callF env a, evalExpr callF env b with
    | some x, some y => (sqlEq x y).map .bool
    | _, _ => none
  | env, .ne a b =>
    match evalExpr callF env a, evalExpr callF env b with
    | some x, some y => (sqlEq x y).map fun t => .bool (Tri.not t)
    | _, _ => none
  | env, .and a b =>
    match asBool (evalExpr callF env a) with
    | none => none
    | some .ff => some (.bool .ff)         -- short-circuit
    | some x => (asBool (evalExpr callF env b)).map fun y => .bool (Tri.and x y)
  | env, .or a b =>
    match asBool (evalExpr callF env a) with
    | none => none
    | some .tt => some (.bool .tt)
    | some x => (asBool (evalExpr callF env b)).map fun y => .bool (Tri.or x y)
  | env, .not a => (asBool (evalExpr callF env a)).map fun x => .bool (Tri.not x)
  | env, .inList e items =>
    match evalExpr callF env e with
    | some (.txt none) => some (.bool .nul)
    | some (.int none) => some (.bool .nul)
    | some (.txt (some s)) => some (.bool (Tri.ofBool (items.any (· == q s))))
    | some (.int (some r)) => some (.bool (Tri.ofBool (items.any (· == r))))
    | _ => none
  | env, .arrLen e =>
    match evalExpr callF env e with
    | some (.jb none) => some (.int none)
    | some (.jb (some (.arr l))) => some (.int (some (toString l.length)))
    | _ => none
  | env, .call fn arg =>
    match evalExpr callF env arg with
    | some (.jb a) => (callF fn a).map .bool
    | _ => none
  | env, .allElems body src =>
    match evalExpr callF env src with
    | some (.jb none) => some (.bool .nul)            -- zero rows
    | some (.jb (some (.arr l))) =>
      (l.mapM fun x => asBool (evalExpr callF (("value", .jb (some x)) :: env) body)).map fun rs => .bool (boolAnd rs)
    | _ => none                                        -- cannot extract elements from a scalar / object
  | env, .allEach body src =>
    match evalExpr callF env src with
    | some (.jb none) => some (.bool .nul)
    | some (.jb (some (.obj kvs))) =>
      (kvs.mapM fun (p : String × JVal) =>
        asBool (evalExpr callF (("key", .txt (some p.1)) :: ("value", .jb (some p.2)) :: env) body)).map fun rs => .bool (boolAnd rs)
    | _ => none

inductive Res
  | ret (v : SVal)
  | cont (env : List (String × SVal))
  | err

mutual
def execStmt (callF : String → Option JVal → Option Tri) (env : List (String × SVal)) : Stmt → Res
  | .ifThen c b e =>
    match asBool (evalExpr callF env c) with
    | some .tt => execBlock callF env b
    | some _ => execBlock callF env e
    | none => .err
  | .ret e => (match evalExpr callF env e with | some v => .ret v | none => .err)
  | .assign v e => (match evalExpr callF env e with | some x => .cont ((v, x) :: env) | none => .err)
  | .raise => .cont env
  | .case arms els =>
    match execArms callF env arms with
    | some r => r
    | none => execBlock callF env els
def execBlock (callF : String → Option JVal → Option Tri) (env : List (String × SVal)) : Block → Res
  | .nil => .cont env
  | .cons s rest =>
    match execStmt callF env s with
    | .cont env' => execBlock callF env' rest
    | r => r
/-- the first arm whose condition is TRUE; `none` = no arm matched -/
def execArms (callF : String → Option JVal → Option Tri) (env : List (String × SVal)) : Arms → Option Res
  | .nil => none
  | .cons c b rest =>
    match asBool (evalExpr callF env c) with
    | some .tt => some (execBlock callF env b)
    | some _ => execArms callF env rest
    | none => some .err
end

def evalDecls (callF : String → Option JVal → Option Tri) : List (String × SVal) → List (String × Option Expr) → Option (List (String × SVal))
  | env, [] => some env
  | env, (v, none) :: rest => evalDecls callF ((v, .bool .nul) :: env) rest
  | env, (v, some e) :: rest =>
    match evalExpr callF env e with
    | some x => evalDecls callF ((v, x) :: env) rest
    | none => none

def runFunc (callF : String → Option JVal → Option Tri) (fd : Func) (arg : Option JVal) : Option Tri :=
  match evalDecls callF [("data", .jb arg)] fd.decls with
  | none => none
  | some env =>
    match execBlock callF env fd.body with
    | .ret (.bool t) => some t
    | _ => none                              -- error, or control reached the end without RETURN

/-- calling a function of the script (`none` = SQL error: undefined function, type error, …) -/
def evalFunc (script : List Func) : Nat → String → Option JVal → Option Tri
  | 0, _, _ => none
  | f + 1, fn, arg =>
    match script.find? (·.name == fn) with
    | none => none
    | some fd => runFunc (evalFunc script f) fd arg

/-! ### the syntax trees of the six templates -/

def blk : List Stmt → Block
  | [] => .nil
  | s :: rest => .cons s (blk rest)

def data : Expr := .var "data"
def typeIs (e : Expr) (k : String) : Expr := .eq (.typeof e) (.lit (q k))
def typeIsNot (e : Expr) (k : String) : Expr := .ne (.typeof e) (.lit (q k))

def armsOf : List (String × String) → Arms
  | [] => .nil
  | (k, f) :: rest => .cons (.eq (.arrowText data "Kind") (.lit (q k))) (blk [.ret (.call f (.arrow data "Data"))]) (armsOf rest)

def astOf : PgFunc → Func
  | .basic fn kind =>
    { name := fn, decls := [("is_valid", some (typeIs data kind))],
      body := blk [.ifThen (.not (.var "is_valid")) (blk [.raise]) .nil, .ret (.var "is_valid")] }
  | .enum fn kind isInt tuple _ =>
    { name := fn,
      decls := [("is_valid", some (.and (typeIs data kind)
        (.inList (if isInt then .castInt data else .pathText data) tuple)))],
      body := blk [.ifThen (.not (.var "is_valid")) (blk [.raise]) .nil, .ret (.var "is_valid")] }
  | .array fn elemFn len =>
    { name := fn, decls := [],
      body := blk (
        (if len == -1 then [.ifThen (typeIs data "null") (blk [.ret .tru]) .nil] else []) ++
        [.ifThen (typeIsNot data "array") (blk [.ret .fls]) .nil] ++
        (if len ≥ 0 then [] else [.ifThen (.eq (.arrLen data) (.lit "0")) (blk [.ret .tru]) .nil]) ++
        [.ret (if len ≥ 0 then .and (.allElems (.call elemFn (.var "value")) data) (.eq (.arrLen data) (.lit (toString len)))
               else .allElems (.call elemFn (.var "value")) data)]) }
  | .map fn elemFn =>
    { name := fn, decls := [],
      body := blk [.ifThen (typeIs data "null") (blk [.ret .tru]) .nil,
        .ret (.and (typeIs data "object") (.allEach (.call elemFn (.var "value")) data))] }
  | .struct fn fields =>
    { name := fn, decls := [("is_valid", none)],
      body := blk [.ifThen (typeIsNot data "object") (blk [.ret .fls]) .nil,
        .assign "is_valid" (fields.foldl (fun acc (p : String × String) => .and acc (.call p.2 (.arrow data p.1)))
          (.allEach (if fields.isEmpty then .tru else .inList (.var "key") (fields.map fun p => q p.1)) data)),
        .ret (.var "is_valid")] }
  | .union fn cases =>
    { name := fn, decls := [],
      body := blk [.ifThen (.or (.or (typeIsNot data "object") (typeIsNot (.arrow data "Kind") "string")) (typeIs (.arrow data "Data") "null"))
          (blk [.ret .fls]) .nil,
        .case (armsOf cases) (blk [.ret .fls])] }

/-- well-formed template instances (what the generator produces): integer enums test for numbers,
string enums for strings; array lengths are -1 (slice) or a length -/
def wf : PgFunc → Bool
  | .enum _ kind isInt _ _ => kind == (if isInt then "number" else "string")
  | .array _ _ len => decide (len ≥ -1)
  | _ => true

end Gomacro.PgAst
