import Gomacro.IR
/-!
Identifier derivation of the Go generators (the part of "the generated Go compiles" that the
generators themselves are responsible for):

 * gounions: Kind constants `<Member><Union[0:2]>Kind`, wrapper type `<Union>Wrapper`
 * randdata: enum choice list (exported members only), function ids
 * sqlcrud : primary-key accessor = the actual Go name of the id field
-/
namespace Gomacro.GoIdents
open Gomacro.IR

/-- `name[0:2]` guarded by `len(name) > 2` (ASCII names: bytes = characters) -/
def prefix2 (s : String) : String := if s.length > 2 then String.ofList (s.toList.take 2) else s

def kindVarName (member union : String) : String := member ++ prefix2 union ++ "Kind"

def wrapperName (union : String) : String := union ++ "Wrapper"

/-- constants declared by `jsonForUnion` for one union -/
def unionKindIdents (union : String) (members : List String) : List String :=
  members.map (kindVarName · union)

/-- `codeForEnum` of randdata after the repair: exported members only -/
def enumChoices (ms : List Member) : List String := (ms.filter (·.exported)).map (·.name)

/-- at the pinned commit: one slot per member, left empty for unexported ones -/
def enumChoicesOld (ms : List Member) : List String := ms.map fun m => if m.exported then m.name else ""

/-- `Table.Primary` + the accessor used by the scan / lookup helpers (after the repair) -/
def pkAccessor (cols : List String) : Option String := cols.find? (fun c => c.toLower == "id")

/-- `functionIDBasicOrNamed` for a named type -/
def pkgPrefix3 (pkgName : String) : String := if pkgName.length > 3 then String.ofList (pkgName.toList.take 3) else pkgName

def randNamedID (targetPkgPath : String) (d : Decl) : String :=
  let base := if d.pkgPath == targetPkgPath then d.name else pkgPrefix3 d.pkgName ++ "_" ++ d.name
  d.targs.foldl (fun acc a => acc ++ "_" ++ a.name) base

end Gomacro.GoIdents
