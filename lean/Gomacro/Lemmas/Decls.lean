import Gomacro.Decls
/-! Helper lemmas for C19 (core only). -/
namespace Gomacro.Decls
open List

theorem str_lt_of_le_of_ne {a b : String} (h : a ≤ b) (n : a ≠ b) : a < b := by
  rcases Decidable.em (a < b) with h1 | h1
  · exact h1
  · exact absurd (String.le_antisymm h (String.not_lt.mp h1)) n

theorem str_ne_of_lt {a b : String} (h : a < b) : a ≠ b := by
  intro e; subst e; exact String.lt_irrefl a h

theorem str_le_of_lt {a b : String} (h : a < b) : a ≤ b :=
  String.not_lt.mp (String.lt_asymm h)

/-- strictly sorted lists with the same members are equal -/
theorem strict_sorted_ext {l₁ l₂ : List String}
    (h₁ : l₁.Pairwise (· < ·)) (h₂ : l₂.Pairwise (· < ·))
    (hm : ∀ a, a ∈ l₁ ↔ a ∈ l₂) : l₁ = l₂ := by
  have n₁ : l₁.Nodup := h₁.imp (fun h => str_ne_of_lt h)
  have n₂ : l₂.Nodup := h₂.imp (fun h => str_ne_of_lt h)
  have p : l₁.Perm l₂ := (List.perm_ext_iff_of_nodup n₁ n₂).mpr hm
  exact List.Perm.eq_of_pairwise (le := fun a b : String => a ≤ b)
    (fun a b _ _ h1 h2 => String.le_antisymm h1 h2)
    (h₁.imp fun h => str_le_of_lt h) (h₂.imp fun h => str_le_of_lt h) p

/-! ### sortedIds -/

theorem mem_insertId {x a : String} {l : List String} :
    a ∈ insertId x l ↔ a = x ∨ a ∈ l := by
  induction l with
  | nil => simp [insertId]
  | cons y ys ih =>
    unfold insertId
    split
    · simp
    · split
      · rename_i _ h; subst h; simp
      · simp [ih]; constructor
        · rintro (h | h | h) <;> simp [h]
        · rintro (h | h | h) <;> simp [h]

theorem pairwise_insertId {x : String} {l : List String} (h : l.Pairwise (· < ·)) :
    (insertId x l).Pairwise (· < ·) := by
  induction l with
  | nil => simp [insertId]
  | cons y ys ih =>
    unfold insertId
    have hy := List.pairwise_cons.mp h
    split
    · rename_i hxy
      refine List.pairwise_cons.mpr ⟨?_, h⟩
      intro a ha
      rcases List.mem_cons.mp ha with rfl | ha
      · exact hxy
      · exact String.lt_trans hxy (hy.1 a ha)
    · split
      · exact h
      · rename_i h1 h2
        refine List.pairwise_cons.mpr ⟨?_, ih hy.2⟩
        intro a ha
        rcases mem_insertId.mp ha with rfl | ha
        · exact str_lt_of_le_of_ne (String.not_lt.mp h1) (fun e => h2 e.symm)
        · exact hy.1 a ha

theorem mem_sortedIds {a : String} {l : List String} : a ∈ sortedIds l ↔ a ∈ l := by
  induction l with
  | nil => simp [sortedIds]
  | cons y ys ih =>
    have : sortedIds (y :: ys) = insertId y (sortedIds ys) := rfl
    rw [this, mem_insertId, ih]; simp

theorem pairwise_sortedIds (l : List String) : (sortedIds l).Pairwise (· < ·) := by
  induction l with
  | nil => simp [sortedIds]
  | cons y ys ih => exact pairwise_insertId ih

/-! ### dedupFirst -/

theorem dedupFirst_congr {s₁ s₂ : List String} {l : List Decl}
    (h : ∀ x, x ∈ s₁ ↔ x ∈ s₂) : dedupFirst s₁ l = dedupFirst s₂ l := by
  induction l generalizing s₁ s₂ with
  | nil => rfl
  | cons d ds ih =>
    unfold dedupFirst
    by_cases hd : d.id ∈ s₁
    · rw [if_pos hd, if_pos ((h _).mp hd)]; exact ih h
    · rw [if_neg hd, if_neg (fun c => hd ((h _).mpr c))]
      congr 1
      apply ih
      intro x; simp [h x]

theorem dedupFirst_append (seen : List String) (a b : List Decl) :
    dedupFirst seen (a ++ b) = dedupFirst seen a ++ dedupFirst (a.map (·.id) ++ seen) b := by
  induction a generalizing seen with
  | nil => simp [dedupFirst]
  | cons d ds ih =>
    simp only [List.cons_append, dedupFirst]
    by_cases hd : d.id ∈ seen
    · simp only [if_pos hd]
      rw [ih]
      congr 1
      apply dedupFirst_congr
      intro x; simp only [List.map_cons, List.mem_append, List.mem_cons, List.mem_map]
      constructor
      · rintro (h | h)
        · exact Or.inl (Or.inr h)
        · exact Or.inr h
      · rintro ((h | h) | h)
        · exact Or.inr (h ▸ hd)
        · exact Or.inl h
        · exact Or.inr h
    · simp only [if_neg hd]
      rw [ih]
      simp only [List.cons_append]
      congr 2
      apply dedupFirst_congr
      intro x; simp only [List.map_cons, List.mem_append, List.mem_cons, List.mem_map]
      constructor
      · rintro (h | h | h)
        · exact Or.inl (Or.inr h)
        · exact Or.inl (Or.inl h)
        · exact Or.inr h
      · rintro ((h | h) | h)
        · exact Or.inr (Or.inl h)
        · exact Or.inl h
        · exact Or.inr (Or.inr h)

theorem dedupFirst_sublist (seen : List String) (l : List Decl) :
    (dedupFirst seen l).Sublist l := by
  induction l generalizing seen with
  | nil => simp [dedupFirst]
  | cons d ds ih =>
    unfold dedupFirst
    split
    · exact (ih seen).cons _
    · exact (ih _).cons_cons _

theorem mem_dedupFirst_ids {seen : List String} {l : List Decl} {i : String} :
    i ∈ (dedupFirst seen l).map (·.id) ↔ i ∈ l.map (·.id) ∧ i ∉ seen := by
  induction l generalizing seen with
  | nil => simp [dedupFirst]
  | cons d ds ih =>
    unfold dedupFirst
    by_cases hd : d.id ∈ seen
    · rw [if_pos hd, ih]
      simp only [List.map_cons, List.mem_cons]
      constructor
      · rintro ⟨h1, h2⟩; exact ⟨Or.inr h1, h2⟩
      · rintro ⟨h1 | h1, h2⟩
        · exact absurd (h1 ▸ hd) h2
        · exact ⟨h1, h2⟩
    · rw [if_neg hd]
      simp only [List.map_cons, List.mem_cons, ih]
      constructor
      · rintro (h | ⟨h1, h2⟩)
        · exact ⟨Or.inl h, h ▸ hd⟩
        · exact ⟨Or.inr h1, fun c => h2 (Or.inr c)⟩
      · rintro ⟨h1 | h1, h2⟩
        · exact Or.inl h1
        · by_cases e : i = d.id
          · exact Or.inl e
          · exact Or.inr ⟨h1, fun c => c.elim e h2⟩

theorem nodup_dedupFirst_ids (seen : List String) (l : List Decl) :
    ((dedupFirst seen l).map (·.id)).Nodup := by
  induction l generalizing seen with
  | nil => simp [dedupFirst]
  | cons d ds ih =>
    unfold dedupFirst
    split
    · exact ih seen
    · simp only [List.map_cons, List.nodup_cons]
      refine ⟨?_, ih _⟩
      intro h
      have := (mem_dedupFirst_ids.mp h).2
      exact this (List.mem_cons_self)

/-- on a list sorted by id, the deduped ids are strictly increasing -/
theorem strict_dedupFirst_ids {seen : List String} {l : List Decl} (h : SortedById l) :
    ((dedupFirst seen l).map (·.id)).Pairwise (· < ·) := by
  have hs : ((dedupFirst seen l).map (·.id)).Pairwise (· ≤ ·) := by
    have : (dedupFirst seen l).Pairwise (fun a b => a.id ≤ b.id) :=
      List.Pairwise.sublist (dedupFirst_sublist seen l) h
    exact List.pairwise_map.mpr this
  have hn := nodup_dedupFirst_ids seen l
  have := List.Pairwise.and hs hn
  exact this.imp fun {a b} ⟨h1, h2⟩ => str_lt_of_le_of_ne h1 h2

end Gomacro.Decls
