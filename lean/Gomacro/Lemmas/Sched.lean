import Gomacro.Sched
/-! Invariant of the formatter-cache protocol and its preservation (core only). -/
namespace Gomacro.Sched

def inside : Pc → Bool
  | .locked | .probing | .writing _ | .unlocking _ => true
  | _ => false

structure Inv (c : Cfg) (s : St) : Prop where
  holder : ∀ j, inside (s.pc j) = true → s.lock = some j
  owner : ∀ j, s.lock = some j → inside (s.pc j) = true
  probing_none : ∀ j, s.pc j = .probing → s.cell (c.req j) = none ∧ s.probes (c.req j) = 0
  writing_one : ∀ j r, s.pc j = .writing r →
    s.cell (c.req j) = none ∧ s.probes (c.req j) = 1 ∧ r = c.installed (c.req j)
  cell_some : ∀ t b, s.cell t = some b → s.probes t = 1 ∧ b = c.installed t
  cell_none : ∀ t, s.cell t = none → (∀ j r, s.pc j = .writing r → c.req j ≠ t) → s.probes t = 0
  has_val : ∀ j h, (s.pc j = .unlocking h ∨ s.pc j = .deciding h) → h = c.installed (c.req j)
  runs_pre : ∀ j, (∀ e, s.pc j ≠ .done e) → s.runs j = 0
  runs_done : ∀ j e, s.pc j = .done e →
    s.runs j = (if c.installed (c.req j) then 1 else 0) ∧
    e = (c.installed (c.req j) && !c.runOk (c.req j))

theorem inv_init (c : Cfg) : Inv c init := by
  constructor <;> simp [init, inside]

theorem inv_step (c : Cfg) (s : St) (i : Nat) (h : Inv c s) : Inv c (step c s i) := by
  unfold step
  split
  · -- idle
    rename_i hpc
    split
    · rename_i hl
      constructor
      · intro j hj
        by_cases e : j = i
        · simp [setPc, e]
        · simp [setPc, e] at hj; have := h.holder j hj; simp [hl] at this
      · intro j hj
        simp [setPc] at hj
        simp [setPc, hj, inside]
      · intro j hj
        by_cases e : j = i
        · simp [setPc, e] at hj
        · simp [setPc, e] at hj ⊢; exact h.probing_none j hj
      · intro j r hj
        by_cases e : j = i
        · simp [setPc, e] at hj
        · simp [setPc, e] at hj ⊢; exact h.writing_one j r hj
      · intro t b ht; exact h.cell_some t b ht
      · intro t ht hw
        apply h.cell_none t ht
        intro j r hj
        by_cases e : j = i
        · subst e; simp [hpc] at hj
        · exact hw j r (by simp [setPc, e, hj])
      · intro j hh hj
        by_cases e : j = i
        · simp [setPc, e] at hj
        · simp [setPc, e] at hj; exact h.has_val j hh hj
      · intro j hj
        by_cases e : j = i
        · subst e; exact h.runs_pre j (by simp [hpc])
        · have hj' : ∀ e', s.pc j ≠ .done e' := fun e' he => hj e' (by simp [setPc, e, he])
          simpa [setPc, e] using h.runs_pre j hj'
      · intro j e' hj
        by_cases e : j = i
        · simp [setPc, e] at hj
        · simp [setPc, e] at hj ⊢; exact h.runs_done j e' hj
    · exact h
  · -- locked
    rename_i hpc
    have hlock := h.holder i (by simp [hpc, inside])
    split
    · rename_i hc
      constructor
      · intro j hj
        by_cases e : j = i
        · subst e; exact hlock
        · simp [setPc, e] at hj; exact h.holder j hj
      · intro j hj
        by_cases e : j = i
        · simp [setPc, e, inside]
        · simp [setPc, e]; exact h.owner j hj
      · intro j hj
        by_cases e : j = i
        · subst e
          refine ⟨hc, h.cell_none _ hc ?_⟩
          intro k r hk
          have := h.holder k (by simp [hk, inside])
          rw [hlock] at this
          have : j = k := by simpa using this
          subst this; simp [hpc] at hk
        · simp [setPc, e] at hj ⊢; exact h.probing_none j hj
      · intro j r hj
        by_cases e : j = i
        · simp [setPc, e] at hj
        · simp [setPc, e] at hj ⊢; exact h.writing_one j r hj
      · intro t b ht; exact h.cell_some t b ht
      · intro t ht hw
        apply h.cell_none t ht
        intro j r hj
        by_cases e : j = i
        · subst e; simp [hpc] at hj
        · exact hw j r (by simp [setPc, e, hj])
      · intro j hh hj
        by_cases e : j = i
        · simp [setPc, e] at hj
        · simp [setPc, e] at hj; exact h.has_val j hh hj
      · intro j hj
        by_cases e : j = i
        · subst e; exact h.runs_pre j (by simp [hpc])
        · have hj' : ∀ e', s.pc j ≠ .done e' := fun e' he => hj e' (by simp [setPc, e, he])
          simpa [setPc, e] using h.runs_pre j hj'
      · intro j e' hj
        by_cases e : j = i
        · simp [setPc, e] at hj
        · simp [setPc, e] at hj ⊢; exact h.runs_done j e' hj
    · rename_i b hc
      constructor
      · intro j hj
        by_cases e : j = i
        · subst e; exact hlock
        · simp [setPc, e] at hj; exact h.holder j hj
      · intro j hj
        by_cases e : j = i
        · simp [setPc, e, inside]
        · simp [setPc, e]; exact h.owner j hj
      · intro j hj
        by_cases e : j = i
        · simp [setPc, e] at hj
        · simp [setPc, e] at hj ⊢; exact h.probing_none j hj
      · intro j r hj
        by_cases e : j = i
        · simp [setPc, e] at hj
        · simp [setPc, e] at hj ⊢; exact h.writing_one j r hj
      · intro t b ht; exact h.cell_some t b ht
      · intro t ht hw
        apply h.cell_none t ht
        intro j r hj
        by_cases e : j = i
        · subst e; simp [hpc] at hj
        · exact hw j r (by simp [setPc, e, hj])
      · intro j hh hj
        by_cases e : j = i
        · subst e; simp [setPc] at hj; subst hj; exact (h.cell_some _ _ hc).2
        · simp [setPc, e] at hj; exact h.has_val j hh hj
      · intro j hj
        by_cases e : j = i
        · subst e; exact h.runs_pre j (by simp [hpc])
        · have hj' : ∀ e', s.pc j ≠ .done e' := fun e' he => hj e' (by simp [setPc, e, he])
          simpa [setPc, e] using h.runs_pre j hj'
      · intro j e' hj
        by_cases e : j = i
        · simp [setPc, e] at hj
        · simp [setPc, e] at hj ⊢; exact h.runs_done j e' hj
  · -- probing
    rename_i hpc
    have hlock := h.holder i (by simp [hpc, inside])
    have hpn := h.probing_none i hpc
    have only : ∀ k, inside (s.pc k) = true → k = i := by
      intro k hk
      have := h.holder k hk
      rw [hlock] at this; simpa using this.symm
    constructor
    · intro j hj
      by_cases e : j = i
      · subst e; exact hlock
      · simp [setPc, e] at hj; exact h.holder j hj
    · intro j hj
      by_cases e : j = i
      · simp [setPc, e, inside]
      · simp [setPc, e]; exact h.owner j hj
    · intro j hj
      by_cases e : j = i
      · simp [setPc, e] at hj
      · simp [setPc, e] at hj
        exact absurd (only j (by simp [hj, inside])) e
    · intro j r hj
      by_cases e : j = i
      · subst e; simp [setPc] at hj ⊢; exact ⟨hpn.1, hpn.2, hj.symm⟩
      · simp [setPc, e] at hj
        exact absurd (only j (by simp [hj, inside])) e
    · intro t b ht
      simp [setPc] at ht ⊢
      have := h.cell_some t b ht
      by_cases et : t = c.req i
      · subst et; rw [hpn.1] at ht; simp at ht
      · simp [et]; exact this
    · intro t ht hw
      simp only [setPc] at ht hw ⊢
      by_cases et : t = c.req i
      · subst et; exact absurd rfl (hw i (c.installed (c.req i)) (by simp))
      · simp [et]
        apply h.cell_none t ht
        intro j r hj
        exact absurd (only j (by simp [hj, inside])) (by intro e; subst e; simp [hpc] at hj)
    · intro j hh hj
      by_cases e : j = i
      · simp [setPc, e] at hj
      · simp [setPc, e] at hj; exact h.has_val j hh hj
    · intro j hj
      by_cases e : j = i
      · subst e; exact h.runs_pre j (by simp [hpc])
      · have hj' : ∀ e', s.pc j ≠ .done e' := fun e' he => hj e' (by simp [setPc, e, he])
        simpa [setPc, e] using h.runs_pre j hj'
    · intro j e' hj
      by_cases e : j = i
      · simp [setPc, e] at hj
      · simp [setPc, e] at hj ⊢; exact h.runs_done j e' hj
  · -- writing
    rename_i r hpc
    have hlock := h.holder i (by simp [hpc, inside])
    have hw1 := h.writing_one i r hpc
    have only : ∀ k, inside (s.pc k) = true → k = i := by
      intro k hk
      have := h.holder k hk
      rw [hlock] at this; simpa using this.symm
    constructor
    · intro j hj
      by_cases e : j = i
      · subst e; exact hlock
      · simp [setPc, e] at hj; exact h.holder j hj
    · intro j hj
      by_cases e : j = i
      · simp [setPc, e, inside]
      · simp [setPc, e]; exact h.owner j hj
    · intro j hj
      by_cases e : j = i
      · simp [setPc, e] at hj
      · simp [setPc, e] at hj
        exact absurd (only j (by simp [hj, inside])) e
    · intro j r' hj
      by_cases e : j = i
      · simp [setPc, e] at hj
      · simp [setPc, e] at hj
        exact absurd (only j (by simp [hj, inside])) e
    · intro t b ht
      simp [setPc] at ht ⊢
      by_cases et : t = c.req i
      · subst et; simp at ht; subst ht; exact ⟨hw1.2.1, hw1.2.2⟩
      · simp [et] at ht; exact h.cell_some t b ht
    · intro t ht hw
      simp [setPc] at ht hw ⊢
      by_cases et : t = c.req i
      · subst et; simp at ht
      · simp [et] at ht
        apply h.cell_none t ht
        intro j r' hj
        by_cases e : j = i
        · subst e; intro e2; exact et e2.symm
        · exact absurd (only j (by simp [hj, inside])) e
    · intro j hh hj
      by_cases e : j = i
      · subst e; simp [setPc] at hj; subst hj; exact hw1.2.2
      · simp [setPc, e] at hj; exact h.has_val j hh hj
    · intro j hj
      by_cases e : j = i
      · subst e; exact h.runs_pre j (by simp [hpc])
      · have hj' : ∀ e', s.pc j ≠ .done e' := fun e' he => hj e' (by simp [setPc, e, he])
        simpa [setPc, e] using h.runs_pre j hj'
    · intro j e' hj
      by_cases e : j = i
      · simp [setPc, e] at hj
      · simp [setPc, e] at hj ⊢; exact h.runs_done j e' hj
  · -- unlocking
    rename_i has hpc
    have hlock := h.holder i (by simp [hpc, inside])
    have only : ∀ k, inside (s.pc k) = true → k = i := by
      intro k hk
      have := h.holder k hk
      rw [hlock] at this; simpa using this.symm
    constructor
    · intro j hj
      by_cases e : j = i
      · simp [setPc, e, inside] at hj
      · simp [setPc, e] at hj; exact absurd (only j hj) e
    · intro j hj
      simp [setPc] at hj
    · intro j hj
      by_cases e : j = i
      · simp [setPc, e] at hj
      · simp [setPc, e] at hj ⊢; exact h.probing_none j hj
    · intro j r hj
      by_cases e : j = i
      · simp [setPc, e] at hj
      · simp [setPc, e] at hj ⊢; exact h.writing_one j r hj
    · intro t b ht; exact h.cell_some t b ht
    · intro t ht hw
      apply h.cell_none t ht
      intro j r hj
      by_cases e : j = i
      · subst e; simp [hpc] at hj
      · exact hw j r (by simp [setPc, e, hj])
    · intro j hh hj
      by_cases e : j = i
      · subst e; simp [setPc] at hj; subst hj; exact h.has_val j _ (Or.inl hpc)
      · simp [setPc, e] at hj; exact h.has_val j hh hj
    · intro j hj
      by_cases e : j = i
      · subst e; exact h.runs_pre j (by simp [hpc])
      · have hj' : ∀ e', s.pc j ≠ .done e' := fun e' he => hj e' (by simp [setPc, e, he])
        simpa [setPc, e] using h.runs_pre j hj'
    · intro j e' hj
      by_cases e : j = i
      · simp [setPc, e] at hj
      · simp [setPc, e] at hj ⊢; exact h.runs_done j e' hj
  · -- deciding
    rename_i has hpc
    have hv := h.has_val i has (Or.inr hpc)
    have hr0 := h.runs_pre i (by simp [hpc])
    split
    · rename_i hh
      constructor
      · intro j hj
        by_cases e : j = i
        · simp [setPc, e, inside] at hj
        · simp [setPc, e] at hj ⊢; exact h.holder j hj
      · intro j hj
        simp [setPc] at hj ⊢
        by_cases e : j = i
        · subst e; have := h.owner j hj; simp [hpc, inside] at this
        · simp [e]; exact h.owner j hj
      · intro j hj
        by_cases e : j = i
        · simp [setPc, e] at hj
        · simp [setPc, e] at hj ⊢; exact h.probing_none j hj
      · intro j r hj
        by_cases e : j = i
        · simp [setPc, e] at hj
        · simp [setPc, e] at hj ⊢; exact h.writing_one j r hj
      · intro t b ht; exact h.cell_some t b ht
      · intro t ht hw
        apply h.cell_none t ht
        intro j r hj
        by_cases e : j = i
        · subst e; simp [hpc] at hj
        · exact hw j r (by simp [setPc, e, hj])
      · intro j hh' hj
        by_cases e : j = i
        · simp [setPc, e] at hj
        · simp [setPc, e] at hj; exact h.has_val j hh' hj
      · intro j hj
        by_cases e : j = i
        · simp [setPc, e] at hj
        · have hj' : ∀ e', s.pc j ≠ .done e' := fun e' he => hj e' (by simp [setPc, e, he])
          simpa [setPc, e] using h.runs_pre j hj'
      · intro j e' hj
        by_cases e : j = i
        · subst e
          simp [setPc] at hj ⊢
          subst hh
          rw [← hv, hr0]; simp [hj]
        · simp [setPc, e] at hj ⊢; exact h.runs_done j e' hj
    · rename_i hh
      constructor
      · intro j hj
        by_cases e : j = i
        · simp [setPc, e, inside] at hj
        · simp [setPc, e] at hj ⊢; exact h.holder j hj
      · intro j hj
        simp [setPc] at hj ⊢
        by_cases e : j = i
        · subst e; have := h.owner j hj; simp [hpc, inside] at this
        · simp [e]; exact h.owner j hj
      · intro j hj
        by_cases e : j = i
        · simp [setPc, e] at hj
        · simp [setPc, e] at hj ⊢; exact h.probing_none j hj
      · intro j r hj
        by_cases e : j = i
        · simp [setPc, e] at hj
        · simp [setPc, e] at hj ⊢; exact h.writing_one j r hj
      · intro t b ht; exact h.cell_some t b ht
      · intro t ht hw
        apply h.cell_none t ht
        intro j r hj
        by_cases e : j = i
        · subst e; simp [hpc] at hj
        · exact hw j r (by simp [setPc, e, hj])
      · intro j hh' hj
        by_cases e : j = i
        · simp [setPc, e] at hj
        · simp [setPc, e] at hj; exact h.has_val j hh' hj
      · intro j hj
        by_cases e : j = i
        · simp [setPc, e] at hj
        · have hj' : ∀ e', s.pc j ≠ .done e' := fun e' he => hj e' (by simp [setPc, e, he])
          simpa [setPc, e] using h.runs_pre j hj'
      · intro j e' hj
        by_cases e : j = i
        · subst e
          simp [setPc] at hj ⊢
          have : has = false := by simpa using hh
          subst this
          rw [← hv, hr0]; simp [hj]
        · simp [setPc, e] at hj ⊢; exact h.runs_done j e' hj
  · exact h

theorem inv_run (c : Cfg) (s : St) (sched : List Nat) (h : Inv c s) : Inv c (run c s sched) := by
  induction sched generalizing s with
  | nil => exact h
  | cons i is ih => exact ih _ (inv_step c s i h)

theorem inv_reachable {c : Cfg} {s : St} (h : Reachable c s) : Inv c s := by
  obtain ⟨sched, rfl⟩ := h
  exact inv_run c init sched (inv_init c)

end Gomacro.Sched
