import Gomacro.Analysis
/-! Helper lemmas for C10 (core only). -/
namespace Gomacro.Analysis
open List Gomacro.IR

theorem insertByVal_perm (m : Member) (l : List Member) : (insertByVal m l).Perm (m :: l) := by
  induction l with
  | nil => simp [insertByVal]
  | cons x xs ih =>
    unfold insertByVal
    split
    · exact List.Perm.refl _
    · exact (List.Perm.cons x ih).trans (List.Perm.swap m x xs)

theorem insertByVal_sorted (m : Member) (l : List Member)
    (h : l.Pairwise (fun a b => a.int ≤ b.int)) :
    (insertByVal m l).Pairwise (fun a b => a.int ≤ b.int) := by
  induction l with
  | nil => simp [insertByVal]
  | cons x xs ih =>
    unfold insertByVal
    have hx := List.pairwise_cons.mp h
    split
    · rename_i hlt
      refine List.pairwise_cons.mpr ⟨?_, h⟩
      intro a ha
      rcases List.mem_cons.mp ha with rfl | ha
      · omega
      · have := hx.1 a ha; omega
    · rename_i hge
      refine List.pairwise_cons.mpr ⟨?_, ih hx.2⟩
      intro a ha
      have := (insertByVal_perm m xs).subset ha
      rcases List.mem_cons.mp this with rfl | ha'
      · omega
      · exact hx.1 a ha'

theorem sortByVal_perm (ms : List Member) : (sortByVal ms).Perm ms := by
  induction ms with
  | nil => simp [sortByVal]
  | cons m ms ih =>
    have : sortByVal (m :: ms) = insertByVal m (sortByVal ms) := rfl
    rw [this]
    exact (insertByVal_perm m _).trans (List.Perm.cons m ih)

theorem sortByVal_sorted (ms : List Member) :
    (sortByVal ms).Pairwise (fun a b => a.int ≤ b.int) := by
  induction ms with
  | nil => simp [sortByVal]
  | cons m ms ih => exact insertByVal_sorted m _ ih

theorem dedupInts_length_le (l : List Int) : (dedupInts l).length ≤ l.length := by
  induction l with
  | nil => simp [dedupInts]
  | cons x xs ih =>
    unfold dedupInts
    split
    · simp; omega
    · simp; omega

theorem nodup_of_dedupInts_length {l : List Int} (h : (dedupInts l).length = l.length) : l.Nodup := by
  induction l with
  | nil => simp
  | cons x xs ih =>
    unfold dedupInts at h
    split at h
    · have := dedupInts_length_le xs; simp at h; omega
    · rename_i hc
      simp at h
      refine List.nodup_cons.mpr ⟨?_, ih h⟩
      intro hx
      exact hc (by simpa using hx)

theorem dedupInts_length_of_nodup {l : List Int} (h : l.Nodup) : (dedupInts l).length = l.length := by
  induction l with
  | nil => simp [dedupInts]
  | cons x xs ih =>
    have hn := List.nodup_cons.mp h
    unfold dedupInts
    simp [hn.1, ih hn.2]

theorem le_maxInt {l : List Int} {x : Int} (h : x ∈ l) : x ≤ maxInt l := by
  induction l with
  | nil => simp at h
  | cons y ys ih =>
    unfold maxInt
    rcases List.mem_cons.mp h with rfl | h
    · split <;> omega
    · have := ih h
      split <;> omega

theorem maxInt_mem_or {l : List Int} : maxInt l = -1 ∨ maxInt l ∈ l := by
  induction l with
  | nil => simp [maxInt]
  | cons y ys ih =>
    unfold maxInt
    split
    · right; simp
    · rcases ih with h | h
      · left; exact h
      · right; exact List.mem_cons_of_mem _ h

/-- a strictly increasing list of integers confined to `[lo, lo + length)` is that interval -/
theorem strict_bounded_eq_range (l : List Int) : ∀ (lo : Int), l.Pairwise (· < ·) →
    (∀ x ∈ l, lo ≤ x ∧ x < lo + l.length) →
    l = (List.range l.length).map (fun (i : Nat) => lo + (i : Int)) := by
  induction l with
  | nil => intro lo _ _; simp
  | cons h t ih =>
    intro lo hp hb
    have hpc := List.pairwise_cons.mp hp
    have hh := hb h List.mem_cons_self
    have ht : ∀ y ∈ t, lo + 1 ≤ y ∧ y < (lo + 1) + t.length := by
      intro y hy
      have h1 := hpc.1 y hy
      have h2 := hb y (List.mem_cons_of_mem _ hy)
      simp only [List.length_cons] at h2
      constructor <;> omega
    have iht := ih (lo + 1) hpc.2 ht
    have hlo : h = lo := by
      cases t with
      | nil => simp only [List.length_cons, List.length_nil] at hh; omega
      | cons y ys =>
        have hy : y = lo + 1 := by
          have := congrArg List.head? iht
          simp only [List.length_cons, List.range_succ_eq_map, List.map_cons, List.head?_cons,
            Option.some.injEq] at this
          simpa using this
        have := hpc.1 y List.mem_cons_self
        omega
    subst hlo
    simp only [List.length_cons, List.range_succ_eq_map, List.map_cons, List.map_map]
    congr 1
    · simp
    · rw [iht]
      simp only [List.length_map, List.length_range, List.map_map]
      apply List.map_congr_left
      intro i _
      simp only [Function.comp]
      omega

end Gomacro.Analysis
