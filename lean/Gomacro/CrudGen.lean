import Gomacro.PgTables
/-!
Model of generator/go/sqlcrud (the SQL statements it embeds in the generated Go functions), next to
the schema model of C08, and a mini-SQL semantics for the statement forms it emits.
-/
namespace Gomacro.CrudGen
open Gomacro.IR Gomacro.PgTables

/-- condition forms of the emitted WHERE clauses -/
inductive Cond
  | eq (col : String) (ph : Nat)                 -- col = $n
  | any (col : String) (ph : Nat)                -- col = ANY($n)
  | eqOrNull (col : String) (ph : Nat)           -- ((col IS NULL AND $n IS NULL) OR col = $n)
deriving Repr, DecidableEq, Inhabited

inductive Stmt
  | select (cols : List String) (table : String) (conds : List Cond)
  | insert (table : String) (cols : List String) (phs : List Nat) (returning : List String)
  | update (table : String) (cols : List String) (phs : List Nat) (conds : List Cond) (returning : List String)
  | delete (table : String) (conds : List Cond) (returning : List String)
deriving Repr, DecidableEq, Inhabited

structure Func where
  name : String
  stmt : Stmt
  nargs : Nat                 -- number of Go arguments passed after the query string
deriving Repr, Inhabited

/-- `sqlColumnName` -/
def colName (goField : String) : String := goField.toLower

/-- columns the CRUD code works with: the table's columns minus the guards -/
def crudCols (cols : List Column) : List Column := cols.filter fun c => Tags.get c.tag "gomacro-sql-guard" == ""

def phs (n : Nat) : List Nat := (List.range n).map (· + 1)

def condPh : Cond → Nat
  | .eq _ p | .any _ p | .eqOrNull _ p => p

def condCol : Cond → String
  | .eq c _ | .any c _ | .eqOrNull c _ => c

def isNullableKey (env : Env) (c : Column) : Bool := !isInt64 env 8 c.ty

/-- the statements generated for one table -/
def funcsOf (env : Env) (table : String) (allCols : List Column) (uniques : List (List String))
    (selectKeys : List (List String)) (uniqueCols : List String) : List Func :=
  let cols := crudCols allCols
  let t := sqlTableNameS table
  let names := cols.map fun c => colName c.name
  let fks := foreignKeys env table allCols
  let fkFuncs (link : Bool) := fks.flatMap fun fk =>
    let col := colName fk.field
    (if uniqueCols.contains fk.field then [({ name := "Select" ++ table ++ "By" ++ fk.field, stmt := .select names t [.eq col 1], nargs := 1 } : Func)] else []) ++
    [{ name := "Select" ++ table ++ "sBy" ++ fk.field ++ "s", stmt := .select names t [.any col 1], nargs := 1 },
     { name := "Delete" ++ table ++ "sBy" ++ fk.field ++ "s", stmt := .delete t [.any col 1] (if link then names else ["id"]), nargs := 1 }]
  let keyFuncs :=
    (uniques.map fun ks =>
      ({ name := "Select" ++ table ++ "By" ++ "And".intercalate ks,
         stmt := .select names t (ks.zipIdx.map fun (k, i) => .eq k (i + 1)), nargs := ks.length } : Func)) ++
    (selectKeys.flatMap fun ks =>
      [({ name := "Select" ++ table ++ "sBy" ++ "And".intercalate ks,
          stmt := .select names t (ks.zipIdx.map fun (k, i) => .eq k (i + 1)), nargs := ks.length } : Func),
       { name := "Delete" ++ table ++ "sBy" ++ "And".intercalate ks,
         stmt := .delete t (ks.zipIdx.map fun (k, i) => .eq k (i + 1)) names, nargs := ks.length }])
  match primaryIdx allCols with
  | some pk =>
    let pkName := (allCols[pk]?.map (·.name)).getD ""
    let noPk := (cols.filter fun c => c.name != pkName).map fun c => colName c.name
    [{ name := "SelectAll" ++ table ++ "s", stmt := .select names t [], nargs := 0 },
     { name := "Select" ++ table, stmt := .select names t [.eq "id" 1], nargs := 1 },
     { name := "Select" ++ table ++ "s", stmt := .select names t [.any "id" 1], nargs := 1 },
     { name := table ++ ".Insert", stmt := .insert t noPk (phs noPk.length) names, nargs := noPk.length },
     { name := table ++ ".Update", stmt := .update t noPk (phs noPk.length) [.eq "id" cols.length] names, nargs := noPk.length + 1 },
     { name := "Delete" ++ table ++ "ById", stmt := .delete t [.eq "id" 1] names, nargs := 1 },
     { name := "Delete" ++ table ++ "sByIDs", stmt := .delete t [.any "id" 1] ["id"], nargs := 1 }] ++
    fkFuncs false ++ keyFuncs
  | none =>
    [{ name := "SelectAll" ++ table ++ "s", stmt := .select names t [], nargs := 0 },
     { name := table ++ ".Insert", stmt := .insert t names (phs names.length) [], nargs := names.length },
     { name := table ++ ".Delete",
       stmt := .delete t (fks.zipIdx.map fun (fk, i) =>
         match allCols.find? (·.name == fk.field) with
         | some c => if isNullableKey env c then .eqOrNull fk.field (i + 1) else .eq fk.field (i + 1)
         | none => .eq fk.field (i + 1)) [], nargs := fks.length }] ++
    fkFuncs true ++ keyFuncs

/-! ### structural agreement of a statement with a schema -/

/-- schema: table name ↦ column names, compared under SQL identifier folding (lower case) -/
abbrev Schema := List (String × List String)

def fold (s : String) : String := s.toLower

def Stmt.table : Stmt → String
  | .select _ t _ | .insert t _ _ _ | .update t _ _ _ _ | .delete t _ _ => t

def Stmt.columns : Stmt → List String
  | .select cs _ conds => cs ++ conds.map condCol
  | .insert _ cs _ r => cs ++ r
  | .update _ cs _ conds r => cs ++ conds.map condCol ++ r
  | .delete _ conds r => conds.map condCol ++ r

def Stmt.placeholders : Stmt → List Nat
  | .select _ _ conds => conds.map condPh
  | .insert _ _ ps _ => ps
  | .update _ _ ps conds _ => ps ++ conds.map condPh
  | .delete _ conds _ => conds.map condPh

def Stmt.returned : Stmt → List String
  | .select cs _ _ => cs
  | .insert _ _ _ r | .update _ _ _ _ r | .delete _ _ r => r

/-- every table and column named by the statement exists in the schema -/
def namesExist (schema : Schema) (s : Stmt) : Bool :=
  match schema.find? (fun p => fold p.1 == fold s.table) with
  | none => false
  | some (_, cols) => s.columns.all fun c => cols.any fun k => fold k == fold c

/-- placeholders are exactly $1 … $n (each used at least once, none beyond), n = number of Go arguments -/
def placeholdersOk (f : Func) : Bool :=
  let ps := f.stmt.placeholders
  ps.all (fun p => 1 ≤ p && p ≤ f.nargs) && (phs f.nargs).all ps.contains

/-- the columns a statement returns, in the order the scan destinations expect -/
def scanAligned (scanFields : List String) (s : Stmt) : Bool :=
  let r := s.returned
  r.isEmpty || r == ["id"] || r == scanFields.map colName

end Gomacro.CrudGen
