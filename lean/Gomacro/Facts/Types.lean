/-! Types of the facts regenerated from /repo's sources by `vh extract`. -/
namespace Gomacro.Facts

structure CellAccess where
  field : String
  func : String
  kind : String        -- read | write | write-deref
  path : String        -- enclosing statements inside the function, e.g. "ifnil"
  locked : Bool        -- the function starts with lock.Lock(); defer lock.Unlock()
deriving Repr, DecidableEq

structure FormatCase where
  case : String
  hasFn : String
  cmd : String
deriving Repr, DecidableEq

structure MapRange where
  file : String
  func : String
  operand : String
  fingerprint : String  -- hash of the enclosing function's source
deriving Repr, DecidableEq

structure PosOrder where
  file : String
  func : String
  expr : String
deriving Repr, DecidableEq

structure GlobalWrite where
  file : String
  func : String
  var : String
  kind : String        -- assign | element | incdec
deriving Repr, DecidableEq

structure UncheckedOp where
  file : String
  func : String
  kind : String        -- slice | assert
  expr : String
  guard : String       -- conditions of the enclosing `if` bodies (slices only)
deriving Repr, DecidableEq

end Gomacro.Facts
