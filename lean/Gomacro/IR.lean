import Gomacro.Outcome
/-!
The IR of gomacro (`analysis.Type` graph) as data: anonymous type expressions are trees,
named declarations live in an environment and are referred to by their qualified name
(`types.TypeString`, e.g. `acme.org/synth/c1.S0`).  Core-only.
-/
namespace Gomacro.IR

inductive BKind | str | int | float | bool | none
deriving DecidableEq, Repr, Inhabited

inductive Ty
  | basic (goName : String) (bk : BKind)
  | time (isDate : Bool)
  | arr (len : Int) (elem : Ty)      -- len = -1 : slice
  | map (key elem : Ty)
  | ptr (elem : Ty)
  | ref (q : String)
deriving Repr, DecidableEq, Inhabited

structure Field where
  name : String
  ty : Ty
  tag : String
  goExported : Bool
  embedded : Bool
deriving Repr, DecidableEq, Inhabited

structure Member where
  name : String
  val : String       -- constant.Value.ExactString()
  valStr : String    -- constant.Value.String()
  comment : String
  exported : Bool
  isInt : Bool
  int : Int
  str : String := ""   -- the string value itself for string-backed enums (constant.StringVal)
deriving Repr, DecidableEq, Inhabited

structure Comment where
  kind : Nat         -- 1 = SQL, 2 = QUERY
  content : String
deriving Repr, DecidableEq, Inhabited

structure TArg where
  named : Bool
  name : String
  q : String
deriving Repr, DecidableEq, Inhabited

inductive Body
  | named (under : Ty)
  | struct (fields : List Field) (comments : List Comment) (implements : List String)
  | enum (under : String) (bk : BKind) (members : List Member) (isIota : Bool)
  | union (members : List Ty)
deriving Repr, DecidableEq, Inhabited

structure Decl where
  q : String
  pkgPath : String
  pkgName : String
  name : String
  targs : List TArg
  exported : Bool
  body : Body
deriving Repr, DecidableEq, Inhabited

structure Env where
  pkgPath : String
  pkgName : String
  source : List Ty
  decls : List Decl
deriving Repr, Inhabited

def Env.find? (e : Env) (q : String) : Option Decl := e.decls.find? (·.q == q)

/-- names referred to by a type expression -/
def Ty.refs : Ty → List String
  | .basic _ _ => []
  | .time _ => []
  | .arr _ e => e.refs
  | .map k e => k.refs ++ e.refs
  | .ptr e => e.refs
  | .ref q => [q]

def Body.refs : Body → List String
  | .named u => u.refs
  | .struct fs _ _ => fs.flatMap (·.ty.refs)
  | .enum _ _ _ _ => []
  | .union ms => ms.flatMap Ty.refs

end Gomacro.IR
