import Gomacro.TsGen
import Gomacro.GoJson
/-!
# Model of `generator/typescript/axios_api.go`

`genMethod` builds, for one endpoint, the *structure* of the generated client method (signature,
form construction, axios call, return); `printMethod` prints it (tied token-wise to the real text);
`perform` is the request semantics of that structure (the JavaScript / axios semantics of the
fragment used — TRUSTED, and compared on every case with Node running the real generated text
against a recording stand-in for axios).
-/
namespace Gomacro.AxiosGen
open Gomacro.IR Gomacro.TsGen Gomacro.GoJson

structure Param where
  name : String
  ty : Ty
  deriving Repr, DecidableEq

structure Endpoint where
  url : String
  method : String
  name : String
  input : Option Ty := none
  ret : Option Ty := none
  blob : Bool := false
  formFile : String := ""
  formValues : List String := []
  formJSON : Option Param := none
  query : List Param := []
  deriving Repr

/-- how a query parameter is turned into a string (`asObjectKey`) -/
inductive Conv | ident | toStr | okOrEmpty
  deriving DecidableEq, Repr

def convOfKind : BKind → Option Conv
  | .int => some .toStr | .float => some .toStr | .bool => some .okOrEmpty | .str => some .ident | .none => none

/-- `asObjectKey`: basic types, named types over a basic type and enums; anything else panics -/
def convOf (env : Env) : Ty → Option Conv
  | .basic _ bk => convOfKind bk
  | .ref q =>
    match env.find? q with
    | some d => (match d.body with
      | .named (.basic _ bk) => convOfKind bk
      | .enum _ bk _ _ => convOfKind bk
      | _ => none)
    | none => none
  | _ => none

inductive BodyArg | absent | params | null | form
  deriving DecidableEq, Repr
inductive RetK | data | blobFile | tru
  deriving DecidableEq, Repr

structure Method where
  name : String
  sig : List (String × String)
  url : String
  withForm : Bool
  formFile : String
  formValues : List String
  formJSON : String
  verb : String
  body : BodyArg
  query : List (String × Conv)
  arraybuffer : Bool
  repTy : Option String
  ret : RetK
  deriving Repr

def typeName (env : Env) (t : Ty) : Option String := (typeRef env t).map (·.1)

def paramsType (env : Env) (ps : List Param) : Option String :=
  (ps.mapM fun p => (typeName env p.ty).map fun t => goQuote p.name ++ ": " ++ t).map
    fun l => "{" ++ ", ".intercalate l ++ "}"

def Endpoint.withForm (e : Endpoint) : Bool := !(e.formFile == "" && e.formValues.isEmpty && e.formJSON.isNone)

def expectBody (m : String) : Bool := m == "POST" || m == "PUT"

def strTy : Ty := .basic "string" .str

def sigFormParams (env : Env) (e : Endpoint) : Option (List (String × String)) :=
  if e.withForm && !e.formValues.isEmpty
  then (paramsType env (e.formValues.map fun v => ⟨v, strTy⟩)).map fun t => [("formParams", t)] else some []

def sigFile (e : Endpoint) : List (String × String) :=
  if e.withForm && e.formFile != "" then [("file", "File")] else []

def sigFormValue (env : Env) (e : Endpoint) : Option (List (String × String)) :=
  match (if e.withForm then e.formJSON else none) with
  | some p => (typeName env p.ty).map fun t => [("formValue", t)]
  | none => some []

def sigQuery (env : Env) (e : Endpoint) : Option (List (String × String)) :=
  if e.query.isEmpty then some [] else (paramsType env e.query).map fun t => [("params", t)]

/-- `typeIn` -/
def typeIn (env : Env) (e : Endpoint) : Option (List (String × String)) :=
  match e.input with
  | some t => (typeName env t).map fun n => [("params", n)]
  | none => do
    let c1 ← sigFormParams env e
    let c3 ← sigFormValue env e
    let c4 ← sigQuery env e
    pure (c1 ++ sigFile e ++ c3 ++ c4)

def typeOut (env : Env) (e : Endpoint) : Option String :=
  if e.blob then some "Blob" else
  match e.ret with
  | none => some "never"
  | some t => typeName env t

/-- the type of `rep` when there is a return value -/
def repTyOf (env : Env) (e : Endpoint) : Option (Option String) :=
  match e.ret with
  | none => some none
  | some _ => (typeOut env e).map some

/-- `generateMethod` / `generateAxiosCall`; `none` = the generator panics -/
def genMethod (env : Env) (e : Endpoint) : Option Method := do
  let sig ← typeIn env e
  let query ← e.query.mapM fun p => (convOf env p.ty).map fun c => (p.name, c)
  let repTy ← repTyOf env e
  pure {
    name := e.name, sig := sig, url := e.url,
    withForm := e.withForm, formFile := e.formFile, formValues := e.formValues,
    formJSON := (e.formJSON.map (·.name)).getD "",
    verb := e.method.toLower,
    body := if e.withForm then .form else if e.input.isSome then .params else if expectBody e.method then .null else .absent,
    query := query, arraybuffer := e.blob, repTy := repTy,
    ret := if e.ret.isNone then .tru else if e.blob then .blobFile else .data }

/-! ### printing -/

def printConv (n : String) : Conv → String
  | .toStr => goQuote n ++ ": String(params[" ++ goQuote n ++ "])"
  | .okOrEmpty => goQuote n ++ ": params[" ++ goQuote n ++ "] ? 'ok' : ''"
  | .ident => goQuote n ++ ": params[" ++ goQuote n ++ "]"

def printConfig (m : Method) : String :=
  "{ " ++ ", ".intercalate (["headers: this.getHeaders()"] ++
    (if m.query.isEmpty then [] else ["params: { " ++ ", ".intercalate (m.query.map fun (n, c) => printConv n c) ++ " }"]) ++
    (if m.arraybuffer then ["responseType: 'arraybuffer'"] else [])) ++ " }"

def printCall (m : Method) : String :=
  let assign := match m.repTy with | some t => "const rep:AxiosResponse<" ++ t ++ "> = " | none => ""
  let cfg := printConfig m
  match m.body with
  | .form =>
    "const formData = new FormData()\n" ++
    (if m.formFile != "" then "formData.append(" ++ goQuote m.formFile ++ ", file, file.name)\n" else "") ++
    String.join (m.formValues.map fun v => "formData.append(" ++ goQuote v ++ ", formParams[" ++ goQuote v ++ "])\n") ++
    (if m.formJSON != "" then "formData.append(" ++ goQuote m.formJSON ++ ", JSON.stringify(formValue))\n" else "") ++
    " " ++ assign ++ " await Axios." ++ m.verb ++ "(fullUrl, formData, " ++ cfg ++ ")"
  | .params => assign ++ " await Axios." ++ m.verb ++ "(fullUrl, params, " ++ cfg ++ ")"
  | .null => assign ++ " await Axios." ++ m.verb ++ "(fullUrl, null, " ++ cfg ++ ")"
  | .absent => assign ++ " await Axios." ++ m.verb ++ "(fullUrl, " ++ cfg ++ ")"

def printRet : RetK → String
  | .data => "return rep.data;"
  | .tru => "return true;"
  | .blobFile => "const header = rep.headers[\"content-disposition\"]\n" ++
      "const startIndex = header.indexOf(\"filename=\") + 9;\nconst endIndex = header.length;\n" ++
      "const filename = decodeURIComponent(header.substring(startIndex, endIndex));\n" ++
      "return { blob: rep.data, filename: filename};"

def printMethod (m : Method) : String :=
  "/** " ++ m.name ++ " performs the request and handles the error */\n" ++
  "async " ++ m.name ++ "(" ++ ", ".intercalate (m.sig.map fun (n, t) => n ++ ": " ++ t) ++ ") {\n" ++
  "const fullUrl = this.baseUrl + " ++ goQuote m.url ++ ";\nthis.startRequest();\ntry {\n" ++
  printCall m ++ ";\n" ++ printRet m.ret ++ "\n} catch (error) {\nthis.handleError(error);\n}\n}"

/-- the types `renderTypes` declares: bodies, return values, query parameters, JSON form field -/
def declaredRoots (es : List Endpoint) : List Ty :=
  es.flatMap fun e => e.input.toList ++ e.ret.toList ++ e.query.map (·.ty) ++ (e.formJSON.map (·.ty)).toList

/-- the types the signatures mention -/
def mentionedRoots (es : List Endpoint) : List Ty :=
  es.flatMap fun e => e.input.toList ++ e.ret.toList ++ e.query.map (·.ty) ++ (e.formJSON.map (·.ty)).toList

/-! ### request semantics -/

/-- the arguments of a call, by parameter name; values are JSON values (`num` holds the text
`String(x)` yields) -/
abbrev Args := List (String × JVal)

inductive FormEntry
  | file (v : JVal)
  | text (v : JVal)       -- `formParams["k"]` (undefined = null)
  | json (v : JVal)       -- `JSON.stringify(formValue)`
  deriving Repr

inductive ReqBody
  | absent | null | json (v : JVal) | form (entries : List (String × FormEntry))
  deriving Repr

structure Request where
  verb : String
  url : String
  body : ReqBody
  /-- `none`: no `params` entry in the config -/
  query : Option (List (String × JVal))
  arraybuffer : Bool
  result : RetK
  deriving Repr

def field (v : JVal) (k : String) : JVal :=
  match v with
  | .obj kvs => (kvs.lookup k).getD .null
  | _ => .null

def truthy : JVal → Bool
  | .null => false | .bool b => b | .str s => s != "" | .num n => n != "0" && n != "-0" && n != "NaN"
  | _ => true

/-- `String(x)` on the values a query parameter can hold -/
def jsString : JVal → JVal
  | .str s => .str s
  | .num n => .str n
  | .bool b => .str (if b then "true" else "false")
  | .null => .str "undefined"
  | v => v

def applyConv (c : Conv) (v : JVal) : JVal :=
  match c with
  | .ident => v
  | .toStr => jsString v
  | .okOrEmpty => .str (if truthy v then "ok" else "")

/-- the value of a parameter: `none` when the signature does not declare it -/
def argOf (m : Method) (a : Args) (n : String) : Option JVal :=
  if (m.sig.map (·.1)).contains n then some ((a.lookup n).getD .null) else none

def queryPart (m : Method) (a : Args) : Option (Option (List (String × JVal))) :=
  if m.query.isEmpty then some none else
    (argOf m a "params").map fun ps => some (m.query.map fun (n, c) => (n, applyConv c (field ps n)))

def formFilePart (m : Method) (a : Args) : Option (List (String × FormEntry)) :=
  if m.formFile != "" then (argOf m a "file").map fun v => [(m.formFile, FormEntry.file v)] else some []

def formValuesPart (m : Method) (a : Args) : Option (List (String × FormEntry)) :=
  if m.formValues.isEmpty then some [] else
    (argOf m a "formParams").map fun fp => m.formValues.map fun k => (k, FormEntry.text (field fp k))

def formJSONPart (m : Method) (a : Args) : Option (List (String × FormEntry)) :=
  if m.formJSON != "" then (argOf m a "formValue").map fun v => [(m.formJSON, FormEntry.json v)] else some []

def formPart (m : Method) (a : Args) : Option (List (String × FormEntry)) := do
  let f ← formFilePart m a
  let vs ← formValuesPart m a
  let j ← formJSONPart m a
  pure (f ++ vs ++ j)

def bodyPart (m : Method) (a : Args) : Option ReqBody :=
  match m.body with
  | .absent => some .absent
  | .null => some .null
  | .params => (argOf m a "params").map ReqBody.json
  | .form => (formPart m a).map ReqBody.form

/-- running the method: `none` when the body uses a parameter the signature does not declare -/
def perform (base : String) (m : Method) (a : Args) : Option Request := do
  let query ← queryPart m a
  let body ← bodyPart m a
  pure { verb := m.verb, url := base ++ m.url, body := body, query := query, arraybuffer := m.arraybuffer, result := m.ret }

end Gomacro.AxiosGen
