import Gomacro.GoJson
/-!
# The `string` option of encoding/json, read back

`json:",string"` on a field of boolean, integer, floating point or string kind (named types and
enums included): the encoder writes the JSON text of the value inside a JSON string
(`GoJson.quoteScalar`); the decoder expects a JSON string and parses its content as the literal.
`unescQ` reads the text of a Go-escaped JSON string literal up to its closing quote (the inverse of
`GoJson.escapeGo`); `unquoteLit` is the decoder's side of `quoteScalar`; `quotedKind` is the static
decision encoding/json takes from the kind of the field's type.
-/
namespace Gomacro.Unquote
open Gomacro.IR Gomacro.GoJson

def hexVal (c : Char) : Option Nat :=
  if 48 ≤ c.toNat && c.toNat ≤ 57 then some (c.toNat - 48)
  else if 97 ≤ c.toNat && c.toNat ≤ 102 then some (c.toNat - 87)
  else none

def hex4 (a b c d : Char) : Option Nat :=
  match hexVal a, hexVal b, hexVal c, hexVal d with
  | some x, some y, some z, some t => some (((x * 16 + y) * 16 + z) * 16 + t)
  | _, _, _, _ => none

/-- the characters of a JSON string literal, after its opening quote, up to the closing quote, which
must end the text -/
def unescQ : List Char → Option (List Char)
  | [] => none
  | c :: r =>
    if c == '"' then (if r.isEmpty then some [] else none)
    else if c == '\\' then
      match r with
      | [] => none
      | e :: r2 =>
        if e == '"' then (unescQ r2).map ('"' :: ·)
        else if e == '\\' then (unescQ r2).map ('\\' :: ·)
        else if e == 'n' then (unescQ r2).map ('\n' :: ·)
        else if e == 'r' then (unescQ r2).map ('\r' :: ·)
        else if e == 't' then (unescQ r2).map ('\t' :: ·)
        else if e == 'u' then
          match r2 with
          | a :: b :: c2 :: d :: r3 =>
            match hex4 a b c2 d with
            | some k => (unescQ r3).map (Char.ofNat k :: ·)
            | none => none
          | _ => none
        else none
    else (unescQ r).map (c :: ·)

/-- the content of a quoted scalar, read at the kind of the field -/
def unquoteLit (bk : BKind) (s : String) : Option JVal :=
  match bk with
  | .bool => if s == "true" then some (.bool true) else if s == "false" then some (.bool false) else none
  | .int => some (.num s)
  | .float => some (.num s)
  | .str =>
    match s.toList with
    | '"' :: rest => (unescQ rest).map fun cs => .str (String.ofList cs)
    | _ => none
  | .none => none

/-- the kind encoding/json quotes at: the field's type is of boolean, integer, floating point or
string kind (a basic type, an enum, or a named type over a basic type) -/
def quotedKind (env : Env) : Ty → Option BKind
  | .basic _ bk => if bk == .none then none else some bk
  | .ref q =>
    match env.find? q with
    | some d =>
      (match d.body with
       | .enum _ bk _ _ => if bk == .none then none else some bk
       | .named (.basic _ bk) => if bk == .none then none else some bk
       | _ => none)
    | none => none
  | _ => none

/-- what the decoder hands to the field's own decoding: the content of the quoted literal for a
field of scalar kind under the `string` option (an error if the document is not a string), the
document itself otherwise -/
def fieldDoc (env : Env) (f : Field) (x : JVal) : Option JVal :=
  if (tagOptions f.tag).contains "string" then
    match quotedKind env f.ty with
    | some bk => (match x with | .str s => unquoteLit bk s | _ => none)
    | none => some x
  else some x

/-- types on which the `string` option is inside the fragment: the scalar kinds above, and the types
that are certainly not of scalar kind (the option is ignored there) -/
def stringOk (env : Env) (t : Ty) : Bool :=
  match t with
  | .basic _ bk => bk != .none
  | .time _ => true
  | .arr _ _ => true
  | .map _ _ => true
  | .ptr _ => false
  | .ref q =>
    match env.find? q with
    | some d =>
      (match d.body with
       | .enum _ bk _ _ => bk != .none
       | .named (.basic _ bk) => bk != .none
       | .named (.time _) => true
       | .named (.arr _ _) => true
       | .named (.map _ _) => true
       | .named _ => false
       | .struct _ _ _ => true
       | .union _ => true)
    | none => false

end Gomacro.Unquote
