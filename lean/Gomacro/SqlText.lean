/-!
Models of the string rewriting behind SQL comment directives:

 * `TableNameReplacer.Replace`            (`([\w]+)`, whole-word replacement)
 * `ReplaceEnums`                          (`#\[(\w+)\.(\w+)\]`)
 * `generateCustomConstraint`              (`REFERENCES (\w+)`, `ADD` prefix ⇒ `ALTER TABLE owner`)
 * `isUniquesConstraint` / `isSelectKey`   (`(?i)ADD (UNIQUE|PRIMARY KEY)\s?\((.*)\)`, `(?i)_SELECT KEY\s?\((.*)\)`)
 * `newCustomQuery`                        (`(\w+)\s*=\s*\$(\w+)\$`, `$name$` ↦ `$i`)
 * `ToSnakeCase` / `SQLTableName`

Each regular expression is replaced by a hand-written left-to-right scanner (Go's regexp is
leftmost-first); scanner ≙ regexp is checked by the correspondence runner, not proved.
Everything works on `List Char` (ASCII inputs in the tie; `\w` = `[0-9A-Za-z_]`).
-/
namespace Gomacro.SqlText

def isWord (c : Char) : Bool :=
  (c.toNat ≥ 48 && c.toNat ≤ 57) || (c.toNat ≥ 65 && c.toNat ≤ 90) || (c.toNat ≥ 97 && c.toNat ≤ 122) || c == '_'

/-! ### segmentation into maximal word / non-word runs -/

/-- (isWord, run): consecutive runs of characters of the same class -/
def segments : List Char → List (Bool × List Char)
  | [] => []
  | c :: cs =>
    match segments cs with
    | (k, run) :: rest => if k == isWord c then (k, c :: run) :: rest else (isWord c, [c]) :: (k, run) :: rest
    | [] => [(isWord c, [c])]

def joinSegs (l : List (Bool × List Char)) : List Char := l.flatMap (·.2)

/-- `TableNameReplacer.Replace`: every maximal `\w+` token that is a key is replaced -/
def replaceWords (m : List (List Char × List Char)) (s : List Char) : List Char :=
  joinSegs ((segments s).map fun (k, run) =>
    if k then (match m.lookup run with | some r => (k, r) | none => (k, run)) else (k, run))

/-! ### scanners -/

def takeWord (s : List Char) : List Char × List Char := (s.takeWhile isWord, s.dropWhile isWord)

/-- try to match `#[T.V]` at the head: returns (T, V, rest) -/
def matchEnumPlaceholder : List Char → Option (List Char × List Char × List Char)
  | '#' :: '[' :: s =>
    let (t, r1) := takeWord s
    if t.isEmpty then none else
    match r1 with
    | '.' :: r2 =>
      let (v, r3) := takeWord r2
      if v.isEmpty then none else
      match r3 with
      | ']' :: r4 => some (t, v, r4)
      | _ => none
    | _ => none
  | _ => none

/-- `ReplaceEnums`; `lit T V` is the SQL literal of the constant (or `none` ⇒ diagnostic) -/
def replaceEnumsAux (lit : List Char → List Char → Option (List Char)) : Nat → List Char → Option (List Char)
  | 0, _ => some []
  | _ + 1, [] => some []
  | fuel + 1, c :: cs =>
    match matchEnumPlaceholder (c :: cs) with
    | some (t, v, rest) =>
      match lit t v, replaceEnumsAux lit fuel rest with
      | some l, some out => some (l ++ " /* ".toList ++ t ++ ['.'] ++ v ++ " */".toList ++ out)
      | _, _ => none
    | none => (replaceEnumsAux lit fuel cs).map (c :: ·)

def replaceEnums (lit : List Char → List Char → Option (List Char)) (s : List Char) : Option (List Char) :=
  replaceEnumsAux lit (s.length + 1) s

def startsWith (p s : List Char) : Bool := s.take p.length == p

/-- `reReferences.ReplaceAllStringFunc`: `REFERENCES name` ↦ `REFERENCES` + sqlName name -/
def rewriteReferencesAux (sqlName : List Char → List Char) : Nat → List Char → List Char
  | 0, s => s
  | _ + 1, [] => []
  | fuel + 1, c :: cs =>
    let kw := "REFERENCES ".toList
    if startsWith kw (c :: cs) then
      let after := (c :: cs).drop kw.length
      let (w, rest) := takeWord after
      if w.isEmpty then c :: rewriteReferencesAux sqlName fuel cs
      else "REFERENCES ".toList ++ sqlName w ++ rewriteReferencesAux sqlName fuel rest
    else c :: rewriteReferencesAux sqlName fuel cs

def rewriteReferences (sqlName : List Char → List Char) (s : List Char) : List Char :=
  rewriteReferencesAux sqlName (s.length + 1) s

/-! ### ToSnakeCase -/

def isUpper (c : Char) : Bool := c.toNat ≥ 65 && c.toNat ≤ 90
def isLower (c : Char) : Bool := c.toNat ≥ 97 && c.toNat ≤ 122
def isDigit (c : Char) : Bool := c.toNat ≥ 48 && c.toNat ≤ 57
def toLowerC (c : Char) : Char := if isUpper c then Char.ofNat (c.toNat + 32) else c

/-- pass 1: `(.)([A-Z][a-z]+)` ↦ `${1}_${2}` (leftmost, non-overlapping) -/
def snake1 : Nat → List Char → List Char
  | 0, s => s
  | _ + 1, [] => []
  | _ + 1, [c] => [c]
  | fuel + 1, c :: u :: rest =>
    -- a match starts at c when c ≠ '\n', u is upper and at least one lower follows
    let lowers := rest.takeWhile isLower
    if c != '\n' && isUpper u && !lowers.isEmpty then
      c :: '_' :: u :: lowers ++ snake1 fuel (rest.dropWhile isLower)
    else c :: snake1 fuel (u :: rest)

/-- pass 2: `([a-z0-9])([A-Z])` ↦ `${1}_${2}` -/
def snake2 : Nat → List Char → List Char
  | 0, s => s
  | _ + 1, [] => []
  | _ + 1, [c] => [c]
  | fuel + 1, c :: u :: rest =>
    if (isLower c || isDigit c) && isUpper u then c :: '_' :: u :: snake2 fuel rest
    else c :: snake2 fuel (u :: rest)

def toSnakeCase (s : List Char) : List Char :=
  (snake2 (s.length * 2 + 2) (snake1 (s.length + 1) s)).map toLowerC

/-- `SQLTableName` -/
def sqlTableName (goName : List Char) : List Char := toSnakeCase goName ++ ['s']

/-- the replacer built by `NewTableNameReplacer` -/
def tableReplacer (tables : List (List Char)) : List (List Char × List Char) :=
  tables.map fun t => (t, sqlTableName t)

def kwADD : List Char := "ADD".toList
def kwAlterTable : List Char := "ALTER TABLE ".toList

/-- `generateCustomConstraint` -/
def customConstraint (tables : List (List Char)) (lit : List Char → List Char → Option (List Char))
    (owner : List Char) (content : List Char) : Option (List Char) :=
  let c1 := rewriteReferences sqlTableName content
  let c2 := replaceWords (tableReplacer tables) c1
  match replaceEnums lit c2 with
  | none => none
  | some c3 =>
    if startsWith kwADD c3 then
      some (kwAlterTable ++ sqlTableName owner ++ [' '] ++ c3 ++ [';'])
    else some (c3 ++ [';'])

/-- `generateQuardConstraint`: the default and the equality check of a guard column. The value of
the `gomacro-sql-guard` tag only has its enum placeholders expanded: no table name is replaced in it. -/
def guardConstraints (lit : List Char → List Char → Option (List Char))
    (owner col value : List Char) : Option (List (List Char)) :=
  match replaceEnums lit value with
  | none => none
  | some v =>
    some [kwAlterTable ++ sqlTableName owner ++ " ALTER COLUMN ".toList ++ col ++ " SET DEFAULT ".toList ++ v ++ [';'],
          kwAlterTable ++ sqlTableName owner ++ " ADD CHECK(".toList ++ col ++ " = ".toList ++ v ++ ");".toList]

/-! ### classification of `gomacro:SQL` comments -/

def toUpperC (c : Char) : Char := if isLower c then Char.ofNat (c.toNat - 32) else c
def upper (s : List Char) : List Char := s.map toUpperC

def isSpaceRe (c : Char) : Bool := c == ' ' || c == '\t' || c == '\n' || c == '\x0c' || c == '\r'

def trimSpace (s : List Char) : List Char :=
  ((s.dropWhile isSpaceRe).reverse.dropWhile isSpaceRe).reverse

def splitOnComma : List Char → List (List Char)
  | [] => [[]]
  | c :: cs =>
    match splitOnComma cs with
    | h :: t => if c == ',' then [] :: h :: t else (c :: h) :: t
    | [] => [[c]]

/-- after a keyword: `\s?\((.*)\)` — optional single whitespace, "(", greedy up to the last ")" of the line -/
def matchParenGroup (s : List Char) : Option (List Char) :=
  let s := match s with
    | c :: cs => if isSpaceRe c then (match cs with | '(' :: _ => cs | _ => s) else s
    | [] => s
  match s with
  | '(' :: body =>
    let line := body.takeWhile (· ≠ '\n')
    -- greedy `.*` then `\)`: up to the last ')'
    let rev := line.reverse
    let afterLast := rev.dropWhile (· ≠ ')')
    match afterLast with
    | ')' :: inner => some inner.reverse
    | _ => none
  | _ => none

/-- leftmost match of (case-insensitive) `kw` followed by a paren group -/
def findKeywordGroup (kws : List (List Char)) : Nat → List Char → Option (List Char)
  | 0, _ => none
  | _ + 1, [] => none
  | fuel + 1, c :: cs =>
    let s := c :: cs
    let tryKw := kws.findSome? fun kw =>
      if upper (s.take kw.length) == kw then matchParenGroup (s.drop kw.length) else none
    match tryKw with
    | some g => some g
    | none => findKeywordGroup kws fuel cs

def columnsOf (g : List Char) : List (List Char) := (splitOnComma g).map trimSpace

/-- `isUniquesConstraint` -/
def uniquesConstraint (ct : List Char) : List (List Char) :=
  match findKeywordGroup ["ADD UNIQUE".toList, "ADD PRIMARY KEY".toList] (ct.length + 1) ct with
  | some g => columnsOf g
  | none => []

/-- `isSelectKey` -/
def selectKey (ct : List Char) : List (List Char) :=
  match findKeywordGroup ["_SELECT KEY".toList] (ct.length + 1) ct with
  | some g => columnsOf g
  | none => []

structure Classified where
  constraints : List (List Char)        -- Table.CustomConstraints, in order
  uniqueColumns : List (List Char)      -- single-column UNIQUE
  uniquesCols : List (List (List Char))
  selectKeys : List (List (List Char))
deriving Repr

/-- `Table.processComments`, SQL part -/
def classify (comments : List (List Char)) : Classified :=
  comments.foldl (fun acc c =>
    let cols := uniquesConstraint c
    let acc := if cols.length == 1 then { acc with uniqueColumns := acc.uniqueColumns ++ cols } else acc
    let acc := if cols.length != 0 then { acc with uniquesCols := acc.uniquesCols ++ [cols] } else acc
    let sk := selectKey c
    if sk.length != 0 then { acc with selectKeys := acc.selectKeys ++ [sk] }
    else { acc with constraints := acc.constraints ++ [c] })
    ⟨[], [], [], []⟩

/-! ### custom queries -/

/-- all matches of `(\w+)\s*=\s*\$(\w+)\$`, in order: (field, var) -/
def queryMatches : Nat → List Char → List (List Char × List Char)
  | 0, _ => []
  | _ + 1, [] => []
  | fuel + 1, c :: cs =>
    let s := c :: cs
    let (w, r1) := takeWord s
    if w.isEmpty then queryMatches fuel cs else
    -- greedy \w+ took the whole word; the rest of the pattern must follow
    let r2 := r1.dropWhile isSpaceRe
    match r2 with
    | '=' :: r3 =>
      let r4 := r3.dropWhile isSpaceRe
      match r4 with
      | '$' :: r5 =>
        let (v, r6) := takeWord r5
        match v.isEmpty, r6 with
        | false, '$' :: r7 => (w, v) :: queryMatches fuel r7
        | _, _ => queryMatches fuel r1
      | _ => queryMatches fuel r1
    | _ => queryMatches fuel r1

def dedupVars : List (List Char × List Char) → List (List Char) → List (List Char × List Char)
  | [], _ => []
  | (f, v) :: rest, seen => if seen.contains v then dedupVars rest seen else (f, v) :: dedupVars rest (v :: seen)

def natToChars (n : Nat) : List Char := (toString n).toList

/-- `strings.NewReplacer(old1,new1,...)`: at each position the first listed key that matches wins -/
def replaceAllAux (pairs : List (List Char × List Char)) : Nat → List Char → List Char
  | 0, s => s
  | _ + 1, [] => []
  | fuel + 1, c :: cs =>
    let s := c :: cs
    match pairs.find? (fun p => !p.1.isEmpty && startsWith p.1 s) with
    | some (o, n) => n ++ replaceAllAux pairs fuel (s.drop o.length)
    | none => c :: replaceAllAux pairs fuel cs

structure Query where
  goName : List Char
  query : List Char
  inputs : List (List Char × List Char)   -- (go field compared with, variable name)
deriving Repr

def cutSpace (s : List Char) : List Char × List Char :=
  (s.takeWhile (· ≠ ' '), (s.dropWhile (· ≠ ' ')).drop 1)

/-- `newCustomQuery` (the `unknown field` diagnostic is decided by the caller) -/
def customQuery (comment : List Char) : Query :=
  let (name, q) := cutSpace comment
  let inputs := dedupVars (queryMatches (comment.length + 1) comment) []
  let pairs := inputs.zipIdx.map fun ((_, v), i) => (['$'] ++ v ++ ['$'], '$' :: natToChars (i + 1))
  { goName := name, query := replaceAllAux pairs (q.length + 1) q, inputs := inputs }

end Gomacro.SqlText
