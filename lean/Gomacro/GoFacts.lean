import Gomacro.IR
/-!
L1 fact base: what `go/types` (and a direct iteration over the syntax) reports about a package.
Produced by the independent walker `harness/internal/facts`, consumed by the analysis model.
-/
namespace Gomacro.GoFacts

inductive GoTy
  | basic (name : String) (info : String)     -- info: bool | int | float | string | complex | other
  | array (n : Int) (e : GoTy)
  | slice (e : GoTy)
  | map (k e : GoTy)
  | ptr (e : GoTy)
  | struct (fields : List (String × GoTy × String × Bool × Bool))  -- name, type, tag, exported, embedded
  | iface (nMethods : Nat)
  | chan
  | func
  | named (q : String)
  | tparam (name : String)
  | other (s : String)
deriving Repr, Inhabited

structure TypeFact where
  q : String
  name : String
  pkgPath : String
  pkgName : String
  exported : Bool
  under : GoTy
  underStr : String
  isIface : Bool
  targs : List IR.TArg
  hasTParams : Bool
  doc : List String
  grouped : Bool
  groupDoc : List String
  inScope : Bool
deriving Repr, Inhabited

structure ConstFact where
  name : String
  typeQ : String
  val : String
  valStr : String
  isInt : Bool
  int : Int
  exported : Bool
  comment : String
  specIndex : Nat
  str : String := ""
deriving Repr, Inhabited

structure PkgFacts where
  path : String
  name : String
  types : List String               -- scope order
  consts : List ConstFact           -- scope order
  implements : List (String × List String)
deriving Repr, Inhabited

structure SourceDecl where
  name : String
  isAlias : Bool
  ty : GoTy
deriving Repr, Inhabited

structure FactBase where
  rootPath : String
  rootName : String
  pfx : String
  pkgs : List PkgFacts
  types : List TypeFact
  source : List SourceDecl
deriving Repr, Inhabited

def FactBase.type? (fb : FactBase) (q : String) : Option TypeFact := fb.types.find? (·.q == q)

end Gomacro.GoFacts
