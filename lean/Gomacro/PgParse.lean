import Gomacro.PgAst
/-!
# Parser of the plpgsql fragment: the real text of a generated validator ↦ `PgAst.Func`

Not verified (part of the trusted tie): a tokenizer and a recursive-descent parser of exactly the
syntax `PgAst` embeds; anything else is an error, never a default.
-/
namespace Gomacro.PgParse
open Gomacro.PgAst

inductive Tok
  | id (s : String)        -- identifier or keyword, as written
  | lit (raw : String)     -- 'text' (quotes kept) or a number
  | sym (s : String)
deriving Repr, BEq, Inhabited

def isIdStart (c : Char) : Bool := c.isAlpha || c == '_'
def isIdChar (c : Char) : Bool := c.isAlphanum || c == '_'

partial def lexAux : List Char → Array Tok → Except String (Array Tok)
  | [], acc => .ok acc
  | c :: rest, acc =>
    if c.isWhitespace then lexAux rest acc
    else if c == '-' && (match rest with | '-' :: _ => true | _ => false) then
      lexAux (rest.dropWhile (· != '\n')) acc           -- a line comment
    else if isIdStart c then
      let word := (c :: rest).takeWhile isIdChar
      lexAux ((c :: rest).dropWhile isIdChar) (acc.push (.id (String.ofList word)))
    else if c.isDigit || (c == '-' && (match rest with | d :: _ => d.isDigit | [] => false)) then
      let digits := rest.takeWhile fun x => x.isDigit || x == '.'
      let after := rest.dropWhile fun x => x.isDigit || x == '.'
      -- an exponent: 1e+06, 2.5E-3
      match after with
      | e :: more =>
        if e == 'e' || e == 'E' then
          let (sign, more') := match more with
            | '+' :: m => (['+'], m)
            | '-' :: m => (['-'], m)
            | m => ([], m)
          let ex := more'.takeWhile Char.isDigit
          if ex.isEmpty then lexAux after (acc.push (.lit (String.ofList (c :: digits))))
          else lexAux (more'.dropWhile Char.isDigit) (acc.push (.lit (String.ofList (c :: digits ++ [e] ++ sign ++ ex))))
        else lexAux after (acc.push (.lit (String.ofList (c :: digits))))
      | [] => lexAux after (acc.push (.lit (String.ofList (c :: digits))))
    else if c == '\'' then
      -- a quoted string; '' is an escaped quote
      let rec str (cs : List Char) (buf : List Char) : Option (List Char × List Char) :=
        match cs with
        | [] => none
        | '\'' :: '\'' :: more => str more ('\'' :: '\'' :: buf)
        | '\'' :: more => some (buf.reverse, more)
        | x :: more => str more (x :: buf)
      match str rest [] with
      | none => .error "unterminated string"
      | some (body, more) => lexAux more (acc.push (.lit (String.ofList ('\'' :: body ++ ['\'']))))
    else
      let three := String.ofList ((c :: rest).take 3)
      let two := String.ofList ((c :: rest).take 2)
      if three == "->>" || three == "#>>" then lexAux (rest.drop 2) (acc.push (.sym three))
      else if two == "->" || two == "::" || two == ":=" || two == "!=" || two == "<>" || two == "$$" then
        lexAux (rest.drop 1) (acc.push (.sym two))
      else if c == '=' || c == '(' || c == ')' || c == ',' || c == ';' || c == '%' then
        lexAux rest (acc.push (.sym (String.singleton c)))
      else .error ("unexpected character " ++ String.singleton c)

def lex (s : String) : Except String (Array Tok) := lexAux s.toList #[]

/-- parser state: the tokens and a position -/
abbrev P := StateT Nat (ExceptT String (ReaderM (Array Tok)))

def peek : P (Option Tok) := do return (← read)[(← get)]?
def peekAt (k : Nat) : P (Option Tok) := do return (← read)[(← get) + k]?
def advance : P Unit := modify (· + 1)
def fail {α} (msg : String) : P α := do
  let pos ← get
  let t ← peek
  throw (msg ++ " at token " ++ toString pos ++ " (" ++ reprStr t ++ ")")

def upper (s : String) : String := s.toUpper

def isKw (t : Option Tok) (kw : String) : Bool :=
  match t with | some (.id s) => upper s == kw | _ => false
def isSym (t : Option Tok) (sy : String) : Bool :=
  match t with | some (.sym s) => s == sy | _ => false

def expectKw (kw : String) : P Unit := do
  if isKw (← peek) kw then advance else fail ("expected " ++ kw)
def expectSym (sy : String) : P Unit := do
  if isSym (← peek) sy then advance else fail ("expected " ++ sy)
def ident : P String := do
  match ← peek with
  | some (.id s) => advance; return s
  | _ => fail "expected an identifier"
def literal : P String := do
  match ← peek with
  | some (.lit raw) => advance; return raw
  | some (.id s) =>
    -- boolean constants in an IN list (bool-backed enums), kept verbatim
    if upper s == "TRUE" || upper s == "FALSE" then do advance; return s else fail "expected a literal"
  | _ => fail "expected a literal"

/-- the content of a text literal token -/
def unquote (raw : String) : P String :=
  if raw.startsWith "'" && raw.endsWith "'" && raw.length ≥ 2 then
    return String.ofList ((raw.toList.drop 1).dropLast)
  else fail "expected a text literal"

mutual
partial def expr : P Expr := orExpr
partial def orExpr : P Expr := do
  let mut e ← andExpr
  while isKw (← peek) "OR" do
    advance
    e := .or e (← andExpr)
  return e
partial def andExpr : P Expr := do
  let mut e ← notExpr
  while isKw (← peek) "AND" do
    advance
    e := .and e (← notExpr)
  return e
partial def notExpr : P Expr := do
  if isKw (← peek) "NOT" then
    advance
    return .not (← notExpr)
  else cmpExpr
partial def cmpExpr : P Expr := do
  let a ← postfixE
  let t ← peek
  if isSym t "=" then advance; return .eq a (← postfixE)
  else if isSym t "!=" || isSym t "<>" then advance; return .ne a (← postfixE)
  else if isKw t "IN" then
    advance
    expectSym "("
    let mut items : Array String := #[]
    items := items.push (← literal)
    while isSym (← peek) "," do
      advance
      items := items.push (← literal)
    expectSym ")"
    return .inList a items.toList
  else return a
partial def postfixE : P Expr := do
  let mut e ← primaryE
  repeat
    let t ← peek
    if isSym t "->" then advance; e := .arrow e (← unquote (← literal))
    else if isSym t "->>" then advance; e := .arrowText e (← unquote (← literal))
    else if isSym t "#>>" then
      advance
      let l ← literal
      if l == "'{}'" then e := .pathText e else fail "only #>>'{}' is in the fragment"
    else if isSym t "::" then
      advance
      let ty ← ident
      if upper ty == "INT" || upper ty == "INTEGER" then e := .castInt e else fail "only ::int is in the fragment"
    else break
  return e
partial def primaryE : P Expr := do
  match ← peek with
  | some (.lit raw) => advance; return .lit raw
  | some (.sym "(") =>
    advance
    if isKw (← peek) "SELECT" then
      advance
      let agg ← ident
      if agg != "bool_and" then fail "only bool_and is in the fragment"
      expectSym "("
      let body ← expr
      expectSym ")"
      expectKw "FROM"
      let src ← ident
      expectSym "("
      let arg ← expr
      expectSym ")"
      expectSym ")"
      if src == "jsonb_array_elements" then return .allElems body arg
      else if src == "jsonb_each" then return .allEach body arg
      else fail "only jsonb_array_elements / jsonb_each are in the fragment"
    else
      let e ← expr
      expectSym ")"
      return e
  | some (.id s) =>
    advance
    if upper s == "TRUE" then return .tru
    else if upper s == "FALSE" then return .fls
    else if upper s == "NULL" then return .null
    else if isSym (← peek) "(" then
      advance
      let arg ← expr
      expectSym ")"
      if s == "jsonb_typeof" then return .typeof arg
      else if s == "jsonb_array_length" then return .arrLen arg
      else return .call s arg
    else return .var s
  | _ => fail "expected an expression"
end

def endOfBlock (t : Option Tok) : Bool := isKw t "END" || isKw t "ELSE" || isKw t "WHEN" || isKw t "ELSIF"

mutual
partial def stmts : P Block := do
  if endOfBlock (← peek) then return .nil
  let s ← stmt
  return .cons s (← stmts)
partial def stmt : P Stmt := do
  let t ← peek
  if isKw t "IF" then
    advance
    let c ← expr
    expectKw "THEN"
    let b ← stmts
    let e ← (do if isKw (← peek) "ELSE" then advance; stmts else pure Block.nil)
    expectKw "END"; expectKw "IF"; expectSym ";"
    return .ifThen c b e
  else if isKw t "RETURN" then
    advance
    let e ← expr
    expectSym ";"
    return .ret e
  else if isKw t "RAISE" then
    advance
    -- RAISE WARNING 'format', args; : no effect on the result
    repeat
      if isSym (← peek) ";" then break
      if (← peek).isNone then fail "unterminated RAISE"
      advance
    expectSym ";"
    return .raise
  else if isKw t "CASE" then
    advance
    let arms ← caseArms
    expectKw "ELSE"
    let els ← stmts
    expectKw "END"; expectKw "CASE"; expectSym ";"
    return .case arms els
  else
    let v ← ident
    expectSym ":="
    let e ← expr
    expectSym ";"
    return .assign v e
partial def caseArms : P Arms := do
  if isKw (← peek) "WHEN" then
    advance
    let c ← expr
    expectKw "THEN"
    let b ← stmts
    return .cons c b (← caseArms)
  else return .nil
end

partial def decls : P (List (String × Option Expr)) := do
  if isKw (← peek) "BEGIN" then return []
  let v ← ident
  let _ty ← ident
  let init ← (do if isSym (← peek) ":=" then advance; pure (some (← expr)) else pure none)
  expectSym ";"
  return (v, init) :: (← decls)

def func : P Func := do
  expectKw "CREATE"; expectKw "OR"; expectKw "REPLACE"; expectKw "FUNCTION"
  let name ← ident
  expectSym "("
  let arg ← ident
  let _ ← ident
  expectSym ")"
  if arg != "data" then fail "the argument is expected to be named data"
  expectKw "RETURNS"; let _ ← ident
  expectKw "AS"; expectSym "$$"
  let ds ← (do if isKw (← peek) "DECLARE" then advance; decls else pure [])
  expectKw "BEGIN"
  let body ← stmts
  expectKw "END"; expectSym ";"; expectSym "$$"
  expectKw "LANGUAGE"; let _ ← literal
  let _ ← ident   -- IMMUTABLE
  if isSym (← peek) ";" then advance
  if (← peek).isSome then fail "trailing tokens"
  return { name := name, decls := ds, body := body }

def parseFunc (text : String) : Except String Func :=
  match lex text with
  | .error e => .error ("lex: " ++ e)
  | .ok toks =>
    match (func.run 0).run.run toks with
    | .ok (f, _) => .ok f
    | .error e => .error e

/-! structural equality and a printer, for the tie with `astOf` of the model's functions -/

mutual
def beqStmt : Stmt → Stmt → Bool
  | .ifThen c b e, .ifThen c' b' e' => c == c' && beqBlock b b' && beqBlock e e'
  | .ret e, .ret e' => e == e'
  | .assign v e, .assign v' e' => v == v' && e == e'
  | .raise, .raise => true
  | .case a e, .case a' e' => beqArms a a' && beqBlock e e'
  | _, _ => false
def beqBlock : Block → Block → Bool
  | .nil, .nil => true
  | .cons s r, .cons s' r' => beqStmt s s' && beqBlock r r'
  | _, _ => false
def beqArms : Arms → Arms → Bool
  | .nil, .nil => true
  | .cons c b r, .cons c' b' r' => c == c' && beqBlock b b' && beqArms r r'
  | _, _ => false
end

def beqFunc (a b : Func) : Bool :=
  a.name == b.name && a.decls == b.decls && beqBlock a.body b.body

end Gomacro.PgParse
