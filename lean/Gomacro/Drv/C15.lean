import Gomacro.Drv.Sem
import Gomacro.RandSem
namespace Gomacro.Drv
open Lean Gomacro.IR Gomacro.GoJson Gomacro.RandSem

/-- does the type admit more than one well-formed value (as far as the generated functions go)? -/
partial def admitsMany (env : Env) (fuel : Nat) : Ty → Bool
  | .basic _ bk => bk != .none
  | .time _ => true
  | .arr n e => if n < 0 then true else n > 0 && admitsMany env fuel e
  -- a map receives 40 to 49 insertions: over a key type with a few values (an enum, a boolean) the
  -- key set is the whole type almost surely (4 keys: all present but once in 25 000 maps), so only
  -- the elements vary; a large key type varies by itself
  | .map k e =>
    let smallKeys := match k with
      | .basic _ .bool => true
      | .ref q => (match env.find? q with
        | some d => (match d.body with | .enum _ _ _ _ => true | .named (.basic _ .bool) => true | _ => false)
        | none => false)
      | _ => false
    (!smallKeys && admitsMany env fuel k) || admitsMany env fuel e
  | .ptr e => admitsMany env fuel e
  | .ref q =>
    if fuel == 0 then false else
    match env.find? q with
    | none => false
    | some d => match d.body with
      | .named u => admitsMany env (fuel - 1) u
      | .enum _ _ ms _ => ((exportedMembers ms).map (·.valStr)).eraseDups.length > 1
      | .struct fs _ _ => fs.any fun f => !dataIgnored f && admitsMany env (fuel - 1) f.ty
      | .union ms => ms.length > 1 || ms.any (admitsMany env (fuel - 1))

/-- op `c15.judge`: well-formedness of dumped values of a type, and whether the type admits several values -/
def c15Judge : Handler := fun j => do
  let env ← decEnv (← getObj j "env")
  let t ← decTy (← getObj j "type")
  let vals ← (getListD j "values").mapM decGoVal
  return Json.mkObj [("wellFormed", Json.arr (vals.map fun v => Json.bool (wellFormed env 64 t v)).toArray),
    ("admitsMany", Json.bool (admitsMany env 16 t)),
    -- hypothesis of theorem C15_terminates: the generated function returns, whatever the draws
    ("returns", Json.bool (returns env 64 t))]

end Gomacro.Drv
