import Gomacro.Drv.Util
import Gomacro.Paths
namespace Gomacro.Drv
open Lean Gomacro.Paths

/-- op `c17.root`: the model's common root of cleaned absolute directory strings -/
def c17Root : Handler := fun j => do
  let ps ← getStrList j "paths"
  return Json.mkObj [("root", Json.str (commonPrefixStr ps)),
    ("comps", strs (commonAll (ps.map splitSlash)))]

end Gomacro.Drv
