import Gomacro.Drv.Util
import Gomacro.IR
import Gomacro.GoFacts
/-! JSON decoders/encoders for the IR (L2) and the fact base (L1). -/
namespace Gomacro.Drv
open Lean Gomacro.IR Gomacro.GoFacts

def bkOfString : String → BKind
  | "str" => .str | "int" => .int | "float" => .float | "bool" => .bool | _ => .none

def bkToString : BKind → String
  | .str => "str" | .int => "int" | .float => "float" | .bool => "bool" | .none => "none"

def getStrD (j : Json) (k : String) (d : String := "") : String := (j.getObjValAs? String k).toOption.getD d
def getBoolD (j : Json) (k : String) (d : Bool := false) : Bool := (j.getObjValAs? Bool k).toOption.getD d
def getIntD (j : Json) (k : String) (d : Int := 0) : Int := (j.getObjValAs? Int k).toOption.getD d
def getNatD (j : Json) (k : String) (d : Nat := 0) : Nat := (j.getObjValAs? Nat k).toOption.getD d
def getListD (j : Json) (k : String) : List Json :=
  match j.getObjVal? k with
  | .ok (Json.arr a) => a.toList
  | _ => []

partial def decTy (j : Json) : Except String Ty := do
  match getStrD j "k" with
  | "basic" => return .basic (getStrD j "b") (bkOfString (getStrD j "bk" "none"))
  | "time" => return .time (getBoolD j "date")
  | "arr" => return .arr (getIntD j "len") (← decTy (← getObj j "e"))
  | "map" => return .map (← decTy (← getObj j "key")) (← decTy (← getObj j "e"))
  | "ptr" => return .ptr (← decTy (← getObj j "e"))
  | "ref" => return .ref (getStrD j "q")
  | k => throw s!"bad Ty kind {k}"

def encTy : Ty → Json
  | .basic b bk => Json.mkObj [("k", "basic"), ("b", b), ("bk", bkToString bk)]
  | .time d => Json.mkObj [("k", "time"), ("date", d)]
  | .arr n e => Json.mkObj [("k", "arr"), ("len", n), ("e", encTy e)]
  | .map k e => Json.mkObj [("k", "map"), ("key", encTy k), ("e", encTy e)]
  | .ptr e => Json.mkObj [("k", "ptr"), ("e", encTy e)]
  | .ref q => Json.mkObj [("k", "ref"), ("q", q)]

def decField (j : Json) : Except String Field := do
  return { name := getStrD j "name", ty := ← decTy (← getObj j "t"), tag := getStrD j "tag",
           goExported := getBoolD j "goExported", embedded := getBoolD j "embedded" }

def encField (f : Field) : Json :=
  Json.mkObj [("name", f.name), ("t", encTy f.ty), ("tag", f.tag), ("goExported", f.goExported), ("embedded", f.embedded)]

def decMember (j : Json) : Member :=
  { name := getStrD j "name", val := getStrD j "val", valStr := getStrD j "valStr", comment := getStrD j "comment",
    exported := getBoolD j "exported", isInt := getBoolD j "isInt", int := getIntD j "int", str := getStrD j "str" }

def encMember (m : Member) : Json :=
  Json.mkObj [("name", m.name), ("val", m.val), ("valStr", m.valStr), ("comment", m.comment),
    ("exported", m.exported), ("isInt", m.isInt), ("int", m.int), ("str", m.str)]

def decTArg (j : Json) : TArg := { named := getBoolD j "named", name := getStrD j "name", q := getStrD j "q" }
def encTArg (a : TArg) : Json := Json.mkObj [("named", a.named), ("name", a.name), ("q", a.q)]

def decDecl (j : Json) : Except String Decl := do
  let body ← match getStrD j "kind" with
    | "named" => pure (Body.named (← decTy (← getObj j "under")))
    | "struct" =>
      let fs ← (getListD j "fields").mapM decField
      let cs := (getListD j "comments").map fun c => ({ kind := getNatD c "kind", content := getStrD c "content" } : Comment)
      let im := (getListD j "implements").filterMap fun x => x.getStr?.toOption
      pure (Body.struct fs cs im)
    | "enum" =>
      pure (Body.enum (getStrD j "enumUnder") (bkOfString (getStrD j "enumBK" "none")) ((getListD j "members").map decMember) (getBoolD j "isIota"))
    | "union" => pure (Body.union (← (getListD j "umembers").mapM decTy))
    | k => throw s!"bad decl kind {k}"
  return { q := getStrD j "q", pkgPath := getStrD j "pkgPath", pkgName := getStrD j "pkgName", name := getStrD j "name",
           targs := (getListD j "targs").map decTArg, exported := getBoolD j "exported", body := body }

def encDecl (d : Decl) : Json :=
  let base : List (String × Json) := [("q", d.q), ("pkgPath", d.pkgPath), ("pkgName", d.pkgName), ("name", d.name),
    ("targs", Json.arr (d.targs.map encTArg).toArray), ("exported", d.exported)]
  match d.body with
  | .named u => Json.mkObj (base ++ [("kind", Json.str "named"), ("under", encTy u)])
  | .struct fs cs im => Json.mkObj (base ++ [("kind", Json.str "struct"), ("fields", Json.arr (fs.map encField).toArray),
      ("comments", Json.arr (cs.map fun c => Json.mkObj [("kind", c.kind), ("content", c.content)]).toArray),
      ("implements", strs im)])
  | .enum u bk ms iota => Json.mkObj (base ++ [("kind", Json.str "enum"), ("enumUnder", Json.str u), ("enumBK", Json.str (bkToString bk)),
      ("members", Json.arr (ms.map encMember).toArray), ("isIota", Json.bool iota)])
  | .union ms => Json.mkObj (base ++ [("kind", Json.str "union"), ("umembers", Json.arr (ms.map encTy).toArray)])

def decEnv (j : Json) : Except String Env := do
  return { pkgPath := getStrD j "pkgPath", pkgName := getStrD j "pkgName",
           source := ← (getListD j "source").mapM decTy, decls := ← (getListD j "decls").mapM decDecl }

def encEnv (e : Env) : Json :=
  Json.mkObj [("pkgPath", e.pkgPath), ("pkgName", e.pkgName), ("source", Json.arr (e.source.map encTy).toArray),
    ("decls", Json.arr (e.decls.map encDecl).toArray)]

/-! fact base -/

partial def decGoTy (j : Json) : Except String GoTy := do
  match getStrD j "k" with
  | "basic" => return .basic (getStrD j "b") (getStrD j "info")
  | "array" => return .array (getIntD j "n") (← decGoTy (← getObj j "e"))
  | "slice" => return .slice (← decGoTy (← getObj j "e"))
  | "map" => return .map (← decGoTy (← getObj j "key")) (← decGoTy (← getObj j "e"))
  | "ptr" => return .ptr (← decGoTy (← getObj j "e"))
  | "struct" =>
    let fs ← (getListD j "fields").mapM fun f => do
      let t ← decGoTy (← getObj f "t")
      pure (getStrD f "name", t, getStrD f "tag", getBoolD f "exported", getBoolD f "embedded")
    return .struct fs
  | "iface" => return .iface (getNatD j "nMethods")
  | "chan" => return .chan
  | "func" => return .func
  | "named" => return .named (getStrD j "q")
  | "tparam" => return .tparam (getStrD j "b")
  | _ => return .other (getStrD j "b")

def strList (j : Json) (k : String) : List String := (getListD j k).filterMap fun x => x.getStr?.toOption

def decTypeFact (j : Json) : Except String TypeFact := do
  return { q := getStrD j "q", name := getStrD j "name", pkgPath := getStrD j "pkgPath", pkgName := getStrD j "pkgName",
           exported := getBoolD j "exported", under := ← decGoTy (← getObj j "under"), underStr := getStrD j "underStr",
           isIface := getBoolD j "isIface", targs := (getListD j "targs").map decTArg, hasTParams := getBoolD j "hasTParams",
           doc := strList j "doc", grouped := getBoolD j "grouped", groupDoc := strList j "groupDoc", inScope := getBoolD j "inScope" }

def decConstFact (j : Json) : ConstFact :=
  { name := getStrD j "name", typeQ := getStrD j "typeQ", val := getStrD j "val", valStr := getStrD j "valStr",
    isInt := getBoolD j "isInt", int := getIntD j "int", exported := getBoolD j "exported", comment := getStrD j "comment",
    specIndex := getNatD j "specIndex", str := getStrD j "str" }

def decPkgFacts (j : Json) : PkgFacts :=
  let impl : List (String × List String) :=
    match j.getObjVal? "implements" with
    | .ok (Json.obj kvs) => kvs.toList.map fun (k, v) =>
        (k, match v with | Json.arr a => a.toList.filterMap (fun x => x.getStr?.toOption) | _ => [])
    | _ => []
  { path := getStrD j "path", name := getStrD j "name", types := strList j "types",
    consts := (getListD j "consts").map decConstFact, implements := impl }

def decFactBase (j : Json) : Except String FactBase := do
  let types ← match j.getObjVal? "types" with
    | .ok (Json.obj kvs) => kvs.toList.mapM fun (_, v) => decTypeFact v
    | _ => pure []
  let source ← (getListD j "source").mapM fun s => do
    pure ({ name := getStrD s "name", isAlias := getBoolD s "isAlias", ty := ← decGoTy (← getObj s "t") } : SourceDecl)
  return { rootPath := getStrD j "rootPath", rootName := getStrD j "rootName", pfx := getStrD j "prefix",
           pkgs := (getListD j "pkgs").map decPkgFacts, types := types, source := source }

end Gomacro.Drv
