import Gomacro.Drv.Codec
import Gomacro.GoJson
namespace Gomacro.Drv
open Lean Gomacro.IR Gomacro.GoJson

/-- reflection dump (harness/internal/gorun) → `GoVal`; embedded struct fields are spliced, as the
analysis flattens them -/
partial def decGoVal (j : Json) : Except String GoVal := do
  match getStrD j "k" with
  | "bool" => return .bool (getBoolD j "v")
  | "int" => return .int (getStrD j "v")
  | "float" => return .float (getStrD j "v")
  | "str" => return .str (getStrD j "v")
  | "time" => return .time (getStrD j "v")
  | "bytes" => return .bytes (getBoolD j "nil") (getStrD j "b64")
  | "list" =>
    let es ← (getListD j "e").mapM decGoVal
    return .list (getBoolD j "slice") (getBoolD j "nil") es
  | "map" =>
    let kvs ← (getListD j "kv").mapM fun p => do
      match p with
      | Json.arr a =>
        if h : a.size = 2 then
          let k ← decGoVal a[0]
          let v ← decGoVal a[1]
          pure (k, v)
        else throw "bad map entry"
      | _ => throw "bad map entry"
    return .map (getBoolD j "nil") kvs
  | "struct" =>
    let fs ← (getListD j "f").mapM fun f => do
      match f.getObjVal? "v" with
      | .ok v =>
        let gv ← decGoVal v
        -- an embedded struct is promoted (its fields listed in place) unless its json tag names it
        let named := Tags.namePart (Tags.get (getStrD f "tag") "json") != ""
        -- an embedded POINTER to a struct is not flattened by the analysis: it stays a field
        let isPtr := getStrD v "k" == "ptr"
        pure (some (getStrD f "n", getBoolD f "embedded" && !named && !isPtr, gv))
      | .error _ => pure none
    let flat := fs.filterMap id |>.flatMap fun (n, emb, gv) =>
      match emb, gv with
      | true, .struct inner => inner
      | _, _ => [(n, gv)]
    return .struct flat
  | "iface" =>
    if getBoolD j "nil" then return .iface none
    else
      let v ← decGoVal (← getObj j "v")
      return .iface (some (getStrD j "dynName", v))
  | "ptr" =>
    if getBoolD j "nil" then return .iface none
    else decGoVal (← getObj j "v")
  | k => throw s!"bad GoVal kind {k}"

partial def encJVal : JVal → Json
  | .null => Json.null
  | .bool b => Json.bool b
  | .num r => Json.mkObj [("$num", Json.str r)]
  | .str s => Json.str s
  | .arr l => Json.arr (l.map encJVal).toArray
  | .obj kvs => Json.mkObj (kvs.map fun (k, v) => (k, encJVal v))

def decWrappers (j : Json) : Wrappers :=
  { structs := strList j "structs", nameds := strList j "nameds" }

/-- op `sem.encode`: what encoding/json writes for a value of a type of the environment -/
def semEncode : Handler := fun j => do
  let env ← decEnv (← getObj j "env")
  let w := decWrappers ((j.getObjVal? "wrappers").toOption.getD (Json.mkObj []))
  let vals ← (getListD j "values").mapM fun x => do
    let t ← decTy (← getObj x "type")
    let v ← decGoVal (← getObj x "val")
    pure (encJVal (encode env w 64 false t v))
  return Json.mkObj [("docs", Json.arr vals.toArray)]

end Gomacro.Drv
