import Gomacro.Drv.C14
import Gomacro.DartGen
namespace Gomacro.Drv
open Lean Gomacro.IR Gomacro.DartGen

/-- op `c06.gen`: the output files of the model: imports, declarations (id, text), and the linking checks -/
def c06Gen : Handler := fun j => do
  let env ← decEnv (← getObj j "env")
  let files := generate env (getStrD j "prefix")
  -- the linking check again with the imports of the real output (when given)
  let realImports : List (String × List String) := match j.getObjVal? "imports" with
    | .ok (.obj kvs) => kvs.toList.map fun (k, v) => (k, (v.getArr?.toOption.getD #[]).toList.filterMap fun x => x.getStr?.toOption)
    | _ => []
  let filesR := files.map fun f => match realImports.lookup f.name with
    | some imps => { f with imports := imps }
    | none => f
  return Json.mkObj [("files", Json.arr (files.map fun f =>
    Json.mkObj [("name", f.name), ("imports", strs f.imports),
      ("decls", Json.arr (f.candidates.map fun e => Json.mkObj [("id", e.id), ("text", e.text)]).toArray),
      ("closed", closedFile files f), ("noSelfImport", noSelfImport f),
      ("clashes", strs (clashes f)),
      ("closedReal", (filesR.find? (·.name == f.name)).map (fun fr => closedFile filesR fr) |>.getD true),
      ("undefinedReal", strs (((filesR.find? (·.name == f.name)).map (fun fr => unresolved filesR fr)).getD []).eraseDups),
      ("undefined", strs (unresolved files f).eraseDups)]).toArray)]

end Gomacro.Drv
