import Gomacro.Drv.C14
import Gomacro.DartGen
namespace Gomacro.Drv
open Lean Gomacro.IR Gomacro.DartGen

/-- op `c06.gen`: the output files of the model: imports, declarations (id, text), and the linking checks -/
def c06Gen : Handler := fun j => do
  let env ← decEnv (← getObj j "env")
  let files := generate env (getStrD j "prefix")
  return Json.mkObj [("files", Json.arr (files.map fun f =>
    Json.mkObj [("name", f.name), ("imports", strs f.imports),
      ("decls", Json.arr (f.candidates.map fun e => Json.mkObj [("id", e.id), ("text", e.text)]).toArray),
      ("closed", closedFile files f), ("noSelfImport", noSelfImport f),
      ("clashes", strs (clashes f)),
      ("undefined", strs (unresolved files f).eraseDups)]).toArray)]

end Gomacro.Drv
