import Lean.Data.Json
/-! JSON helpers for the line-protocol driver (core only). -/
namespace Gomacro.Drv
open Lean

abbrev Handler := Json → Except String Json

def getStr (j : Json) (k : String) : Except String String := j.getObjValAs? String k
def getBool (j : Json) (k : String) : Except String Bool := j.getObjValAs? Bool k
def getNat (j : Json) (k : String) : Except String Nat := j.getObjValAs? Nat k
def getInt (j : Json) (k : String) : Except String Int := j.getObjValAs? Int k
def getArr (j : Json) (k : String) : Except String (Array Json) := do
  let v ← j.getObjVal? k
  v.getArr?
def getList (j : Json) (k : String) : Except String (List Json) := do
  return (← getArr j k).toList
def getStrList (j : Json) (k : String) : Except String (List String) := do
  (← getList j k).mapM fun x => x.getStr?
def getObj (j : Json) (k : String) : Except String Json := j.getObjVal? k
def optObj (j : Json) (k : String) : Option Json := (j.getObjVal? k).toOption

def strs (l : List String) : Json := Json.arr (l.map Json.str).toArray

end Gomacro.Drv
