import Gomacro.Drv.C04
import Gomacro.CrudGen
namespace Gomacro.Drv
open Lean Gomacro.IR Gomacro.PgTables Gomacro.CrudGen

def encCond : Cond → Json
  | .eq c p => Json.mkObj [("k", "eq"), ("col", c), ("ph", p)]
  | .any c p => Json.mkObj [("k", "any"), ("col", c), ("ph", p)]
  | .eqOrNull c p => Json.mkObj [("k", "eqOrNull"), ("col", c), ("ph", p)]

def natsJson (l : List Nat) : Json := Json.arr (l.map fun (n : Nat) => Json.num (Lean.JsonNumber.fromNat n)).toArray

def encStmt : Stmt → Json
  | .select cs t conds => Json.mkObj [("kind", "select"), ("table", t), ("cols", strs cs), ("conds", Json.arr (conds.map encCond).toArray)]
  | .insert t cs ps r => Json.mkObj [("kind", "insert"), ("table", t), ("cols", strs cs), ("phs", natsJson ps), ("returning", strs r)]
  | .update t cs ps conds r => Json.mkObj [("kind", "update"), ("table", t), ("cols", strs cs), ("phs", natsJson ps),
      ("conds", Json.arr (conds.map encCond).toArray), ("returning", strs r)]
  | .delete t conds r => Json.mkObj [("kind", "delete"), ("table", t), ("conds", Json.arr (conds.map encCond).toArray), ("returning", strs r)]

def decCond (j : Json) : Cond :=
  match getStrD j "k" with
  | "any" => .any (getStrD j "col") (getNatD j "ph")
  | "eqOrNull" => .eqOrNull (getStrD j "col") (getNatD j "ph")
  | _ => .eq (getStrD j "col") (getNatD j "ph")

def decStmt (j : Json) : Stmt :=
  let conds := (getListD j "conds").map decCond
  let nats (k : String) := (getListD j k).filterMap fun x => x.getNat?.toOption
  match getStrD j "kind" with
  | "select" => .select (strList j "cols") (getStrD j "table") conds
  | "insert" => .insert (getStrD j "table") (strList j "cols") (nats "phs") (strList j "returning")
  | "update" => .update (getStrD j "table") (strList j "cols") (nats "phs") conds (strList j "returning")
  | _ => .delete (getStrD j "table") conds (strList j "returning")

def tablesOf (env : Env) : List (Decl × List Field × List IR.Comment) :=
  env.source.filterMap fun t => match t with
    | .ref q => (match env.find? q with
      | some d => (match d.body with | .struct fs cs _ => some (d, fs, cs) | _ => none)
      | none => none)
    | _ => none

def schemaOf (env : Env) : Schema :=
  (tablesOf env).filterMap fun (d, fs, _) =>
    (columns env fs).map fun cols => (sqlTableNameS d.name, cols.map (·.name))

/-- op `c05.gen`: the statements of the model, the schema, and the structural checks on them -/
def c05Gen : Handler := fun j => do
  let env ← decEnv (← getObj j "env")
  let schema := schemaOf env
  let out := (tablesOf env).filterMap fun (d, fs, cs) =>
    (columns env fs).map fun cols =>
      let sql := (cs.filter (·.kind == 1)).map fun c => c.content.toList
      let cl := SqlText.classify sql
      let fkFields := (foreignKeys env d.name cols).map (·.field)
      let toS (l : List (List Char)) := l.map String.ofList
      let uniques := (cl.uniquesCols.map toS).filter fun ks => !(ks.length == 1 && fkFields.contains (ks.headD ""))
      let funcs := funcsOf env d.name cols uniques (cl.selectKeys.map toS) (toS cl.uniqueColumns)
      let scan := (crudCols cols).map (·.name)
      Json.mkObj [("table", d.name), ("scan", strs scan),
        ("funcs", Json.arr (funcs.map fun f => Json.mkObj [("name", f.name), ("stmt", encStmt f.stmt), ("nargs", f.nargs),
          ("namesExist", namesExist schema f.stmt), ("placeholdersOk", placeholdersOk f), ("scanAligned", scanAligned scan f.stmt)]).toArray)]
  return Json.mkObj [("tables", Json.arr out.toArray),
    ("schema", Json.arr (schema.map fun (t, cs) => Json.mkObj [("table", t), ("cols", strs cs)]).toArray)]

/-- op `c05.check`: the structural checks on statements extracted from the real generated code -/
def c05Check : Handler := fun j => do
  let env ← decEnv (← getObj j "env")
  let schema := schemaOf env
  let res := (getListD j "funcs").map fun f =>
    let stmt := decStmt ((f.getObjVal? "stmt").toOption.getD Json.null)
    let fn : Func := { name := getStrD f "name", stmt := stmt, nargs := getNatD f "nargs" }
    Json.mkObj [("name", fn.name), ("namesExist", namesExist schema stmt), ("placeholdersOk", placeholdersOk fn),
      ("scanAligned", scanAligned (strList f "scan") stmt)]
  return Json.mkObj [("results", Json.arr res.toArray)]

end Gomacro.Drv
