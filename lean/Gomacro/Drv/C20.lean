import Gomacro.Drv.Util
import Gomacro.Sched
namespace Gomacro.Drv
open Lean Gomacro.Sched

def toolOfNat : Nat → Tool
  | 0 => .go | 1 => .dart | 2 => .ts | _ => .psql

def toolIdx : Tool → Nat
  | .go => 0 | .dart => 1 | .ts => 2 | .psql => 3

/-- op `c20.run`: run the protocol model under the given schedule (then round-robin until all
requests are done) and report probes per tool, formatter runs and error flag per request. -/
def c20Run : Handler := fun j => do
  let inst ← (← getList j "installed").mapM fun x => x.getBool?
  let ok ← (← getList j "runOk").mapM fun x => x.getBool?
  let reqs ← (← getList j "reqs").mapM fun x => x.getNat?
  let sched ← (← getList j "sched").mapM fun x => x.getNat?
  let n := reqs.length
  let c : Cfg := { installed := fun t => inst.getD (toolIdx t) false,
                   runOk := fun t => ok.getD (toolIdx t) false,
                   req := fun i => toolOfNat (reqs.getD i 0) }
  let rr := (List.range ((6 * n + 8) * n)).map (· % n)
  let s := run c init (sched ++ rr)
  let tools := [Tool.go, .dart, .ts, .psql]
  let done := (List.range n).all fun i => match s.pc i with | .done _ => true | _ => false
  let errs := (List.range n).map fun i => match s.pc i with | .done e => Json.bool e | _ => Json.null
  return Json.mkObj [
    ("probes", Json.arr (tools.map fun t => (s.probes t : Json)).toArray),
    ("runs", Json.arr ((List.range n).map fun i => (s.runs i : Json)).toArray),
    ("errs", Json.arr errs.toArray),
    ("allDone", Json.bool done)]

end Gomacro.Drv
