import Gomacro.Drv.C13
import Gomacro.AxiosGen
import Gomacro.Decls
namespace Gomacro.Drv
open Lean Gomacro.IR Gomacro.TsGen Gomacro.AxiosGen Gomacro.GoJson

def decOptTy (j : Json) (k : String) : Except String (Option Ty) :=
  match j.getObjVal? k with
  | .ok (.null) => pure none
  | .ok v => (decTy v).map some
  | .error _ => pure none

def decParam (j : Json) : Except String Param := do
  return { name := getStrD j "name", ty := ← decTy (← getObj j "ty") }

def decEndpoint (j : Json) : Except String Endpoint := do
  let fj ← match j.getObjVal? "formJSON" with
    | .ok (.null) => pure none
    | .ok v => (decParam v).map some
    | .error _ => pure none
  return { url := getStrD j "url", method := getStrD j "method", name := getStrD j "name",
           input := ← decOptTy j "input", ret := ← decOptTy j "ret", blob := getBoolD j "blob",
           formFile := getStrD j "formFile", formValues := strList j "formValues", formJSON := fj,
           query := ← (getListD j "query").mapM decParam }

def declNames (env : Env) (roots : List Ty) : List String :=
  (generate { env with source := roots }).filterMap fun (id, d) =>
    match d with | .header => none | _ => some id

/-- op `c14.gen`: the methods of the model (text, or a panic), the text of the type section, and the
declarations the signatures mention without the file declaring them -/
def c14Gen : Handler := fun j => do
  let env ← decEnv (← getObj j "env")
  let eps ← (getListD j "endpoints").mapM decEndpoint
  let methods := eps.map fun e =>
    match genMethod env e with
    | some m => Json.mkObj [("name", m.name), ("text", printMethod m), ("sig", strs (m.sig.map (·.1)))]
    | none => Json.mkObj [("panic", true)]
  let declared := generate { env with source := declaredRoots eps }
  let typesText := Decls.writeDecls (declared.filterMap fun (id, d) =>
    match d with | .header => none | _ => some { id := id, content := printDecl d, prio := false })
  let dn := declNames env (declaredRoots eps)
  let missing := (declNames env (mentionedRoots eps)).filter fun n => !dn.contains n
  return Json.mkObj [("methods", Json.arr methods.toArray), ("types", typesText), ("missing", strs missing),
    ("closedOnce", Json.bool (closedOnce declared))]

def encEntry : String × FormEntry → Json
  | (k, .file v) => Json.mkObj [("key", k), ("kind", "file"), ("value", encJVal v)]
  | (k, .text v) => Json.mkObj [("key", k), ("kind", "text"), ("value", encJVal v)]
  | (k, .json v) => Json.mkObj [("key", k), ("kind", "json"), ("value", encJVal v)]

def encRequest (r : Request) : Json :=
  Json.mkObj [("verb", r.verb), ("url", r.url),
    ("body", match r.body with
      | .absent => Json.mkObj [("k", "absent")]
      | .null => Json.mkObj [("k", "null")]
      | .json v => Json.mkObj [("k", "json"), ("v", encJVal v)]
      | .form es => Json.mkObj [("k", "form"), ("entries", Json.arr (es.map encEntry).toArray)]),
    ("query", match r.query with
      | none => Json.null
      | some q => Json.arr (q.map fun (n, v) => Json.mkObj [("name", n), ("value", encJVal v)]).toArray),
    ("arraybuffer", r.arraybuffer),
    ("result", match r.result with | .data => "data" | .blobFile => "blob" | .tru => "true")]

/-- op `c14.perform`: the request the model derives for a call -/
def c14Perform : Handler := fun j => do
  let env ← decEnv (← getObj j "env")
  let base := getStrD j "base"
  let res ← (getListD j "calls").mapM fun c => do
    let e ← decEndpoint (← getObj c "endpoint")
    let args : Args := match c.getObjVal? "args" with
      | .ok (.obj kvs) => kvs.toList.map fun (k, v) => (k, jsonToJVal v)
      | _ => []
    pure (match genMethod env e with
      | none => Json.mkObj [("panic", true)]
      | some m => match perform base m args with
        | none => Json.mkObj [("undeclared", true)]
        | some r => encRequest r)
  return Json.mkObj [("requests", Json.arr res.toArray)]

end Gomacro.Drv
