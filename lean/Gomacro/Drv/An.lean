import Gomacro.Drv.Codec
import Gomacro.Analysis
namespace Gomacro.Drv
open Lean Gomacro Gomacro.Analysis

/-- op `an.analyse`: the analysis model on a fact base -/
def anAnalyse : Handler := fun j => do
  let fb ← decFactBase (← getObj j "facts")
  match analyse fb with
  | .ok r =>
    return Json.mkObj [("class", "ok"), ("env", encEnv r.env),
      ("failures", Json.arr (r.failures.map fun (q, c) => Json.mkObj [("q", q), ("class", c)]).toArray)]
  | .diag m => return Json.mkObj [("class", "diag"), ("msg", m)]
  | .crash s => return Json.mkObj [("class", "crash"), ("msg", s)]

end Gomacro.Drv
