import Gomacro.Drv.C05
import Gomacro.Props.C13
namespace Gomacro.Drv
open Lean Gomacro.HttpApi

def decKind : String → Kind
  | "call" => .call | "sel" => .sel | "ident" => .ident | "index" => .index | "addr" => .addr
  | "composite" => .composite | "funcLit" => .funcLit | "assign" => .assign | "ret" => .ret | _ => .other

def decObj (j : Json) : Obj :=
  match getStrD j "k" with
  | "pkg" => .pkgName (getStrD j "p")
  | "var" => .var (getStrD j "p") (getStrD j "n")
  | "func" => .func (getStrD j "p") (getStrD j "n")
  | _ => .none

partial def decNode (j : Json) : Node :=
  .mk { kind := decKind (getStrD j "k"), name := getStrD j "n", ty := getStrD j "ty", ty0 := getStrD j "ty0",
        elem := getStrD j "el", cst := (j.getObjValAs? String "cst").toOption,
        obj := ((j.getObjVal? "obj").toOption.map decObj).getD .none, pos := getNatD j "pos", nlhs := getNatD j "nlhs" }
    ((getListD j "c").map decNode)

def encContract (c : Contract) : Json :=
  Json.mkObj [("name", c.name), ("input", c.input), ("ret", c.ret), ("blob", c.blob),
    ("query", Json.arr (c.query.map fun (n, t) => Json.mkObj [("name", n), ("ty", t)]).toArray),
    ("formValues", strs c.formValues), ("formFile", c.formFile),
    ("formJSON", match c.formJSON with | some (n, t) => Json.mkObj [("name", n), ("ty", t)] | none => Json.null),
    ("crashed", c.crashed)]

def decItem (j : Json) : Item :=
  let n := getStrD j "name"; let ty := getStrD j "ty"
  match getStrD j "k" with
  | "bind" => .bind ty (getBoolD j "addr")
  | "query" => .query n
  | "queryBool" => .queryBool n
  | "queryInt64" => .queryInt64 n
  | "queryInt" => .queryInt n ty
  | "formValue" => .formValue n
  | "formFile" => .formFile n
  | _ => .formJSON n ty

def decRet (j : Json) : RetS :=
  match getStrD j "k" with
  | "json" => .json (getBoolD j "pretty") (getBoolD j "composite") (getStrD j "ty")
  | "blob" => .blob (getStrD j "ty")
  | _ => .plain (.mk {} [])

/-- op `c13.extract`: the extractor model on a translated file -/
def c13Extract : Handler := fun j => do
  let file := decNode (← getObj j "file")
  let fs : Funcs := (getListD j "funcs").map fun f =>
    ((getStrD f "pkg", getStrD f "recv", getStrD f "name"), decNode ((f.getObjVal? "body").toOption.getD Json.null))
  let acc := extract fs (getStrD j "prefix") file
  return Json.mkObj [("crashed", acc.crashed),
    ("endpoints", Json.arr (acc.out.map fun e => Json.mkObj [("url", e.url), ("method", e.method), ("contract", encContract e.contract)]).toArray)]

/-- op `c13.spec`: the declared contract of handler specifications (the right-hand side of C13_contract) -/
def c13Spec : Handler := fun j => do
  let out := (getListD j "handlers").map fun h =>
    let items := (getListD h "items").map decItem
    let ret := decRet ((h.getObjVal? "ret").toOption.getD Json.null)
    Json.mkObj [("contract", encContract (applyRet ret (applyItems items { name := getStrD h "name" }))),
      ("wf", items.all Item.wf && ret.wf)]
  return Json.mkObj [("contracts", Json.arr out.toArray)]

end Gomacro.Drv
