import Gomacro.Drv.Codec
import Gomacro.GoIdents
namespace Gomacro.Drv
open Lean Gomacro.IR Gomacro.GoIdents

/-- op `c01.idents`: identifiers the Go generators derive from an environment -/
def c01Idents : Handler := fun j => do
  let env ← decEnv (← getObj j "env")
  let nameOf (t : Ty) : String := match t with
    | .ref q => match env.find? q with | some d => d.name | none => q
    | _ => "?"
  let unions := env.decls.filterMap fun d => match d.body with
    | .union ms => if d.pkgPath == env.pkgPath then
        some (Json.mkObj [("union", d.name), ("wrapper", wrapperName d.name),
          ("kinds", strs (unionKindIdents d.name (ms.map nameOf)))]) else none
    | _ => none
  let enums := env.decls.filterMap fun d => match d.body with
    | .enum _ _ ms _ => some (Json.mkObj [("enum", d.q), ("fn", "rand" ++ randNamedID env.pkgPath d),
        ("choices", strs (enumChoices ms))])
    | _ => none
  let tables := env.source.filterMap fun t => match t with
    | .ref q => match env.find? q with
      | some d => match d.body with
        | .struct fs _ _ =>
          let cols := (fs.filter fun f => f.goExported).map (·.name)
          some (Json.mkObj [("table", d.name), ("pk", match pkAccessor cols with | some f => Json.str f | none => Json.null)])
        | _ => none
      | none => none
    | _ => none
  return Json.mkObj [("unions", Json.arr unions.toArray), ("enums", Json.arr enums.toArray), ("tables", Json.arr tables.toArray)]

end Gomacro.Drv
