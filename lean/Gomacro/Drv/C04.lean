import Gomacro.Drv.C03
import Gomacro.PgTables
import Gomacro.EndToEndSql
import Gomacro.PgParse
namespace Gomacro.Drv
open Lean Gomacro.IR Gomacro.GoJson Gomacro.PgGen Gomacro.PgTables

def triToJson : Option Tri → Json
  | some .tt => "true" | some .ff => "false" | some .nul => "null" | none => "error"

/-- op `c04.gen`: schema and validators of the model for every table struct of the source -/
def c04Gen : Handler := fun j => do
  let env ← decEnv (← getObj j "env")
  let tables := env.source.filterMap fun t => match t with
    | .ref q => (match env.find? q with
      | some d => (match d.body with | .struct fs _ _ => some (d, fs) | _ => none)
      | none => none)
    | _ => none
  let out := tables.map fun (d, fs) =>
    match columns env fs with
    | none => Json.mkObj [("name", d.name), ("diag", "a column type is refused")]
    | some cols =>
      let jsonCols := cols.filter fun c => c.sql == .json
      let comps := cols.filterMap fun c => match c.sql with
        | .composite q => (match env.find? q with
          | some cd => if cd.pkgPath == d.pkgPath then some (Json.mkObj [("name", cd.name), ("text", compositeDecl env q)]) else none
          | none => none)
        | _ => none
      Json.mkObj [("name", d.name), ("create", createTable env d.name cols),
        ("composites", Json.arr comps.toArray),
        ("fks", strs ((foreignKeys env d.name cols).map (foreignConstraint d.name))),
        ("json", Json.arr (jsonCols.map fun c =>
          let fs := funcsFrom env 24 c.ty
          Json.mkObj [("col", c.name), ("fn", fnName env c.ty), ("check", jsonCheck env d.name c),
            ("closed", Json.bool (closedScript fs)), ("consistent", Json.bool (consistentScript fs)),
            ("funcs", Json.arr (fs.map fun f => Json.mkObj [("id", f.name), ("text", printFunc f)]).toArray)]).toArray)]
  return Json.mkObj [("tables", Json.arr out.toArray)]

/-- op `c04.eval`: the CHECK of a jsonb column of Go type `type` on documents -/
def c04Eval : Handler := fun j => do
  let env ← decEnv (← getObj j "env")
  let t ← decTy (← getObj j "type")
  let script := funcsFrom env 24 t
  let fn := fnName env t
  let res := (getListD j "docs").map fun d => triToJson (call script 64 fn (some (jsonToJVal d)))
  return Json.mkObj [("results", Json.arr res.toArray), ("fn", fn)]

/-- op `c04.fragment`: is the program (with the script of all its jsonb columns) inside the fragment
of the end-to-end theorem `Props/C04E2E.lean`; which column types are covered; are the dumped values
well-typed -/
def c04Fragment : Handler := fun j => do
  let env ← decEnv (← getObj j "env")
  let w := decWrappers ((j.getObjVal? "wrappers").toOption.getD (Json.mkObj []))
  let colTys ← (getListD j "columns").mapM fun c => decTy c
  let script := (colTys.flatMap fun t => funcsFrom env 24 t)
  -- declarations reachable from the column types through what the validators look at
  let expand (vis : List String) : List String :=
    vis.foldl (fun acc q => match env.find? q with
      | none => acc
      | some d => ((E2ESql.sqlChildTys d).flatMap Ty.refs).foldl (fun a r => if a.contains r then a else a ++ [r]) acc) vis
  let rec reach : Nat → List String → List String
    | 0, v => v
    | n + 1, v => let v' := expand v; if v'.length == v.length then v else reach n v'
  let ds := (reach (env.decls.length + 1) ((colTys.flatMap Ty.refs).eraseDups)).filterMap env.find?
  let inFrag := E2ESql.fragmentSqlB env w script ds
  let bad := ds.filter fun d => !(E2ESql.declOkSql env w d) || !(E2ESql.providedSql env script d)
  let why := ds.flatMap fun d =>
    (if E2ESql.providedSql env script d then [] else ["script-does-not-provide-the-expected-validator(two types, one name)"]) ++
    (match d.body with
     | .named u =>
       (if w.nameds.contains d.q then (if E2ESql.declOkSql env w d then [] else ["named:wrapped-but-not-a-slice-or-map-of-unions"])
        else (if E2E.shapeOk u then [] else ["named:shape"]) ++ (if E2E.noUnion env u then [] else ["named:container-of-unions-without-methods"]) ++
          (if E2ESql.lensOk u then [] else ["named:array-length"])) ++
       (if fnName env (.ref d.q) == fnName env u then [] else ["named:validator-name"])
     | .enum _ bk ms _ => if E2ESql.enumOkSql bk ms then [] else ["enum:float-bool-or-literal-form"]
     | .struct fs _ _ =>
       let ser := E2E.serialised fs
       (if ser.all fun f => !(tagOptions f.tag).contains "string" then [] else ["struct:string-option"]) ++
       (if ser.all fun f => Tags.get f.tag "gomacro" != "ignore" then [] else ["struct:gomacro-ignore"]) ++
       (if ser.all fun f => (Tags.namePart (Tags.get f.tag "json") == "" || Tags.isValidTag (Tags.namePart (Tags.get f.tag "json"))) then [] else ["struct:invalid-json-name"]) ++
       (if ser.all fun f => E2E.shapeOk f.ty then [] else ["struct:field-shape"]) ++
       (if ser.all fun f => (isUnionTy env f.ty || E2E.noUnion env f.ty) then [] else ["struct:union-under-anonymous-container"]) ++
       (if ser.all fun f => !Tags.opaqueFor f.tag "typescript" then [] else ["struct:opaque-field"]) ++
       (if ser.all fun f => E2ESql.lensOk f.ty then [] else ["struct:array-length"]) ++
       (if (ser.map fun f => Tags.jsonName f.tag f.name).Nodup then [] else ["struct:duplicate-key"]) ++
       (if (ser.any (fun f => isUnionTy env f.ty)) && !w.structs.contains d.q then ["struct:no-generated-wrapper"] else [])
     | .union ms => if ms.all (fun m => E2E.noUnion env m && E2ESql.memberOkSql env m) then [] else ["union:member-may-encode-to-null-or-is-not-named"])
  let why := why.eraseDups
  let cols := colTys.map fun t =>
    Json.bool ((E2ESql.subTys t).all (E2ESql.scriptHas env script) && E2E.noUnion env t && E2E.shapeOk t && E2ESql.lensOk t)
  let vals ← (getListD j "values").mapM fun x => do
    let t ← decTy (← getObj x "type")
    let v ← decGoVal (← getObj x "val")
    pure (Json.bool (E2E.hasType env 64 t v))
  return Json.mkObj [("inFragment", Json.bool inFrag), ("outside", strs (bad.map (·.name))), ("why", strs why),
    ("columns", Json.arr cols.toArray), ("hasType", Json.arr vals.toArray)]

def decPgFunc (j : Json) : PgFunc :=
  let fn := getStrD j "fn"
  let pairs (k : String) : List (String × String) := (getListD j k).map fun p => (getStrD p "a", getStrD p "b")
  match getStrD j "k" with
  | "enum" => .enum fn (getStrD j "kind") (getBoolD j "isInt") (strList j "tuple") (getStrD j "typeId")
  | "array" => .array fn (getStrD j "elem") ((j.getObjValAs? Int "len").toOption.getD (-1))
  | "map" => .map fn (getStrD j "elem")
  | "struct" => .struct fn (pairs "fields")
  | "union" => .union fn (pairs "cases")
  | _ => .basic fn (getStrD j "kind")

/-- op `c04.evalReal`: a script given as template instances (recognised in the real text by the
harness): the text each instance prints to (the harness checks it is the real text, token for token)
and the CHECK of `fn` on documents -/
def c04EvalReal : Handler := fun j => do
  let script := (getListD j "funcs").map decPgFunc
  let fn := getStrD j "fn"
  let res := (getListD j "docs").map fun d => triToJson (call script 64 fn (some (jsonToJVal d)))
  return Json.mkObj [("texts", strs (script.map printFunc)), ("results", Json.arr res.toArray)]

/-- op `c04.evalAst`: the REAL text of the validators of a script, parsed (`PgParse`) and evaluated by
the semantics of the plpgsql fragment (`PgAst.evalFunc`) on documents; with `env` and `type`, the
tie with the model: which functions of the model's script for that column type have a syntax tree
(`PgAst.astOf`) different from the parsed real one -/
def c04EvalAst : Handler := fun j => do
  let texts := strList j "texts"
  let parsed := texts.map PgParse.parseFunc
  let funcs := parsed.filterMap fun p => match p with | .ok f => some f | .error _ => none
  let errs := (texts.zip parsed).filterMap fun (t, p) => match p with
    | .error e => some (e ++ " in: " ++ String.ofList (t.toList.take 120)) | .ok _ => none
  let fn := getStrD j "fn"
  let res := (getListD j "docs").map fun d => triToJson (PgAst.evalFunc funcs 64 fn (some (jsonToJVal d)))
  let tie ← match j.getObjVal? "env", j.getObjVal? "type" with
    | .ok e, .ok t => do
      let env ← decEnv e
      let ty ← decTy t
      let script := funcsFrom env 24 ty
      let diff := script.filter fun f => match funcs.find? (·.name == f.name) with
        | some g => !(PgParse.beqFunc g (PgAst.astOf f))
        | none => true
      pure (Json.mkObj [("differ", strs (diff.map (·.name))), ("wf", Json.bool (script.all PgAst.wf)),
        ("functions", Json.num script.length)])
    | _, _ => pure Json.null
  return Json.mkObj [("results", Json.arr res.toArray), ("parseErrors", strs errs), ("tie", tie)]

end Gomacro.Drv
