import Gomacro.Drv.C03
import Gomacro.PgTables
namespace Gomacro.Drv
open Lean Gomacro.IR Gomacro.GoJson Gomacro.PgGen Gomacro.PgTables

def triToJson : Option Tri → Json
  | some .tt => "true" | some .ff => "false" | some .nul => "null" | none => "error"

/-- op `c04.gen`: schema and validators of the model for every table struct of the source -/
def c04Gen : Handler := fun j => do
  let env ← decEnv (← getObj j "env")
  let tables := env.source.filterMap fun t => match t with
    | .ref q => (match env.find? q with
      | some d => (match d.body with | .struct fs _ _ => some (d, fs) | _ => none)
      | none => none)
    | _ => none
  let out := tables.map fun (d, fs) =>
    match columns env fs with
    | none => Json.mkObj [("name", d.name), ("diag", "a column type is refused")]
    | some cols =>
      let jsonCols := cols.filter fun c => c.sql == .json
      let comps := cols.filterMap fun c => match c.sql with
        | .composite q => (match env.find? q with
          | some cd => if cd.pkgPath == d.pkgPath then some (Json.mkObj [("name", cd.name), ("text", compositeDecl env q)]) else none
          | none => none)
        | _ => none
      Json.mkObj [("name", d.name), ("create", createTable env d.name cols),
        ("composites", Json.arr comps.toArray),
        ("fks", strs ((foreignKeys env d.name cols).map (foreignConstraint d.name))),
        ("json", Json.arr (jsonCols.map fun c =>
          let fs := funcsFrom env 24 c.ty
          Json.mkObj [("col", c.name), ("fn", fnName env c.ty), ("check", jsonCheck env d.name c),
            ("closed", Json.bool (closedScript fs)), ("consistent", Json.bool (consistentScript fs)),
            ("funcs", Json.arr (fs.map fun f => Json.mkObj [("id", f.name), ("text", printFunc f)]).toArray)]).toArray)]
  return Json.mkObj [("tables", Json.arr out.toArray)]

/-- op `c04.eval`: the CHECK of a jsonb column of Go type `type` on documents -/
def c04Eval : Handler := fun j => do
  let env ← decEnv (← getObj j "env")
  let t ← decTy (← getObj j "type")
  let script := funcsFrom env 24 t
  let fn := fnName env t
  let res := (getListD j "docs").map fun d => triToJson (call script 64 fn (some (jsonToJVal d)))
  return Json.mkObj [("results", Json.arr res.toArray), ("fn", fn)]

def decPgFunc (j : Json) : PgFunc :=
  let fn := getStrD j "fn"
  let pairs (k : String) : List (String × String) := (getListD j k).map fun p => (getStrD p "a", getStrD p "b")
  match getStrD j "k" with
  | "enum" => .enum fn (getStrD j "kind") (getBoolD j "isInt") (strList j "tuple") (getStrD j "typeId")
  | "array" => .array fn (getStrD j "elem") ((j.getObjValAs? Int "len").toOption.getD (-1))
  | "map" => .map fn (getStrD j "elem")
  | "struct" => .struct fn (pairs "fields")
  | "union" => .union fn (pairs "cases")
  | _ => .basic fn (getStrD j "kind")

/-- op `c04.evalReal`: a script given as template instances (recognised in the real text by the
harness): the text each instance prints to (the harness checks it is the real text, token for token)
and the CHECK of `fn` on documents -/
def c04EvalReal : Handler := fun j => do
  let script := (getListD j "funcs").map decPgFunc
  let fn := getStrD j "fn"
  let res := (getListD j "docs").map fun d => triToJson (call script 64 fn (some (jsonToJVal d)))
  return Json.mkObj [("texts", strs (script.map printFunc)), ("results", Json.arr res.toArray)]

end Gomacro.Drv
