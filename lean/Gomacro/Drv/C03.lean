import Gomacro.Drv.Sem
import Gomacro.TsGen
import Gomacro.EndToEnd
import Gomacro.RoundTrip
namespace Gomacro.Drv
open Lean Gomacro.IR Gomacro.GoJson Gomacro.TsGen

/-- op `c03.gen`: the TypeScript declarations of the model (ID, printed text), closure flag -/
def c03Gen : Handler := fun j => do
  let env ← decEnv (← getObj j "env")
  let decls := generate env
  return Json.mkObj [
    ("decls", Json.arr (decls.map fun (id, d) => Json.mkObj [("id", id), ("text", printDecl d)]).toArray),
    ("closedOnce", Json.bool (closedOnce decls)),
    ("closedReport", strs (
      let byId := decls.foldl (fun acc (p : String × TsDecl) => if acc.any (·.1 == p.1) then acc else acc ++ [p]) []
      let tenv := tsEnvOf byId
      let names := tenv.map (·.1)
      (tenv.flatMap fun (n, t) => ((tyNames t).filter fun m => !names.contains m).map fun m => "undeclared " ++ m ++ " (in " ++ n ++ ")") ++
      (names.filter fun n => names.count n > 1).eraseDups.map fun n => "declared twice " ++ n))]

partial def jsonToJVal : Json → JVal
  | .null => .null
  | .bool b => .bool b
  | .num n => .num (toString n)
  | .str s => .str s
  | .arr a => .arr (a.toList.map jsonToJVal)
  | .obj kvs => .obj (kvs.toList.map fun (k, v) => (k, jsonToJVal v))

/-- op `c03.check`: do the documents Go emits inhabit the generated type of their Go type? -/
def c03Check : Handler := fun j => do
  let env ← decEnv (← getObj j "env")
  let w := decWrappers ((j.getObjVal? "wrappers").toOption.getD (Json.mkObj []))
  let tenv := tsEnvOf (generate env)
  let res ← (getListD j "values").mapM fun x => do
    let t ← decTy (← getObj x "type")
    -- the real document when given, the model's encoding of the dumped value otherwise
    let doc ← match x.getObjVal? "doc" with
      | .ok d => pure (jsonToJVal d)
      | .error _ => do
        let v ← decGoVal (← getObj x "val")
        pure (encode env w 64 false t v)
    pure (Json.bool (inhabits tenv 64 (refTy env t) doc))
  return Json.mkObj [("inhabits", Json.arr res.toArray)]

/-- a TypeScript type sent by the harness (parsed from the real text) -/
partial def decTsType (j : Json) : Except String TsType := do
  match getStrD j "k" with
  | "str" => pure .str
  | "num" => pure .num
  | "bool" => pure .bool
  | "null" => pure .null
  | "unknown" => pure .unknown
  | "never" => pure .never
  | "litStr" => pure (.litStr (getStrD j "s"))
  | "litNum" => pure (.litNum (getStrD j "s"))
  | "litBool" => pure (.litBool (getBoolD j "b"))
  | "arr" => do pure (.arr (← decTsType (← getObj j "e")))
  | "tuple" => do pure (.tuple (← (getListD j "es").mapM decTsType))
  | "record" => do pure (.record (← decTsType (← getObj j "key")) (← decTsType (← getObj j "v")))
  | "union" => do pure (.union (← (getListD j "ts").mapM decTsType))
  | "obj" => do
    let fs ← (getListD j "fields").mapM fun f => do
      match f with
      | .arr #[k, t] => do pure ((k.getStr?).toOption.getD "?", ← decTsType t)
      | _ => throw "bad object field"
    pure (.obj fs)
  | "ref" => pure (.ref (getStrD j "name"))
  | "brand" => do pure (.brand (← decTsType (← getObj j "base")) (getStrD j "tag"))
  | k => throw ("bad TypeScript type kind " ++ k)

/-- op `c03.checkReal`: the documents checked against the type environment DECLARED BY THE REAL TEXT
(parsed by the harness), the root being the name the model says the Go type is referred to by -/
def c03CheckReal : Handler := fun j => do
  let env ← decEnv (← getObj j "env")
  let tenv ← (getListD j "tenv").mapM fun e => do
    match e with
    | .arr #[n, t] => do pure ((n.getStr?).toOption.getD "?", ← decTsType t)
    | _ => throw "bad environment entry"
  let res ← (getListD j "values").mapM fun x => do
    let t ← decTy (← getObj x "type")
    let doc ← match x.getObjVal? "doc" with
      | .ok d => pure (jsonToJVal d)
      | .error _ => throw "no document"
    pure (Json.bool (inhabits tenv 64 (refTy env t) doc))
  -- the names declared twice, and the names mentioned but not declared, in the real environment
  let names := tenv.map (·.1)
  let dup := names.filter fun n => (names.filter (· == n)).length > 1
  let missing := (tenv.flatMap fun (_, t) => tyNames t).filter fun n => !names.contains n
  return Json.mkObj [("inhabits", Json.arr res.toArray), ("duplicates", strs dup.eraseDups), ("undeclared", strs missing.eraseDups)]

/-- op `c03.fragment`: is the program inside the fragment of the end-to-end theorem
(`Props/C03E2E.lean`), and are the dumped values well-typed in the sense of its hypothesis? -/
def c03Fragment : Handler := fun j => do
  let env ← decEnv (← getObj j "env")
  let w := decWrappers ((j.getObjVal? "wrappers").toOption.getD (Json.mkObj []))
  let decls := generate env
  let byId := decls.foldl (fun acc (p : String × TsDecl) => if acc.any (·.1 == p.1) then acc else acc ++ [p]) []
  let tenv := tsEnvOf byId
  let start := (env.source.flatMap Ty.refs).eraseDups
  let ds := (reachAux env (env.decls.length + 1) start).filterMap env.find?
  let bad := ds.filter fun d => !(E2E.declOk env w d) ||
    !((E2E.needed env d).all fun p => E2E.lookupIs tenv p.1 p.2)
  let vals ← (getListD j "values").mapM fun x => do
    let t ← decTy (← getObj x "type")
    let v ← decGoVal (← getObj x "val")
    pure (Json.bool (E2E.hasType env 64 t v))
  return Json.mkObj [("inFragment", Json.bool (E2E.fragmentB env w tenv ds)),
    ("outside", strs (bad.map (·.name))), ("nameds", Json.bool w.nameds.isEmpty),
    ("hasType", Json.arr vals.toArray)]

/-- why a declaration is outside the fragment (reporting only) -/
def declWhy (env : IR.Env) (w : Wrappers) (d : IR.Decl) : List String :=
  match d.body with
  | .named u =>
    (if E2E.shapeOk u then [] else ["named:shape"]) ++ (if E2E.noUnion env u then [] else ["named:container-of-unions"]) ++
    (match u with | .basic _ .int => [] | _ => if d.name != refName env u then [] else ["named:same-name-as-underlying"])
  | .enum _ _ _ _ => []
  | .struct fs _ _ =>
    let ser := E2E.serialised fs
    (if fs.isEmpty then ["struct:empty"] else []) ++
    (if ser.all fun f => !(tagOptions f.tag).contains "omitempty" then [] else ["struct:omitempty"]) ++
    (if ser.all fun f => !(tagOptions f.tag).contains "string" then [] else ["struct:string-option"]) ++
    (if ser.all fun f => Tags.get f.tag "gomacro" != "ignore" then [] else ["struct:gomacro-ignore"]) ++
    (if ser.all fun f => (Tags.namePart (Tags.get f.tag "json") == "" || Tags.isValidTag (Tags.namePart (Tags.get f.tag "json"))) then [] else ["struct:invalid-json-name"]) ++
    (if ser.all fun f => E2E.shapeOk f.ty then [] else ["struct:field-shape"]) ++
    (if ser.all fun f => (isUnionTy env f.ty || E2E.noUnion env f.ty) then [] else ["struct:union-under-anonymous-container"]) ++
    (if (ser.map fun f => Tags.jsonName f.tag f.name).Nodup then [] else ["struct:duplicate-key"]) ++
    (if (ser.map (·.name)).Nodup then [] else ["struct:duplicate-field-name"]) ++
    (if (ser.any (fun f => isUnionTy env f.ty)) && !w.structs.contains d.q then ["struct:no-generated-wrapper"] else [])
  | .union ms =>
    (if ms.all fun m => E2E.noUnion env m && (match m with | .ref _ => true | _ => false) then [] else ["union:member-not-a-plain-named-type"]) ++
    (if (ms.map (E2E.localNameOf env)).Nodup then [] else ["union:two-members-one-name"])

/-- why a declaration is outside the larger fragment (reporting only) -/
def declWhyN (env : IR.Env) (w : Wrappers) (d : IR.Decl) : List String :=
  match d.body with
  | .named u =>
    if w.nameds.contains d.q then (if RoundTrip.declOkN env w d then [] else ["named:wrapped-but-not-a-slice-or-map-of-unions"])
    else (if RoundTrip.shapeRT u then [] else ["named:shape"]) ++ (if E2E.noUnion env u then [] else ["named:container-of-unions-without-methods"])
  | .enum _ _ _ _ => []
  | .struct fs _ _ =>
    let ser := E2E.serialised fs
    (if ser.all fun f => !(tagOptions f.tag).contains "string" || Unquote.stringOk env f.ty then [] else ["struct:string-option-on-a-type-the-model-does-not-decide"]) ++
    (if ser.all fun f => (Tags.namePart (Tags.get f.tag "json") == "" || Tags.isValidTag (Tags.namePart (Tags.get f.tag "json"))) then [] else ["struct:invalid-json-name"]) ++
    (if ser.all fun f => RoundTrip.shapeRT f.ty then [] else ["struct:field-shape"]) ++
    (if ser.all fun f => (isUnionTy env f.ty || E2E.noUnion env f.ty) then [] else ["struct:union-under-anonymous-container"]) ++
    (if (ser.map fun f => Tags.jsonName f.tag f.name).Nodup then [] else ["struct:duplicate-key"]) ++
    (if (ser.map (·.name)).Nodup then [] else ["struct:duplicate-field-name"]) ++
    (if (ser.any (fun f => isUnionTy env f.ty)) && !w.structs.contains d.q then ["struct:no-generated-wrapper"] else [])
  | .union ms =>
    (if ms.all fun m => E2E.noUnion env m && (match m with | .ref _ => true | _ => false) then [] else ["union:member-not-a-plain-named-type"]) ++
    (if (ms.map (E2E.localNameOf env)).Nodup then [] else ["union:two-members-one-name"])

/-- op `c02.roundtrip`: is the program inside the fragment of the round-trip theorem
(`Props/C02E2E.lean`), are the dumped values (without the fields encoding/json never writes)
strictly typed, and the instance of the theorem evaluated: decode (encode v) = some v -/
def c02RoundTrip : Handler := fun j => do
  let env ← decEnv (← getObj j "env")
  let w := decWrappers ((j.getObjVal? "wrappers").toOption.getD (Json.mkObj []))
  let start := (env.source.flatMap Ty.refs).eraseDups
  let ds := env.decls
  let reach := (reachAux env (env.decls.length + 1) start).filterMap env.find?
  let bad := ds.filter fun d => !(E2E.declOk env w d)
  let vals ← (getListD j "values").mapM fun x => do
    let t ← decTy (← getObj x "type")
    let v ← decGoVal (← getObj x "val")
    let sv := RoundTrip.strip env 64 t v
    let typed := RoundTrip.wt env 64 t sv
    let back := RoundTrip.decode env w 64 false t (encode env w 64 false t sv)
    let same := match back with | some b => RoundTrip.goValBeq b sv | none => false
    let sameN := match back with | some b => RoundTrip.eqNil sv b | none => false
    pure (Json.mkObj [("wt", Json.bool typed), ("same", Json.bool same), ("sameModNil", Json.bool sameN), ("decoded", Json.bool back.isSome)])
  let badN := ds.filter fun d => !(RoundTrip.declOkN env w d)
  return Json.mkObj [("inFragment", Json.bool (RoundTrip.fragmentRTB env w ds)),
    ("inFragmentN", Json.bool (RoundTrip.fragmentNB env w ds)),
    ("outsideN", strs (badN.map (·.name))),
    ("whyN", strs ((ds.flatMap (declWhyN env w)).eraseDups ++
      (if ds.all (fun d => ((RoundTrip.rtChildTys d).flatMap Ty.refs).all fun q => ds.any fun d' => d'.q == q) then [] else ["not-closed"]))),
    ("reachableInFragment", Json.bool (RoundTrip.fragmentRTB env w reach)),
    ("outside", strs (bad.map (·.name))), ("nameds", Json.bool w.nameds.isEmpty),
    ("why", strs ((ds.flatMap (declWhy env w)).eraseDups ++ (if w.nameds.isEmpty then [] else ["named-container-of-unions-wrapped"]) ++
      (if ds.all (fun d => ((RoundTrip.rtChildTys d).flatMap Ty.refs).all fun q => ds.any fun d' => d'.q == q) then [] else ["not-closed"]))),
    ("values", Json.arr vals.toArray)]

end Gomacro.Drv
