import Gomacro.Drv.Sem
import Gomacro.TsGen
namespace Gomacro.Drv
open Lean Gomacro.IR Gomacro.GoJson Gomacro.TsGen

/-- op `c03.gen`: the TypeScript declarations of the model (ID, printed text), closure flag -/
def c03Gen : Handler := fun j => do
  let env ← decEnv (← getObj j "env")
  let decls := generate env
  return Json.mkObj [
    ("decls", Json.arr (decls.map fun (id, d) => Json.mkObj [("id", id), ("text", printDecl d)]).toArray),
    ("closedOnce", Json.bool (closedOnce decls)),
    ("closedReport", strs (
      let byId := decls.foldl (fun acc (p : String × TsDecl) => if acc.any (·.1 == p.1) then acc else acc ++ [p]) []
      let tenv := tsEnvOf byId
      let names := tenv.map (·.1)
      (tenv.flatMap fun (n, t) => ((tyNames t).filter fun m => !names.contains m).map fun m => "undeclared " ++ m ++ " (in " ++ n ++ ")") ++
      (names.filter fun n => names.count n > 1).eraseDups.map fun n => "declared twice " ++ n))]

partial def jsonToJVal : Json → JVal
  | .null => .null
  | .bool b => .bool b
  | .num n => .num (toString n)
  | .str s => .str s
  | .arr a => .arr (a.toList.map jsonToJVal)
  | .obj kvs => .obj (kvs.toList.map fun (k, v) => (k, jsonToJVal v))

/-- op `c03.check`: do the documents Go emits inhabit the generated type of their Go type? -/
def c03Check : Handler := fun j => do
  let env ← decEnv (← getObj j "env")
  let w := decWrappers ((j.getObjVal? "wrappers").toOption.getD (Json.mkObj []))
  let tenv := tsEnvOf (generate env)
  let res ← (getListD j "values").mapM fun x => do
    let t ← decTy (← getObj x "type")
    -- the real document when given, the model's encoding of the dumped value otherwise
    let doc ← match x.getObjVal? "doc" with
      | .ok d => pure (jsonToJVal d)
      | .error _ => do
        let v ← decGoVal (← getObj x "val")
        pure (encode env w 64 false t v)
    pure (Json.bool (inhabits tenv 64 (refTy env t) doc))
  return Json.mkObj [("inhabits", Json.arr res.toArray)]

end Gomacro.Drv
