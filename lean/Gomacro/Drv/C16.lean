import Gomacro.Drv.Util
import Gomacro.SqlText
namespace Gomacro.Drv
open Lean Gomacro.SqlText

def cs (s : String) : List Char := s.toList
def sc (l : List Char) : String := String.ofList l

def litOf (j : Json) (t v : List Char) : Option (List Char) :=
  match j.getObjVal? (sc t ++ "." ++ sc v) with
  | .ok (Json.str s) => some (cs s)
  | _ => none

def c16Words : Handler := fun j => do
  let tables ← getStrList j "tables"
  let s ← getStr j "s"
  return Json.mkObj [("out", sc (replaceWords (tableReplacer (tables.map cs)) (cs s)))]

def c16Snake : Handler := fun j => do
  let s ← getStr j "s"
  return Json.mkObj [("out", sc (toSnakeCase (cs s))), ("table", sc (sqlTableName (cs s)))]

def c16Constraint : Handler := fun j => do
  let tables ← getStrList j "tables"
  let owner ← getStr j "owner"
  let content ← getStr j "content"
  let enums := (j.getObjVal? "enums").toOption.getD (Json.mkObj [])
  match customConstraint (tables.map cs) (litOf enums) (cs owner) (cs content) with
  | some out => return Json.mkObj [("out", sc out)]
  | none => return Json.mkObj [("diag", "unknown enum placeholder")]

def c16Guard : Handler := fun j => do
  let owner ← getStr j "owner"
  let col ← getStr j "column"
  let value ← getStr j "value"
  let enums := (j.getObjVal? "enums").toOption.getD (Json.mkObj [])
  match guardConstraints (litOf enums) (cs owner) (cs col) (cs value) with
  | some out => return Json.mkObj [("out", strs (out.map sc))]
  | none => return Json.mkObj [("diag", "unknown enum placeholder")]

def c16Classify : Handler := fun j => do
  let comments ← getStrList j "comments"
  let c := classify (comments.map cs)
  let ll (x : List (List Char)) : Json := strs (x.map sc)
  return Json.mkObj [("constraints", ll c.constraints), ("uniqueColumns", ll c.uniqueColumns),
    ("uniquesCols", Json.arr (c.uniquesCols.map ll).toArray), ("selectKeys", Json.arr (c.selectKeys.map ll).toArray)]

def c16One : Handler := fun j => do
  let s ← getStr j "s"
  return Json.mkObj [("uniques", strs ((uniquesConstraint (cs s)).map sc)), ("selectKey", strs ((selectKey (cs s)).map sc))]

def c16Query : Handler := fun j => do
  let comment ← getStr j "comment"
  let q := customQuery (cs comment)
  return Json.mkObj [("goName", sc q.goName), ("query", sc q.query),
    ("inputs", Json.arr (q.inputs.map fun (f, v) => Json.mkObj [("field", sc f), ("var", sc v)]).toArray)]

end Gomacro.Drv
