import Gomacro.Drv.Util
import Gomacro.Tags
namespace Gomacro.Drv
open Lean Gomacro.Tags

/-- op `c09.field`: field rules of the model and of the encoding/json specification -/
def c09Field : Handler := fun j => do
  let tag ← getStr j "tag"
  let name ← getStr j "name"
  let exp ← getBool j "goExported"
  let key := match goJsonKey tag name exp with
    | some k => Json.str k
    | none => Json.null
  return Json.mkObj [("jsonName", jsonName tag name), ("jsonNameOld", jsonNameOld tag name),
    ("exported", exported tag exp), ("goJsonKey", key),
    ("get_json", get tag "json"), ("get_gomacro", get tag "gomacro"),
    ("opaque_ts", opaqueFor tag "typescript"), ("opaque_dart", opaqueFor tag "dart")]

end Gomacro.Drv
