import Gomacro.Drv.Util
import Gomacro.Decls
namespace Gomacro.Drv
open Lean Gomacro.Decls

def parseDecl (j : Json) : Except String Decl := do
  return { id := ← getStr j "id", content := ← getStr j "content", prio := ← getBool j "prio" }

def consistentB (l : List Decl) : Bool :=
  l.all fun a => l.all fun b => a.id != b.id || a.content == b.content

/-- op `c19.write`: model output, independent spec, and whether the proviso holds -/
def c19Write : Handler := fun j => do
  let ds ← (← getList j "decls").mapM parseDecl
  return Json.mkObj [("out", Json.str (writeDecls ds)), ("spec", Json.str (spec ds)),
    ("consistent", Json.bool (consistentB ds))]

end Gomacro.Drv
