/-!
# Model of `analysis/httpapi` (ParseEcho): route extraction from Echo-style route files

The Go syntax tree is a rose tree of attributed nodes, children in `ast.Inspect` order; what go/types
answers (type of an identifier / expression, constant value of an expression, the object behind an
identifier) is carried as attributes (TRUSTED: computed by the translator with go/types).
The model is the traversal and decision logic of `echoExtractor.extract`, `parseEndpointFunc`,
`newContractFromEchoBody`, `parseAssignments`, `parseReturnStmt`, `parseCallWithString`,
`parseFormValueJSON`, `tryParseBindCall`. A Go panic is the sticky flag `crashed`.
-/
namespace Gomacro.HttpApi

inductive Kind
  | call | sel | ident | index | addr | composite | funcLit | assign | ret | other
  deriving DecidableEq, Repr, Inhabited

/-- the object an identifier resolves to (`resolveIdentifier`) -/
inductive Obj
  | pkgName (path : String)
  /-- variable whose type, after one pointer dereference, is the named type `pkg.name` -/
  | var (pkg name : String)
  | func (pkg name : String)
  | none
  deriving DecidableEq, Repr, Inhabited

structure Attr where
  kind : Kind := .other
  /-- selector name / identifier name -/
  name : String := ""
  /-- `TypeOf(node)` (for identifiers: the type of the resolved object, "" = unresolved; for
  composite literals: the type of the literal's type expression) -/
  ty : String := ""
  /-- first component when `ty` is a tuple, else "" -/
  ty0 : String := ""
  /-- element type when `ty` is a pointer, else "" -/
  elem : String := ""
  /-- value when the expression is a string constant -/
  cst : Option String := none
  obj : Obj := .none
  pos : Nat := 0
  /-- assignments: number of left-hand sides (children = lhs ++ rhs) -/
  nlhs : Nat := 0
  deriving Repr, Inhabited

inductive Node
  | mk (a : Attr) (children : List Node)
  deriving Repr, Inhabited

def Node.a : Node → Attr | .mk a _ => a
def Node.children : Node → List Node | .mk _ c => c
def Node.kind (n : Node) : Kind := n.a.kind

structure Contract where
  name : String
  input : String := ""
  ret : String := ""
  blob : Bool := false
  query : List (String × String) := []
  formValues : List String := []
  formFile : String := ""
  formJSON : Option (String × String) := none
  crashed : Bool := false
  deriving DecidableEq, Repr

inductive Found
  | none | crash | found (name ty : String)
  deriving DecidableEq, Repr

/-- name of the called function: `x.Name` or `Name`; `f[T]` is unwrapped when asked -/
def calleeName (fn : Node) (unwrapIndex : Bool) : Option String :=
  let f := if unwrapIndex && fn.kind = .index then fn.children.headD fn else fn
  if f.kind = .sel ∨ f.kind = .ident then some f.a.name else none

/-- `parseCallWithString` -/
def callWithString (rh : Node) (m : String) : Found :=
  if rh.kind ≠ .call then .none else
  match rh.children with
  | [] => .none
  | fn :: args =>
    match calleeName fn true with
    | none => .none
    | some n =>
      if n ≠ m then .none else
      let arg := if args.length = 1 then args[0]? else if args.length = 2 then args[1]? else none
      match arg with
      | none => .crash       -- nil expression dereferenced
      | some a =>
        match a.a.cst with
        | none => .crash
        | some s => .found s (if rh.a.ty0 ≠ "" then rh.a.ty0 else rh.a.ty)

/-- `parseFormValueJSON` -/
def formValueJSON (rh : Node) : Found :=
  if rh.kind ≠ .call then .none else
  match rh.children with
  | [] => .none
  | fn :: args =>
    match calleeName fn false with
    | none => .none
    | some n =>
      if n ≠ "FormValueJSON" then .none else
      match args with
      | [_, arg, dst] =>
        (match arg.a.cst with
        | none => .crash
        | some s => if dst.a.elem = "" then .crash else .found s dst.a.elem)
      | _ => .crash

/-- `tryParseBindCall` / `resolveBindTarget`: the type of the bound variable -/
def bindCall (rh : Node) : Found :=
  if rh.kind ≠ .call then .none else
  match rh.children with
  | [fn, arg] =>
    if fn.kind = .sel ∧ fn.a.name = "Bind" then
      if arg.kind = .ident then
        -- a pointer variable: the body is the pointed value
        (if arg.a.ty = "" then .crash else .found "" (if arg.a.elem ≠ "" then arg.a.elem else arg.a.ty))
      else if arg.kind = .addr then
        (match arg.children with
        | [x] => if x.kind = .ident then (if x.a.ty = "" then .crash else .found "" x.a.ty) else .crash
        | _ => .crash)
      else .crash
    else .none
  | _ => .none

def Contract.crash (c : Contract) : Contract := { c with crashed := true }

def addQuery (f : Found) (c : Contract) : Contract :=
  match f with
  | .none => c
  | .crash => c.crash
  | .found n ty => if n = "" then c else { c with query := c.query ++ [(n, ty)] }

/-- `parseAssignments`, one right-hand side -/
def parseAssign (rh : Node) (c : Contract) : Contract :=
  let c := match bindCall rh with
    | .none => c | .crash => c.crash | .found _ ty => { c with input := ty }
  let c := addQuery (callWithString rh "QueryParam") c
  let c := addQuery (callWithString rh "QueryParamBool") c
  let c := addQuery (callWithString rh "QueryParamInt") c
  let c := addQuery (callWithString rh "QueryParamInt64") c
  let c := match callWithString rh "FormValue" with
    | .none => c | .crash => c.crash
    | .found n _ => if n = "" then c else { c with formValues := c.formValues ++ [n] }
  let c := match callWithString rh "FormFile" with
    | .none => c | .crash => c.crash
    | .found n _ => if n = "" then c else { c with formFile := n }
  match formValueJSON rh with
    | .none => c | .crash => c.crash
    | .found n ty => if n = "" then c else { c with formJSON := some (n, ty) }

/-- `parseReturnStmt` on the results of a return statement -/
def parseReturn (results : List Node) (c : Contract) : Contract :=
  match results with
  | [r] =>
    if r.kind ≠ .call then c else
    match r.children with
    | [] => c
    | fn :: args =>
      if fn.kind ≠ .sel then c else
      if fn.a.name = "JSON" ∨ fn.a.name = "JSONPretty" then
        (match args with
        | _ :: o :: _ =>
          if o.kind = .ident then (if o.a.ty = "" then c.crash else { c with ret := o.a.ty })
          else if o.kind = .composite then { c with ret := o.a.ty }
          else c.crash
        | _ => c)
      else if fn.a.name = "Blob" then
        (match args with
        | _ :: _ :: o :: _ =>
          if o.kind = .ident then (if o.a.ty = "" then c.crash else { c with ret := o.a.ty, blob := true })
          else c.crash
        | _ => c)
      else c
  | _ => c.crash

def parseRhs (rhs : List Node) (c : Contract) : Contract := rhs.foldl (fun c rh => parseAssign rh c) c

mutual
/-- `newContractFromEchoBody`: pre-order traversal; return and assignment statements are parsed
and not descended into -/
def body : Node → Contract → Contract
  | .mk a cs, c =>
    if a.kind = .ret then parseReturn cs c
    else if a.kind = .assign then parseRhs (cs.drop a.nlhs) c
    else bodyList cs c
def bodyList : List Node → Contract → Contract
  | [], c => c
  | n :: ns, c => bodyList ns (body n c)
end

/-! ### file level -/

structure Endpoint where
  url : String
  method : String
  contract : Contract
  deriving DecidableEq, Repr

/-- declared functions and methods: (package path, receiver type name or "", name) ↦ body -/
abbrev Funcs := List ((String × String × String) × Node)

def isVerb (s : String) : Bool := s = "GET" || s = "PUT" || s = "POST" || s = "DELETE"

/-- `parseEndpointFunc`: body and name of the handler; `none` = panic -/
def resolveHandler (fs : Funcs) (h : Node) : Option (Node × String) :=
  if h.kind = .sel then
    match h.children with
    | x :: _ =>
      if x.kind = .ident then
        match x.a.obj with
        | .pkgName p => (fs.lookup (p, "", h.a.name)).map fun b => (b, h.a.name)
        | .var p t => (fs.lookup (p, t, h.a.name)).map fun b => (b, h.a.name)
        | _ => none
      else none
    | [] => none
  else if h.kind = .ident then
    match h.a.obj with
    | .func p n => (fs.lookup (p, "", n)).map fun b => (b, n)
    | _ => none
  else if h.kind = .funcLit then
    (h.children.getLast?).map fun b => (b, "Anonymous" ++ toString h.a.pos)
  else none

structure Acc where
  out : List Endpoint := []
  crashed : Bool := false
  deriving Repr

/-- the `.VERB(url, handler, …)` test of `extract` -/
def verbCall (a : Attr) (cs : List Node) : Option (String × Node × Node) :=
  if a.kind ≠ .call then none else
  match cs with
  | fn :: url :: h :: _ => if fn.kind = .sel ∧ isVerb fn.a.name then some (fn.a.name, url, h) else none
  | _ => none

def register (fs : Funcs) (pre : String) (verb : String) (url h : Node) (acc : Acc) : Acc :=
  match url.a.cst with
  | none => { acc with crashed := true }
  | some path =>
    if pre ≠ "" ∧ !path.startsWith pre then acc else
    match resolveHandler fs h with
    | none => { acc with crashed := true }
    | some (b, name) =>
      let c := body b { name := name }
      { out := acc.out ++ [⟨path, verb, c⟩], crashed := acc.crashed || c.crashed }

mutual
/-- `echoExtractor.extract`: pre-order; a registration is not descended into -/
def scan (fs : Funcs) (pre : String) : Node → Acc → Acc
  | .mk a cs, acc =>
    match verbCall a cs with
    | some (verb, url, h) => register fs pre verb url h acc
    | none => scanList fs pre cs acc
def scanList (fs : Funcs) (pre : String) : List Node → Acc → Acc
  | [], acc => acc
  | n :: ns, acc => scanList fs pre ns (scan fs pre n acc)
end

def extract (fs : Funcs) (pre : String) (file : Node) : Acc := scan fs pre file {}

end Gomacro.HttpApi
