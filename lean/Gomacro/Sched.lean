/-
Model of `generator.Formatters` (generator/formatters.go): N goroutines calling
`FormatFile(format, file)` on one shared cache.

  hasX():  lock.Lock(); defer lock.Unlock()
           if cell == nil { err := probe(); cell = &(err == nil) }
           return *cell
  FormatFile: if hasX() { return run(tool) }; return nil

Threads are natural numbers; thread `i` performs one request for tool `req i`
(several requests of one goroutine = several thread ids). A schedule is a list of thread ids;
a scheduled thread whose next step is blocked (mutex taken) leaves the state unchanged.
-/
namespace Gomacro.Sched

inductive Tool | go | dart | ts | psql
deriving DecidableEq, Repr

inductive Pc
  | idle                    -- before lock.Lock()
  | locked                  -- holds the mutex, about to read the cell
  | probing                 -- cell was nil: about to run the probe command
  | writing (r : Bool)      -- probe returned r: about to write the cell
  | unlocking (has : Bool)  -- value known: deferred Unlock() pending
  | deciding (has : Bool)   -- mutex released: about to run the formatter or return nil
  | done (err : Bool)       -- FormatFile returned (err = returned a non-nil error)
deriving DecidableEq, Repr

/-- the environment: which probe commands succeed and which formatter runs succeed -/
structure Cfg where
  installed : Tool → Bool
  runOk : Tool → Bool
  req : Nat → Tool

structure St where
  lock : Option Nat
  cell : Tool → Option Bool
  pc : Nat → Pc
  probes : Tool → Nat      -- number of executions of the probe command, per tool
  runs : Nat → Nat         -- number of formatter executions, per request

def init : St :=
  { lock := none, cell := fun _ => none, pc := fun _ => .idle, probes := fun _ => 0, runs := fun _ => 0 }

def setPc (s : St) (i : Nat) (p : Pc) : St :=
  { s with pc := fun j => if j = i then p else s.pc j }

/-- shared-memory accesses performed by a step, with the mutex owner at that moment -/
inductive Access
  | read (tid : Nat) (t : Tool) (lockOwner : Option Nat)
  | write (tid : Nat) (t : Tool) (lockOwner : Option Nat)

/-- one step of thread `i` (identity if blocked or finished) -/
def step (c : Cfg) (s : St) (i : Nat) : St :=
  match s.pc i with
  | .idle => if s.lock = none then setPc { s with lock := some i } i .locked else s
  | .locked =>
    match s.cell (c.req i) with
    | none => setPc s i .probing
    | some b => setPc s i (.unlocking b)
  | .probing =>
    setPc { s with probes := fun t => if t = c.req i then s.probes t + 1 else s.probes t } i
      (.writing (c.installed (c.req i)))
  | .writing r =>
    setPc { s with cell := fun t => if t = c.req i then some r else s.cell t } i (.unlocking r)
  | .unlocking has => setPc { s with lock := none } i (.deciding has)
  | .deciding has =>
    if has then
      setPc { s with runs := fun j => if j = i then s.runs j + 1 else s.runs j } i
        (.done (!c.runOk (c.req i)))
    else setPc s i (.done false)
  | .done _ => s

/-- the cell access a step performs, if any -/
def access (c : Cfg) (s : St) (i : Nat) : Option Access :=
  match s.pc i with
  | .locked => some (.read i (c.req i) s.lock)
  | .writing _ => some (.write i (c.req i) s.lock)
  | _ => none

def run (c : Cfg) (s : St) (sched : List Nat) : St := sched.foldl (step c) s

def Reachable (c : Cfg) (s : St) : Prop := ∃ sched, s = run c init sched

end Gomacro.Sched
