import Gomacro.PgGen
import Gomacro.SqlText
/-!
Model of analysis/sql (newType, NewTable, Primary, ForeignKeys) and generator/sql/tables.go
(CREATE TABLE / CREATE TYPE / jsonb CHECK / FOREIGN KEY statements).  Custom constraints and
guards are C16's (Gomacro/SqlText.lean).
-/
namespace Gomacro.PgTables
open Gomacro.IR Gomacro.PgGen

inductive SqlType
  | builtin (name : String) (nullable : Bool)
  | enum (q : String)
  | array (elemName : String) (len : Int)
  | composite (q : String)
  | json
deriving Repr, Inhabited, DecidableEq

/-- `basicTypeName` -/
def basicTypeName (goName : String) (bk : BKind) : String :=
  match bk with
  | .bool => "boolean"
  | .int => if goName == "int16" || goName == "uint8" || goName == "byte" then "smallint" else "integer"
  | .float => "real"
  | .str => "text"
  | .none => "text"      -- NewBasicKind fails with kind 0 = BKString

def isInt64 (env : Env) : Nat → Ty → Bool
  | 0, _ => false
  | _ + 1, .basic n _ => n == "int64"
  | f + 1, .ref q => (match env.find? q with
    | some d => (match d.body with
      | .named u => isInt64 env f u
      | .enum u _ _ _ => u == "int64"
      | _ => false)
    | none => false)
  | _ + 1, _ => false

/-- `IsNullXXX`: a struct of two fields one of which is `Valid bool`; returns the data field -/
def nullXXX (fs : List Field) : Option Field :=
  match fs with
  | [a, b] =>
    let isValid (f : Field) : Bool := f.name == "Valid" && (match f.ty with | .basic n .bool => n == "bool" | _ => false)
    if isValid a then some b else if isValid b then some a else none
  | _ => none

def timeName (isDate : Bool) : String := if isDate then "date" else "timestamp (0) with time zone"

/-- a type resolves (through named types) to an integer basic or an integer enum -/
def isIntField (env : Env) (t : Ty) : Bool :=
  match t with
  | .basic _ .int => true
  | .ref q => (match env.find? q with
    | some d => (match d.body with | .enum _ .int _ _ => true | _ => false)
    | none => false)
  | _ => false

/-- `newType`; `none` = diagnostic (pointer) -/
def newType (env : Env) : Nat → Ty → Option SqlType
  | 0, _ => none
  | _ + 1, .basic n bk => some (.builtin (basicTypeName n bk) false)
  | _ + 1, .time d => some (.builtin (timeName d) false)
  | _ + 1, .arr len e =>
    match e with
    | .basic n bk =>
      if n == "uint8" || n == "byte" then some (.builtin "bytea" false)
      else some (.array (basicTypeName n bk ++ "[]") len)
    | .ref q =>
      (match env.find? q with
       | some d => (match d.body with
         | .enum u .int _ _ => some (.array (basicTypeName u .int ++ "[]") len)
         | _ => some .json)
       | none => some .json)
    | _ => some .json
  | _ + 1, .map _ _ => some .json
  | _ + 1, .ptr _ => none
  | f + 1, .ref q =>
    match env.find? q with
    | none => none
    | some d =>
      match d.body with
      | .named u => newType env f u
      | .enum _ _ _ _ => some (.enum q)
      | .union _ => some .json
      | .struct fs _ _ =>
        (match nullXXX fs with
         | some data =>
           (match data.ty with
            | .basic n bk => if bk != .none then some (.builtin (basicTypeName n bk) true) else some .json
            | .time dt => some (.builtin (timeName dt) true)
            | .ref dq =>
              -- the data field is looked at through its underlying type (basic or time only)
              (match env.find? dq with
               | some dd => (match dd.body with
                 | .named (.basic n bk) => if bk != .none then some (.builtin (basicTypeName n bk) true) else some .json
                 | .named (.time dt) => some (.builtin (timeName dt) true)
                 | .enum u bk _ _ => if bk != .none then some (.builtin (basicTypeName u bk) true) else some .json
                 | _ => some .json)
               | none => some .json)
            | _ => some .json)
         | none => if fs.all (fun fl => isIntField env fl.ty) then some (.composite q) else some .json)

def enumTuple (env : Env) (q : String) : String :=
  match env.find? q with
  | some d => (match d.body with
    | .enum _ _ ms _ => "(" ++ ", ".intercalate (ms.map enumTupleItem) ++ ")"
    | _ => "()")
  | none => "()"

def sqlTypeName (env : Env) : SqlType → String
  | .builtin n _ => n
  | .enum q => (match env.find? q with
    | some d => (match d.body with | .enum u bk _ _ => basicTypeName u bk | _ => "?")
    | none => "?")
  | .array n _ => n
  | .composite q => (match env.find? q with | some d => d.name | none => "?")
  | .json => "jsonb"

structure Column where
  name : String
  ty : Ty
  tag : String
  sql : SqlType
deriving Repr, Inhabited

def isGuard (f : Field) : Bool := Tags.get f.tag "gomacro-sql-guard" != ""

/-- `NewTable`: exported fields and guards, in field order; `none` = a column type is refused -/
def columns (env : Env) (fs : List Field) : Option (List Column) :=
  (fs.filter fun f => isGuard f || f.goExported).mapM fun f =>
    (newType env 16 f.ty).map fun st => { name := f.name, ty := f.ty, tag := f.tag, sql := st }

/-- `Table.Primary` -/
def primaryIdx (cols : List Column) : Option Nat := cols.findIdx? fun c => c.name.toLower == "id"

/-- `typeConstraint` -/
def typeConstraint (env : Env) (c : Column) : String :=
  match c.sql with
  | .builtin _ nullable => if nullable then "" else "NOT NULL"
  | .enum q => " CHECK (" ++ c.name ++ " IN " ++ enumTuple env q ++ ") NOT NULL"
  | .array _ len => if len ≥ 0 then " CHECK (array_length(" ++ c.name ++ ", 1) = " ++ toString len ++ ") NOT NULL" else ""
  | .composite _ => "NOT NULL"
  | .json => "NOT NULL"

def columnLine (env : Env) (isPrimary : Bool) (c : Column) : String :=
  if isPrimary then c.name ++ " serial PRIMARY KEY"
  else c.name ++ " " ++ sqlTypeName env c.sql ++ " " ++ typeConstraint env c

def sqlTableNameS (goName : String) : String := String.ofList (SqlText.sqlTableName goName.toList)

def createTable (env : Env) (tableGoName : String) (cols : List Column) : String :=
  let pk := primaryIdx cols
  "CREATE TABLE " ++ sqlTableNameS tableGoName ++ " ( " ++
    ", ".intercalate (cols.zipIdx.map fun (c, i) => columnLine env (pk == some i) c) ++ " );"

/-- `isTableID`: int64 named type whose name starts or ends with "id" (any case), longer than 2 -/
def tableIdTarget (env : Env) (t : Ty) : Option String :=
  match t with
  | .ref q =>
    (match env.find? q with
     | some d =>
       (match d.body with
        | .named u =>
          if isInt64 env 8 u && d.name.length > 2 then
            if (d.name.toLower.startsWith "id") then some (String.ofList (d.name.toList.drop 2))
            else if (d.name.toLower.endsWith "id") then some (String.ofList (d.name.toList.take (d.name.length - 2)))
            else none
          else none
        | _ => none)
     | none => none)
  | _ => none

structure ForeignKey where
  field : String
  target : String
  onDelete : String
deriving Repr, Inhabited, DecidableEq

/-- `Table.newForeignKey` (the `invalid type for foreign key` diagnostic is left to the tie) -/
def fkOf (env : Env) (tableGoName : String) (c : Column) : Option ForeignKey :=
  let od := Tags.get c.tag "gomacro-sql-on-delete"
  let tg := Tags.get c.tag "gomacro-sql-foreign"
  match tableIdTarget env c.ty with
  | some t =>
    if t != "" && t != tableGoName then some ⟨c.name, t, od⟩
    else if tg != "" then some ⟨c.name, tg, od⟩ else none
  | none => if tg != "" then some ⟨c.name, tg, od⟩ else none

/-- `Table.ForeignKeys` -/
def foreignKeys (env : Env) (tableGoName : String) (cols : List Column) : List ForeignKey :=
  cols.filterMap (fkOf env tableGoName)

def foreignConstraint (tableGoName : String) (fk : ForeignKey) : String :=
  "ALTER TABLE " ++ sqlTableNameS tableGoName ++ " ADD FOREIGN KEY(" ++ fk.field ++ ") REFERENCES " ++
    sqlTableNameS fk.target ++ " " ++ (if fk.onDelete != "" then "ON DELETE " ++ fk.onDelete else "") ++ ";"

def jsonCheck (env : Env) (tableGoName : String) (c : Column) : String :=
  "ALTER TABLE " ++ sqlTableNameS tableGoName ++ " ADD CONSTRAINT " ++ c.name ++ "_gomacro CHECK (" ++
    fnName env c.ty ++ "(" ++ c.name ++ "));"

def compositeDecl (env : Env) (q : String) : String :=
  match env.find? q with
  | some d => (match d.body with
    | .struct fs _ _ =>
      "CREATE TYPE " ++ d.name ++ " AS (" ++ ", ".intercalate (fs.map fun f =>
        Tags.jsonName f.tag f.name ++ " " ++ (match newType env 16 f.ty with | some st => sqlTypeName env st | none => "?")) ++ ");"
    | _ => "")
  | none => ""

end Gomacro.PgTables
