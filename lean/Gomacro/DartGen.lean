import Gomacro.TsGen
/-!
# Model of `generator/dart` (type declarations, JSON routines, file assignment, imports)

Declarative: which declarations end up in which output file and what each file imports, for the
named types reachable from the source types (through exported, non-opaque fields, union members
and underlying types). The recursive descent of the Go code with its cache of named types emits
exactly this set (named types once, anonymous lists / maps / basic helpers wherever they are used,
deduplicated by ID in each file). Each declaration carries its text (tied token-wise to the real
output), the symbols it defines and the symbols it uses.
-/
namespace Gomacro.DartGen
open Gomacro.IR Gomacro.TsGen

def lowerFirst (s : String) : String :=
  match s.toList with
  | [] => ""
  | c :: cs => String.ofList (c.toLower :: cs)

def title (s : String) : String :=
  match s.toList with
  | [] => ""
  | c :: cs => String.ofList (c.toUpper :: cs)

/-- `typeName`: how a type is referred to; `none` = panic -/
def typeName (env : Env) : Ty → Option String
  | .ptr _ => none
  | .basic _ bk =>
    match bk with
    | .bool => some "bool" | .int => some "int" | .float => some "double" | .str => some "String" | .none => none
  | .time _ => some "DateTime"
  | .arr _ e => (typeName env e).map fun n => "List<" ++ n ++ ">"
  | .map k e =>
    match typeName env k, typeName env e with
    | some kn, some en => some ("Map<" ++ kn ++ "," ++ en ++ ">")
    | _, _ => none
  | .ref q => (env.find? q).map fun d => title d.name

def tn (env : Env) (t : Ty) : String := (typeName env t).getD "?"

/-- type name with typedefs resolved -/
def canonName (env : Env) : Nat → Ty → String
  | 0, t => tn env t
  | f + 1, .arr _ e => "List<" ++ canonName env f e ++ ">"
  | f + 1, .map k e => "Map<" ++ canonName env f k ++ "," ++ canonName env f e ++ ">"
  | f + 1, .ref q =>
    (match env.find? q with
     | some d => (match d.body with | .named u => canonName env f u | _ => title d.name)
     | none => "?")
  | _ + 1, t => tn env t

/-- `jsonID`: prefix of the JSON helpers of a type (fuel: chains of named types) -/
def jsonID (env : Env) : Nat → Ty → Option String
  | 0, _ => none
  | _ + 1, .ptr _ => none
  | _ + 1, .basic n bk => (typeName env (.basic n bk)).map lowerFirst
  | _ + 1, .time d => (typeName env (.time d)).map lowerFirst
  | f + 1, .arr _ e => (jsonID env f e).map fun i => "list" ++ title i
  | f + 1, .map k e =>
    match jsonID env f k, jsonID env f e with
    | some ki, some ei => some ("dict" ++ title ki ++ "To" ++ title ei)
    | _, _ => none
  | f + 1, .ref q =>
    match env.find? q with
    | none => none
    | some d =>
      match d.body with
      | .named (.arr _ _) => some (lowerFirst (title d.name))
      | .named (.map _ _) => some (lowerFirst (title d.name))
      | .named u => jsonID env f u
      | _ => some (lowerFirst (title d.name))

def jid (env : Env) (t : Ty) : String := (jsonID env 16 t).getD "?"

/-! ### structured declarations -/

structure DField where
  ty : String
  dartName : String
  jsonKey : String
  typeID : String
  isOpaque : Bool
  deriving Repr, DecidableEq

structure DStruct where
  origin : String
  name : String
  id : String
  implements : List String
  fields : List DField
  deriving Repr

structure DEnum where
  origin : String
  name : String
  id : String
  /-- (dart name, value text, comment) of the exported constants -/
  members : List (String × String × String)
  isIota : Bool
  isInt : Bool
  deriving Repr

structure DUnion where
  origin : String
  name : String
  id : String
  /-- (kind tag, dart class, json id) per member -/
  members : List (String × String × String)
  deriving Repr

def selectedFields (fs : List Field) : List Field := fs.filter fun f => Tags.exported f.tag f.goExported

def fieldOf (env : Env) (f : Field) : DField :=
  let key := Tags.jsonName f.tag f.name
  let opq := Tags.opaqueFor f.tag "dart"
  { ty := if opq then "dynamic" else tn env f.ty, dartName := lowerFirst key, jsonKey := key,
    typeID := jid env f.ty, isOpaque := opq }

def implementsOf (env : Env) (impls : List String) : List String :=
  impls.filterMap fun q => (env.find? q).bind fun d => if d.exported then some d.name else none

def structOf (env : Env) (d : Decl) (fs : List Field) (impls : List String) : DStruct :=
  { origin := d.q, name := title d.name, id := lowerFirst (title d.name),
    implements := implementsOf env impls, fields := (selectedFields fs).map (fieldOf env) }

/-- the Dart name of an enum constant: lower first letter, an `xxx_` prefix is cut -/
def memberName (goName : String) : String :=
  let v := lowerFirst goName
  let cs := v.toList
  let before := cs.takeWhile (· ≠ '_')
  let rest := cs.drop before.length
  match rest with
  | _ :: after => if after.isEmpty then lowerFirst v else lowerFirst (String.ofList after)
  | [] => lowerFirst v

def enumOf (d : Decl) (bk : BKind) (ms : List Member) (isIota : Bool) : DEnum :=
  { origin := d.q, name := title d.name, id := lowerFirst (title d.name),
    members := (ms.filter (·.exported)).map fun m => (memberName m.name, m.valStr, m.comment),
    isIota := isIota, isInt := bk == .int }

def unionOf (env : Env) (d : Decl) (ms : List Ty) : DUnion :=
  { origin := d.q, name := title d.name, id := lowerFirst (title d.name),
    members := ms.map fun m =>
      let lname := match m with
        | .ref q => (match env.find? q with | some md => md.name | none => "?")
        | _ => "?"
      (lname, tn env m, jid env m) }

/-! ### printing -/

def printStruct (s : DStruct) : String :=
  "class " ++ s.name ++ " " ++ (if s.implements.isEmpty then "" else "implements " ++ ", ".intercalate s.implements) ++ " {\n" ++
  "\n".intercalate (s.fields.map fun f => "final " ++ f.ty ++ " " ++ f.dartName ++ ";") ++ "\n" ++
  "const " ++ s.name ++ "(" ++ ", ".intercalate (s.fields.map fun f => "this." ++ f.dartName) ++ ");\n" ++
  "@override\nString toString() {\nreturn \"" ++ s.name ++ "(" ++ ", ".intercalate (s.fields.map fun f => "$" ++ f.dartName) ++ ")\";\n}\n}\n" ++
  s.name ++ " " ++ s.id ++ "FromJson(dynamic json_) {\nfinal json = (json_ as Map<String, dynamic>);\nreturn " ++ s.name ++ "(\n" ++
  ",\n".intercalate (s.fields.map fun f =>
    if f.isOpaque then "json['" ++ f.jsonKey ++ "']" else f.typeID ++ "FromJson(json['" ++ f.jsonKey ++ "'])") ++ "\n);\n}\n" ++
  "Map<String, dynamic> " ++ s.id ++ "ToJson(" ++ s.name ++ " item) {\nreturn {\n" ++
  ",\n".intercalate (s.fields.map fun f =>
    if f.isOpaque then goQuote f.jsonKey ++ " :  item." ++ f.dartName
    else goQuote f.jsonKey ++ " : " ++ f.typeID ++ "ToJson(item." ++ f.dartName ++ ")") ++ "\n};\n}\n"

def printEnum (e : DEnum) : String :=
  let vt := if e.isInt then "int" else "String"
  "enum  " ++ e.name ++ " {\n" ++ ", ".intercalate (e.members.map (·.1)) ++ "\n}\n" ++
  "extension _" ++ e.name ++ "Ext on " ++ e.name ++ " {\n" ++
  (if e.isIota then
    "static " ++ e.name ++ " fromValue(int i) {\nreturn " ++ e.name ++ ".values[i];\n}\nint toValue() {\nreturn index;\n}\n"
   else
    "static const _values = [\n" ++ ", ".intercalate (e.members.map (·.2.1)) ++ "\n];\n" ++
    "static " ++ e.name ++ " fromValue(" ++ vt ++ " s) {\nreturn " ++ e.name ++ ".values[_values.indexOf(s)];\n}\n" ++
    vt ++ " toValue() {\nreturn _values[index];\n}\n") ++ "}\n" ++
  "String " ++ lowerFirst e.name ++ "Label(" ++ e.name ++ " v) {\nswitch (v) {\n" ++
  "\n".intercalate (e.members.map fun (n, _, c) => "case " ++ e.name ++ "." ++ n ++ ": return " ++ goQuote c ++ ";") ++ "\n}\n}\n" ++
  e.name ++ " " ++ e.id ++ "FromJson(dynamic json) => _" ++ e.name ++ "Ext.fromValue(json as " ++ vt ++ ");\n" ++
  "dynamic " ++ e.id ++ "ToJson(" ++ e.name ++ " item) => item.toValue();\n"

def printUnion (u : DUnion) : String :=
  "abstract class " ++ u.name ++ " {}\n" ++
  u.name ++ " " ++ u.id ++ "FromJson(dynamic json_) {\nfinal json = json_ as Map<String, dynamic>;\n" ++
  "final kind = json['Kind'] as String;\nfinal data = json['Data'];\nswitch (kind) {\n" ++
  "\n".intercalate (u.members.map fun (k, _, i) => "case " ++ goQuote k ++ ":\nreturn " ++ i ++ "FromJson(data);") ++
  "\ndefault:\nthrow (\"unexpected type\");\n}\n}\n" ++
  "Map<String, dynamic> " ++ u.id ++ "ToJson(" ++ u.name ++ " item) {\n" ++
  String.join (u.members.zipIdx.map fun ((k, n, i), idx) =>
    (if idx == 0 then "" else "else ") ++ "if (item is " ++ n ++ ") {\nreturn {'Kind': " ++ goQuote k ++ ", 'Data': " ++ i ++ "ToJson(item)};\n}") ++
  " else {\nthrow (\"unexpected type\");\n}\n}\n"

def printBasic (bk : BKind) : String :=
  match bk with
  | .float => "double doubleFromJson(dynamic json) => (json as num).toDouble();\ndouble doubleToJson(double item) => item;\n"
  | .str => "String stringFromJson(dynamic json) => json == null ? \"\" : json as String;\nString stringToJson(String item) => item;\n"
  | .bool => "bool boolFromJson(dynamic json) => json as bool;\nbool boolToJson(bool item) => item;\n"
  | .int => "int intFromJson(dynamic json) => json as int;\nint intToJson(int item) => item;\n"
  | .none => ""

def printTime : String :=
  "DateTime dateTimeFromJson(dynamic json) => DateTime.parse(json as String);\ndynamic dateTimeToJson(DateTime dt) => dt.toIso8601String();\n"

def printList (name id elemID : String) : String :=
  name ++ " " ++ id ++ "FromJson(dynamic json) {\nif (json == null) {\nreturn [];\n}\n" ++
  "return (json as List<dynamic>).map(" ++ elemID ++ "FromJson).toList();\n}\n" ++
  "List<dynamic> " ++ id ++ "ToJson(" ++ name ++ " item) {\nreturn item.map(" ++ elemID ++ "ToJson).toList();\n}\n"

/-- `isIntegerKey`: integers and named types over integers -/
def isIntKey (env : Env) : Ty → Bool
  | .basic _ .int => true
  | .ref q => (match env.find? q with
    | some d => (match d.body with | .named (.basic _ .int) => true | _ => false)
    | none => false)
  | _ => false

def printMap (name id keyName keyID elemID : String) (intKey : Bool) : String :=
  name ++ " " ++ id ++ "FromJson(dynamic json) {\nif (json == null) {\nreturn {};\n}\n" ++
  "return (json as Map<String, dynamic>).map((k,v) => MapEntry(" ++
  (if intKey then "int.parse(k)" else "k as " ++ keyName) ++ ", " ++ elemID ++ "FromJson(v)));\n}\n" ++
  "Map<String, dynamic> " ++ id ++ "ToJson(" ++ name ++ " item) {\n" ++
  "return item.map((k,v) => MapEntry(" ++ keyID ++ "ToJson(k).toString(), " ++ elemID ++ "ToJson(v)));\n}\n"

def printNamed (env : Env) (d : Decl) (u : Ty) : String :=
  let name := title d.name
  "typedef " ++ name ++ " = " ++ tn env u ++ ";\n" ++
  (match u with
   | .arr _ _ | .map _ _ =>
     let id := lowerFirst name
     let eid := jid env u
     name ++ " " ++ id ++ "FromJson(dynamic json) { return " ++ eid ++ "FromJson(json); }\n" ++
     "dynamic " ++ id ++ "ToJson(" ++ name ++ " item) { return " ++ eid ++ "ToJson(item); }\n"
   | _ => "")

/-! ### emission -/

structure Emitted where
  file : String
  id : String
  text : String
  /-- the text with typedef names resolved (two declarations sharing an ID are interchangeable
  when their canonical texts agree: a Dart typedef is an alias) -/
  canon : String
  defs : List String
  /-- symbols used, with the file meant to provide them (`none`: any unique definition) -/
  uses : List (String × Option String)
  deriving Repr

/-- the output file of a package (`NewLinker`) -/
def fileOfPkg (pre : String) (pkgPath : String) : String :=
  let p := if pkgPath.startsWith pre then (pkgPath.drop pre.length).toString else "stdlib/" ++ pkgPath
  p.replace "/" "_" ++ ".dart"

def predefinedFile : String := "predefined.dart"

/-- the file a child type is found in, seen from file `f` (`buffer.generate`'s return value) -/
def childFile (env : Env) (pre f : String) : Ty → String
  | .basic _ _ => predefinedFile
  | .time _ => predefinedFile
  | .arr _ _ => f
  | .map _ _ => f
  | .ptr _ => f
  | .ref q => match env.find? q with | some d => fileOfPkg pre d.pkgPath | none => ".dart"

/-- the files a user of the type needs: the file of the type, and for a named basic type the file
of the JSON helpers of its underlying type, which are called directly -/
def childFiles (env : Env) (pre f : String) (t : Ty) : List String :=
  childFile env pre f t ::
    (match t with
     | .ref q => (match env.find? q with
       | some d => (match d.body with | .named (.basic _ _) => [predefinedFile] | _ => [])
       | none => [])
     | _ => [])

/-- class / typedef names a type expression mentions, each with the file of its package -/
def typeSyms (env : Env) (pre : String) : Ty → List (String × Option String)
  | .ref q => match env.find? q with | some d => [(title d.name, some (fileOfPkg pre d.pkgPath))] | none => []
  | .arr _ e => typeSyms env pre e
  | .map k e => typeSyms env pre k ++ typeSyms env pre e
  | _ => []

def helpers (id : String) : List String := [id ++ "FromJson", id ++ "ToJson"]

/-- the file meant to provide the JSON helpers of a type: its own file for a named type with its
own helpers, anywhere (the user's file) for anonymous ones -/
def helperFile (env : Env) (pre : String) : Nat → Ty → Option String
  | 0, _ => none
  | f + 1, .ref q =>
    (match env.find? q with
     | some d => (match d.body with
       | .named (.arr _ _) | .named (.map _ _) => some (fileOfPkg pre d.pkgPath)
       | .named u => helperFile env pre f u
       | _ => some (fileOfPkg pre d.pkgPath))
     | none => none)
  | _ + 1, .basic _ _ => some predefinedFile
  | _ + 1, .time _ => some predefinedFile
  | _ + 1, _ => none

def useHelpers (env : Env) (pre : String) (t : Ty) : List (String × Option String) :=
  (helpers (jid env t)).map fun h => (h, helperFile env pre 16 t)

/-- declarations for an anonymous type expression used in file `f`, with the files they need -/
def anon (env : Env) (pre f : String) : Ty → List (Emitted × List String)
  | .basic n bk =>
    [({ file := predefinedFile, id := tn env (.basic n bk) ++ "_json", text := printBasic bk, canon := printBasic bk,
        defs := helpers (jid env (.basic n bk)), uses := [] }, [])]
  | .time _ =>
    [({ file := predefinedFile, id := "__DateTime_json", text := printTime, canon := printTime, defs := helpers "dateTime", uses := [] }, [])]
  | .arr n e =>
    ({ file := f, id := jid env (.arr n e), text := printList (tn env (.arr n e)) (jid env (.arr n e)) (jid env e),
       canon := printList (canonName env 16 (.arr n e)) (jid env (.arr n e)) (jid env e),
       defs := helpers (jid env (.arr n e)), uses := useHelpers env pre e ++ typeSyms env pre e }, childFiles env pre f e) :: anon env pre f e
  | .map k e =>
    ({ file := f, id := jid env (.map k e),
       text := printMap (tn env (.map k e)) (jid env (.map k e)) (tn env k) (jid env k) (jid env e) (isIntKey env k),
       canon := printMap (canonName env 16 (.map k e)) (jid env (.map k e)) (canonName env 16 k) (jid env k) (jid env e) (isIntKey env k),
       defs := helpers (jid env (.map k e)),
       uses := [(jid env k ++ "ToJson", helperFile env pre 16 k)] ++ useHelpers env pre e ++ typeSyms env pre k ++ typeSyms env pre e },
     childFiles env pre f k ++ childFiles env pre f e) :: (anon env pre f k ++ anon env pre f e)
  | .ptr _ => []
  | .ref _ => []

def childTys (d : Decl) : List Ty :=
  match d.body with
  | .named u => [u]
  | .enum _ _ _ _ => []
  | .struct fs _ _ => ((selectedFields fs).filter fun f => !Tags.opaqueFor f.tag "dart").map (·.ty)
  | .union ms => ms

/-- the declaration of a named type, in the file of its package, with the files it needs -/
def ofNamed (env : Env) (pre : String) (d : Decl) : Emitted × List String :=
  let f := fileOfPkg pre d.pkgPath
  let name := title d.name
  let id := lowerFirst name
  let needs := (childTys d).flatMap (childFiles env pre f)
  match d.body with
  | .named u =>
    ({ file := f, id := name, text := printNamed env d u, canon := printNamed env d u,
       defs := name :: (match u with | .arr _ _ | .map _ _ => helpers id | _ => []),
       uses := typeSyms env pre u ++ (match u with | .arr _ _ | .map _ _ => useHelpers env pre u | _ => []) }, needs)
  | .struct fs _ impls =>
    let s := structOf env d fs impls
    ({ file := f, id := name, text := printStruct s, canon := printStruct s, defs := name :: helpers id,
       uses := (impls.filterMap fun q => (env.find? q).bind fun u =>
                  if u.exported then some (u.name, some (fileOfPkg pre u.pkgPath)) else none) ++
         ((selectedFields fs).filter fun fl => !Tags.opaqueFor fl.tag "dart").flatMap fun fl =>
           typeSyms env pre fl.ty ++ useHelpers env pre fl.ty }, needs)
  | .enum _ bk ms io =>
    ({ file := f, id := name, text := printEnum (enumOf d bk ms io), canon := printEnum (enumOf d bk ms io),
       defs := [name, "_" ++ name ++ "Ext", lowerFirst name ++ "Label"] ++ helpers id, uses := [] }, needs)
  | .union ms =>
    ({ file := f, id := name, text := printUnion (unionOf env d ms), canon := printUnion (unionOf env d ms), defs := name :: helpers id,
       uses := ms.flatMap fun m => typeSyms env pre m ++ useHelpers env pre m }, needs)

def expand (env : Env) (visited : List String) : List String :=
  visited.foldl (fun acc q =>
    match env.find? q with
    | none => acc
    | some d => ((childTys d).flatMap Ty.refs).foldl (fun a r => if a.contains r then a else a ++ [r]) acc) visited

def reachAux (env : Env) : Nat → List String → List String
  | 0, v => v
  | n + 1, v => let v' := expand env v; if v'.length == v.length then v else reachAux env n v'

/-- everything emitted, with the files needed by each declaration -/
def emitAll (env : Env) (pre : String) : List (Emitted × List String) :=
  let start := (env.source.flatMap Ty.refs).eraseDups
  let named := (reachAux env (env.decls.length + 1) start).filterMap env.find?
  -- a source type that is itself anonymous (an alias of a list or map) lands in predefined.dart
  (env.source.flatMap fun t => match t with | .ref _ => [] | t => anon env pre predefinedFile t) ++
  named.flatMap fun d =>
    ofNamed env pre d :: (childTys d).flatMap (anon env pre (fileOfPkg pre d.pkgPath))

/-- all output files: predefined, plus one per package of a named type known to the analysis -/
def outputFiles (env : Env) (pre : String) : List String :=
  (predefinedFile :: env.decls.map fun d => fileOfPkg pre d.pkgPath).eraseDups

structure OutFile where
  name : String
  imports : List String
  decls : List Emitted
  /-- all candidates, before the first-wins deduplication (the order among equal IDs is not
  defined: the Go code sorts unstably) -/
  candidates : List Emitted
  deriving Repr

def dedupById : List String → List Emitted → List Emitted
  | _, [] => []
  | seen, e :: es => if seen.contains e.id then dedupById seen es else e :: dedupById (e.id :: seen) es

def generate (env : Env) (pre : String) : List OutFile :=
  let all := emitAll env pre
  (outputFiles env pre).map fun f =>
    let mine := all.filter fun (e, _) => e.file == f
    { name := f,
      imports := ((mine.flatMap (·.2)).eraseDups).filter (· != f),
      decls := dedupById [] (mine.map (·.1)),
      candidates := mine.map (·.1) }

/-- IDs under which a file holds two declarations that are not interchangeable -/
def clashes (f : OutFile) : List String :=
  (f.decls.filter fun d => f.candidates.any fun c => c.id == d.id && c.canon != d.canon).map (·.id)

/-- Dart scoping: a symbol resolves to the file itself when it declares it, else to the only
import that declares it -/
def resolve (files : List OutFile) (f : OutFile) (sym : String) : Option String :=
  if f.decls.any (·.defs.contains sym) then some f.name else
  match (files.filter fun g => f.imports.contains g.name && g.decls.any (·.defs.contains sym)) with
  | [g] => some g.name
  | _ => none

def useOk (files : List OutFile) (f : OutFile) (u : String × Option String) : Bool :=
  match resolve files f u.1, u.2 with
  | some _, none => true
  | some g, some want => g == want
  | none, _ => false

/-- **linking**: every symbol a file uses resolves, to the file meant to provide it; a file does
not declare a symbol twice -/
def closedFile (files : List OutFile) (f : OutFile) : Bool :=
  (f.decls.flatMap (·.uses)).all (useOk files f) && (f.decls.flatMap (·.defs)).Nodup

def unresolved (files : List OutFile) (f : OutFile) : List String :=
  ((f.decls.flatMap (·.uses)).filter fun u => !useOk files f u).map (·.1) ++
  ((f.decls.flatMap (·.defs)).filter fun d => (f.decls.flatMap (·.defs)).count d > 1)

def noSelfImport (f : OutFile) : Bool := !f.imports.contains f.name

end Gomacro.DartGen
