/-! `Outcome`: how a gomacro function ends — result, explicit diagnostic (a Go `panic("message")`),
or a Go runtime error (index out of range, failed type assertion, nil dereference, …). -/
namespace Gomacro

inductive Outcome (α : Type) where
  | ok (a : α)
  | diag (msg : String)
  | crash (site : String)
deriving Repr, Inhabited

namespace Outcome

def bind {α β} (x : Outcome α) (f : α → Outcome β) : Outcome β :=
  match x with
  | ok a => f a
  | diag m => diag m
  | crash s => crash s

instance : Monad Outcome where
  pure := ok
  bind := bind

def isCrash {α} : Outcome α → Bool
  | crash _ => true
  | _ => false

def isOk {α} : Outcome α → Bool
  | ok _ => true
  | _ => false

def cls {α} : Outcome α → String
  | ok _ => "ok"
  | diag _ => "diag"
  | crash _ => "crash"

/-- map over a list, stopping at the first non-ok outcome (Go evaluation order) -/
def mapM' {α β} (f : α → Outcome β) : List α → Outcome (List β)
  | [] => ok []
  | a :: as =>
    match f a with
    | ok b =>
      match mapM' f as with
      | ok bs => ok (b :: bs)
      | diag m => diag m
      | crash s => crash s
    | diag m => diag m
    | crash s => crash s

end Outcome
end Gomacro
