import Gomacro.GoJson
/-!
`Sem/RandSem`: the functions emitted by generator/go/randdata as a program over an explicit stream
of random draws, and the well-formedness predicate of C15.

`gen env fuel t draws = none` means: still running after `fuel` nested calls (for cyclic types:
never returns), or the generated code panics (`rand.Intn(0)` for an enum without exported member).
-/
namespace Gomacro.RandSem
open Gomacro.IR Gomacro.GoJson

def dataIgnored (f : Field) : Bool := !f.goExported || Tags.get f.tag "gomacro-data" == "ignore"

mutual
/-- the zero value of a type, as far as the well-formedness predicate looks at it -/
def isZero : GoVal → Bool
  | .bool b => !b
  | .int r => r == "0"
  | .float r => r == "0"
  | .str s => s == ""
  | .time _ => true          -- not inspected (zero time prints as year 1)
  | .list true isNil es => isNil && es.isEmpty
  | .list false _ es => isZeroAll es
  | .bytes isNil _ => isNil
  | .map isNil kvs => isNil && kvs.isEmpty
  | .struct fs => isZeroFields fs
  | .iface m => m.isNone
def isZeroAll : List GoVal → Bool
  | [] => true
  | v :: vs => isZero v && isZeroAll vs
def isZeroFields : List (String × GoVal) → Bool
  | [] => true
  | (_, v) :: fs => isZero v && isZeroFields fs
end

/-- does a dumped value equal the enum constant `m`? -/
def valueMatches (m : Member) : GoVal → Bool
  | .bool b => (m.valStr == "true") == b
  | .int r => m.valStr == r
  | .float r => m.valStr == r
  | .str s => m.str == s
  | _ => false

def nameOfTy (env : Env) : Ty → String
  | .ref q => (match env.find? q with | some d => d.name | none => "")
  | _ => ""

mutual
/-- **well-formed** (C15): enum components are exported constants, union components are non-nil
members, containers are populated with well-formed elements, skipped fields are zero -/
def wellFormed (env : Env) : Nat → Ty → GoVal → Bool
  | 0, _, _ => false
  | fuel + 1, t, v =>
    match t, v with
    | .basic _ _, .bool _ => true
    | .basic _ _, .int _ => true
    | .basic _ _, .float _ => true
    | .basic _ _, .str _ => true
    | .time _, .time _ => true
    | .arr n e, .list false _ es => es.length == n.toNat && wellFormedAll env fuel e es
    | .arr _ e, .list true isNil es => !isNil && !es.isEmpty && wellFormedAll env fuel e es
    | .arr _ _, .bytes isNil b => !isNil && b != ""
    | .map k e, .map isNil kvs => !isNil && !kvs.isEmpty && wellFormedEntries env fuel k e kvs
    | .ptr e, v => wellFormed env fuel e v
    | .ref q, v =>
      match env.find? q with
      | none => false
      | some d =>
        match d.body, v with
        | .named u, v => wellFormed env fuel u v
        | .enum _ _ ms _, v => ms.any fun m => m.exported && valueMatches m v
        | .struct fs _ _, .struct vals => wellFormedFields env fuel fs vals
        | .union ms, .iface (some (name, mv)) => wellFormedMember env fuel ms name mv
        | _, _ => false
    | _, _ => false

/-- the value is a well-formed value of one of the members, the one whose local name is `name` -/
def wellFormedMember (env : Env) : Nat → List Ty → String → GoVal → Bool
  | _, [], _, _ => false
  | fuel, m :: ms, name, mv =>
    (nameOfTy env m == name && wellFormed env fuel m mv) || wellFormedMember env fuel ms name mv

def wellFormedAll (env : Env) : Nat → Ty → List GoVal → Bool
  | _, _, [] => true
  | fuel, e, v :: vs => wellFormed env fuel e v && wellFormedAll env fuel e vs

def wellFormedEntries (env : Env) : Nat → Ty → Ty → List (GoVal × GoVal) → Bool
  | _, _, _, [] => true
  | fuel, k, e, (kv, v) :: rest =>
    wellFormed env fuel k kv && wellFormed env fuel e v && wellFormedEntries env fuel k e rest

def wellFormedFields (env : Env) : Nat → List Field → List (String × GoVal) → Bool
  | _, [], _ => true
  | fuel, f :: fs, vals =>
    (match vals.lookup f.name with
     | some v => if dataIgnored f then isZero v else wellFormed env fuel f.ty v
     | none => dataIgnored f) && wellFormedFields env fuel fs vals
end

/-! ### the generated functions as programs over a stream of draws -/

def draw : List Nat → Nat × List Nat
  | [] => (0, [])
  | d :: ds => (d, ds)

def exportedMembers (ms : List Member) : List Member := ms.filter (·.exported)

def memberGoVal (bk : BKind) (m : Member) : GoVal :=
  match bk with
  | .bool => .bool (m.valStr == "true")
  | .int => .int m.valStr
  | .float => .float m.valStr
  | _ => .str m.str

mutual
def gen (env : Env) : Nat → Ty → List Nat → Option (GoVal × List Nat)
  | 0, _, _ => none
  | fuel + 1, t, ds =>
    match t with
    | .basic _ bk =>
      let (d, ds) := draw ds
      (match bk with
       | .bool => some (.bool (d % 2 == 1), ds)
       | .int => some (.int (toString (d % 1000000)), ds)
       | .float => some (.float (toString d), ds)
       | .str => some (.str ("s" ++ toString d), ds)
       | .none => none)
    | .time _ => let (d, ds) := draw ds; some (.time (toString d), ds)
    | .arr n e =>
      if n ≥ 0 then (genN env fuel e n.toNat ds).map fun (es, ds) => (.list false false es, ds)
      else
        let (d, ds) := draw ds
        (genN env fuel e (3 + d % 5) ds).map fun (es, ds) => (.list true false es, ds)
    | .map k e =>
      let (d, ds) := draw ds
      (genEntries env fuel k e (40 + d % 10) ds).map fun (kvs, ds) => (.map false kvs, ds)
    | .ptr e => gen env fuel e ds
    | .ref q =>
      match env.find? q with
      | none => none
      | some dcl =>
        match dcl.body with
        | .named u => gen env fuel u ds
        | .enum _ bk ms _ =>
          let ex := exportedMembers ms
          let (d, ds) := draw ds
          (match ex[d % ex.length]? with     -- `rand.Intn(0)` panics when there is no exported member
           | some m => if ex.isEmpty then none else some (memberGoVal bk m, ds)
           | none => none)
        | .struct fs _ _ => (genFields env fuel fs ds).map fun (vals, ds) => (.struct vals, ds)
        | .union ms =>
          -- every member generator runs (`choix := [...]U{randA(), randB()}`), then one is picked
          (genMembers env fuel ms ds).bind fun (vals, ds) =>
            let (d, ds) := draw ds
            match vals[d % vals.length]? with
            | some (name, v) => if vals.isEmpty then none else some (.iface (some (name, v)), ds)
            | none => none

def genN (env : Env) : Nat → Ty → Nat → List Nat → Option (List GoVal × List Nat)
  | _, _, 0, ds => some ([], ds)
  | fuel, e, n + 1, ds =>
    match gen env fuel e ds with
    | none => none
    | some (v, ds) => (genN env fuel e n ds).map fun (vs, ds) => (v :: vs, ds)

def genEntries (env : Env) : Nat → Ty → Ty → Nat → List Nat → Option (List (GoVal × GoVal) × List Nat)
  | _, _, _, 0, ds => some ([], ds)
  | fuel, k, e, n + 1, ds =>
    match gen env fuel k ds with
    | none => none
    | some (kv, ds) =>
      match gen env fuel e ds with
      | none => none
      | some (v, ds) => (genEntries env fuel k e n ds).map fun (rest, ds) => ((kv, v) :: rest, ds)

def genFields (env : Env) : Nat → List Field → List Nat → Option (List (String × GoVal) × List Nat)
  | _, [], ds => some ([], ds)
  | fuel, f :: fs, ds =>
    if dataIgnored f then genFields env fuel fs ds
    else
      match gen env fuel f.ty ds with
      | none => none
      | some (v, ds) => (genFields env fuel fs ds).map fun (rest, ds) => ((f.name, v) :: rest, ds)

def genMembers (env : Env) : Nat → List Ty → List Nat → Option (List (String × GoVal) × List Nat)
  | _, [], ds => some ([], ds)
  | fuel, m :: ms, ds =>
    let name := nameOfTy env m
    match gen env fuel m ds with
    | none => none
    | some (v, ds) => (genMembers env fuel ms ds).map fun (rest, ds) => ((name, v) :: rest, ds)
end

/-! ### a static check under which the generated functions return -/

mutual
/-- the recursion of `gen` on the static type only: every named type is declared, no unsupported
basic kind, every enum has an exported constant (`rand.Intn(0)` panics), every union a member, and
the nesting of calls stays within `fuel` -/
def returns (env : Env) : Nat → Ty → Bool
  | 0, _ => false
  | fuel + 1, t =>
    match t with
    | .basic _ bk => bk != .none
    | .time _ => true
    | .arr n e => n == 0 || returns env fuel e          -- a zero-length array calls nothing
    | .map k e => returns env fuel k && returns env fuel e
    | .ptr e => returns env fuel e
    | .ref q =>
      match env.find? q with
      | none => false
      | some d =>
        match d.body with
        | .named u => returns env fuel u
        | .enum _ _ ms _ => !(exportedMembers ms).isEmpty
        | .struct fs _ _ => returnsFields env fuel fs
        | .union ms => !ms.isEmpty && returnsAll env fuel ms
def returnsFields (env : Env) : Nat → List Field → Bool
  | _, [] => true
  | fuel, f :: fs => (dataIgnored f || returns env fuel f.ty) && returnsFields env fuel fs
def returnsAll (env : Env) : Nat → List Ty → Bool
  | _, [] => true
  | fuel, m :: ms => returns env fuel m && returnsAll env fuel ms
end

theorem returnsFields_mem (env : Env) (fuel : Nat) : ∀ (fs : List Field), returnsFields env fuel fs = true →
    ∀ f ∈ fs, dataIgnored f = false → returns env fuel f.ty = true
  | [], _, f, hf, _ => by simp at hf
  | g :: gs, h, f, hf, hi => by
    simp only [returnsFields, Bool.and_eq_true, Bool.or_eq_true] at h
    rcases List.mem_cons.mp hf with rfl | hf
    · rcases h.1 with h1 | h1
      · rw [hi] at h1; simp at h1
      · exact h1
    · exact returnsFields_mem env fuel gs h.2 f hf hi

theorem returnsAll_mem (env : Env) (fuel : Nat) : ∀ (ms : List Ty), returnsAll env fuel ms = true →
    ∀ m ∈ ms, returns env fuel m = true
  | [], _, m, hm => by simp at hm
  | x :: xs, h, m, hm => by
    simp only [returnsAll, Bool.and_eq_true] at h
    rcases List.mem_cons.mp hm with rfl | hm
    · exact h.1
    · exact returnsAll_mem env fuel xs h.2 m hm

end Gomacro.RandSem
