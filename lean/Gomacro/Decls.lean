/-
Model of `generator.WriteDeclarations` (generator/generator.go).

  sort.Slice(decls, by ID)                -- UNSTABLE: any permutation that is sorted by ID
  sort.SliceStable(decls, prio first)     -- stable partition
  first-wins dedupe by ID, content + "\n"

Core-only (no Mathlib): imported by the driver executable.
-/
namespace Gomacro.Decls

structure Decl where
  id : String
  content : String
  prio : Bool
deriving Repr, DecidableEq, Inhabited

/-- first-wins dedupe by ID, `seen` = the `keys` map of the Go code -/
def dedupFirst : List String → List Decl → List Decl
  | _, [] => []
  | seen, d :: ds =>
    if d.id ∈ seen then dedupFirst seen ds else d :: dedupFirst (d.id :: seen) ds

/-- `sort.SliceStable` with less(i,j) = prio i ∧ ¬ prio j : a stable partition -/
def stablePrio (s : List Decl) : List Decl :=
  s.filter (·.prio) ++ s.filter (fun d => !d.prio)

def emitted (s : List Decl) : List Decl := dedupFirst [] (stablePrio s)

def render (ds : List Decl) : String :=
  String.join (ds.map fun d => d.content ++ "\n")

def SortedById (s : List Decl) : Prop := s.Pairwise (fun a b => a.id ≤ b.id)

/-- every admissible behaviour of the Go function: the unstable sort may return
any permutation of the input that is sorted by ID. -/
def WriteResult (input : List Decl) (out : String) : Prop :=
  ∃ s, s.Perm input ∧ SortedById s ∧ out = render (emitted s)

/-- one executable instance (merge sort as the unstable sort) -/
def writeDecls (input : List Decl) : String :=
  render (emitted (input.mergeSort fun a b => decide (a.id ≤ b.id)))

/-! ### Independent specification (the property text, not the algorithm) -/

def insertId (x : String) : List String → List String
  | [] => [x]
  | y :: ys => if x < y then x :: y :: ys else if x = y then y :: ys else y :: insertId x ys

/-- distinct ids in increasing order -/
def sortedIds (l : List String) : List String := l.foldr insertId []

def hasPrio (input : List Decl) (i : String) : Bool := input.any fun d => d.id == i && d.prio

def contentOf (input : List Decl) (i : String) : String :=
  match input.find? (fun d => d.id == i) with
  | some d => d.content
  | none => ""

def specOrder (input : List Decl) : List String :=
  let ids := sortedIds (input.map (·.id))
  ids.filter (hasPrio input) ++ ids.filter (fun i => !hasPrio input i)

def spec (input : List Decl) : String :=
  String.join ((specOrder input).map fun i => contentOf input i ++ "\n")

/-- the property's proviso: equal IDs carry equal content -/
def Consistent (input : List Decl) : Prop :=
  ∀ a ∈ input, ∀ b ∈ input, a.id = b.id → a.content = b.content

end Gomacro.Decls
