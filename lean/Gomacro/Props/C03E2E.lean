import Gomacro.EndToEnd
import Gomacro.Props.C09
/-!
# C03, end to end

`C03_end_to_end`: for a program in the fragment (`EndToEnd.Fragment`: the complement of the recorded
findings, decidable and evaluated per program by the runner), every Go value of every type over
the program's declarations is written by `encoding/json` (model `GoJson.encode`, with the generated
wrappers) as a document that inhabits (`TsGen.inhabits`) the TypeScript type the generator refers
to. Both semantics are fuel-indexed; the statement is "for every sufficiently large fuel"
(`Eventually`). The proof is a strong induction on the fuel of the encoder, by cases on the type.
-/
namespace Gomacro.E2E
open Gomacro.IR Gomacro.GoJson Gomacro.TsGen
def Eventually (P : Nat → Prop) : Prop := ∃ N, ∀ m, N ≤ m → P m
theorem ev_of_all {P : Nat → Prop} (h : ∀ m, P m) : Eventually P := ⟨0, fun m _ => h m⟩
theorem ev_mono {P Q : Nat → Prop} (h : Eventually P) (hpq : ∀ m, P m → Q m) : Eventually Q := by
  obtain ⟨N, hN⟩ := h
  exact ⟨N, fun m hm => hpq m (hN m hm)⟩
theorem ev_and {P Q : Nat → Prop} (hp : Eventually P) (hq : Eventually Q) : Eventually (fun m => P m ∧ Q m) := by
  obtain ⟨N, hN⟩ := hp
  obtain ⟨M, hM⟩ := hq
  exact ⟨max N M, fun m hm => ⟨hN m (by omega), hM m (by omega)⟩⟩
theorem ev_shift {P : Nat → Prop} (h : Eventually (fun m => P (m + 1))) : Eventually P := by
  obtain ⟨N, hN⟩ := h
  refine ⟨N + 1, fun m hm => ?_⟩
  have h2 : P (m - 1 + 1) := hN (m - 1) (by omega)
  have e : m - 1 + 1 = m := by omega
  rwa [e] at h2
theorem ev_forall_mem {α} (l : List α) (P : α → Nat → Prop) (h : ∀ x ∈ l, Eventually (P x)) :
    Eventually (fun m => ∀ x ∈ l, P x m) := by
  induction l with
  | nil => exact ev_of_all (by simp)
  | cons a as ih =>
    have ha := h a (by simp)
    have has := ih (fun x hx => h x (by simp [hx]))
    exact ev_mono (ev_and ha has) (fun m ⟨h1, h2⟩ x hx => by
      rcases List.mem_cons.mp hx with rfl | hx
      · exact h1
      · exact h2 x hx)
mutual
theorem tsBeq_eq : ∀ (a b : TsType), tsBeq a b = true → a = b
  | .str, b, h => by cases b <;> simp_all [tsBeq]
  | .num, b, h => by cases b <;> simp_all [tsBeq]
  | .bool, b, h => by cases b <;> simp_all [tsBeq]
  | .null, b, h => by cases b <;> simp_all [tsBeq]
  | .unknown, b, h => by cases b <;> simp_all [tsBeq]
  | .never, b, h => by cases b <;> simp_all [tsBeq]
  | .litStr s, b, h => by cases b <;> simp_all [tsBeq]
  | .litNum s, b, h => by cases b <;> simp_all [tsBeq]
  | .litBool s, b, h => by cases b <;> simp_all [tsBeq]
  | .ref s, b, h => by cases b <;> simp_all [tsBeq]
  | .arr a, b, h => by
    cases b <;> simp [tsBeq] at h
    rw [tsBeq_eq a _ h]
  | .tuple a, b, h => by
    cases b <;> simp [tsBeq] at h
    rw [tsBeqList_eq a _ h]
  | .union a, b, h => by
    cases b <;> simp [tsBeq] at h
    rw [tsBeqList_eq a _ h]
  | .record k v, b, h => by
    cases b <;> simp [tsBeq] at h
    rw [tsBeq_eq k _ h.1, tsBeq_eq v _ h.2]
  | .obj a, b, h => by
    cases b <;> simp [tsBeq] at h
    rw [tsBeqFields_eq a _ h]
  | .brand a s, b, h => by
    cases b <;> simp [tsBeq] at h
    rw [tsBeq_eq a _ h.1, h.2]
theorem tsBeqList_eq : ∀ (a b : List TsType), tsBeqList a b = true → a = b
  | [], b, h => by cases b <;> simp_all [tsBeqList]
  | x :: xs, b, h => by
    cases b with
    | nil => simp [tsBeqList] at h
    | cons y ys =>
      simp [tsBeqList] at h
      rw [tsBeq_eq x y h.1, tsBeqList_eq xs ys h.2]
theorem tsBeqFields_eq : ∀ (a b : List (String × TsType)), tsBeqFields a b = true → a = b
  | [], b, h => by cases b <;> simp_all [tsBeqFields]
  | (k, x) :: xs, b, h => by
    cases b with
    | nil => simp [tsBeqFields] at h
    | cons y ys =>
      obtain ⟨k', y⟩ := y
      simp [tsBeqFields] at h
      rw [h.1.1, tsBeq_eq x y h.1.2, tsBeqFields_eq xs ys h.2]
end

theorem lookup_of_lookupIs (tenv : List (String × TsType)) (n : String) (t : TsType)
    (h : lookupIs tenv n t = true) : tenv.lookup n = some t := by
  unfold lookupIs at h
  cases hl : tenv.lookup n with
  | none => simp [hl] at h
  | some t' =>
    simp only [hl] at h
    rw [tsBeq_eq t' t h]

/-- every name a type expression refers to is found in the environment -/
def Found (env : Env) (t : Ty) : Prop := ∀ q ∈ t.refs, (env.find? q).isSome = true

theorem typeRef_isSome (env : Env) : ∀ (t : Ty), Found env t → shapeOk t = true → (typeRef env t).isSome = true
  | .basic n bk, _, hs => by
    cases bk <;> simp_all [typeRef, shapeOk]
  | .time d, _, _ => by cases d <;> simp [typeRef]
  | .ptr e, _, hs => by simp [shapeOk] at hs
  | .ref q, hf, _ => by
    have := hf q (by simp [Ty.refs])
    cases h : env.find? q with
    | none => simp [h] at this
    | some d =>
      simp only [typeRef, h]
      cases d.body <;> simp
  | .map k e, hf, hs => by
    have hk : (typeRef env k).isSome = true := by
      cases k with
      | basic n bk => cases bk <;> simp_all [shapeOk, typeRef]
      | _ => simp [shapeOk] at hs
    have hse : shapeOk e = true := by
      cases k with
      | basic n bk => cases bk <;> simp_all [shapeOk]
      | _ => simp [shapeOk] at hs
    have he := typeRef_isSome env e (fun q hq => hf q (by simp [Ty.refs, hq])) hse
    cases h1 : typeRef env k with
    | none => simp [h1] at hk
    | some a =>
      cases h2 : typeRef env e with
      | none => simp [h2] at he
      | some b => simp [typeRef, h1, h2]
  | .arr n e, hf, hs => by
    simp only [shapeOk, Bool.and_eq_true] at hs
    have he := typeRef_isSome env e (fun q hq => hf q (by simpa [Ty.refs] using hq)) hs.1.2
    cases h2 : typeRef env e with
    | none => simp [h2] at he
    | some b =>
      obtain ⟨en, et⟩ := b
      simp only [typeRef, h2]
      by_cases hn : n ≥ 1
      · simp only [hn, if_true]
        cases e with
        | arr m e' =>
          have : (m == -1) = false := by simpa [hn] using hs.2
          simp [this]
        | map k' e' => simp [hn] at hs
        | _ => simp
      · simp [hn]

variable (tenv : List (String × TsType))
def Inh (t : TsType) (j : JVal) : Prop := Eventually (fun m => inhabits tenv m t j = true)
def KeyOk (k : TsType) (key : String) : Prop := Eventually (fun m => keyParses tenv m k key = true)

theorem keyOk_str (key : String) : KeyOk tenv .str key := ⟨1, fun m hm => by
  obtain ⟨k, rfl⟩ : ∃ k, m = k + 1 := ⟨m - 1, by omega⟩
  simp [keyParses]⟩

theorem keyOk_int (key : String) (hl : tenv.lookup "Int" = some (.brand .num "Int")) (hk : isNumericText key = true) :
    KeyOk tenv (.ref "Int") key := ⟨3, fun m hm => by
  obtain ⟨k, rfl⟩ : ∃ k, m = k + 3 := ⟨m - 3, by omega⟩
  simp [keyParses, hl, hk]⟩

theorem inh_record (k v : TsType) (kvs : List (String × JVal))
    (h : ∀ p ∈ kvs, KeyOk tenv k p.1 ∧ Inh tenv v p.2) : Inh tenv (.record k v) (.obj kvs) := by
  apply ev_shift
  have h' : ∀ p ∈ kvs, Eventually (fun m => keyParses tenv m k p.1 = true ∧ inhabits tenv m v p.2 = true) :=
    fun p hp => ev_and (h p hp).1 (h p hp).2
  refine ev_mono (ev_forall_mem kvs _ h') (fun m hh => ?_)
  simp only [inhabits, List.all_eq_true, Bool.and_eq_true]
  intro p hp
  exact hh p hp

theorem inh_obj (fs : List (String × TsType)) (kvs : List (String × JVal))
    (h1 : ∀ p ∈ fs, ∃ x, kvs.lookup p.1 = some x ∧ Inh tenv p.2 x)
    (h2 : ∀ p ∈ kvs, ∃ q ∈ fs, q.1 = p.1) : Inh tenv (.obj fs) (.obj kvs) := by
  apply ev_shift
  have h' : ∀ p ∈ fs, Eventually (fun m => ∃ x, kvs.lookup p.1 = some x ∧ inhabits tenv m p.2 x = true) := by
    intro p hp
    obtain ⟨x, hx, hi⟩ := h1 p hp
    exact ev_mono hi (fun m hm => ⟨x, hx, hm⟩)
  refine ev_mono (ev_forall_mem fs _ h') (fun m hh => ?_)
  simp only [inhabits, List.all_eq_true, Bool.and_eq_true, List.any_eq_true, beq_iff_eq]
  constructor
  · intro p hp
    obtain ⟨x, hx, hi⟩ := hh p hp
    simp only [hx]
    exact hi
  · intro p hp
    obtain ⟨q, hq, he⟩ := h2 p hp
    exact ⟨q, hq, he⟩

theorem inh_str (s : String) : Inh tenv .str (.str s) := ⟨1, fun m hm => by
  obtain ⟨k, rfl⟩ : ∃ k, m = k + 1 := ⟨m - 1, by omega⟩
  simp [inhabits]⟩
theorem inh_num (s : String) : Inh tenv .num (.num s) := ⟨1, fun m hm => by
  obtain ⟨k, rfl⟩ : ∃ k, m = k + 1 := ⟨m - 1, by omega⟩
  simp [inhabits]⟩
theorem inh_bool (b : Bool) : Inh tenv .bool (.bool b) := ⟨1, fun m hm => by
  obtain ⟨k, rfl⟩ : ∃ k, m = k + 1 := ⟨m - 1, by omega⟩
  simp [inhabits]⟩
theorem inh_null : Inh tenv .null .null := ⟨1, fun m hm => by
  obtain ⟨k, rfl⟩ : ∃ k, m = k + 1 := ⟨m - 1, by omega⟩
  simp [inhabits]⟩
theorem inh_unknown (j : JVal) : Inh tenv .unknown j := ⟨1, fun m hm => by
  obtain ⟨k, rfl⟩ : ∃ k, m = k + 1 := ⟨m - 1, by omega⟩
  cases j <;> simp [inhabits]⟩
theorem inh_litStr (s : String) : Inh tenv (.litStr s) (.str s) := ⟨1, fun m hm => by
  obtain ⟨k, rfl⟩ : ∃ k, m = k + 1 := ⟨m - 1, by omega⟩
  simp [inhabits]⟩
theorem inh_litNum (s : String) : Inh tenv (.litNum s) (.num s) := ⟨1, fun m hm => by
  obtain ⟨k, rfl⟩ : ∃ k, m = k + 1 := ⟨m - 1, by omega⟩
  simp [inhabits]⟩
theorem inh_litBool (b : Bool) : Inh tenv (.litBool b) (.bool b) := ⟨1, fun m hm => by
  obtain ⟨k, rfl⟩ : ∃ k, m = k + 1 := ⟨m - 1, by omega⟩
  simp [inhabits]⟩

theorem inh_union (ts : List TsType) (t : TsType) (j : JVal) (hm : t ∈ ts) (h : Inh tenv t j) :
    Inh tenv (.union ts) j := by
  apply ev_shift
  refine ev_mono h (fun m hh => ?_)
  cases j <;> simp only [inhabits, List.any_eq_true] <;> exact ⟨t, hm, hh⟩

theorem inh_ref (n : String) (t : TsType) (j : JVal) (hl : tenv.lookup n = some t) (h : Inh tenv t j) :
    Inh tenv (.ref n) j := by
  apply ev_shift
  refine ev_mono h (fun m hh => ?_)
  cases j <;> simp only [inhabits, hl] <;> exact hh

theorem inh_brand (b : TsType) (tag : String) (j : JVal) (h : Inh tenv b j) : Inh tenv (.brand b tag) j := by
  apply ev_shift
  refine ev_mono h (fun m hh => ?_)
  cases j <;> simp only [inhabits] <;> exact hh

theorem inh_arr (e : TsType) (l : List JVal) (h : ∀ x ∈ l, Inh tenv e x) : Inh tenv (.arr e) (.arr l) := by
  apply ev_shift
  refine ev_mono (ev_forall_mem l (fun x m => inhabits tenv m e x = true) h) (fun m hh => ?_)
  simp only [inhabits, List.all_eq_true]
  exact hh

theorem inh_tuple (es : List TsType) (l : List JVal) (hlen : es.length = l.length)
    (h : ∀ p ∈ es.zip l, Inh tenv p.1 p.2) : Inh tenv (.tuple es) (.arr l) := by
  apply ev_shift
  refine ev_mono (ev_forall_mem (es.zip l) (fun p m => inhabits tenv m p.1 p.2 = true) h) (fun m hh => ?_)
  simp only [inhabits, Bool.and_eq_true, beq_iff_eq, List.all_eq_true]
  exact ⟨hlen, fun p hp => hh p hp⟩



/-! ### structure of `refTy` and of the provided names -/

variable (env : Env)

theorem typeRef_eq (t : Ty) (h : (typeRef env t).isSome = true) : typeRef env t = some (refName env t, refTy env t) := by
  unfold refName refTy
  cases ht : typeRef env t with
  | none => simp [ht] at h
  | some p => rfl

def TyIn (ds : List Decl) (t : Ty) : Prop := ∀ q ∈ t.refs, ∃ d ∈ ds, d.q = q

def Prov (t : Ty) : Prop := ∀ p ∈ tsEnvOf (declsOfAnon env t), tenv.lookup p.1 = some p.2

theorem tsEnvOf_append (a b : List (String × TsDecl)) : tsEnvOf (a ++ b) = tsEnvOf a ++ tsEnvOf b := by
  simp [tsEnvOf, List.flatMap_append]

theorem prov_int (n : String) (h : Prov tenv env (.basic n .int)) : tenv.lookup "Int" = some (.brand .num "Int") := by
  have := h ("Int", .brand .num "Int") (by simp [declsOfAnon, tsEnvOf])
  exact this

theorem prov_time (d : Bool) (h : Prov tenv env (.time d)) :
    tenv.lookup (if d then "Date_" else "Time") = some (.brand .str (if d then "Date" else "Time")) := by
  cases d
  · exact h ("Time", .brand .str "Time") (by simp [declsOfAnon, tsEnvOf])
  · exact h ("Date_", .brand .str "Date") (by simp [declsOfAnon, tsEnvOf])

theorem prov_arr_elem (n : Int) (e : Ty) (h : Prov tenv env (.arr n e)) : Prov tenv env e := by
  intro p hp
  apply h p
  simp only [declsOfAnon, tsEnvOf_append, List.mem_append]
  exact Or.inl hp

theorem prov_arr_tuple (n : Int) (e : Ty) (hn : n ≥ 0) (h : Prov tenv env (.arr n e)) :
    tenv.lookup (refName env (.arr n e)) = some (.tuple (List.replicate n.toNat (refTy env e))) := by
  apply h (refName env (.arr n e), .tuple (List.replicate n.toNat (refTy env e)))
  simp only [declsOfAnon, tsEnvOf_append, List.mem_append, hn, if_true]
  right
  simp [tsEnvOf]

theorem prov_map (k e : Ty) (h : Prov tenv env (.map k e)) : Prov tenv env k ∧ Prov tenv env e := by
  constructor
  · intro p hp
    apply h p
    simp only [declsOfAnon, tsEnvOf_append, List.mem_append]
    exact Or.inl hp
  · intro p hp
    apply h p
    simp only [declsOfAnon, tsEnvOf_append, List.mem_append]
    exact Or.inr hp

theorem found_of_tyIn (ds : List Decl) (hf : ∀ d ∈ ds, env.find? d.q = some d) (t : Ty) (h : TyIn ds t) : Found env t := by
  intro q hq
  obtain ⟨d, hd, rfl⟩ := h q hq
  simp [hf d hd]


/-! ### lists, entries -/

variable (w : Wrappers)

theorem encodeList_mem (n : Nat) (e : Ty) : ∀ (es : List GoVal) (x : JVal), x ∈ encodeList env w n e es →
    ∃ v ∈ es, x = encode env w n false e v
  | [], x, h => by simp [encodeList] at h
  | v :: vs, x, h => by
    simp only [encodeList, List.mem_cons] at h
    rcases h with rfl | h
    · exact ⟨v, by simp, rfl⟩
    · obtain ⟨v', hv', rfl⟩ := encodeList_mem n e vs x h
      exact ⟨v', by simp [hv'], rfl⟩

theorem encodeList_length (n : Nat) (e : Ty) : ∀ (es : List GoVal), (encodeList env w n e es).length = es.length
  | [] => by simp [encodeList]
  | v :: vs => by simp [encodeList, encodeList_length n e vs]

theorem hasTypeAll_mem (n : Nat) (e : Ty) : ∀ (es : List GoVal), hasTypeAll env n e es = true → ∀ v ∈ es, hasType env n e v = true
  | [], _, v, hv => by simp at hv
  | x :: xs, h, v, hv => by
    simp only [hasTypeAll, Bool.and_eq_true] at h
    rcases List.mem_cons.mp hv with rfl | hv
    · exact h.1
    · exact hasTypeAll_mem n e xs h.2 v hv

theorem encodeEntries_mem (n : Nat) (e : Ty) : ∀ (kvs : List (GoVal × GoVal)) (p : String × JVal),
    p ∈ encodeEntries env w n false e kvs → ∃ kv ∈ kvs, p = (keyString kv.1, encode env w n false e kv.2)
  | [], p, h => by simp [encodeEntries] at h
  | (k, v) :: rest, p, h => by
    simp only [encodeEntries, List.mem_cons] at h
    rcases h with rfl | h
    · exact ⟨(k, v), by simp, rfl⟩
    · obtain ⟨kv, hkv, rfl⟩ := encodeEntries_mem n e rest p h
      exact ⟨kv, by simp [hkv], rfl⟩

theorem hasTypeEntries_mem (n : Nat) (k e : Ty) : ∀ (kvs : List (GoVal × GoVal)), hasTypeEntries env n k e kvs = true →
    ∀ kv ∈ kvs, keyOk k kv.1 = true ∧ hasType env n e kv.2 = true
  | [], _, kv, hkv => by simp at hkv
  | (a, b) :: rest, h, kv, hkv => by
    simp only [hasTypeEntries, Bool.and_eq_true] at h
    rcases List.mem_cons.mp hkv with rfl | hkv
    · exact ⟨h.1.1, h.1.2⟩
    · exact hasTypeEntries_mem n k e rest h.2 kv hkv

theorem mem_zip_replicate {α β} (k : Nat) (t : α) (l : List β) (p : α × β) (h : p ∈ (List.replicate k t).zip l) :
    p.1 = t ∧ p.2 ∈ l := by
  have h1 := (List.of_mem_zip h).1
  have h2 := (List.of_mem_zip h).2
  exact ⟨(List.mem_replicate.mp h1).2, h2⟩

theorem refTy_arr_pos (n : Int) (e : Ty) (hn : n ≥ 1) (h : (typeRef env (.arr n e)).isSome = true) :
    refTy env (.arr n e) = .ref (refName env (.arr n e)) := by
  unfold refTy refName
  simp only [typeRef] at h ⊢
  cases he : typeRef env e with
  | none => simp [he] at h
  | some p =>
    obtain ⟨en, et⟩ := p
    simp only [he, hn, if_true] at h ⊢
    cases e with
    | arr m e' =>
      by_cases hm : (m == -1) = true
      · simp [hm] at h
      · simp [hm]
    | map k' e' => simp at h
    | _ => simp

theorem refTy_arr_neg (n : Int) (e : Ty) (hn : ¬ n ≥ 1) (he : (typeRef env e).isSome = true) :
    refTy env (.arr n e) = .union [.arr (refTy env e), .null] := by
  cases he' : typeRef env e with
  | none => simp [he'] at he
  | some p =>
    obtain ⟨en, et⟩ := p
    simp [refTy, typeRef, he', hn]

theorem refTy_map (k e : Ty) (hk : (typeRef env k).isSome = true) (he : (typeRef env e).isSome = true) :
    refTy env (.map k e) = .union [.record (refTy env k) (refTy env e), .null] := by
  cases hk' : typeRef env k with
  | none => simp [hk'] at hk
  | some p =>
    cases he' : typeRef env e with
    | none => simp [he'] at he
    | some q =>
      obtain ⟨kn, kt⟩ := p
      obtain ⟨en, et⟩ := q
      simp [refTy, typeRef, hk', he']


/-! ### the end-to-end statement, anonymous types -/

variable (ds : List Decl)

theorem encodeListW_mem (n : Nat) (e : Ty) : ∀ (es : List GoVal) (x : JVal), x ∈ encodeListW env w n e es →
    ∃ v ∈ es, x = encode env w n true e v
  | [], x, h => by simp [encodeListW] at h
  | v :: vs, x, h => by
    simp only [encodeListW, List.mem_cons] at h
    rcases h with rfl | h
    · exact ⟨v, by simp, rfl⟩
    · obtain ⟨v', hv', rfl⟩ := encodeListW_mem n e vs x h
      exact ⟨v', by simp [hv'], rfl⟩

theorem encodeEntriesW_mem (n : Nat) (e : Ty) : ∀ (kvs : List (GoVal × GoVal)) (p : String × JVal),
    p ∈ encodeEntries env w n true e kvs → ∃ kv ∈ kvs, p = (keyString kv.1, encode env w n true e kv.2)
  | [], p, h => by simp [encodeEntries] at h
  | (k, v) :: rest, p, h => by
    simp only [encodeEntries, List.mem_cons] at h
    rcases h with rfl | h
    · exact ⟨(k, v), by simp, rfl⟩
    · obtain ⟨kv, hkv, rfl⟩ := encodeEntriesW_mem n e rest p h
      exact ⟨kv, by simp [hkv], rfl⟩

/-! typing is monotone in the fuel (the generated methods of a named container encode the elements
one level of fuel higher than the typing looks at them) -/

theorem hasTypeAll_mono (n : Nat) (ih : ∀ t v, hasType env n t v = true → hasType env (n + 1) t v = true) (e : Ty) :
    ∀ es, hasTypeAll env n e es = true → hasTypeAll env (n + 1) e es = true
  | [], _ => by simp [hasTypeAll]
  | x :: xs, h => by
    simp only [hasTypeAll, Bool.and_eq_true] at h ⊢
    exact ⟨ih e x h.1, hasTypeAll_mono n ih e xs h.2⟩

theorem hasTypeEntries_mono (n : Nat) (ih : ∀ t v, hasType env n t v = true → hasType env (n + 1) t v = true) (k e : Ty) :
    ∀ kvs, hasTypeEntries env n k e kvs = true → hasTypeEntries env (n + 1) k e kvs = true
  | [], _ => by simp [hasTypeEntries]
  | (key, x) :: xs, h => by
    simp only [hasTypeEntries, Bool.and_eq_true] at h ⊢
    exact ⟨⟨h.1.1, ih e x h.1.2⟩, hasTypeEntries_mono n ih k e xs h.2⟩

theorem hasTypeFields_mono (n : Nat) (ih : ∀ t v, hasType env n t v = true → hasType env (n + 1) t v = true)
    (vals : List (String × GoVal)) :
    ∀ fs, hasTypeFields env n fs vals = true → hasTypeFields env (n + 1) fs vals = true
  | [], _ => by simp [hasTypeFields]
  | f :: fs, h => by
    simp only [hasTypeFields, Bool.and_eq_true] at h ⊢
    refine ⟨?_, hasTypeFields_mono n ih vals fs h.2⟩
    have h1 := h.1
    cases hk : Tags.goJsonKey f.tag f.name f.goExported with
    | none => simp
    | some key =>
      simp only [hk] at h1 ⊢
      cases hv : vals.lookup f.name with
      | none => simp [hv] at h1
      | some v =>
        simp only [hv, Bool.or_eq_true] at h1 ⊢
        rcases h1 with h1 | h1
        · exact Or.inl h1
        · exact Or.inr (ih f.ty v h1)

theorem hasType_mono : ∀ (n : Nat) (t : Ty) (v : GoVal), hasType env n t v = true → hasType env (n + 1) t v = true
  | 0, _, _, h => by simp [hasType] at h
  | n + 1, t, v, h => by
    have ih := hasType_mono n
    cases t with
    | basic g bk => cases bk <;> cases v <;> simp [hasType] at h ⊢
    | time d => cases v <;> simp [hasType] at h ⊢
    | arr k e =>
      cases v with
      | list s nl es =>
        simp only [hasType, Bool.and_eq_true] at h ⊢
        exact ⟨h.1, hasTypeAll_mono env n ih e es h.2⟩
      | _ => simp [hasType] at h
    | map k e =>
      cases v with
      | map nl kvs =>
        simp only [hasType] at h ⊢
        exact hasTypeEntries_mono env n ih k e kvs h
      | _ => simp [hasType] at h
    | ptr e => simp [hasType] at h
    | ref q =>
      cases hf : env.find? q with
      | none => simp [hasType, hf] at h
      | some d =>
        cases hb : d.body with
        | named u =>
          have h' : hasType env n u v = true := by simpa [hasType, hf, hb] using h
          simpa [hasType, hf, hb] using ih u v h'
        | enum un bk ms io =>
          have h' := h
          simp only [hasType, hf, hb] at h' ⊢
          exact h'
        | struct fs cs impls =>
          cases v with
          | struct vals =>
            have h' : hasTypeFields env n fs vals = true := by simpa [hasType, hf, hb] using h
            simpa [hasType, hf, hb] using hasTypeFields_mono env n ih vals fs h'
          | _ => simp [hasType, hf, hb] at h
        | union ms =>
          cases v with
          | iface mem =>
            cases mem with
            | none => simp [hasType, hf, hb] at h
            | some nv =>
              obtain ⟨name, mv⟩ := nv
              simp only [hasType, hf, hb, Bool.and_eq_true] at h ⊢
              exact ⟨h.1, ih _ mv h.2⟩
          | _ => simp [hasType, hf, hb] at h

/-- the statement at fuel `n` -/
def Goal (n : Nat) : Prop :=
  ∀ t v, TyIn ds t → Prov tenv env t → noUnion env t = true → shapeOk t = true → hasType env n t v = true →
    Inh tenv (refTy env t) (encode env w n false t v)

theorem tyIn_arr (n : Int) (e : Ty) (h : TyIn ds (.arr n e)) : TyIn ds e := fun q hq => h q (by simpa [Ty.refs] using hq)
theorem tyIn_map (k e : Ty) (h : TyIn ds (.map k e)) : TyIn ds k ∧ TyIn ds e :=
  ⟨fun q hq => h q (by simp [Ty.refs, hq]), fun q hq => h q (by simp [Ty.refs, hq])⟩

theorem goal_basic (n : Nat) (g : String) (bk : BKind) (v : GoVal)
    (hp : Prov tenv env (.basic g bk)) (ht : hasType env (n + 1) (.basic g bk) v = true) :
    Inh tenv (refTy env (.basic g bk)) (encode env w (n + 1) false (.basic g bk) v) := by
  cases bk <;> cases v <;> simp [hasType] at ht
  · simp only [encode, refTy, typeRef]; exact inh_str tenv _
  · -- int
    simp only [encode, refTy, typeRef]
    exact inh_ref tenv "Int" _ _ (prov_int tenv env g hp) (inh_brand tenv _ _ _ (inh_num tenv _))
  · simp only [encode, refTy, typeRef]; exact inh_num tenv _
  · simp only [encode, refTy, typeRef]; exact inh_bool tenv _

theorem goal_time (n : Nat) (d : Bool) (v : GoVal)
    (hp : Prov tenv env (.time d)) (ht : hasType env (n + 1) (.time d) v = true) :
    Inh tenv (refTy env (.time d)) (encode env w (n + 1) false (.time d) v) := by
  cases v <;> simp [hasType] at ht
  have hl := prov_time tenv env d hp
  cases d
  · simp only [encode, refTy, typeRef]
    exact inh_ref tenv "Time" _ _ (by simpa using hl) (inh_brand tenv _ _ _ (inh_str tenv _))
  · simp only [encode, refTy, typeRef]
    exact inh_ref tenv "Date_" _ _ (by simpa using hl) (inh_brand tenv _ _ _ (inh_str tenv _))

theorem goal_arr (hfound : ∀ d ∈ ds, env.find? d.q = some d) (n : Nat) (hg : Goal tenv env w ds n)
    (k : Int) (e : Ty) (v : GoVal) (hin : TyIn ds (.arr k e)) (hp : Prov tenv env (.arr k e))
    (hnu : noUnion env (.arr k e) = true) (hs : shapeOk (.arr k e) = true)
    (ht : hasType env (n + 1) (.arr k e) v = true) :
    Inh tenv (refTy env (.arr k e)) (encode env w (n + 1) false (.arr k e) v) := by
  have hine := tyIn_arr ds k e hin
  have hpe := prov_arr_elem tenv env k e hp
  have hse : shapeOk e = true := by simp only [shapeOk, Bool.and_eq_true] at hs; exact hs.1.2
  have hk0 : k ≠ 0 := by simp only [shapeOk, Bool.and_eq_true, bne_iff_ne] at hs; exact hs.1.1
  have hnue : noUnion env e = true := by simpa [noUnion] using hnu
  have hsome := typeRef_isSome env (.arr k e) (found_of_tyIn env ds hfound _ hin) hs
  have hsomee := typeRef_isSome env e (found_of_tyIn env ds hfound _ hine) hse
  cases v with
  | list isSlice isNil es =>
    simp only [hasType, Bool.and_eq_true, beq_iff_eq, Bool.or_eq_true, decide_eq_true_eq] at ht
    obtain ⟨⟨hsl, hlen⟩, hall⟩ := ht
    have helems : ∀ x ∈ encodeList env w n e es, Inh tenv (refTy env e) x := by
      intro x hx
      obtain ⟨v', hv', rfl⟩ := encodeList_mem env w n e es x hx
      exact hg e v' hine hpe hnue hse (hasTypeAll_mem env n e es hall v' hv')
    by_cases hneg : k < 0
    · -- a slice
      have hsl' : isSlice = true := by simp [hsl, hneg]
      rw [refTy_arr_neg env k e (by omega) hsomee]
      subst hsl'
      cases isNil
      · simp only [encode, Bool.and_false, Bool.false_eq_true, if_false]
        exact inh_union tenv _ (.arr (refTy env e)) _ (by simp) (inh_arr tenv _ _ helems)
      · simp only [encode, Bool.and_self, if_true]
        exact inh_union tenv _ .null _ (by simp) (inh_null tenv)
    · -- a fixed-size array
      have hpos : k ≥ 1 := by omega
      have hsl' : isSlice = false := by simp [hsl, hneg]
      have hlen' : es.length = k.toNat := by
        rcases hlen with h | h
        · exact absurd h hneg
        · exact h
      rw [refTy_arr_pos env k e hpos hsome]
      subst hsl'
      simp only [encode, Bool.false_and, Bool.false_eq_true, if_false]
      refine inh_ref tenv _ _ _ (prov_arr_tuple tenv env k e (by omega) hp) ?_
      refine inh_tuple tenv _ _ (by simp [encodeList_length, hlen']) ?_
      intro p hpz
      obtain ⟨h1, h2⟩ := mem_zip_replicate _ _ _ p hpz
      rw [h1]
      exact helems p.2 h2
  | _ => simp [hasType] at ht

theorem goal_map (hfound : ∀ d ∈ ds, env.find? d.q = some d) (n : Nat) (hg : Goal tenv env w ds n)
    (k e : Ty) (v : GoVal) (hin : TyIn ds (.map k e)) (hp : Prov tenv env (.map k e))
    (hnu : noUnion env (.map k e) = true) (hs : shapeOk (.map k e) = true)
    (ht : hasType env (n + 1) (.map k e) v = true) :
    Inh tenv (refTy env (.map k e)) (encode env w (n + 1) false (.map k e) v) := by
  obtain ⟨hink, hine⟩ := tyIn_map ds k e hin
  obtain ⟨hpk, hpe⟩ := prov_map tenv env k e hp
  have hnue : noUnion env e = true := by
    simp only [noUnion, Bool.and_eq_true] at hnu; exact hnu.2
  have hse : shapeOk e = true := by
    cases k with
    | basic g bk => cases bk <;> simp_all [shapeOk]
    | _ => simp [shapeOk] at hs
  have hsk : shapeOk k = true := by
    cases k with
    | basic g bk => cases bk <;> simp_all [shapeOk]
    | _ => simp [shapeOk] at hs
  have hsomek := typeRef_isSome env k (found_of_tyIn env ds hfound _ hink) hsk
  have hsomee := typeRef_isSome env e (found_of_tyIn env ds hfound _ hine) hse
  rw [refTy_map env k e hsomek hsomee]
  cases v with
  | map isNil kvs =>
    simp only [hasType] at ht
    cases isNil
    · simp only [encode, Bool.false_eq_true, if_false]
      refine inh_union tenv _ (.record (refTy env k) (refTy env e)) _ (by simp) (inh_record tenv _ _ _ ?_)
      intro p hpm
      obtain ⟨kv, hkv, rfl⟩ := encodeEntries_mem env w n e kvs p hpm
      obtain ⟨hko, hty⟩ := hasTypeEntries_mem env n k e kvs ht kv hkv
      refine ⟨?_, hg e kv.2 hine hpe hnue hse hty⟩
      -- the key parses at the key type
      cases k with
      | basic g bk =>
        cases bk with
        | str =>
          have : refTy env (.basic g .str) = .str := by simp [refTy, typeRef]
          rw [this]; exact keyOk_str tenv _
        | int =>
          have : refTy env (.basic g .int) = .ref "Int" := by simp [refTy, typeRef]
          rw [this]
          cases hk1 : kv.1 with
          | int r =>
            rw [hk1] at hko
            simp only [keyOk] at hko
            exact keyOk_int tenv _ (prov_int tenv env g hpk) (by simpa [keyString] using hko)
          | _ => rw [hk1] at hko; simp [keyOk] at hko
        | _ => simp [shapeOk] at hs
      | _ => simp [shapeOk] at hs
    · simp only [encode, if_true]
      exact inh_union tenv _ .null _ (by simp) (inh_null tenv)
  | _ => simp [hasType] at ht


/-! ### named types and enums -/

theorem mem_needed_own (d : Decl) (p : String × TsType) (h : p ∈ tsEnvOf (declOfNamed env d)) : p ∈ needed env d := by
  simp only [needed, tsEnvOf_append, List.mem_append]
  exact Or.inl h

theorem prov_child (hprov : ∀ p ∈ needed env d, tenv.lookup p.1 = some p.2) (t : Ty) (ht : t ∈ childTys d) :
    Prov tenv env t := by
  intro p hp
  apply hprov p
  simp only [needed, tsEnvOf_append, List.mem_append]
  right
  simp only [tsEnvOf, List.mem_flatMap] at hp ⊢
  obtain ⟨x, hx, hpx⟩ := hp
  exact ⟨x, ⟨t, ht, hx⟩, hpx⟩

theorem goal_enum (F : Fragment env w tenv ds) (n : Nat)
    (q : String) (d : Decl) (un : String) (bk : BKind) (ms : List Member) (io : Bool) (v : GoVal)
    (hd : d ∈ ds) (hq : d.q = q) (hb : d.body = .enum un bk ms io)
    (ht : hasType env (n + 1) (.ref q) v = true) :
    Inh tenv (refTy env (.ref q)) (encode env w (n + 1) false (.ref q) v) := by
  have hfind : env.find? q = some d := by rw [← hq]; exact F.found d hd
  have hprov : ∀ p ∈ needed env d, tenv.lookup p.1 = some p.2 :=
    fun p hp => lookup_of_lookupIs tenv p.1 p.2 (F.provided d hd p hp)
  have hrt : refTy env (.ref q) = .ref d.name := by simp [refTy, typeRef, hfind, hb]
  have hl : tenv.lookup d.name = some (.union (ms.map enumLiteral)) := by
    have := hprov (d.name, .union (ms.map enumLiteral))
      (mem_needed_own env d _ (by simp [declOfNamed, hb, tsEnvOf, Function.comp_def]))
    exact this
  have hany : ∃ m ∈ ms, litOk m v = true := by
    simpa [hasType, hfind, hb, List.any_eq_true] using ht
  obtain ⟨m, hm, hlit⟩ := hany
  rw [hrt]
  refine inh_ref tenv _ _ _ hl (inh_union tenv _ (enumLiteral m) _ (List.mem_map.mpr ⟨m, hm, rfl⟩) ?_)
  cases v with
  | int r =>
    simp only [litOk] at hlit
    cases hel : enumLiteral m with
    | litNum x =>
      simp only [hel, beq_iff_eq] at hlit
      subst hlit
      simp only [encode, hfind, hb]
      exact inh_litNum tenv _
    | _ => simp [hel] at hlit
  | float r =>
    simp only [litOk] at hlit
    cases hel : enumLiteral m with
    | litNum x =>
      simp only [hel, beq_iff_eq] at hlit
      subst hlit
      simp only [encode, hfind, hb]
      exact inh_litNum tenv _
    | _ => simp [hel] at hlit
  | str s =>
    simp only [litOk] at hlit
    cases hel : enumLiteral m with
    | litStr x =>
      simp only [hel, beq_iff_eq] at hlit
      subst hlit
      simp only [encode, hfind, hb]
      exact inh_litStr tenv _
    | _ => simp [hel] at hlit
  | bool b =>
    simp only [litOk] at hlit
    cases hel : enumLiteral m with
    | litBool x =>
      simp only [hel, beq_iff_eq] at hlit
      subst hlit
      simp only [encode, hfind, hb]
      exact inh_litBool tenv _
    | _ => simp [hel] at hlit
  | _ => simp [litOk] at hlit


/-! ### struct fields -/

def fkey (f : Field) : String := Tags.jsonName f.tag f.name
def isSer (f : Field) : Bool := (Tags.goJsonKey f.tag f.name f.goExported).isSome

theorem plain_key (f : Field) (hp : plainField f = true) (k : String)
    (hk : Tags.goJsonKey f.tag f.name f.goExported = some k) : k = fkey f := by
  simp only [plainField, Bool.and_eq_true, Bool.or_eq_true, beq_iff_eq] at hp
  have := Tags.C09_key_eq f.tag f.name f.goExported k (by
    rcases hp.2 with h | h
    · exact Or.inl h
    · exact Or.inr h) hk
  exact this.symm

theorem selected_eq_serialised (fs : List Field) (h : ∀ f ∈ fs, isSer f = true → plainField f = true) :
    selectedFields fs = serialised fs := by
  unfold selectedFields serialised
  apply List.filter_congr
  intro f hf
  by_cases hs : isSer f = true
  · have hp := h f hf hs
    simp only [plainField, Bool.and_eq_true, bne_iff_ne, ne_eq] at hp
    have : Tags.exported f.tag f.goExported = true :=
      (Tags.C09_selected_iff f.tag f.name f.goExported).mpr ⟨hs, hp.1.2⟩
    rw [this]; exact hs.symm
  · have hne : Tags.exported f.tag f.goExported ≠ true := fun he =>
      hs ((Tags.C09_selected_iff f.tag f.name f.goExported).mp he).1
    simp only [isSer] at hs
    simp [hne, hs]

theorem encodeFields_keys (n : Nat) (sh : Bool) (vals : List (String × GoVal)) :
    ∀ (fs : List Field), (∀ f ∈ fs, isSer f = true → plainField f = true) →
      ∀ p ∈ encodeFields env w n sh fs vals, ∃ f ∈ fs, isSer f = true ∧ p.1 = fkey f
  | [], _, p, hp => by simp [encodeFields] at hp
  | f0 :: fs, hpl, p, hp => by
    have ih := encodeFields_keys n sh vals fs (fun f hf => hpl f (by simp [hf]))
    unfold encodeFields at hp
    cases hk : Tags.goJsonKey f0.tag f0.name f0.goExported with
    | none =>
      simp only [hk] at hp
      obtain ⟨f, hf, h1, h2⟩ := ih p hp
      exact ⟨f, by simp [hf], h1, h2⟩
    | some key =>
      have hser : isSer f0 = true := by simp [isSer, hk]
      have hplain := hpl f0 (by simp) hser
      cases hv : vals.lookup f0.name with
      | none =>
        simp only [hk, hv] at hp
        obtain ⟨f, hf, h1, h2⟩ := ih p hp
        exact ⟨f, by simp [hf], h1, h2⟩
      | some v =>
        have ho : (tagOptions f0.tag).contains "omitempty" = false ∧ (tagOptions f0.tag).contains "string" = false := by
          simp only [plainField, Bool.and_eq_true, Bool.not_eq_true'] at hplain
          exact ⟨hplain.1.1.1, hplain.1.1.2⟩
        simp only [hk, hv, quoteIf, ho.1, ho.2, Bool.false_and, Bool.false_eq_true, if_false, List.mem_cons] at hp
        rcases hp with rfl | hp
        · exact ⟨f0, by simp, hser, plain_key f0 hplain key hk⟩
        · obtain ⟨f, hf, h1, h2⟩ := ih p hp
          exact ⟨f, by simp [hf], h1, h2⟩


theorem hasTypeFields_mem (n : Nat) (vals : List (String × GoVal)) :
    ∀ (fs : List Field), hasTypeFields env n fs vals = true → ∀ f ∈ fs, isSer f = true →
      ∃ v, vals.lookup f.name = some v ∧ (Tags.opaqueFor f.tag "typescript" = true ∨ hasType env n f.ty v = true)
  | [], _, f, hf, _ => by simp at hf
  | f0 :: fs, h, f, hf, hs => by
    simp only [hasTypeFields, Bool.and_eq_true] at h
    rcases List.mem_cons.mp hf with rfl | hf
    · have h1 := h.1
      simp only [isSer] at hs
      cases hk : Tags.goJsonKey f.tag f.name f.goExported with
      | none => simp [hk] at hs
      | some k =>
        simp only [hk] at h1
        cases hv : vals.lookup f.name with
        | none => simp [hv] at h1
        | some v =>
          simp only [hv, Bool.or_eq_true] at h1
          exact ⟨v, rfl, h1⟩
    · exact hasTypeFields_mem n vals fs h.2 f hf hs

theorem encodeFields_lookup (n : Nat) (sh : Bool) (vals : List (String × GoVal)) :
    ∀ (fs : List Field), (∀ f ∈ fs, isSer f = true → plainField f = true) →
      hasTypeFields env n fs vals = true → ((serialised fs).map fkey).Nodup →
      ∀ f ∈ fs, isSer f = true → ∀ v, vals.lookup f.name = some v →
        (encodeFields env w n sh fs vals).lookup (fkey f) = some (encode env w n (sh && isUnionTy env f.ty) f.ty v)
  | [], _, _, _, f, hf, _, _, _ => by simp at hf
  | f0 :: fs, hpl, hty, hnd, f, hf, hs, v, hv => by
    have hpl' : ∀ f ∈ fs, isSer f = true → plainField f = true := fun f hf => hpl f (by simp [hf])
    have hty' : hasTypeFields env n fs vals = true := by
      simp only [hasTypeFields, Bool.and_eq_true] at hty; exact hty.2
    unfold encodeFields
    cases hk : Tags.goJsonKey f0.tag f0.name f0.goExported with
    | none =>
      -- the head is not serialised
      have hns : isSer f0 = false := by simp [isSer, hk]
      have hnd' : ((serialised fs).map fkey).Nodup := by
        have : serialised (f0 :: fs) = serialised fs := by
          simp only [serialised, List.filter_cons]
          simp [hk]
        rwa [this] at hnd
      simp only []
      rcases List.mem_cons.mp hf with rfl | hf
      · rw [hns] at hs; exact absurd hs (by simp)
      · exact encodeFields_lookup n sh vals fs hpl' hty' hnd' f hf hs v hv
    | some key =>
      have hser : isSer f0 = true := by simp [isSer, hk]
      have hplain := hpl f0 (by simp) hser
      obtain ⟨v0, hv0, _⟩ := hasTypeFields_mem env n vals (f0 :: fs) hty f0 (by simp) hser
      have ho : (tagOptions f0.tag).contains "omitempty" = false ∧ (tagOptions f0.tag).contains "string" = false := by
        simp only [plainField, Bool.and_eq_true, Bool.not_eq_true'] at hplain
        exact ⟨hplain.1.1.1, hplain.1.1.2⟩
      have hkey := plain_key f0 hplain key hk
      have hser_cons : serialised (f0 :: fs) = f0 :: serialised fs := by
        simp only [serialised, List.filter_cons]
        simp [hk]
      rw [hser_cons, List.map_cons, List.nodup_cons] at hnd
      simp only [hv0, quoteIf, ho.1, ho.2, Bool.false_and, Bool.false_eq_true, if_false]
      rcases List.mem_cons.mp hf with rfl | hf
      · rw [hv0] at hv
        cases hv
        rw [hkey]
        simp [List.lookup]
      · have hne : fkey f ≠ fkey f0 := by
          intro he
          apply hnd.1
          rw [← he]
          exact List.mem_map.mpr ⟨f, List.mem_filter.mpr ⟨hf, hs⟩, rfl⟩
        rw [hkey]
        have : (fkey f == fkey f0) = false := by simpa using hne
        simp only [List.lookup, this]
        exact encodeFields_lookup n sh vals fs hpl' hty' hnd.2 f hf hs v hv


/-! ### a union value in a wrapped position -/

theorem find_some_of_any {α} (p : α → Bool) : ∀ (l : List α), l.any p = true → ∃ x, l.find? p = some x ∧ x ∈ l ∧ p x = true
  | [], h => by simp at h
  | a :: as, h => by
    by_cases hp : p a = true
    · exact ⟨a, by simp [List.find?, hp], by simp, hp⟩
    · have hp' : p a = false := by simpa using hp
      simp only [List.any_cons, hp', Bool.false_or] at h
      obtain ⟨x, h1, h2, h3⟩ := find_some_of_any p as h
      exact ⟨x, by simp [List.find?, hp', h1], by simp [h2], h3⟩

theorem goal_union_wrapped (F : Fragment env w tenv ds) (n : Nat) (hg : ∀ k, k ≤ n → Goal tenv env w ds k)
    (uq : String) (ud : Decl) (ms : List Ty) (v : GoVal) (hud : ud ∈ ds) (hq : ud.q = uq) (hb : ud.body = .union ms)
    (ht : hasType env n (.ref uq) v = true) :
    Inh tenv (refTy env (.ref uq)) (encode env w n true (.ref uq) v) := by
  have hfind : env.find? uq = some ud := by rw [← hq]; exact F.found ud hud
  have hprov : ∀ p ∈ needed env ud, tenv.lookup p.1 = some p.2 :=
    fun p hp => lookup_of_lookupIs tenv p.1 p.2 (F.provided ud hud p hp)
  have hok := F.ok ud hud
  simp only [declOk, hb, Bool.and_eq_true, List.all_eq_true] at hok
  cases n with
  | zero => simp [hasType] at ht
  | succ n' =>
    cases v with
    | iface mem =>
      cases mem with
      | none => simp [hasType, hfind, hb] at ht
      | some nv =>
        obtain ⟨name, mv⟩ := nv
        simp only [hasType, hfind, hb, Bool.and_eq_true] at ht
        obtain ⟨hany, hmv⟩ := ht
        -- the member the Kind names
        let pred : Ty → Bool := fun t => match t with
          | .ref q => (match env.find? q with | some md => md.name == name | none => false)
          | _ => false
        have hany' : ms.any pred = true := by
          rw [List.any_eq_true] at hany ⊢
          obtain ⟨m, hm, hn⟩ := hany
          refine ⟨m, hm, ?_⟩
          cases m with
          | ref mq =>
            -- a member is a declaration of the fragment, hence found
            obtain ⟨md, hmd, hmq⟩ := F.closed ud hud mq (List.mem_flatMap.mpr ⟨.ref mq, by simp [childTys, hb, hm], by simp [Ty.refs]⟩)
            have hf : env.find? mq = some md := by rw [← hmq]; exact F.found md hmd
            simpa [pred, localNameOf, hf] using hn
          | _ =>
            have := (hok.1 _ hm).2
            simp at this
        obtain ⟨m0, hfind0, hm0, hpred0⟩ := find_some_of_any pred ms hany'
        have hmt : memberTy env ud name = m0 := by
          simp only [memberTy, hb]
          show (match ms.find? pred with | some t => t | none => Ty.ref "") = m0
          rw [hfind0]
        rw [hmt] at hmv
        have hlocal : localNameOf env m0 = name := by
          cases m0 with
          | ref mq =>
            simp only [pred] at hpred0
            cases hf : env.find? mq with
            | none => simp [hf] at hpred0
            | some md =>
              simp only [hf, beq_iff_eq] at hpred0
              simp [localNameOf, hf, hpred0]
          | _ => simp [pred] at hpred0
        have hrt : refTy env (.ref uq) = .ref ud.name := by simp [refTy, typeRef, hfind, hb]
        have hl : tenv.lookup ud.name = some (.union (ms.map fun m =>
            .obj [("Kind", .litStr (localNameOf env m)), ("Data", refTy env m)])) := by
          have := hprov (ud.name, .union (ms.map fun m => .obj [("Kind", .litStr (localNameOf env m)), ("Data", refTy env m)]))
            (mem_needed_own env ud _ (by
              simp only [declOfNamed, hb, tsEnvOf, List.flatMap_cons, List.flatMap_nil, List.append_nil, List.map_map,
                List.mem_singleton, Prod.mk.injEq, true_and, TsType.union.injEq]
              apply List.map_congr_left
              intro m _
              cases m <;> simp only [localNameOf, Function.comp_def] <;> (try rfl) <;> (split <;> rfl)))
          exact this
        have henc : encode env w (n' + 1) true (.ref uq) (.iface (some (name, mv))) =
            .obj [("Data", encode env w n' false m0 mv), ("Kind", .str name)] := by
          simp [encode, hfind, hb, hmt]
        rw [hrt, henc]
        refine inh_ref tenv _ _ _ hl (inh_union tenv _ (.obj [("Kind", .litStr (localNameOf env m0)), ("Data", refTy env m0)]) _
          (List.mem_map.mpr ⟨m0, hm0, rfl⟩) ?_)
        -- the member's data
        have hm0ok := hok.1 m0 hm0
        have hin0 : TyIn ds m0 := by
          intro r hr
          exact F.closed ud hud r (List.mem_flatMap.mpr ⟨m0, by simp [childTys, hb, hm0], hr⟩)
        have hp0 : Prov tenv env m0 := by
          cases m0 with
          | ref mq => intro p hp; simp [declsOfAnon, tsEnvOf] at hp
          | _ => simp at hm0ok
        have hs0 : shapeOk m0 = true := by
          cases m0 with
          | ref mq => simp [shapeOk]
          | _ => simp at hm0ok
        have hdata := hg n' (by omega) m0 mv hin0 hp0 hm0ok.1 hs0 hmv
        refine inh_obj tenv _ _ ?_ ?_
        · intro p hp
          simp only [List.mem_cons, List.mem_nil_iff, or_false] at hp
          rcases hp with rfl | rfl
          · exact ⟨.str name, by simp [List.lookup], by rw [hlocal]; exact inh_litStr tenv _⟩
          · exact ⟨_, by simp [List.lookup], hdata⟩
        · intro p hp
          simp only [List.mem_cons, List.mem_nil_iff, or_false] at hp
          rcases hp with rfl | rfl
          · exact ⟨("Data", refTy env m0), by simp, rfl⟩
          · exact ⟨("Kind", .litStr (localNameOf env m0)), by simp, rfl⟩
    | _ => simp [hasType, hfind, hb] at ht


/-! ### structs -/

def fieldTs (f : Field) : TsType := if Tags.opaqueFor f.tag "typescript" then TsType.unknown else refTy env f.ty

theorem goal_named (F : Fragment env w tenv ds) (n : Nat) (hg : ∀ k, k ≤ n → Goal tenv env w ds k)
    (q : String) (d : Decl) (u : Ty) (v : GoVal) (hd : d ∈ ds) (hq : d.q = q) (hb : d.body = .named u)
    (ht : hasType env (n + 1) (.ref q) v = true) :
    Inh tenv (refTy env (.ref q)) (encode env w (n + 1) false (.ref q) v) := by
  have hfind : env.find? q = some d := by rw [← hq]; exact F.found d hd
  have hok := F.ok d hd
  have hprov : ∀ p ∈ needed env d, tenv.lookup p.1 = some p.2 :=
    fun p hp => lookup_of_lookupIs tenv p.1 p.2 (F.provided d hd p hp)
  have hrt : refTy env (.ref q) = .ref d.name := by simp [refTy, typeRef, hfind, hb]
  have hty : hasType env n u v = true := by simpa [hasType, hfind, hb] using ht
  rw [hrt]
  by_cases hw : w.nameds.contains q = true
  · -- a wrapped named slice / map of unions
    have hw2 : q ∈ w.nameds := by simpa using hw
    simp only [declOk, hb, hq, hw, if_true, Bool.and_eq_true] at hok
    obtain ⟨hshape, hname⟩ := hok
    have hchildren : ∀ r ∈ u.refs, ∃ d' ∈ ds, d'.q = r := by
      intro r hr
      have hchild : u ∈ childTys d := by
        cases u with
        | basic g bk => simp at hshape
        | _ => simp [childTys, hb]
      exact F.closed d hd r (List.mem_flatMap.mpr ⟨u, hchild, hr⟩)
    have hl : tenv.lookup d.name = some (refTy env u) := by
      have hne : (d.name == refName env u) = false := by
        cases u with
        | basic g bk => simp at hshape
        | _ => simpa using hname
      apply hprov (d.name, refTy env u)
      apply mem_needed_own
      cases u with
      | basic g bk => simp at hshape
      | _ => simp [declOfNamed, hb, hne, tsEnvOf]
    cases n with
    | zero => simp [hasType] at hty
    | succ m =>
      cases u with
      | arr k e =>
        cases e with
        | ref uq =>
          simp only [Bool.and_eq_true, decide_eq_true_eq] at hshape
          obtain ⟨hk, hun⟩ := hshape
          subst hk
          obtain ⟨ud, hud, hudq⟩ := hchildren uq (by simp [Ty.refs])
          have hfu : env.find? uq = some ud := by rw [← hudq]; exact F.found ud hud
          simp only [isUnionTy, hfu] at hun
          have hsomee : (typeRef env (.ref uq)).isSome = true := by
            simp only [typeRef, hfu]
            cases ud.body <;> simp
          cases hub : ud.body with
          | union ms =>
            cases v with
            | list isSlice isNil es =>
              simp only [hasType, Bool.and_eq_true] at hty
              have hall : hasTypeAll env (m + 1) (.ref uq) es = true :=
                hasTypeAll_mono env m (hasType_mono env m) (.ref uq) es hty.2
              have helems : ∀ x ∈ encodeListW env w (m + 1) (.ref uq) es, Inh tenv (refTy env (.ref uq)) x := by
                intro x hx
                obtain ⟨v', hv', rfl⟩ := encodeListW_mem env w (m + 1) (.ref uq) es x hx
                exact goal_union_wrapped tenv env w ds F (m + 1) hg uq ud ms v' hud hudq hub
                  (hasTypeAll_mem env (m + 1) (.ref uq) es hall v' hv')
              refine inh_ref tenv _ _ _ hl ?_
              rw [refTy_arr_neg env (-1) (.ref uq) (by omega) hsomee]
              by_cases hnil : (isSlice && isNil) = true
              · have henc : encode env w (m + 1 + 1) false (.ref q) (.list isSlice isNil es) = .arr [] := by
                  simp [encode, hfind, hb, hw2, hnil]
                rw [henc]
                exact inh_union tenv _ (.arr (refTy env (.ref uq))) _ (by simp) (inh_arr tenv _ _ (by simp))
              · have hnil' : (isSlice && isNil) = false := by simpa using hnil
                have henc : encode env w (m + 1 + 1) false (.ref q) (.list isSlice isNil es) =
                    .arr (encodeListW env w (m + 1) (.ref uq) es) := by
                  simp [encode, hfind, hb, hw2, hnil']
                rw [henc]
                exact inh_union tenv _ (.arr (refTy env (.ref uq))) _ (by simp) (inh_arr tenv _ _ helems)
            | _ => simp [hasType] at hty
          | _ => simp [hub] at hun
        | _ => simp at hshape
      | map k e =>
        cases e with
        | ref uq =>
          simp only [Bool.and_eq_true] at hshape
          obtain ⟨hkey, hun⟩ := hshape
          obtain ⟨ud, hud, hudq⟩ := hchildren uq (by simp [Ty.refs])
          have hfu : env.find? uq = some ud := by rw [← hudq]; exact F.found ud hud
          simp only [isUnionTy, hfu] at hun
          have hsomee : (typeRef env (.ref uq)).isSome = true := by
            simp only [typeRef, hfu]
            cases ud.body <;> simp
          have hsomek : (typeRef env k).isSome = true := by
            cases k with
            | basic g bk => cases bk <;> simp at hkey <;> simp [typeRef]
            | _ => simp at hkey
          have hpk : Prov tenv env k := by
            have hchild : Ty.map k (.ref uq) ∈ childTys d := by simp [childTys, hb]
            exact (prov_map tenv env k (.ref uq) (prov_child tenv env hprov _ hchild)).1
          cases hub : ud.body with
          | union ms =>
            cases v with
            | map isNil kvs =>
              simp only [hasType] at hty
              have hall : hasTypeEntries env (m + 1) k (.ref uq) kvs = true :=
                hasTypeEntries_mono env m (hasType_mono env m) k (.ref uq) kvs hty
              have henc : encode env w (m + 1 + 1) false (.ref q) (.map isNil kvs) =
                  .obj (encodeEntries env w (m + 1) true (.ref uq) kvs) := by
                simp [encode, hfind, hb, hw2]
              rw [henc]
              refine inh_ref tenv _ _ _ hl ?_
              rw [refTy_map env k (.ref uq) hsomek hsomee]
              refine inh_union tenv _ (.record (refTy env k) (refTy env (.ref uq))) _ (by simp) (inh_record tenv _ _ _ ?_)
              intro p hpm
              obtain ⟨kv, hkv, rfl⟩ := encodeEntriesW_mem env w (m + 1) (.ref uq) kvs p hpm
              obtain ⟨hko, htyv⟩ := hasTypeEntries_mem env (m + 1) k (.ref uq) kvs hall kv hkv
              refine ⟨?_, goal_union_wrapped tenv env w ds F (m + 1) hg uq ud ms kv.2 hud hudq hub htyv⟩
              cases k with
              | basic g bk =>
                cases bk with
                | str =>
                  have : refTy env (.basic g .str) = .str := by simp [refTy, typeRef]
                  rw [this]; exact keyOk_str tenv _
                | int =>
                  have : refTy env (.basic g .int) = .ref "Int" := by simp [refTy, typeRef]
                  rw [this]
                  cases hk1 : kv.1 with
                  | int r =>
                    rw [hk1] at hko
                    simp only [keyOk] at hko
                    exact keyOk_int tenv _ (prov_int tenv env g hpk) (by simpa [keyString] using hko)
                  | _ => rw [hk1] at hko; simp [keyOk] at hko
                | _ => simp at hkey
              | _ => simp at hkey
            | _ => simp [hasType] at hty
          | _ => simp [hub] at hun
        | _ => simp at hshape
      | _ => simp at hshape
  · have hw' : w.nameds.contains q = false := by simpa using hw
    have hw2 : q ∉ w.nameds := by simpa using hw
    simp only [declOk, hb, hq, hw', Bool.false_eq_true, if_false, Bool.and_eq_true] at hok
    obtain ⟨⟨hsu, hnu⟩, hname⟩ := hok
    have henc : encode env w (n + 1) false (.ref q) v = encode env w n false u v := by
      simp [encode, hfind, hb, hw2]
    rw [henc]
    -- the alias of the named type
    by_cases hint : ∃ g, u = .basic g .int
    · obtain ⟨g, rfl⟩ := hint
      have hl : tenv.lookup d.name = some (.brand .num d.name) :=
        hprov (d.name, .brand .num d.name) (mem_needed_own env d _ (by simp [declOfNamed, hb, tsEnvOf]))
      cases n with
      | zero => simp [hasType] at hty
      | succ n' =>
        cases v <;> simp [hasType] at hty
        simp only [encode]
        exact inh_ref tenv _ _ _ hl (inh_brand tenv _ _ _ (inh_num tenv _))
    · have hne : (d.name == refName env u) = false := by
        cases u with
        | basic g bk => cases bk <;> simp_all
        | _ => simpa using hname
      have hl : tenv.lookup d.name = some (refTy env u) := by
        apply hprov (d.name, refTy env u)
        apply mem_needed_own
        cases u with
        | basic g bk =>
          cases bk with
          | int => exact absurd ⟨g, rfl⟩ hint
          | _ => simp [declOfNamed, hb, hne, tsEnvOf]
        | _ => simp [declOfNamed, hb, hne, tsEnvOf]
      have hchild : u ∈ childTys d := by
        cases u with
        | basic g bk =>
          cases bk with
          | int => exact absurd ⟨g, rfl⟩ hint
          | _ => simp [childTys, hb]
        | _ => simp [childTys, hb]
      have hin : TyIn ds u := by
        intro r hr
        exact F.closed d hd r (List.mem_flatMap.mpr ⟨u, hchild, hr⟩)
      exact inh_ref tenv _ _ _ hl (hg n (Nat.le_refl n) u v hin (prov_child tenv env hprov u hchild) hnu hsu hty)

theorem goal_struct (F : Fragment env w tenv ds) (n : Nat) (hg : ∀ k, k ≤ n → Goal tenv env w ds k)
    (q : String) (d : Decl) (fs : List Field) (cs : List IR.Comment) (impls : List String) (v : GoVal)
    (hd : d ∈ ds) (hq : d.q = q) (hb : d.body = .struct fs cs impls)
    (ht : hasType env (n + 1) (.ref q) v = true) :
    Inh tenv (refTy env (.ref q)) (encode env w (n + 1) false (.ref q) v) := by
  have hfind : env.find? q = some d := by rw [← hq]; exact F.found d hd
  have hprov : ∀ p ∈ needed env d, tenv.lookup p.1 = some p.2 :=
    fun p hp => lookup_of_lookupIs tenv p.1 p.2 (F.provided d hd p hp)
  have hok := F.ok d hd
  simp only [declOk, hb, Bool.and_eq_true, List.all_eq_true, Bool.not_eq_true', decide_eq_true_eq] at hok
  obtain ⟨⟨⟨⟨hne, hfields⟩, hnd⟩, _⟩, hwrap⟩ := hok
  have hplain : ∀ f ∈ fs, isSer f = true → plainField f = true := fun f hf hs =>
    (hfields f (List.mem_filter.mpr ⟨hf, hs⟩)).1
  have hsel := selected_eq_serialised fs hplain
  cases v with
  | struct vals =>
    have hty : hasTypeFields env n fs vals = true := by simpa [hasType, hfind, hb] using ht
    have hrt : refTy env (.ref q) = .ref (structTsName d) := by simp [refTy, typeRef, hfind, hb]
    have hl : tenv.lookup (structTsName d) = some (.obj ((serialised fs).map fun f => (fkey f, fieldTs env f))) := by
      have := hprov (structTsName d, .obj ((selectedFields fs).map fun f => (fkey f, fieldTs env f)))
        (mem_needed_own env d _ (by
          have hne' : fs.isEmpty = false := hne
          simp [declOfNamed, hb, hne', tsEnvOf, fkey, fieldTs]))
      rw [hsel] at this
      exact this
    have henc : encode env w (n + 1) false (.ref q) (.struct vals) =
        .obj (encodeFields env w n (w.structs.contains q) fs vals) := by
      simp [encode, hfind, hb]
    rw [hrt, henc]
    refine inh_ref tenv _ _ _ hl (inh_obj tenv _ _ ?_ ?_)
    · -- every declared property is present with an inhabitant
      intro p hp
      obtain ⟨f, hf, rfl⟩ := List.mem_map.mp hp
      obtain ⟨hfmem, hfser⟩ := List.mem_filter.mp hf
      obtain ⟨fv, hfv, htyv⟩ := hasTypeFields_mem env n vals fs hty f hfmem hfser
      dsimp only
      refine ⟨encode env w n (w.structs.contains q && isUnionTy env f.ty) f.ty fv,
        encodeFields_lookup env w n (w.structs.contains q) vals fs hplain hty hnd f hfmem hfser fv hfv, ?_⟩
      unfold fieldTs
      by_cases hop : Tags.opaqueFor f.tag "typescript" = true
      · simp only [hop, if_true]; exact inh_unknown tenv _
      · simp only [hop, Bool.false_eq_true, if_false]
        have htyv' : hasType env n f.ty fv = true := by
          rcases htyv with h | h
          · exact absurd h hop
          · exact h
        have hfok := (hfields f hf).2
        simp only [fieldTyOk, Bool.and_eq_true, Bool.or_eq_true] at hfok
        have hchild : f.ty ∈ childTys d := by
          simp only [childTys, hb, List.mem_map, List.mem_filter]
          refine ⟨f, ⟨?_, by simpa using hop⟩, rfl⟩
          show f ∈ selectedFields fs
          rw [hsel]; exact hf
        have hin : TyIn ds f.ty := fun r hr => F.closed d hd r (List.mem_flatMap.mpr ⟨f.ty, hchild, hr⟩)
        rcases hfok.2 with hu | hnu
        · -- a union-typed field: wrapped by the shadow struct
          have hsh : w.structs.contains q = true := by
            rw [← hq]
            apply hwrap
            exact List.any_eq_true.mpr ⟨f, hf, hu⟩
          rw [hsh, hu]
          cases hft : f.ty with
          | ref uq =>
            rw [hft] at hu htyv' hin
            simp only [isUnionTy] at hu
            obtain ⟨ud, hud, hudq⟩ := hin uq (by simp [Ty.refs])
            have hfu : env.find? uq = some ud := by rw [← hudq]; exact F.found ud hud
            simp only [hfu] at hu
            cases hub : ud.body with
            | union ms =>
              exact goal_union_wrapped tenv env w ds F n hg uq ud ms fv hud hudq hub htyv'
            | _ => simp [hub] at hu
          | _ => rw [hft] at hu; simp [isUnionTy] at hu
        · have hnotu : isUnionTy env f.ty = false := by
            cases hft : f.ty with
            | ref uq => rw [hft] at hnu; simpa [noUnion] using hnu
            | _ => simp [isUnionTy]
          rw [hnotu, Bool.and_false]
          exact hg n (Nat.le_refl n) f.ty fv hin (prov_child tenv env hprov f.ty hchild) hnu hfok.1 htyv'
    · -- no other key
      intro p hp
      obtain ⟨f, hf, hfs, hpk⟩ := encodeFields_keys env w n _ vals fs hplain p hp
      exact ⟨(fkey f, fieldTs env f), List.mem_map.mpr ⟨f, List.mem_filter.mpr ⟨hf, hfs⟩, rfl⟩, hpk.symm⟩
  | _ => simp [hasType, hfind, hb] at ht


/-! ### the theorem -/

/-- **C03, end to end**: in a program of the fragment, for every type expression over its
declarations and every Go value of that type, the document `encoding/json` writes (with the generated
wrappers) inhabits the TypeScript type the generator refers to — for every sufficiently large fuel
of the two fuel-indexed semantics. -/
theorem C03_end_to_end (F : Fragment env w tenv ds) : ∀ n, Goal tenv env w ds n := by
  intro n
  induction n using Nat.strongRecOn with
  | _ n ih =>
    cases n with
    | zero => intro t v _ _ _ _ ht; simp [hasType] at ht
    | succ n =>
      intro t v hin hp hnu hs ht
      cases t with
      | basic g bk => exact goal_basic tenv env w n g bk v hp ht
      | time d => exact goal_time tenv env w n d v hp ht
      | arr k e => exact goal_arr tenv env w ds F.found n (ih n (Nat.lt_succ_self n)) k e v hin hp hnu hs ht
      | map k e => exact goal_map tenv env w ds F.found n (ih n (Nat.lt_succ_self n)) k e v hin hp hnu hs ht
      | ptr e => simp [shapeOk] at hs
      | ref q =>
        obtain ⟨d, hd, hq⟩ := hin q (by simp [Ty.refs])
        cases hb : d.body with
        | named u => exact goal_named tenv env w ds F n (fun k hk => ih k (Nat.lt_succ_of_le hk)) q d u v hd hq hb ht
        | enum un bk ms io => exact goal_enum tenv env w ds F n q d un bk ms io v hd hq hb ht
        | struct fs cs impls =>
          exact goal_struct tenv env w ds F n (fun k hk => ih k (Nat.lt_succ_of_le hk)) q d fs cs impls v hd hq hb ht
        | union ms =>
          have hfind : env.find? q = some d := by rw [← hq]; exact F.found d hd
          simp [noUnion, isUnionTy, hfind, hb] at hnu

/-- the decidable check implies the fragment conditions -/
theorem fragment_of_check (h : fragmentB env w tenv ds = true) : Fragment env w tenv ds := by
  simp only [fragmentB, Bool.and_eq_true, List.all_eq_true, decide_eq_true_eq, List.any_eq_true, beq_iff_eq,
    List.isEmpty_iff] at h
  obtain ⟨⟨⟨h2, h3⟩, h4⟩, h5⟩ := h
  exact {
    found := h2
    closed := fun d hd q hq => by
      obtain ⟨d', hd', he⟩ := h3 d hd q hq
      exact ⟨d', hd', he⟩
    ok := h4
    provided := fun d hd p hp => h5 d hd p hp }

/-- **C03, end to end, as evaluated per program**: when the decidable fragment check holds for a
program, every well-typed value of every source type gives a document that inhabits its type -/
theorem C03_end_to_end_checked (h : fragmentB env w tenv ds = true) (n : Nat) (q : String) (v : GoVal)
    (hq : ∃ d ∈ ds, d.q = q) (hnu : isUnionTy env (.ref q) = false) (ht : hasType env n (.ref q) v = true) :
    Inh tenv (refTy env (.ref q)) (encode env w n false (.ref q) v) := by
  have F := fragment_of_check tenv env w ds h
  refine C03_end_to_end tenv env w ds F n (.ref q) v ?_ ?_ ?_ ?_ ht
  · intro r hr
    simp only [Ty.refs, List.mem_singleton] at hr
    subst hr; exact hq
  · intro p hp; simp [declsOfAnon, tsEnvOf] at hp
  · simp [noUnion, hnu]
  · simp [shapeOk]

end Gomacro.E2E
