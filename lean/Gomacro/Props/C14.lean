import Gomacro.AxiosGen
/-!
# C14 — The generated Axios client issues exactly the extracted requests

Theorems about the method structure `genMethod` builds and the request `perform` derives from it:
name, verb, URL, query parameters (exactly the declared ones, each converted to a string by its
kind), body (JSON input / form data with exactly the declared entries / null / absent), response
handling. The guards name the endpoint shapes for which the statement fails (body input together
with form data or query parameters: witnesses below; body on a verb without body: observed by
the runner). The method structure is tied token-wise to the real generated text, and `perform` to
Node running that text against a recording axios.
-/
namespace Gomacro.AxiosGen
open List Gomacro.IR Gomacro.TsGen Gomacro.GoJson

theorem genMethod_some (env : Env) (e : Endpoint) (m : Method) (h : genMethod env e = some m) :
    ∃ sig query repTy, typeIn env e = some sig ∧
      (e.query.mapM fun p => (convOf env p.ty).map fun c => (p.name, c)) = some query ∧
      m = { name := e.name, sig := sig, url := e.url,
            withForm := e.withForm, formFile := e.formFile, formValues := e.formValues,
            formJSON := (e.formJSON.map (·.name)).getD "",
            verb := e.method.toLower,
            body := if e.withForm then .form else if e.input.isSome then .params else if expectBody e.method then .null else .absent,
            query := query, arraybuffer := e.blob, repTy := repTy,
            ret := if e.ret.isNone then .tru else if e.blob then .blobFile else .data } := by
  unfold genMethod at h
  simp only [Option.bind_eq_bind, Option.bind_eq_some_iff, Option.pure_def, Option.some.injEq] at h
  obtain ⟨sig, hs, query, hq, repTy, _, rfl⟩ := h
  exact ⟨sig, query, repTy, hs, hq, rfl⟩

/-- **one method per endpoint, named after its handler, with the endpoint's verb and URL** -/
theorem C14_name_verb_url (env : Env) (e : Endpoint) (m : Method) (h : genMethod env e = some m) :
    m.name = e.name ∧ m.verb = e.method.toLower ∧ m.url = e.url := by
  obtain ⟨_, _, _, _, _, rfl⟩ := genMethod_some env e m h
  exact ⟨rfl, rfl, rfl⟩

theorem C14_sends_to (base : String) (m : Method) (a : Args) (r : Request) (h : perform base m a = some r) :
    r.verb = m.verb ∧ r.url = base ++ m.url ∧ r.arraybuffer = m.arraybuffer ∧ r.result = m.ret := by
  unfold perform at h
  simp only [Option.bind_eq_bind, Option.bind_eq_some_iff, Option.pure_def, Option.some.injEq] at h
  obtain ⟨_, _, _, _, rfl⟩ := h
  exact ⟨rfl, rfl, rfl, rfl⟩

/-! ### the signature -/

def sigNames (e : Endpoint) : List String :=
  match e.input with
  | some _ => ["params"]
  | none =>
    (if e.withForm && !e.formValues.isEmpty then ["formParams"] else []) ++
    (if e.withForm && e.formFile != "" then ["file"] else []) ++
    (if e.withForm && e.formJSON.isSome then ["formValue"] else []) ++
    (if e.query.isEmpty then [] else ["params"])

theorem typeIn_names (env : Env) (e : Endpoint) (sig : List (String × String)) (h : typeIn env e = some sig) :
    sig.map (·.1) = sigNames e := by
  unfold typeIn at h
  unfold sigNames
  cases hi : e.input with
  | some t =>
    simp only [hi, Option.map_eq_some_iff] at h
    obtain ⟨n, _, rfl⟩ := h
    rfl
  | none =>
    simp only [hi, Option.bind_eq_bind, Option.bind_eq_some_iff, Option.pure_def, Option.some.injEq] at h
    obtain ⟨c1, h1, c3, h3, c4, h4, rfl⟩ := h
    have e1 : c1.map (·.1) = if e.withForm && !e.formValues.isEmpty then ["formParams"] else [] := by
      unfold sigFormParams at h1
      split at h1
      · simp only [Option.map_eq_some_iff] at h1
        obtain ⟨_, _, rfl⟩ := h1
        simp [*]
      · simp only [Option.some.injEq] at h1
        subst h1; simp [*]
    have e2 : (sigFile e).map (·.1) = if e.withForm && e.formFile != "" then ["file"] else [] := by
      unfold sigFile; split <;> simp
    have e3 : c3.map (·.1) = if e.withForm && e.formJSON.isSome then ["formValue"] else [] := by
      unfold sigFormValue at h3
      cases hw : e.withForm <;> cases hj : e.formJSON <;> simp only [hw, hj] at h3
      all_goals first
        | (simp only [Option.some.injEq, Bool.false_eq_true, if_false] at h3; subst h3; simp)
        | (simp only [if_true, Option.map_eq_some_iff] at h3; obtain ⟨_, _, rfl⟩ := h3; simp)
        | (simp at h3; subst h3; simp)
    have e4 : c4.map (·.1) = if e.query.isEmpty then [] else ["params"] := by
      unfold sigQuery at h4
      split at h4
      · simp only [Option.some.injEq] at h4
        subst h4; simp [*]
      · simp only [Option.map_eq_some_iff] at h4
        obtain ⟨_, _, rfl⟩ := h4
        simp [*]
    simp only [List.map_append, e1, e2, e3, e4]

/-! ### query parameters -/

theorem mapM_names (env : Env) : ∀ (ps : List Param) (q : List (String × Conv)),
    (ps.mapM fun p => (convOf env p.ty).map fun c => (p.name, c)) = some q → q.map (·.1) = ps.map (·.name)
  | [], q, h => by
    have : q = [] := by simpa [List.mapM_nil, pure] using h.symm
    subst this; rfl
  | p :: ps, q, h => by
    rw [List.mapM_cons] at h
    cases hc : convOf env p.ty with
    | none => simp [hc, bind, Option.bind] at h
    | some c =>
      cases hr : ps.mapM (fun p => (convOf env p.ty).map fun c => (p.name, c)) with
      | none => simp [hc, hr, bind, Option.bind] at h
      | some rest =>
        simp [hc, hr, bind, Option.bind, pure] at h
        subst h
        simp [mapM_names env ps rest hr]

/-- **exactly the declared query parameters**, in order -/
theorem C14_query_names (env : Env) (e : Endpoint) (m : Method) (h : genMethod env e = some m) :
    m.query.map (·.1) = e.query.map (·.name) := by
  obtain ⟨_, q, _, _, hq, rfl⟩ := genMethod_some env e m h
  exact mapM_names env e.query q hq

/-- **query parameters are sent**, each read from `params` and converted by its kind — provided the
endpoint has no JSON body (the body would take the name `params`) -/
theorem C14_query_sent (env : Env) (e : Endpoint) (m : Method) (a : Args) (h : genMethod env e = some m)
    (hi : e.input = none) :
    queryPart m a = some (if e.query.isEmpty then none else
      some (m.query.map fun (n, c) => (n, applyConv c (field ((a.lookup "params").getD .null) n)))) := by
  obtain ⟨sig, q, _, hs, hq, rfl⟩ := genMethod_some env e m h
  have hn := typeIn_names env e sig hs
  have hlen : q.isEmpty = e.query.isEmpty := by
    have := congrArg List.length (mapM_names env e.query q hq)
    simp only [List.length_map] at this
    cases q <;> cases hq' : e.query <;> simp_all
  unfold queryPart
  simp only [hlen]
  by_cases hqe : e.query.isEmpty = true
  · simp [hqe]
  · have hc : "params" ∈ sigNames e := by
      simp [sigNames, hi, hqe]
    simp [hqe, argOf, hn, hc]

/-- conversions: numbers through `String`, booleans to 'ok' / '', strings unchanged -/
theorem C14_conversions (n : String) (b : Bool) (s : String) :
    applyConv .toStr (.num n) = .str n ∧ applyConv .okOrEmpty (.bool b) = .str (if b then "ok" else "") ∧
    applyConv .ident (.str s) = .str s := by
  cases b <;> simp [applyConv, jsString, truthy]

/-! ### body -/

/-- **JSON input** is passed as the body -/
theorem C14_body_json (env : Env) (e : Endpoint) (m : Method) (a : Args) (t : Ty) (h : genMethod env e = some m)
    (hi : e.input = some t) (hf : e.withForm = false) :
    bodyPart m a = some (.json ((a.lookup "params").getD .null)) := by
  obtain ⟨sig, q, _, hs, _, rfl⟩ := genMethod_some env e m h
  have hn := typeIn_names env e sig hs
  simp [bodyPart, hf, hi, argOf, hn, sigNames]

/-- **no input**: null for POST / PUT, no body argument otherwise -/
theorem C14_body_none (env : Env) (e : Endpoint) (m : Method) (a : Args) (h : genMethod env e = some m)
    (hi : e.input = none) (hf : e.withForm = false) :
    bodyPart m a = some (if expectBody e.method then .null else .absent) := by
  obtain ⟨sig, q, _, _, _, rfl⟩ := genMethod_some env e m h
  by_cases hb : expectBody e.method = true <;> simp [bodyPart, hf, hi, hb]

/-- the entries of the form data, as declared -/
def expectedForm (e : Endpoint) (a : Args) : List (String × FormEntry) :=
  (if e.formFile != "" then [(e.formFile, FormEntry.file ((a.lookup "file").getD .null))] else []) ++
  e.formValues.map (fun k => (k, FormEntry.text (field ((a.lookup "formParams").getD .null) k))) ++
  (match e.formJSON with
   | some p => if p.name != "" then [(p.name, FormEntry.json ((a.lookup "formValue").getD .null))] else []
   | none => [])

/-- **form data** carries exactly the declared file, values and JSON field — provided the endpoint
has no JSON body -/
theorem argOf_declared (m : Method) (a : Args) (n : String) (h : n ∈ m.sig.map (·.1)) :
    argOf m a n = some ((a.lookup n).getD .null) := by
  simp only [argOf, List.contains_iff_mem, h, if_true]

theorem C14_body_form (env : Env) (e : Endpoint) (m : Method) (a : Args) (h : genMethod env e = some m)
    (hi : e.input = none) (hf : e.withForm = true) :
    bodyPart m a = some (.form (expectedForm e a)) := by
  obtain ⟨sig, q, rt, hs, _, hm⟩ := genMethod_some env e m h
  have hn : m.sig.map (·.1) = sigNames e := by rw [hm]; exact typeIn_names env e sig hs
  have hb : m.body = .form := by rw [hm]; simp [hf]
  have h1 : m.formFile = e.formFile := by rw [hm]
  have h2 : m.formValues = e.formValues := by rw [hm]
  have h3 : m.formJSON = (e.formJSON.map (·.name)).getD "" := by rw [hm]
  have p1 : formFilePart m a =
      some (if e.formFile != "" then [(e.formFile, FormEntry.file ((a.lookup "file").getD .null))] else []) := by
    unfold formFilePart
    rw [h1]
    by_cases hc : e.formFile = ""
    · simp [hc]
    · have : "file" ∈ m.sig.map (·.1) := by rw [hn]; simp [sigNames, hi, hf, hc]
      simp [hc, argOf_declared m a "file" this]
  have p2 : formValuesPart m a =
      some (e.formValues.map fun k => (k, FormEntry.text (field ((a.lookup "formParams").getD .null) k))) := by
    unfold formValuesPart
    rw [h2]
    cases hc : e.formValues.isEmpty
    · have : "formParams" ∈ m.sig.map (·.1) := by rw [hn]; simp [sigNames, hi, hf, hc]
      simp [argOf_declared m a "formParams" this]
    · have : e.formValues = [] := by simpa using hc
      simp [this]
  have p3 : formJSONPart m a =
      some (match e.formJSON with
        | some p => if p.name != "" then [(p.name, FormEntry.json ((a.lookup "formValue").getD .null))] else []
        | none => []) := by
    unfold formJSONPart
    rw [h3]
    cases hj : e.formJSON with
    | none => simp
    | some p =>
      have : "formValue" ∈ m.sig.map (·.1) := by rw [hn]; simp [sigNames, hi, hf, hj]
      by_cases hp : p.name = ""
      · simp [hp]
      · simp [hp, argOf_declared m a "formValue" this]
  unfold bodyPart formPart
  rw [hb]
  simp only [p1, p2, p3, Option.bind_eq_bind, Option.bind_some, Option.pure_def, Option.map_some, expectedForm]

/-! ### response handling -/

/-- **return**: true when the handler returns nothing, blob + file name for blob routes (with an
arraybuffer response), the payload otherwise -/
theorem C14_return (env : Env) (e : Endpoint) (m : Method) (h : genMethod env e = some m) :
    m.ret = (if e.ret.isNone then .tru else if e.blob then .blobFile else .data) ∧ m.arraybuffer = e.blob := by
  obtain ⟨_, _, _, _, _, rfl⟩ := genMethod_some env e m h
  exact ⟨rfl, rfl⟩

/-- **the whole request**, for endpoints without a JSON body -/
theorem C14_request (env : Env) (base : String) (e : Endpoint) (m : Method) (a : Args) (h : genMethod env e = some m)
    (hi : e.input = none) :
    perform base m a = some
      { verb := e.method.toLower, url := base ++ e.url,
        body := if e.withForm then .form (expectedForm e a) else if expectBody e.method then .null else .absent,
        query := if e.query.isEmpty then none else
          some (m.query.map fun (n, c) => (n, applyConv c (field ((a.lookup "params").getD .null) n))),
        arraybuffer := e.blob,
        result := if e.ret.isNone then .tru else if e.blob then .blobFile else .data } := by
  have hq := C14_query_sent env e m a h hi
  have hb : bodyPart m a = some (if e.withForm then .form (expectedForm e a) else if expectBody e.method then .null else .absent) := by
    cases hf : e.withForm
    · simpa using C14_body_none env e m a h hi hf
    · simpa using C14_body_form env e m a h hi hf
  obtain ⟨hn, hv, hu⟩ := C14_name_verb_url env e m h
  obtain ⟨hr, ha⟩ := C14_return env e m h
  simp [perform, hq, hb, hv, hu, hr, ha]

/-- **the whole request**, JSON body without form data and query parameters -/
theorem C14_request_json (env : Env) (base : String) (e : Endpoint) (m : Method) (a : Args) (t : Ty)
    (h : genMethod env e = some m) (hi : e.input = some t) (hf : e.withForm = false) (hq : e.query = []) :
    perform base m a = some
      { verb := e.method.toLower, url := base ++ e.url, body := .json ((a.lookup "params").getD .null),
        query := none, arraybuffer := e.blob,
        result := if e.ret.isNone then .tru else if e.blob then .blobFile else .data } := by
  have hb := C14_body_json env e m a t h hi hf
  obtain ⟨hn, hv, hu⟩ := C14_name_verb_url env e m h
  obtain ⟨hr, ha⟩ := C14_return env e m h
  have hqn := C14_query_names env e m h
  have hme : m.query = [] := by
    have := congrArg List.length hqn
    simp [hq] at this
    exact this
  simp [perform, queryPart, hme, hb, hv, hu, hr, ha]

/-! ### the shapes the guards exclude (recorded findings) -/

def intTy : Ty := .basic "int" .int
def emptyEnv : Env := { pkgPath := "", pkgName := "", source := [], decls := [] }

/-- a JSON body together with a query parameter: the query value is read from the body object -/
example :
    (genMethod emptyEnv { url := "/u", method := "POST", name := "h", input := some intTy, query := [⟨"q", strTy⟩] }).map
      (fun m => (m.sig.map (·.1), m.query.map (·.1))) = some (["params"], ["q"]) := by
  simp [genMethod, typeIn, typeName, typeRef, intTy, strTy, convOf, convOfKind, repTyOf, Endpoint.withForm, emptyEnv]

/-- a JSON body together with form data: the method body uses `formParams`, which the signature
does not declare -/
example :
    ((genMethod emptyEnv { url := "/u", method := "POST", name := "h", input := some intTy, formValues := ["v"] }).bind
      fun m => argOf m [] "formParams") = none := by
  simp [genMethod, typeIn, typeName, typeRef, intTy, convOf, repTyOf, Endpoint.withForm, emptyEnv, argOf]

end Gomacro.AxiosGen
