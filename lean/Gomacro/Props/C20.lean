import Gomacro.Lemmas.Sched
import Gomacro.Facts.Generated
/-!
# C20 — Formatter probing is race-free, cached and optional

Theorems over the protocol model `Gomacro/Sched.lean`, for every number of requests, every
schedule (interleaving) and every configuration of the four external tools; plus the
structural facts regenerated from `generator/formatters.go` that tie the model's shape to the code.
-/
namespace Gomacro.Sched

/-- **probe at most once**: in every reachable state each tool's probe command has run at most once. -/
theorem C20_probe_once {c : Cfg} {s : St} (h : Reachable c s) (t : Tool) : s.probes t ≤ 1 := by
  have inv := inv_reachable h
  cases hc : s.cell t with
  | some b => rw [(inv.cell_some t b hc).1]; exact Nat.le_refl 1
  | none =>
    by_cases hw : ∃ j r, s.pc j = .writing r ∧ c.req j = t
    · obtain ⟨j, r, hj, rfl⟩ := hw
      rw [(inv.writing_one j r hj).2.1]; exact Nat.le_refl 1
    · have : s.probes t = 0 := inv.cell_none t hc (by
        intro j r hj e; exact hw ⟨j, r, hj, e⟩)
      omega

/-- **locked access**: every read or write of a cache cell, in every execution, is performed by
a thread that holds the mutex at that moment. -/
theorem C20_locked_access {c : Cfg} {s : St} (h : Reachable c s) (i : Nat) :
    ∀ a, access c s i = some a →
      (a = .read i (c.req i) (some i) ∨ a = .write i (c.req i) (some i)) := by
  have inv := inv_reachable h
  intro a ha
  unfold access at ha
  split at ha
  · rename_i hpc
    have := inv.holder i (by simp [hpc, inside])
    left; simp [this] at ha; exact ha.symm
  · rename_i r hpc
    have := inv.holder i (by simp [hpc, inside])
    right; simp [this] at ha; exact ha.symm
  · simp at ha

/-- hence two different threads are never both about to access the cache: conflicting accesses
are totally ordered by the mutex (no data race on the modelled cells). -/
theorem C20_no_concurrent_access {c : Cfg} {s : St} (h : Reachable c s) (i j : Nat)
    (hi : access c s i ≠ none) (hj : access c s j ≠ none) : i = j := by
  have inv := inv_reachable h
  have ins : ∀ k, access c s k ≠ none → inside (s.pc k) = true := by
    intro k hk
    unfold access at hk
    split at hk <;> simp_all [inside]
  have h1 := inv.holder i (ins i hi)
  have h2 := inv.holder j (ins j hj)
  rw [h1] at h2; simpa using h2

/-- **run once per request when present, never when absent** -/
theorem C20_run_per_request {c : Cfg} {s : St} (h : Reachable c s) (i : Nat) (e : Bool)
    (hd : s.pc i = .done e) : s.runs i = if c.installed (c.req i) then 1 else 0 :=
  ((inv_reachable h).runs_done i e hd).1

theorem C20_no_run_before_done {c : Cfg} {s : St} (h : Reachable c s) (i : Nat)
    (hd : ∀ e, s.pc i ≠ .done e) : s.runs i = 0 :=
  (inv_reachable h).runs_pre i hd

/-- **absent tool**: the request succeeds and the formatter never ran (file untouched). -/
theorem C20_absent_ok_untouched {c : Cfg} {s : St} (h : Reachable c s) (i : Nat) (e : Bool)
    (habs : c.installed (c.req i) = false) (hd : s.pc i = .done e) : e = false ∧ s.runs i = 0 := by
  have := (inv_reachable h).runs_done i e hd
  simp [habs] at this
  exact ⟨this.2, this.1⟩

/-- **failing formatter run is reported** -/
theorem C20_failing_reported {c : Cfg} {s : St} (h : Reachable c s) (i : Nat) (e : Bool)
    (hin : c.installed (c.req i) = true) (hf : c.runOk (c.req i) = false)
    (hd : s.pc i = .done e) : e = true := by
  have := ((inv_reachable h).runs_done i e hd).2
  simp [hin, hf] at this; exact this

theorem C20_success_reported {c : Cfg} {s : St} (h : Reachable c s) (i : Nat) (e : Bool)
    (hf : c.runOk (c.req i) = true) (hd : s.pc i = .done e) : e = false := by
  have := ((inv_reachable h).runs_done i e hd).2
  simp [hf] at this; exact this

/-- **no deadlock**: while some request is unfinished, some thread can make progress. -/
theorem C20_no_deadlock {c : Cfg} {s : St} (h : Reachable c s) (i : Nat)
    (hnd : ∀ e, s.pc i ≠ .done e) : ∃ j, (step c s j).pc j ≠ s.pc j := by
  have inv := inv_reachable h
  cases hl : s.lock with
  | some j =>
    refine ⟨j, ?_⟩
    have hin := inv.owner j hl
    unfold step
    cases hp : s.pc j <;> simp [hp, inside] at hin ⊢
    · split <;> simp [setPc]
    · simp [setPc]
    · simp [setPc]
    · simp [setPc]
  | none =>
    refine ⟨i, ?_⟩
    unfold step
    cases hp : s.pc i with
    | idle => simp [hl, setPc]
    | locked => have := inv.holder i (by simp [hp, inside]); simp [hl] at this
    | probing => have := inv.holder i (by simp [hp, inside]); simp [hl] at this
    | writing r => have := inv.holder i (by simp [hp, inside]); simp [hl] at this
    | unlocking b => have := inv.holder i (by simp [hp, inside]); simp [hl] at this
    | deciding b => cases b <;> simp [setPc]
    | done e => exact absurd hp (hnd e)

/-! non-vacuity: a reachable state in which two requests for the same tool have completed,
the probe ran once and the formatter twice -/
example : let c : Cfg := ⟨fun _ => true, fun _ => true, fun _ => .go⟩
    let s := run c init [0, 1, 0, 0, 0, 0, 1, 1, 1, 0, 1]
    s.probes .go = 1 ∧ s.runs 0 = 1 ∧ s.runs 1 = 1 ∧ s.pc 1 = .done false := by
  decide

end Gomacro.Sched

namespace Gomacro.Facts
/-! ## Facts regenerated from generator/formatters.go (tie of the model's shape to the code) -/

def probeFns : List (String × String) :=
  [("Formatters.hasGo", "hasGoFmt"), ("Formatters.hasDart", "hasDartFmt"),
   ("Formatters.hasTypescript", "hasTsFmt"), ("Formatters.hasPsql", "hasPsqlFmt")]

/-- every access to a cache cell sits in its own probe function, under `Lock(); defer Unlock()`;
the cell is written only inside the `== nil` guard (so a cached value is never overwritten) -/
def accessOk (a : CellAccess) : Bool :=
  a.locked && probeFns.contains (a.func, a.field) &&
  (if a.kind == "read" then a.path == "" || a.path == "ifnil-cond" || a.path == "ifnil"
   else a.path == "ifnil")

def factsOk : Bool :=
  cellAccesses.all accessOk &&
  -- each probe function does read its cell under the nil guard and writes it there
  probeFns.all (fun (fn, fld) =>
    cellAccesses.any (fun a => a.func == fn && a.field == fld && a.kind == "read" && a.path == "ifnil-cond") &&
    cellAccesses.any (fun a => a.func == fn && a.field == fld && a.kind == "write" && a.path == "ifnil") &&
    cellAccesses.any (fun a => a.func == fn && a.field == fld && a.kind == "write-deref" && a.path == "ifnil")) &&
  -- the mutex is used by the probe functions only
  lockUsers.all (fun u => probeFns.any (fun p => p.1 == u)) &&
  -- FormatFile reaches the cells only through the probe functions, one per format
  formatCases == [⟨"Go", "hasGo", "goimports"⟩, ⟨"Dart", "hasDart", "dart"⟩,
                  ⟨"TypeScript", "hasTypescript", "npx"⟩, ⟨"Psql", "hasPsql", "pg_format"⟩]

/-- **regenerated obligation**: the lock discipline the model assumes is the one in the source -/
theorem C20_facts_ok : factsOk = true := by decide

end Gomacro.Facts
