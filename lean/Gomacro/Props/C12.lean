import Gomacro.Analysis
/-!
# C12 — The analysed type graph is closed, faithful and finite

Theorems about the declarative analysis model (`convert`, `declOf`, `analyse`).  The model is a
total Lean function: it terminates on every fact base, recursive declarations included, by
construction; that the recursive descent of the Go code computes the same environment is what the
correspondence runner checks on synthesised recursion shapes (self, mutual, through slices, maps,
arrays, unions) on every run — termination of the Go code itself is *not* proved (see DESIGN.md).
-/
namespace Gomacro.Analysis
open List Gomacro Gomacro.IR Gomacro.GoFacts

/-- what "classified as go/types reports" means for a type expression -/
inductive Faithful (fb : FactBase) : GoTy → Ty → Prop
  | basic (n info) : Faithful fb (.basic n info) (.basic n (bkOfInfo info))
  | array (n e e') : Faithful fb e e' → Faithful fb (.array n e) (.arr n e')
  | slice (e e') : Faithful fb e e' → Faithful fb (.slice e) (.arr (-1) e')
  | map (k k' e e') : Faithful fb k k' → Faithful fb e e' → Faithful fb (.map k e) (.map k' e')
  | ptr (e e') : Faithful fb e e' → Faithful fb (.ptr e) (.ptr e')
  | ref (q) : Faithful fb (.named q) (.ref q)
  | time (q tf) : fb.type? q = some tf → tf.pkgPath = "time" → tf.underStr = timeString →
      Faithful fb (.named q) (.time (isDateName tf.name))

/-- **faithful**: whenever a Go type expression converts, the IR expression has the same kind,
array length, key / element structure and basic name; `time.Time` is reported as predefined. -/
theorem C12_convert_faithful (fb : FactBase) : (t : GoTy) → (ty : Ty) → convert fb t = .ok ty →
    Faithful fb t ty
  | .basic n info, ty, h => by simp [convert] at h; subst h; exact .basic n info
  | .array n e, ty, h => by
    simp only [convert] at h
    split at h <;> simp at h
    subst h; exact .array n e _ (C12_convert_faithful fb e _ (by assumption))
  | .slice e, ty, h => by
    simp only [convert] at h
    split at h <;> simp at h
    subst h; exact .slice e _ (C12_convert_faithful fb e _ (by assumption))
  | .map k e, ty, h => by
    simp only [convert] at h
    split at h
    · split at h <;> simp at h
      subst h
      exact .map k _ e _ (C12_convert_faithful fb k _ (by assumption))
        (C12_convert_faithful fb e _ (by assumption))
    · simp at h
    · simp at h
  | .ptr e, ty, h => by
    simp only [convert] at h
    split at h <;> simp at h
    subst h; exact .ptr e _ (C12_convert_faithful fb e _ (by assumption))
  | .struct fs, ty, h => by simp [convert] at h
  | .iface n, ty, h => by simp [convert] at h
  | .chan, ty, h => by simp [convert] at h
  | .func, ty, h => by simp [convert] at h
  | .named q, ty, h => by
    simp only [convert, convertNamed] at h
    split at h
    · simp at h
    · rename_i tf htf
      split at h
      · rename_i hc
        simp only [Bool.and_eq_true, beq_iff_eq] at hc
        simp at h; subst h
        exact .time q tf htf hc.2 hc.1
      · simp at h; subst h; exact .ref q
  | .tparam n, ty, h => by simp [convert] at h
  | .other s, ty, h => by simp [convert] at h

/-- conversion never crashes on a type whose named leaves all have facts: unsupported forms
(anonymous structs, channels, functions, bare interfaces, type parameters) are diagnostics -/
theorem C12_convert_no_crash (fb : FactBase) (hfacts : ∀ q, (fb.type? q).isSome = true) :
    (t : GoTy) → (convert fb t).isCrash = false
  | .basic n info => by simp [convert, Outcome.isCrash]
  | .array n e => by
    have := C12_convert_no_crash fb hfacts e
    simp only [convert]; split <;> simp_all [Outcome.isCrash]
  | .slice e => by
    have := C12_convert_no_crash fb hfacts e
    simp only [convert]; split <;> simp_all [Outcome.isCrash]
  | .map k e => by
    have h1 := C12_convert_no_crash fb hfacts k
    have h2 := C12_convert_no_crash fb hfacts e
    simp only [convert]
    split
    · split <;> simp_all [Outcome.isCrash]
    · simp [Outcome.isCrash]
    · simp_all [Outcome.isCrash]
  | .ptr e => by
    have := C12_convert_no_crash fb hfacts e
    simp only [convert]; split <;> simp_all [Outcome.isCrash]
  | .struct fs => by simp [convert, Outcome.isCrash]
  | .iface n => by simp [convert, Outcome.isCrash]
  | .chan => by simp [convert, Outcome.isCrash]
  | .func => by simp [convert, Outcome.isCrash]
  | .named q => by
    simp only [convert, convertNamed]
    have := hfacts q
    split
    · simp_all
    · split <;> simp [Outcome.isCrash]
  | .tparam n => by simp [convert, Outcome.isCrash]
  | .other s => by simp [convert, Outcome.isCrash]

/-- **closed**: in a successful analysis every type referred to by the source list or by a
declaration of the environment is itself a declaration of the environment (or one the model
reports as refused). -/
theorem C12_closed (fb : FactBase) (r : Result) (h : analyse fb = .ok r) :
    closedB r.env.source r.env.decls (r.failures.map (·.1)) = true := by
  unfold analyse at h
  split at h <;> try simp at h
  split at h <;> try simp at h
  split at h
  · rename_i hc
    simp only [Outcome.ok.injEq] at h
    subst h
    exact hc
  · simp at h

/-- spelled out for the fully accepted case: every reference resolves inside the environment -/
theorem C12_closed_refs (fb : FactBase) (r : Result) (h : analyse fb = .ok r)
    (hnf : r.failures = []) :
    ∀ d ∈ r.env.decls, ∀ q ∈ d.body.refs, ∃ d' ∈ r.env.decls, d'.q = q := by
  have hc := C12_closed fb r h
  unfold closedB at hc
  simp only [hnf, List.map_nil, List.contains_nil, Bool.or_false, Bool.and_eq_true,
    List.all_eq_true, List.any_eq_true, beq_iff_eq] at hc
  intro d hd q hq
  exact hc.2 d hd q hq

/-- **source order**: the source list is the list of type declarations of the analysed file, in
file order, each converted on its own -/
theorem C12_source_order (fb : FactBase) (r : Result) (h : analyse fb = .ok r) :
    sourceTys fb = .ok r.env.source := by
  unfold analyse at h
  split at h <;> try simp at h
  split at h <;> try simp at h
  rename_i src hsrc
  split at h
  · simp only [Outcome.ok.injEq] at h
    subst h
    exact hsrc
  · simp at h

/-- **identity of a declaration**: the IR declaration of a named type carries that type's
qualified name, package and type arguments -/
theorem C12_decl_identity (fb : FactBase) (enums : List EnumInfo) (unions : List (String × List String))
    (tf : TypeFact) (d : Decl) (h : declOf fb enums unions tf = .ok d) :
    d.q = tf.q ∧ d.name = tf.name ∧ d.pkgPath = tf.pkgPath ∧ d.targs = tf.targs := by
  unfold declOf at h
  simp only at h
  repeat' split at h
  all_goals first
    | (simp only [Outcome.ok.injEq] at h; subst h; exact ⟨rfl, rfl, rfl, rfl⟩)
    | simp at h

end Gomacro.Analysis
