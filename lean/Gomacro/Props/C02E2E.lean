import Gomacro.RoundTrip
import Gomacro.Props.C03E2E
/-!
# C02, end to end: the round trip

`C02_round_trip`: for a program in the fragment (`RoundTrip.FragmentRT`: decidable, the same
declaration conditions as the C03 end-to-end theorem, closed over every serialised field), for every
type over its declarations and every strictly typed Go value, `decode (encode v) = some v` — the
decoder is the model of `json.Unmarshal` with the generated `UnmarshalJSON` methods
(`RoundTrip.decode`), the encoder the model of `json.Marshal` with the generated `MarshalJSON`
methods (`GoJson.encode`). Strong induction on the common fuel.
-/
namespace Gomacro.RoundTrip
open Gomacro.IR Gomacro.GoJson Gomacro.E2E

theorem fragmentRT_of_check (env : Env) (w : Wrappers) (ds : List Decl) (h : fragmentRTB env w ds = true) : FragmentRT env w ds := by
  simp only [fragmentRTB, Bool.and_eq_true, List.all_eq_true, decide_eq_true_eq, List.any_eq_true, beq_iff_eq,
    List.isEmpty_iff] at h
  obtain ⟨⟨⟨h1, h2⟩, h3⟩, h4⟩ := h
  exact { nameds := h1, found := h2, ok := h4,
          closed := fun d hd q hq => by
            obtain ⟨d', hd', he⟩ := h3 d hd q hq
            exact ⟨d', hd', he⟩ }

variable (env : Env) (w : Wrappers) (ds : List Decl)

/-- the statement at fuel `n`: decoding the document of a value gives the value back -/
def RT (n : Nat) : Prop :=
  ∀ t v, TyIn ds t → noUnion env t = true → shapeOk t = true → wt env n t v = true →
    decode env w n false t (encode env w n false t v) = some v

theorem wtAll_mem (n : Nat) (e : Ty) : ∀ (es : List GoVal), wtAll env n e es = true → ∀ v ∈ es, wt env n e v = true
  | [], _, v, hv => by simp at hv
  | x :: xs, h, v, hv => by
    simp only [wtAll, Bool.and_eq_true] at h
    rcases List.mem_cons.mp hv with rfl | hv
    · exact h.1
    · exact wtAll_mem n e xs h.2 v hv

theorem decodeList_encodeList (n : Nat) (e : Ty) (hrt : ∀ v, wt env n e v = true → decode env w n false e (encode env w n false e v) = some v) :
    ∀ (es : List GoVal), wtAll env n e es = true → decodeList env w n false e (encodeList env w n e es) = some es
  | [], _ => by simp [encodeList, decodeList]
  | v :: vs, h => by
    simp only [wtAll, Bool.and_eq_true] at h
    simp only [encodeList, decodeList, hrt v h.1, decodeList_encodeList n e hrt vs h.2]

theorem decodeEntries_encodeEntries (n : Nat) (k e : Ty)
    (hrt : ∀ v, wt env n e v = true → decode env w n false e (encode env w n false e v) = some v) :
    ∀ (kvs : List (GoVal × GoVal)), wtEntries env n k e kvs = true →
      decodeEntries env w n false k e (encodeEntries env w n false e kvs) = some kvs
  | [], _ => by simp [encodeEntries, decodeEntries]
  | (key, v) :: rest, h => by
    simp only [wtEntries, Bool.and_eq_true] at h
    have hk : decodeKey k (keyString key) = some key := by
      have := h.1.1
      cases k with
      | basic g bk =>
        cases bk <;> cases key <;> simp_all [keyOk, decodeKey, keyString]
      | _ => cases key <;> simp [keyOk] at this
    simp only [encodeEntries, decodeEntries, hk, hrt v h.1.2, decodeEntries_encodeEntries n k e hrt rest h.2]


theorem rt_basic (n : Nat) (g : String) (bk : BKind) (v : GoVal) (ht : wt env (n + 1) (.basic g bk) v = true) :
    decode env w (n + 1) false (.basic g bk) (encode env w (n + 1) false (.basic g bk) v) = some v := by
  cases bk <;> cases v <;> simp [wt] at ht <;> simp [encode, decode, decodeScalar]

theorem rt_time (n : Nat) (d : Bool) (v : GoVal) (ht : wt env (n + 1) (.time d) v = true) :
    decode env w (n + 1) false (.time d) (encode env w (n + 1) false (.time d) v) = some v := by
  cases v <;> simp [wt] at ht
  simp [encode, decode]

theorem rt_arr (n : Nat) (hg : RT env w ds n) (k : Int) (e : Ty) (v : GoVal)
    (hin : TyIn ds (.arr k e)) (hnu : noUnion env (.arr k e) = true) (hs : shapeOk (.arr k e) = true)
    (ht : wt env (n + 1) (.arr k e) v = true) :
    decode env w (n + 1) false (.arr k e) (encode env w (n + 1) false (.arr k e) v) = some v := by
  have hine := tyIn_arr ds k e hin
  have hse : shapeOk e = true := by simp only [shapeOk, Bool.and_eq_true] at hs; exact hs.1.2
  have hnue : noUnion env e = true := by simpa [noUnion] using hnu
  have hnb : isByteElem e = false := by
    cases e <;> simp_all [shapeOk, isByteElem]
  cases v with
  | list isSlice isNil es =>
    simp only [wt, Bool.and_eq_true, beq_iff_eq, Bool.or_eq_true, decide_eq_true_eq, Bool.not_eq_true'] at ht
    obtain ⟨⟨⟨hsl, hlen⟩, hnil⟩, hall⟩ := ht
    have hl := decodeList_encodeList env w n e (fun v hv => hg e v hine hnue hse hv) es hall
    by_cases hneg : k < 0
    · have hsl' : isSlice = true := by simp [hsl, hneg]
      subst hsl'
      cases isNil
      · simp [encode, decode, hl, hneg]
      · have hes : es = [] := by
          rcases hnil with h | h
          · simp at h
          · simpa using h.2
        subst hes
        simp [encode, decode, hneg, hnb]
    · have hsl' : isSlice = false := by simp [hsl, hneg]
      subst hsl'
      have hnf : isNil = false := by
        rcases hnil with h | h
        · exact h
        · simp at h
      subst hnf
      have hlen' : es.length = k.toNat := by
        rcases hlen with h | h
        · exact absurd h hneg
        · exact h
      simp [encode, decode, hl, hneg, hlen']
  | _ => simp [wt, hnb] at ht

theorem rt_map (n : Nat) (hg : RT env w ds n) (k e : Ty) (v : GoVal)
    (hin : TyIn ds (.map k e)) (hnu : noUnion env (.map k e) = true) (hs : shapeOk (.map k e) = true)
    (ht : wt env (n + 1) (.map k e) v = true) :
    decode env w (n + 1) false (.map k e) (encode env w (n + 1) false (.map k e) v) = some v := by
  obtain ⟨_, hine⟩ := tyIn_map ds k e hin
  have hnue : noUnion env e = true := by
    simp only [noUnion, Bool.and_eq_true] at hnu; exact hnu.2
  have hse : shapeOk e = true := by
    cases k with
    | basic g bk => cases bk <;> simp_all [shapeOk]
    | _ => simp [shapeOk] at hs
  cases v with
  | map isNil kvs =>
    simp only [wt, Bool.and_eq_true, Bool.or_eq_true, Bool.not_eq_true'] at ht
    obtain ⟨hnil, hall⟩ := ht
    have hl := decodeEntries_encodeEntries env w n k e (fun v hv => hg e v hine hnue hse hv) kvs hall
    cases isNil
    · simp [encode, decode, hl]
    · have : kvs = [] := by
        rcases hnil with h | h
        · simp at h
        · simpa using h
      subst this
      simp [encode, decode]
  | _ => simp [wt] at ht


theorem rt_named (F : FragmentRT env w ds) (n : Nat) (hg : RT env w ds n)
    (q : String) (d : Decl) (u : Ty) (v : GoVal) (hd : d ∈ ds) (hq : d.q = q) (hb : d.body = .named u)
    (ht : wt env (n + 1) (.ref q) v = true) :
    decode env w (n + 1) false (.ref q) (encode env w (n + 1) false (.ref q) v) = some v := by
  have hfind : env.find? q = some d := by rw [← hq]; exact F.found d hd
  have hok := F.ok d hd
  simp only [declOk, hb, F.nameds, List.contains_nil, Bool.false_eq_true, if_false, Bool.and_eq_true] at hok
  obtain ⟨⟨hsu, hnu⟩, _⟩ := hok
  have henc : encode env w (n + 1) false (.ref q) v = encode env w n false u v := by
    simp [encode, hfind, hb, F.nameds]
  have hty : wt env n u v = true := by simpa [wt, hfind, hb] using ht
  have hin : TyIn ds u := by
    intro r hr
    by_cases hint : ∃ g, u = .basic g .int
    · obtain ⟨g, rfl⟩ := hint; simp [Ty.refs] at hr
    · have hchild : u ∈ rtChildTys d := by
        cases u with
        | basic g bk =>
          cases bk with
          | int => exact absurd ⟨g, rfl⟩ hint
          | _ => simp [rtChildTys, TsGen.childTys, hb]
        | _ => simp [rtChildTys, TsGen.childTys, hb]
      exact F.closed d hd r (List.mem_flatMap.mpr ⟨u, hchild, hr⟩)
  rw [henc]
  simp only [decode, hfind, hb, F.nameds, List.contains_nil, Bool.false_eq_true, if_false]
  exact hg u v hin hnu hsu hty

theorem rt_enum (F : FragmentRT env w ds) (n : Nat)
    (q : String) (d : Decl) (un : String) (bk : BKind) (ms : List Member) (io : Bool) (v : GoVal)
    (hd : d ∈ ds) (hq : d.q = q) (hb : d.body = .enum un bk ms io)
    (ht : wt env (n + 1) (.ref q) v = true) :
    decode env w (n + 1) false (.ref q) (encode env w (n + 1) false (.ref q) v) = some v := by
  have hfind : env.find? q = some d := by rw [← hq]; exact F.found d hd
  simp only [wt, hfind, hb, Bool.and_eq_true] at ht
  obtain ⟨_, hk⟩ := ht
  cases bk <;> cases v <;> simp [kindMatches] at hk <;> simp [encode, decode, hfind, hb, decodeScalar]

theorem rt_union_wrapped (F : FragmentRT env w ds) (n : Nat) (hg : ∀ k, k ≤ n → RT env w ds k)
    (uq : String) (ud : Decl) (ms : List Ty) (v : GoVal) (hud : ud ∈ ds) (hq : ud.q = uq) (hb : ud.body = .union ms)
    (ht : wt env n (.ref uq) v = true) :
    decode env w n true (.ref uq) (encode env w n true (.ref uq) v) = some v := by
  have hfind : env.find? uq = some ud := by rw [← hq]; exact F.found ud hud
  have hok := F.ok ud hud
  simp only [declOk, hb, Bool.and_eq_true, List.all_eq_true] at hok
  cases n with
  | zero => simp [wt] at ht
  | succ n' =>
    cases v with
    | iface mem =>
      cases mem with
      | none => simp [wt, hfind, hb] at ht
      | some nv =>
        obtain ⟨name, mv⟩ := nv
        simp only [wt, hfind, hb, Bool.and_eq_true] at ht
        obtain ⟨hany, hmv⟩ := ht
        -- the member type the Kind names is one of the members
        have hmem : memberTy env ud name ∈ ms := by
          simp only [memberTy, hb]
          rw [List.any_eq_true] at hany
          obtain ⟨m, hm, hn⟩ := hany
          let pred : Ty → Bool := fun t => match t with
              | Ty.ref q => (match env.find? q with | some md => md.name == name | none => false)
              | _ => false
          have hpm : pred m = true := by
            have hmk := (hok.1 m hm).2
            cases m with
            | ref mq =>
              obtain ⟨md, hmd, hmq⟩ := F.closed ud hud mq (List.mem_flatMap.mpr ⟨.ref mq, by simp [rtChildTys, TsGen.childTys, hb, hm], by simp [Ty.refs]⟩)
              have hf : env.find? mq = some md := by rw [← hmq]; exact F.found md hmd
              simpa [pred, localNameOf, hf] using hn
            | _ => simp at hmk
          obtain ⟨m0, h0, hm0, _⟩ := find_some_of_any pred ms (List.any_eq_true.mpr ⟨m, hm, hpm⟩)
          show (match ms.find? pred with | some t => t | none => Ty.ref "") ∈ ms
          rw [h0]; exact hm0
        have hm0ok := hok.1 _ hmem
        have hin0 : TyIn ds (memberTy env ud name) := by
          intro r hr
          exact F.closed ud hud r (List.mem_flatMap.mpr ⟨_, by simp [rtChildTys, TsGen.childTys, hb, hmem], hr⟩)
        have hs0 : shapeOk (memberTy env ud name) = true := by
          cases hm : memberTy env ud name with
          | ref mq => simp [shapeOk]
          | _ => rw [hm] at hm0ok; simp at hm0ok
        have hdata := hg n' (by omega) _ mv hin0 hm0ok.1 hs0 hmv
        simp only [encode, hfind, hb, if_true, decode, List.lookup]
        simp [hdata]
    | _ => simp [wt, hfind, hb] at ht


/-! ### structs -/

theorem isSer_eq (f : Field) : RoundTrip.isSer f = E2E.isSer f := rfl
theorem fkey_eq (f : Field) : RoundTrip.fkey f = E2E.fkey f := rfl

/-- what strict typing of the fields gives: the value lists the serialised fields in order -/
theorem wtFields_names (n : Nat) : ∀ (fs : List Field) (vals : List (String × GoVal)), wtFields env n fs vals = true →
    vals.map (·.1) = (serialised fs).map (·.name)
  | [], vals, h => by
    have : vals = [] := by simpa [wtFields] using h
    subst this; simp [serialised]
  | f :: fs, vals, h => by
    unfold wtFields at h
    by_cases hs : RoundTrip.isSer f = true
    · simp only [hs, if_true] at h
      cases vals with
      | nil => simp at h
      | cons p rest =>
        obtain ⟨nm, v⟩ := p
        simp only [Bool.and_eq_true, beq_iff_eq] at h
        have ih := wtFields_names n fs rest h.2
        have hs' : (Tags.goJsonKey f.tag f.name f.goExported).isSome = true := hs
        simp [serialised, hs', h.1.1, ih]
    · have hs' : (Tags.goJsonKey f.tag f.name f.goExported).isSome = false := by simpa [RoundTrip.isSer] using hs
      simp only [hs, Bool.false_eq_true, if_false] at h
      have ih := wtFields_names n fs vals h
      simp [serialised, hs', ih]

theorem wtFields_mem (n : Nat) : ∀ (fs : List Field) (vals : List (String × GoVal)), wtFields env n fs vals = true →
    ∀ f ∈ fs, RoundTrip.isSer f = true → ∃ v, (f.name, v) ∈ vals ∧ wt env n f.ty v = true
  | [], _, _, f, hf, _ => by simp at hf
  | f0 :: fs, vals, h, f, hf, hs => by
    unfold wtFields at h
    by_cases hs0 : RoundTrip.isSer f0 = true
    · simp only [hs0, if_true] at h
      cases vals with
      | nil => simp at h
      | cons p rest =>
        obtain ⟨nm, v⟩ := p
        simp only [Bool.and_eq_true, beq_iff_eq] at h
        rcases List.mem_cons.mp hf with rfl | hf
        · exact ⟨v, by simp [h.1.1], h.1.2⟩
        · obtain ⟨v', hv', hw⟩ := wtFields_mem n fs rest h.2 f hf hs
          exact ⟨v', by simp [hv'], hw⟩
    · simp only [hs0, Bool.false_eq_true, if_false] at h
      rcases List.mem_cons.mp hf with rfl | hf
      · exact absurd hs hs0
      · exact wtFields_mem n fs vals h f hf hs

theorem lookup_of_mem_nodup {β} : ∀ (l : List (String × β)) (k : String) (v : β), (l.map (·.1)).Nodup → (k, v) ∈ l →
    l.lookup k = some v
  | [], _, _, _, h => by simp at h
  | (k0, v0) :: rest, k, v, hnd, h => by
    simp only [List.map_cons, List.nodup_cons] at hnd
    rcases List.mem_cons.mp h with he | h
    · cases he; simp [List.lookup]
    · have hne : k ≠ k0 := by
        intro e
        exact hnd.1 (List.mem_map.mpr ⟨(k, v), h, e⟩)
      have : (k == k0) = false := by simpa using hne
      simp only [List.lookup, this]
      exact lookup_of_mem_nodup rest k v hnd.2 h

/-- `encodeFields_lookup` under the existence of every serialised field (what strict typing gives) -/
theorem encodeFields_lookup' (n : Nat) (sh : Bool) (vals : List (String × GoVal)) :
    ∀ (fs : List Field), (∀ f ∈ fs, E2E.isSer f = true → plainField f = true) →
      (∀ f ∈ fs, E2E.isSer f = true → ∃ v, vals.lookup f.name = some v) → ((serialised fs).map E2E.fkey).Nodup →
      ∀ f ∈ fs, E2E.isSer f = true → ∀ v, vals.lookup f.name = some v →
        (encodeFields env w n sh fs vals).lookup (E2E.fkey f) = some (encode env w n (sh && isUnionTy env f.ty) f.ty v)
  | [], _, _, _, f, hf, _, _, _ => by simp at hf
  | f0 :: fs, hpl, hex, hnd, f, hf, hs, v, hv => by
    have hpl' : ∀ f ∈ fs, E2E.isSer f = true → plainField f = true := fun f hf => hpl f (by simp [hf])
    have hex' : ∀ f ∈ fs, E2E.isSer f = true → ∃ v, vals.lookup f.name = some v := fun f hf => hex f (by simp [hf])
    unfold encodeFields
    cases hk : Tags.goJsonKey f0.tag f0.name f0.goExported with
    | none =>
      have hns : E2E.isSer f0 = false := by simp [E2E.isSer, hk]
      have hnd' : ((serialised fs).map E2E.fkey).Nodup := by
        have : serialised (f0 :: fs) = serialised fs := by
          simp only [serialised, List.filter_cons]
          simp [hk]
        rwa [this] at hnd
      simp only []
      rcases List.mem_cons.mp hf with rfl | hf
      · rw [hns] at hs; exact absurd hs (by simp)
      · exact encodeFields_lookup' n sh vals fs hpl' hex' hnd' f hf hs v hv
    | some key =>
      have hser : E2E.isSer f0 = true := by simp [E2E.isSer, hk]
      have hplain := hpl f0 (by simp) hser
      obtain ⟨v0, hv0⟩ := hex f0 (by simp) hser
      have ho : (tagOptions f0.tag).contains "omitempty" = false ∧ (tagOptions f0.tag).contains "string" = false := by
        simp only [plainField, Bool.and_eq_true, Bool.not_eq_true'] at hplain
        exact ⟨hplain.1.1.1, hplain.1.1.2⟩
      have hkey := plain_key f0 hplain key hk
      have hser_cons : serialised (f0 :: fs) = f0 :: serialised fs := by
        simp only [serialised, List.filter_cons]
        simp [hk]
      rw [hser_cons, List.map_cons, List.nodup_cons] at hnd
      simp only [hv0, quoteIf, ho.1, ho.2, Bool.false_and, Bool.false_eq_true, if_false]
      rcases List.mem_cons.mp hf with rfl | hf
      · rw [hv0] at hv
        cases hv
        rw [hkey]
        simp [List.lookup]
      · have hne : E2E.fkey f ≠ E2E.fkey f0 := by
          intro he
          apply hnd.1
          rw [← he]
          exact List.mem_map.mpr ⟨f, List.mem_filter.mpr ⟨hf, hs⟩, rfl⟩
        rw [hkey]
        have : (E2E.fkey f == E2E.fkey f0) = false := by simpa using hne
        simp only [List.lookup, this]
        exact encodeFields_lookup' n sh vals fs hpl' hex' hnd.2 f hf hs v hv

/-- reading the fields back from a document in which every serialised field's key holds a document
that decodes to the field's value -/
theorem decodeFields_spec (n m : Nat) (sh : Bool) (E : List (String × JVal)) :
    ∀ (fs : List Field) (vals : List (String × GoVal)), wtFields env m fs vals = true →
      (∀ f ∈ fs, RoundTrip.isSer f = true → ∀ v, (f.name, v) ∈ vals →
        ∃ j, E.lookup (RoundTrip.fkey f) = some j ∧
          (Unquote.fieldDoc env f j).bind (decode env w n (sh && isUnionTy env f.ty) f.ty) = some v) →
      decodeFields env w n sh fs E = some vals
  | [], vals, h, _ => by
    have : vals = [] := by simpa [wtFields] using h
    subst this; simp [decodeFields]
  | f :: fs, vals, h, hall => by
    unfold wtFields at h
    unfold decodeFields
    by_cases hs : RoundTrip.isSer f = true
    · simp only [hs, if_true] at h ⊢
      cases vals with
      | nil => simp at h
      | cons p rest =>
        obtain ⟨nm, v⟩ := p
        simp only [Bool.and_eq_true, beq_iff_eq] at h
        obtain ⟨⟨hnm, _⟩, hrest⟩ := h
        subst hnm
        obtain ⟨j, hj, hdj⟩ := hall f (by simp) hs v (by simp)
        have ih := decodeFields_spec n m sh E fs rest hrest (fun g hg hsg v' hv' =>
          hall g (by simp [hg]) hsg v' (by simp [hv']))
        simp only [hj, hdj, ih]
    · simp only [hs, Bool.false_eq_true, if_false] at h ⊢
      exact decodeFields_spec n m sh E fs vals h (fun g hg hsg v' hv' => hall g (by simp [hg]) hsg v' hv')


theorem rt_struct (F : FragmentRT env w ds) (n : Nat) (hg : ∀ k, k ≤ n → RT env w ds k)
    (q : String) (d : Decl) (fs : List Field) (cs : List IR.Comment) (impls : List String) (v : GoVal)
    (hd : d ∈ ds) (hq : d.q = q) (hb : d.body = .struct fs cs impls)
    (ht : wt env (n + 1) (.ref q) v = true) :
    decode env w (n + 1) false (.ref q) (encode env w (n + 1) false (.ref q) v) = some v := by
  have hfind : env.find? q = some d := by rw [← hq]; exact F.found d hd
  have hok := F.ok d hd
  simp only [declOk, hb, Bool.and_eq_true, List.all_eq_true, Bool.not_eq_true', decide_eq_true_eq] at hok
  obtain ⟨⟨⟨⟨_, hfields⟩, hnd⟩, hndn⟩, hwrap⟩ := hok
  have hplain : ∀ f ∈ fs, E2E.isSer f = true → plainField f = true := fun f hf hs =>
    (hfields f (List.mem_filter.mpr ⟨hf, hs⟩)).1
  cases v with
  | struct vals =>
    have hty : wtFields env n fs vals = true := by simpa [wt, hfind, hb] using ht
    have hnames := wtFields_names env n fs vals hty
    have hvnd : (vals.map (·.1)).Nodup := by rw [hnames]; exact hndn
    have hex : ∀ f ∈ fs, E2E.isSer f = true → ∃ v, vals.lookup f.name = some v := fun f hf hs => by
      obtain ⟨fv, hfv, _⟩ := wtFields_mem env n fs vals hty f hf hs
      exact ⟨fv, lookup_of_mem_nodup vals f.name fv hvnd hfv⟩
    have henc : encode env w (n + 1) false (.ref q) (.struct vals) =
        .obj (encodeFields env w n (w.structs.contains q) fs vals) := by
      simp [encode, hfind, hb]
    rw [henc]
    simp only [decode, hfind, hb]
    rw [decodeFields_spec env w n n (w.structs.contains q) _ fs vals hty ?_]
    · rfl
    intro f hf hs fv hfv
    have hlk := lookup_of_mem_nodup vals f.name fv hvnd hfv
    refine ⟨_, encodeFields_lookup' env w n (w.structs.contains q) vals fs hplain hex hnd f hf hs fv hlk, ?_⟩
    have hnostr : (tagOptions f.tag).contains "string" = false := by
      have := hplain f hf hs
      simp only [plainField, Bool.and_eq_true, Bool.not_eq_true'] at this
      exact this.1.1.2
    simp only [Unquote.fieldDoc, hnostr, Bool.false_eq_true, if_false, Option.bind_some]
    -- the value of the field is well typed
    obtain ⟨fv', hfv', hwt'⟩ := wtFields_mem env n fs vals hty f hf hs
    have : fv' = fv := by
      have h1 := lookup_of_mem_nodup vals f.name fv' hvnd hfv'
      rw [hlk] at h1; cases h1; rfl
    subst this
    have hfs : f ∈ serialised fs := List.mem_filter.mpr ⟨hf, hs⟩
    have hfok := (hfields f hfs).2
    simp only [fieldTyOk, Bool.and_eq_true, Bool.or_eq_true] at hfok
    have hchild : f.ty ∈ rtChildTys d := by
      simp only [rtChildTys, hb, List.mem_map]
      exact ⟨f, hfs, rfl⟩
    have hin : TyIn ds f.ty := fun r hr => F.closed d hd r (List.mem_flatMap.mpr ⟨f.ty, hchild, hr⟩)
    rcases hfok.2 with hu | hnu
    · have hsh : w.structs.contains q = true := by
        rw [← hq]
        apply hwrap
        exact List.any_eq_true.mpr ⟨f, hfs, hu⟩
      rw [hsh, hu]
      cases hft : f.ty with
      | ref uq =>
        rw [hft] at hu hwt' hin
        simp only [isUnionTy] at hu
        obtain ⟨ud, hud, hudq⟩ := hin uq (by simp [Ty.refs])
        have hfu : env.find? uq = some ud := by rw [← hudq]; exact F.found ud hud
        simp only [hfu] at hu
        cases hub : ud.body with
        | union ms => exact rt_union_wrapped env w ds F n hg uq ud ms fv' hud hudq hub hwt'
        | _ => simp [hub] at hu
      | _ => rw [hft] at hu; simp [isUnionTy] at hu
    · have hnotu : isUnionTy env f.ty = false := by
        cases hft : f.ty with
        | ref uq => rw [hft] at hnu; simpa [noUnion] using hnu
        | _ => simp [isUnionTy]
      rw [hnotu, Bool.and_false]
      exact hg n (Nat.le_refl n) f.ty fv' hin hnu hfok.1 hwt'
  | _ => simp [wt, hfind, hb] at ht

/-! ### the theorem -/

/-- **C02, round trip**: in a program of the fragment, for every type expression over its
declarations and every Go value of that type (with exact structs), `json.Unmarshal` of the document
`json.Marshal` writes — both with the generated wrappers — gives the value back: no error, no
"exhaustive switch" panic, the same dynamic type behind every interface. -/
theorem C02_round_trip (F : FragmentRT env w ds) : ∀ n, RT env w ds n := by
  intro n
  induction n using Nat.strongRecOn with
  | _ n ih =>
    cases n with
    | zero => intro t v _ _ _ ht; simp [wt] at ht
    | succ n =>
      intro t v hin hnu hs ht
      cases t with
      | basic g bk => exact rt_basic env w n g bk v ht
      | time d => exact rt_time env w n d v ht
      | arr k e => exact rt_arr env w ds n (ih n (Nat.lt_succ_self n)) k e v hin hnu hs ht
      | map k e => exact rt_map env w ds n (ih n (Nat.lt_succ_self n)) k e v hin hnu hs ht
      | ptr e => simp [shapeOk] at hs
      | ref q =>
        obtain ⟨d, hd, hq⟩ := hin q (by simp [Ty.refs])
        cases hb : d.body with
        | named u => exact rt_named env w ds F n (ih n (Nat.lt_succ_self n)) q d u v hd hq hb ht
        | enum un bk ms io => exact rt_enum env w ds F n q d un bk ms io v hd hq hb ht
        | struct fs cs impls =>
          exact rt_struct env w ds F n (fun k hk => ih k (Nat.lt_succ_of_le hk)) q d fs cs impls v hd hq hb ht
        | union ms =>
          have hfind : env.find? q = some d := by rw [← hq]; exact F.found d hd
          simp [noUnion, isUnionTy, hfind, hb] at hnu

/-- **C02, round trip, as evaluated per program**: when the decidable fragment check holds, every
strictly typed value of every non-union source type is read back from its own document -/
theorem C02_round_trip_checked (h : fragmentRTB env w ds = true) (n : Nat) (q : String) (v : GoVal)
    (hq : ∃ d ∈ ds, d.q = q) (hnu : isUnionTy env (.ref q) = false) (ht : wt env n (.ref q) v = true) :
    decode env w n false (.ref q) (encode env w n false (.ref q) v) = some v := by
  have F := fragmentRT_of_check env w ds h
  refine C02_round_trip env w ds F n (.ref q) v ?_ ?_ ?_ ht
  · intro r hr
    simp only [Ty.refs, List.mem_singleton] at hr
    subst hr; exact hq
  · simp [noUnion, hnu]
  · simp [shapeOk]

/-- a union value in a wrapped position (a field of a struct with a generated shadow struct) is read
back with the member the Kind names -/
theorem C02_round_trip_wrapped (F : FragmentRT env w ds) (n : Nat)
    (uq : String) (ud : Decl) (ms : List Ty) (v : GoVal) (hud : ud ∈ ds) (hq : ud.q = uq) (hb : ud.body = .union ms)
    (ht : wt env n (.ref uq) v = true) :
    decode env w n true (.ref uq) (encode env w n true (.ref uq) v) = some v :=
  rt_union_wrapped env w ds F n (fun k _ => C02_round_trip env w ds F k) uq ud ms v hud hq hb ht

end Gomacro.RoundTrip
