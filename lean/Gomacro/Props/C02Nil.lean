import Gomacro.Props.C02E2E
import Gomacro.Props.C02Quote
/-!
# C02, end to end, modulo nil: the larger fragment
-/
namespace Gomacro.RoundTrip
open Gomacro.IR Gomacro.GoJson Gomacro.E2E

theorem fragmentN_of_check (env : Env) (w : Wrappers) (ds : List Decl) (h : fragmentNB env w ds = true) : FragmentN env w ds := by
  simp only [fragmentNB, Bool.and_eq_true, List.all_eq_true, decide_eq_true_eq, List.any_eq_true, beq_iff_eq] at h
  obtain ⟨⟨h2, h3⟩, h4⟩ := h
  exact { found := h2, ok := h4,
          closed := fun d hd q hq => by
            obtain ⟨d', hd', he⟩ := h3 d hd q hq
            exact ⟨d', hd', he⟩ }

variable (env : Env) (w : Wrappers) (ds : List Decl)

/-- reading back the document of `v` at type `t` in a position `wr` gives a value equal modulo nil -/
def Back (n : Nat) (wr : Bool) (t : Ty) (v : GoVal) : Prop :=
  ∃ v', decode env w n wr t (encode env w n wr t v) = some v' ∧ eqNil v v' = true

/-- the statement at fuel `n` -/
def RTN (n : Nat) : Prop :=
  ∀ t v, TyIn ds t → noUnion env t = true → shapeRT t = true → wt env n t v = true → Back env w n false t v

theorem decodeList_encodeList_N (n : Nat) (e : Ty) (hrt : ∀ v, wt env n e v = true → Back env w n false e v) :
    ∀ (es : List GoVal), wtAll env n e es = true →
      ∃ es', decodeList env w n false e (encodeList env w n e es) = some es' ∧ eqNilList es es' = true ∧ es'.length = es.length
  | [], _ => ⟨[], by simp [encodeList, decodeList], by simp [eqNilList], rfl⟩
  | v :: vs, h => by
    simp only [wtAll, Bool.and_eq_true] at h
    obtain ⟨v', hv', he⟩ := hrt v h.1
    obtain ⟨vs', hvs', hes, hl⟩ := decodeList_encodeList_N n e hrt vs h.2
    exact ⟨v' :: vs', by simp only [encodeList, decodeList, hv', hvs'], by simp [eqNilList, he, hes], by simp [hl]⟩

theorem decodeList_encodeListW_N (n : Nat) (e : Ty) (hrt : ∀ v, wt env n e v = true → Back env w n true e v) :
    ∀ (es : List GoVal), wtAll env n e es = true →
      ∃ es', decodeList env w n true e (encodeListW env w n e es) = some es' ∧ eqNilList es es' = true
  | [], _ => ⟨[], by simp [encodeListW, decodeList], by simp [eqNilList]⟩
  | v :: vs, h => by
    simp only [wtAll, Bool.and_eq_true] at h
    obtain ⟨v', hv', he⟩ := hrt v h.1
    obtain ⟨vs', hvs', hes⟩ := decodeList_encodeListW_N n e hrt vs h.2
    exact ⟨v' :: vs', by simp only [encodeListW, decodeList, hv', hvs'], by simp [eqNilList, he, hes]⟩

theorem decodeKey_keyString (k : Ty) (key : GoVal) (h : keyOk k key = true) :
    decodeKey k (keyString key) = some key ∧ eqNil key key = true := by
  cases k with
  | basic g bk =>
    cases bk <;> cases key <;> simp_all [keyOk, decodeKey, keyString, eqNil]
  | _ => cases key <;> simp [keyOk] at h

theorem decodeEntries_encodeEntries_N (n : Nat) (wr : Bool) (k e : Ty)
    (hrt : ∀ v, wt env n e v = true → Back env w n wr e v) :
    ∀ (kvs : List (GoVal × GoVal)), wtEntries env n k e kvs = true →
      ∃ kvs', decodeEntries env w n wr k e (encodeEntries env w n wr e kvs) = some kvs' ∧ eqNilEntries kvs kvs' = true
  | [], _ => ⟨[], by simp [encodeEntries, decodeEntries], by simp [eqNilEntries]⟩
  | (key, v) :: rest, h => by
    simp only [wtEntries, Bool.and_eq_true] at h
    obtain ⟨hk, hkk⟩ := decodeKey_keyString k key h.1.1
    obtain ⟨v', hv', he⟩ := hrt v h.1.2
    obtain ⟨rest', hr', hre⟩ := decodeEntries_encodeEntries_N n wr k e hrt rest h.2
    exact ⟨(key, v') :: rest', by simp only [encodeEntries, decodeEntries, hk, hv', hr'], by simp [eqNilEntries, hkk, he, hre]⟩

theorem rtn_basic (n : Nat) (g : String) (bk : BKind) (v : GoVal) (ht : wt env (n + 1) (.basic g bk) v = true) :
    Back env w (n + 1) false (.basic g bk) v := by
  unfold Back
  cases bk <;> cases v <;> simp [wt] at ht <;> simp [encode, decode, decodeScalar, eqNil]

theorem rtn_time (n : Nat) (d : Bool) (v : GoVal) (ht : wt env (n + 1) (.time d) v = true) :
    Back env w (n + 1) false (.time d) v := by
  unfold Back
  cases v <;> simp [wt] at ht
  simp [encode, decode, eqNil]

theorem rtn_arr (n : Nat) (hg : RTN env w ds n) (k : Int) (e : Ty) (v : GoVal)
    (hin : TyIn ds (.arr k e)) (hnu : noUnion env (.arr k e) = true) (hs : shapeRT (.arr k e) = true)
    (ht : wt env (n + 1) (.arr k e) v = true) :
    Back env w (n + 1) false (.arr k e) v := by
  have hine := tyIn_arr ds k e hin
  have hse : shapeRT e = true := by simpa [shapeRT] using hs
  have hnue : noUnion env e = true := by simpa [noUnion] using hnu
  unfold Back
  cases v with
  | bytes isNil b =>
    simp only [wt, Bool.and_eq_true, decide_eq_true_eq, Bool.or_eq_true, Bool.not_eq_true', beq_iff_eq] at ht
    obtain ⟨⟨hneg, hb⟩, hnil⟩ := ht
    cases isNil
    · simp [encode, decode, hneg, hb, eqNil]
    · simp [encode, decode, hneg, hb, eqNil]
      rcases hnil with h | h
      · simp at h
      · exact h
  | list isSlice isNil es =>
    simp only [wt, Bool.and_eq_true, beq_iff_eq, Bool.or_eq_true, decide_eq_true_eq, Bool.not_eq_true'] at ht
    obtain ⟨⟨⟨⟨hnb, hsl⟩, hlen⟩, hnil⟩, hall⟩ := ht
    obtain ⟨es', hl, hes, hlen'⟩ := decodeList_encodeList_N env w n e (fun v hv => hg e v hine hnue hse hv) es hall
    by_cases hneg : k < 0
    · have hsl' : isSlice = true := by simp [hsl, hneg]
      subst hsl'
      have hnb' : isByteElem e = false := by simpa [hneg] using hnb
      cases isNil
      · simp [encode, decode, hl, hneg, eqNil, hes]
      · have hes0 : es = [] := by
          rcases hnil with h | h
          · simp at h
          · simpa using h.2
        subst hes0
        simp [encode, decode, hneg, hnb', eqNil, eqNilList]
    · have hsl' : isSlice = false := by simp [hsl, hneg]
      subst hsl'
      have hlen'' : es.length = k.toNat := by
        rcases hlen with h | h
        · exact absurd h hneg
        · exact h
      have : (isNil && false) = false := by simp
      simp [encode, decode, hl, hneg, hlen', hlen'', eqNil, hes]
  | _ => simp [wt] at ht

theorem rtn_map (n : Nat) (hg : RTN env w ds n) (k e : Ty) (v : GoVal)
    (hin : TyIn ds (.map k e)) (hnu : noUnion env (.map k e) = true) (hs : shapeRT (.map k e) = true)
    (ht : wt env (n + 1) (.map k e) v = true) :
    Back env w (n + 1) false (.map k e) v := by
  obtain ⟨_, hine⟩ := tyIn_map ds k e hin
  have hnue : noUnion env e = true := by
    simp only [noUnion, Bool.and_eq_true] at hnu; exact hnu.2
  have hse : shapeRT e = true := by
    simp only [shapeRT, Bool.and_eq_true] at hs; exact hs.2
  unfold Back
  cases v with
  | map isNil kvs =>
    simp only [wt, Bool.and_eq_true, Bool.or_eq_true, Bool.not_eq_true'] at ht
    obtain ⟨hnil, hall⟩ := ht
    obtain ⟨kvs', hl, he⟩ := decodeEntries_encodeEntries_N env w n false k e (fun v hv => hg e v hine hnue hse hv) kvs hall
    cases isNil
    · simp [encode, decode, hl, eqNil, he]
    · have : kvs = [] := by
        rcases hnil with h | h
        · simp at h
        · simpa using h
      subst this
      simp [encode, decode, eqNil, eqNilEntries]
  | _ => simp [wt] at ht


/-! ### typing is monotone in the fuel -/

theorem wtAll_mono (n : Nat) (ih : ∀ t v, wt env n t v = true → wt env (n + 1) t v = true) (e : Ty) :
    ∀ es, wtAll env n e es = true → wtAll env (n + 1) e es = true
  | [], _ => by simp [wtAll]
  | x :: xs, h => by
    simp only [wtAll, Bool.and_eq_true] at h ⊢
    exact ⟨ih e x h.1, wtAll_mono n ih e xs h.2⟩

theorem wtEntries_mono (n : Nat) (ih : ∀ t v, wt env n t v = true → wt env (n + 1) t v = true) (k e : Ty) :
    ∀ kvs, wtEntries env n k e kvs = true → wtEntries env (n + 1) k e kvs = true
  | [], _ => by simp [wtEntries]
  | (key, x) :: xs, h => by
    simp only [wtEntries, Bool.and_eq_true] at h ⊢
    exact ⟨⟨h.1.1, ih e x h.1.2⟩, wtEntries_mono n ih k e xs h.2⟩

theorem wtFields_mono (n : Nat) (ih : ∀ t v, wt env n t v = true → wt env (n + 1) t v = true) :
    ∀ fs vals, wtFields env n fs vals = true → wtFields env (n + 1) fs vals = true
  | [], vals, h => by simpa [wtFields] using h
  | f :: fs, vals, h => by
    unfold wtFields at h ⊢
    by_cases hs : RoundTrip.isSer f = true
    · simp only [hs, if_true] at h ⊢
      cases vals with
      | nil => simp at h
      | cons p rest =>
        obtain ⟨nm, v⟩ := p
        simp only [Bool.and_eq_true] at h ⊢
        exact ⟨⟨h.1.1, ih f.ty v h.1.2⟩, wtFields_mono n ih fs rest h.2⟩
    · simp only [hs, Bool.false_eq_true, if_false] at h ⊢
      exact wtFields_mono n ih fs vals h

theorem wt_mono : ∀ (n : Nat) (t : Ty) (v : GoVal), wt env n t v = true → wt env (n + 1) t v = true
  | 0, _, _, h => by simp [wt] at h
  | n + 1, t, v, h => by
    have ih := wt_mono n
    cases t with
    | basic g bk => cases bk <;> cases v <;> simp [wt] at h ⊢
    | time d => cases v <;> simp [wt] at h ⊢
    | arr k e =>
      cases v with
      | list s nl es =>
        simp only [wt, Bool.and_eq_true] at h ⊢
        exact ⟨h.1, wtAll_mono env n ih e es h.2⟩
      | bytes nl b => simpa [wt] using h
      | _ => simp [wt] at h
    | map k e =>
      cases v with
      | map nl kvs =>
        simp only [wt, Bool.and_eq_true] at h ⊢
        exact ⟨h.1, wtEntries_mono env n ih k e kvs h.2⟩
      | _ => simp [wt] at h
    | ptr e => simp [wt] at h
    | ref q =>
      cases hf : env.find? q with
      | none => simp [wt, hf] at h
      | some d =>
        cases hb : d.body with
        | named u =>
          have h' : wt env n u v = true := by simpa [wt, hf, hb] using h
          simpa [wt, hf, hb] using ih u v h'
        | enum un bk ms io =>
          have h' := h
          simp only [wt, hf, hb] at h' ⊢
          exact h'
        | struct fs cs impls =>
          cases v with
          | struct vals =>
            have h' : wtFields env n fs vals = true := by simpa [wt, hf, hb] using h
            simpa [wt, hf, hb] using wtFields_mono env n ih fs vals h'
          | _ => simp [wt, hf, hb] at h
        | union ms =>
          cases v with
          | iface mem =>
            cases mem with
            | none => simp [wt, hf, hb] at h
            | some nv =>
              obtain ⟨name, mv⟩ := nv
              simp only [wt, hf, hb, Bool.and_eq_true] at h ⊢
              exact ⟨h.1, ih _ mv h.2⟩
          | _ => simp [wt, hf, hb] at h


/-! ### named types, enums, unions -/

theorem rtn_enum (F : FragmentN env w ds) (n : Nat)
    (q : String) (d : Decl) (un : String) (bk : BKind) (ms : List Member) (io : Bool) (v : GoVal)
    (hd : d ∈ ds) (hq : d.q = q) (hb : d.body = .enum un bk ms io)
    (ht : wt env (n + 1) (.ref q) v = true) :
    Back env w (n + 1) false (.ref q) v := by
  have hfind : env.find? q = some d := by rw [← hq]; exact F.found d hd
  simp only [wt, hfind, hb, Bool.and_eq_true] at ht
  obtain ⟨_, hk⟩ := ht
  unfold Back
  cases bk <;> cases v <;> simp [kindMatches] at hk <;> simp [encode, decode, hfind, hb, decodeScalar, eqNil]

theorem rtn_union_wrapped (F : FragmentN env w ds) (n : Nat) (hg : ∀ k, k ≤ n → RTN env w ds k)
    (uq : String) (ud : Decl) (ms : List Ty) (v : GoVal) (hud : ud ∈ ds) (hq : ud.q = uq) (hb : ud.body = .union ms)
    (ht : wt env n (.ref uq) v = true) :
    Back env w n true (.ref uq) v := by
  have hfind : env.find? uq = some ud := by rw [← hq]; exact F.found ud hud
  have hok := F.ok ud hud
  simp only [declOkN, hb, Bool.and_eq_true, List.all_eq_true] at hok
  unfold Back
  cases n with
  | zero => simp [wt] at ht
  | succ n' =>
    cases v with
    | iface mem =>
      cases mem with
      | none => simp [wt, hfind, hb] at ht
      | some nv =>
        obtain ⟨name, mv⟩ := nv
        simp only [wt, hfind, hb, Bool.and_eq_true] at ht
        obtain ⟨hany, hmv⟩ := ht
        have hmem : memberTy env ud name ∈ ms := by
          simp only [memberTy, hb]
          rw [List.any_eq_true] at hany
          obtain ⟨m, hm, hn⟩ := hany
          let pred : Ty → Bool := fun t => match t with
              | Ty.ref q => (match env.find? q with | some md => md.name == name | none => false)
              | _ => false
          have hpm : pred m = true := by
            have hmk := (hok.1 m hm).2
            cases m with
            | ref mq =>
              obtain ⟨md, hmd, hmq⟩ := F.closed ud hud mq (List.mem_flatMap.mpr ⟨.ref mq, by simp [rtChildTys, TsGen.childTys, hb, hm], by simp [Ty.refs]⟩)
              have hf : env.find? mq = some md := by rw [← hmq]; exact F.found md hmd
              simpa [pred, localNameOf, hf] using hn
            | _ => simp at hmk
          obtain ⟨m0, h0, hm0, _⟩ := find_some_of_any pred ms (List.any_eq_true.mpr ⟨m, hm, hpm⟩)
          show (match ms.find? pred with | some t => t | none => Ty.ref "") ∈ ms
          rw [h0]; exact hm0
        have hm0ok := hok.1 _ hmem
        have hin0 : TyIn ds (memberTy env ud name) := by
          intro r hr
          exact F.closed ud hud r (List.mem_flatMap.mpr ⟨_, by simp [rtChildTys, TsGen.childTys, hb, hmem], hr⟩)
        have hs0 : shapeRT (memberTy env ud name) = true := by
          cases hm : memberTy env ud name with
          | ref mq => simp [shapeRT]
          | _ => rw [hm] at hm0ok; simp at hm0ok
        obtain ⟨mv', hdata, heq⟩ := hg n' (by omega) _ mv hin0 hm0ok.1 hs0 hmv
        refine ⟨.iface (some (name, mv')), ?_, by simp [eqNil, heq]⟩
        simp only [encode, hfind, hb, if_true, decode, List.lookup]
        simp [hdata]
    | _ => simp [wt, hfind, hb] at ht

theorem rtn_named (F : FragmentN env w ds) (n : Nat) (hg : ∀ k, k ≤ n → RTN env w ds k)
    (q : String) (d : Decl) (u : Ty) (v : GoVal) (hd : d ∈ ds) (hq : d.q = q) (hb : d.body = .named u)
    (ht : wt env (n + 1) (.ref q) v = true) :
    Back env w (n + 1) false (.ref q) v := by
  have hfind : env.find? q = some d := by rw [← hq]; exact F.found d hd
  have hok := F.ok d hd
  have hty : wt env n u v = true := by simpa [wt, hfind, hb] using ht
  have hchild : ∀ r ∈ u.refs, ∃ d' ∈ ds, d'.q = r := by
    intro r hr
    by_cases hint : ∃ g, u = .basic g .int
    · obtain ⟨g, rfl⟩ := hint; simp [Ty.refs] at hr
    · have hchild : u ∈ rtChildTys d := by
        cases u with
        | basic g bk =>
          cases bk with
          | int => exact absurd ⟨g, rfl⟩ hint
          | _ => simp [rtChildTys, TsGen.childTys, hb]
        | _ => simp [rtChildTys, TsGen.childTys, hb]
      exact F.closed d hd r (List.mem_flatMap.mpr ⟨u, hchild, hr⟩)
  unfold Back
  by_cases hw : w.nameds.contains q = true
  · -- a wrapped named slice / map of unions
    have hw2 : q ∈ w.nameds := by simpa using hw
    simp only [declOkN, hb, hq, hw, if_true] at hok
    cases n with
    | zero => simp [wt] at hty
    | succ m =>
      cases u with
      | arr k e =>
        cases e with
        | ref uq =>
          simp only [Bool.and_eq_true, decide_eq_true_eq] at hok
          obtain ⟨hneg, hun⟩ := hok
          obtain ⟨ud, hud, hudq⟩ := hchild uq (by simp [Ty.refs])
          have hfu : env.find? uq = some ud := by rw [← hudq]; exact F.found ud hud
          simp only [isUnionTy, hfu] at hun
          cases hub : ud.body with
          | union ms =>
            cases v with
            | list isSlice isNil es =>
              simp only [wt, Bool.and_eq_true] at hty
              have hall : wtAll env (m + 1) (.ref uq) es = true :=
                wtAll_mono env m (wt_mono env m) (.ref uq) es hty.2
              obtain ⟨es', hl, hes⟩ := decodeList_encodeListW_N env w (m + 1) (.ref uq)
                (fun x hx => rtn_union_wrapped env w ds F (m + 1) hg uq ud ms x hud hudq hub hx) es hall
              have hsl : isSlice = true := by
                have := hty.1.1.1.2
                simpa [hneg] using this
              subst hsl
              cases isNil
              · refine ⟨.list true false es', ?_, by simp [eqNil, hes]⟩
                simp [encode, decode, hfind, hb, hw2, hl]
              · have hes0 : es = [] := by
                  have := hty.1.2
                  simpa using this
                subst hes0
                refine ⟨.list true false [], ?_, by simp [eqNil, eqNilList]⟩
                simp [encode, decode, hfind, hb, hw2, decodeList]
            | _ => simp [wt, isByteElem] at hty
          | _ => simp [hub] at hun
        | _ => simp at hok
      | map k e =>
        cases e with
        | ref uq =>
          simp only [Bool.and_eq_true] at hok
          obtain ⟨_, hun⟩ := hok
          obtain ⟨ud, hud, hudq⟩ := hchild uq (by simp [Ty.refs])
          have hfu : env.find? uq = some ud := by rw [← hudq]; exact F.found ud hud
          simp only [isUnionTy, hfu] at hun
          cases hub : ud.body with
          | union ms =>
            cases v with
            | map isNil kvs =>
              simp only [wt, Bool.and_eq_true] at hty
              have hall : wtEntries env (m + 1) k (.ref uq) kvs = true :=
                wtEntries_mono env m (wt_mono env m) k (.ref uq) kvs hty.2
              obtain ⟨kvs', hl, hes⟩ := decodeEntries_encodeEntries_N env w (m + 1) true k (.ref uq)
                (fun x hx => rtn_union_wrapped env w ds F (m + 1) hg uq ud ms x hud hudq hub hx) kvs hall
              refine ⟨.map false kvs', ?_, by simp [eqNil, hes]⟩
              simp [encode, decode, hfind, hb, hw2, hl]
            | _ => simp [wt] at hty
          | _ => simp [hub] at hun
        | _ => simp at hok
      | _ => simp at hok
  · have hw' : w.nameds.contains q = false := by simpa using hw
    simp only [declOkN, hb, hq, hw', Bool.false_eq_true, if_false, Bool.and_eq_true] at hok
    obtain ⟨v', hv', he⟩ := hg n (Nat.le_refl n) u v hchild hok.2 hok.1 hty
    refine ⟨v', ?_, he⟩
    simp only [encode, decode, hfind, hb, hw', Bool.false_eq_true, if_false]
    exact hv'


/-! ### structs: `omitempty` and the zero value -/

theorem empty_zero : ∀ (n : Nat) (t : Ty) (v : GoVal), wt env n t v = true → isEmptyVal v = true →
    eqNil v (zeroVal env n t) = true
  | 0, _, _, h, _ => by simp [wt] at h
  | n + 1, t, v, h, he => by
    have ih := empty_zero n
    cases t with
    | basic g bk => cases bk <;> cases v <;> simp [wt] at h <;> simp_all [isEmptyVal, zeroVal, zeroScalar, eqNil]
    | time d => cases v <;> simp [wt] at h; simp [isEmptyVal] at he
    | arr k e =>
      cases v with
      | bytes nl b =>
        simp only [wt, Bool.and_eq_true, decide_eq_true_eq] at h
        have hb : b = "" := by simpa [isEmptyVal] using he
        simp [zeroVal, h.1.1, h.1.2, eqNil, hb]
      | list s nl es =>
        simp only [wt, Bool.and_eq_true, beq_iff_eq, Bool.or_eq_true, decide_eq_true_eq] at h
        obtain ⟨⟨⟨⟨hnb, hsl⟩, hlen⟩, _⟩, _⟩ := h
        have hes : es = [] := by cases s <;> simpa [isEmptyVal] using he
        subst hes
        by_cases hneg : k < 0
        · have hnb' : isByteElem e = false := by simpa [hneg] using hnb
          simp [zeroVal, hneg, hnb', eqNil, eqNilList, hsl]
        · have h0 : k.toNat = 0 := by
            rcases hlen with h | h
            · exact absurd h hneg
            · simpa using h.symm
          simp [zeroVal, hneg, h0, eqNil, eqNilList, hsl]
      | _ => simp [wt] at h
    | map k e =>
      cases v with
      | map nl kvs =>
        have : kvs = [] := by simpa [isEmptyVal] using he
        subst this
        simp [zeroVal, eqNil, eqNilEntries]
      | _ => simp [wt] at h
    | ptr e => simp [wt] at h
    | ref q =>
      cases hf : env.find? q with
      | none => simp [wt, hf] at h
      | some d =>
        cases hb : d.body with
        | named u =>
          have h' : wt env n u v = true := by simpa [wt, hf, hb] using h
          simpa [zeroVal, hf, hb] using ih u v h' he
        | enum un bk ms io =>
          simp only [wt, hf, hb, Bool.and_eq_true] at h
          have hk := h.2
          cases bk <;> cases v <;> simp [kindMatches] at hk <;> simp_all [isEmptyVal, zeroVal, zeroScalar, eqNil]
        | struct fs cs impls =>
          cases v <;> simp [wt, hf, hb] at h
          simp [isEmptyVal] at he
        | union ms =>
          cases v with
          | iface mem =>
            cases mem with
            | none => simp [wt, hf, hb] at h
            | some nv => simp [isEmptyVal] at he
          | _ => simp [wt, hf, hb] at h

theorem key_of_keyOkN (f : Field) (hp : keyOkN f = true) (k : String)
    (hk : Tags.goJsonKey f.tag f.name f.goExported = some k) : k = E2E.fkey f := by
  simp only [keyOkN, Bool.or_eq_true, beq_iff_eq] at hp
  have := Tags.C09_key_eq f.tag f.name f.goExported k (by
    rcases hp with h | h
    · exact Or.inl h
    · exact Or.inr h) hk
  exact this.symm

theorem keyOkN_of_fieldOkN (f : Field) (h : fieldOkN f = true) : keyOkN f = true := by
  simp only [fieldOkN, Bool.and_eq_true] at h; exact h.2

theorem keyOkN_of_fieldOkS (f : Field) (h : fieldOkS env f = true) : keyOkN f = true := by
  simp only [fieldOkS, Bool.and_eq_true] at h; exact h.2

theorem encodeFields_keysK (n : Nat) (sh : Bool) (vals : List (String × GoVal)) :
    ∀ (fs : List Field), (∀ f ∈ fs, E2E.isSer f = true → keyOkN f = true) →
      ∀ p ∈ encodeFields env w n sh fs vals, ∃ f ∈ fs, E2E.isSer f = true ∧ p.1 = E2E.fkey f
  | [], _, p, hp => by simp [encodeFields] at hp
  | f0 :: fs, hpl, p, hp => by
    have ih := encodeFields_keysK n sh vals fs (fun f hf => hpl f (by simp [hf]))
    unfold encodeFields at hp
    cases hk : Tags.goJsonKey f0.tag f0.name f0.goExported with
    | none =>
      simp only [hk] at hp
      obtain ⟨f, hf, h1, h2⟩ := ih p hp
      exact ⟨f, by simp [hf], h1, h2⟩
    | some key =>
      have hser : E2E.isSer f0 = true := by simp [E2E.isSer, hk]
      have hok := hpl f0 (by simp) hser
      cases hv : vals.lookup f0.name with
      | none =>
        simp only [hk, hv] at hp
        obtain ⟨f, hf, h1, h2⟩ := ih p hp
        exact ⟨f, by simp [hf], h1, h2⟩
      | some v =>
        simp only [hk, hv] at hp
        split at hp
        · obtain ⟨f, hf, h1, h2⟩ := ih p hp
          exact ⟨f, by simp [hf], h1, h2⟩
        · rcases List.mem_cons.mp hp with rfl | hp
          · exact ⟨f0, by simp, hser, key_of_keyOkN f0 hok key hk⟩
          · obtain ⟨f, hf, h1, h2⟩ := ih p hp
            exact ⟨f, by simp [hf], h1, h2⟩

theorem lookup_none_of_keys {β} (k : String) : ∀ (l : List (String × β)), (∀ p ∈ l, p.1 ≠ k) → l.lookup k = none
  | [], _ => rfl
  | (k0, v0) :: rest, h => by
    have hne : k ≠ k0 := fun e => h (k0, v0) (by simp) e.symm
    have : (k == k0) = false := by simpa using hne
    simp only [List.lookup, this]
    exact lookup_none_of_keys k rest (fun p hp => h p (by simp [hp]))

/-- what the document of a struct holds under the key of a serialised field: nothing when the field
is `omitempty` and its value empty, the document of the value otherwise -/
theorem encodeFields_lookupK (n : Nat) (sh : Bool) (vals : List (String × GoVal)) :
    ∀ (fs : List Field), (∀ f ∈ fs, E2E.isSer f = true → keyOkN f = true) →
      (∀ f ∈ fs, E2E.isSer f = true → ∃ v, vals.lookup f.name = some v) → ((serialised fs).map E2E.fkey).Nodup →
      ∀ f ∈ fs, E2E.isSer f = true → ∀ v, vals.lookup f.name = some v →
        (encodeFields env w n sh fs vals).lookup (E2E.fkey f) =
          if isOmit f && isEmptyVal v then none
          else some (quoteIf (tagOptions f.tag) v (encode env w n (sh && isUnionTy env f.ty) f.ty v))
  | [], _, _, _, f, hf, _, _, _ => by simp at hf
  | f0 :: fs, hpl, hex, hnd, f, hf, hs, v, hv => by
    have hpl' : ∀ f ∈ fs, E2E.isSer f = true → keyOkN f = true := fun f hf => hpl f (by simp [hf])
    have hex' : ∀ f ∈ fs, E2E.isSer f = true → ∃ v, vals.lookup f.name = some v := fun f hf => hex f (by simp [hf])
    unfold encodeFields
    cases hk : Tags.goJsonKey f0.tag f0.name f0.goExported with
    | none =>
      have hns : E2E.isSer f0 = false := by simp [E2E.isSer, hk]
      have hnd' : ((serialised fs).map E2E.fkey).Nodup := by
        have : serialised (f0 :: fs) = serialised fs := by
          simp only [serialised, List.filter_cons]
          simp [hk]
        rwa [this] at hnd
      simp only []
      rcases List.mem_cons.mp hf with rfl | hf
      · rw [hns] at hs; exact absurd hs (by simp)
      · exact encodeFields_lookupK n sh vals fs hpl' hex' hnd' f hf hs v hv
    | some key =>
      have hser : E2E.isSer f0 = true := by simp [E2E.isSer, hk]
      have hok0 := hpl f0 (by simp) hser
      obtain ⟨v0, hv0⟩ := hex f0 (by simp) hser
      have hkey := key_of_keyOkN f0 hok0 key hk
      have hser_cons : serialised (f0 :: fs) = f0 :: serialised fs := by
        simp only [serialised, List.filter_cons]
        simp [hk]
      rw [hser_cons, List.map_cons, List.nodup_cons] at hnd
      simp only [hv0]
      rcases List.mem_cons.mp hf with rfl | hf
      · rw [hv0] at hv
        cases hv
        by_cases hom : ((tagOptions f.tag).contains "omitempty" && isEmptyVal v) = true
        · have hom' : (isOmit f && isEmptyVal v) = true := hom
          simp only [hom, hom', if_true]
          apply lookup_none_of_keys
          intro p hp he
          obtain ⟨g, hg, hgs, hpk⟩ := encodeFields_keysK env w n sh vals fs hpl' p hp
          apply hnd.1
          rw [← he, hpk]
          exact List.mem_map.mpr ⟨g, List.mem_filter.mpr ⟨hg, hgs⟩, rfl⟩
        · have hom' : (isOmit f && isEmptyVal v) = false := by simpa [isOmit] using hom
          have hom'' : ((tagOptions f.tag).contains "omitempty" && isEmptyVal v) = false := by simpa using hom
          simp only [hom'', hom', Bool.false_eq_true, if_false]
          rw [hkey]
          simp [List.lookup]
      · have hne : E2E.fkey f ≠ E2E.fkey f0 := by
          intro he
          apply hnd.1
          rw [← he]
          exact List.mem_map.mpr ⟨f, List.mem_filter.mpr ⟨hf, hs⟩, rfl⟩
        have ih := encodeFields_lookupK n sh vals fs hpl' hex' hnd.2 f hf hs v hv
        by_cases hom : ((tagOptions f0.tag).contains "omitempty" && isEmptyVal v0) = true
        · simp only [hom, if_true]
          exact ih
        · have hom'' : ((tagOptions f0.tag).contains "omitempty" && isEmptyVal v0) = false := by simpa using hom
          simp only [hom'', Bool.false_eq_true, if_false]
          rw [hkey]
          have : (E2E.fkey f == E2E.fkey f0) = false := by simpa using hne
          simp only [List.lookup, this]
          exact ih


theorem quoteIf_noString (opts : List String) (h : opts.contains "string" = false) (v : GoVal) (j : JVal) :
    quoteIf opts v j = j := by
  simp only [quoteIf, h, Bool.false_eq_true, if_false]

/-- the two lemmas above for fields without the `string` option (the SQL fragment) -/
theorem encodeFields_keysN (n : Nat) (sh : Bool) (vals : List (String × GoVal))
    (fs : List Field) (hpl : ∀ f ∈ fs, E2E.isSer f = true → fieldOkN f = true) :
    ∀ p ∈ encodeFields env w n sh fs vals, ∃ f ∈ fs, E2E.isSer f = true ∧ p.1 = E2E.fkey f :=
  encodeFields_keysK env w n sh vals fs (fun f hf hs => keyOkN_of_fieldOkN f (hpl f hf hs))

theorem encodeFields_lookupN (n : Nat) (sh : Bool) (vals : List (String × GoVal))
    (fs : List Field) (hpl : ∀ f ∈ fs, E2E.isSer f = true → fieldOkN f = true)
    (hex : ∀ f ∈ fs, E2E.isSer f = true → ∃ v, vals.lookup f.name = some v) (hnd : ((serialised fs).map E2E.fkey).Nodup)
    (f : Field) (hf : f ∈ fs) (hs : E2E.isSer f = true) (v : GoVal) (hv : vals.lookup f.name = some v) :
    (encodeFields env w n sh fs vals).lookup (E2E.fkey f) =
      if isOmit f && isEmptyVal v then none else some (encode env w n (sh && isUnionTy env f.ty) f.ty v) := by
  have h := encodeFields_lookupK env w n sh vals fs (fun f hf hs => keyOkN_of_fieldOkN f (hpl f hf hs)) hex hnd f hf hs v hv
  have hstr : (tagOptions f.tag).contains "string" = false := by
    have := hpl f hf hs
    simp only [fieldOkN, Bool.and_eq_true, Bool.not_eq_true'] at this
    exact this.1
  rw [quoteIf_noString _ hstr] at h
  exact h

/-- reading the fields back from a document in which the key of every serialised field either holds
a document that decodes to a value equal (modulo nil) to the field's, or is missing while the
field's value equals its zero value -/
theorem decodeFields_specN (n m : Nat) (sh : Bool) (E : List (String × JVal)) :
    ∀ (fs : List Field) (vals : List (String × GoVal)), wtFields env m fs vals = true →
      (∀ f ∈ fs, RoundTrip.isSer f = true → ∀ v, (f.name, v) ∈ vals →
        (∃ j v', E.lookup (RoundTrip.fkey f) = some j ∧
          (Unquote.fieldDoc env f j).bind (decode env w n (sh && isUnionTy env f.ty) f.ty) = some v' ∧ eqNil v v' = true) ∨
        (E.lookup (RoundTrip.fkey f) = none ∧ eqNil v (zeroVal env n f.ty) = true)) →
      ∃ vals', decodeFields env w n sh fs E = some vals' ∧ eqNilFields vals vals' = true
  | [], vals, h, _ => by
    have : vals = [] := by simpa [wtFields] using h
    subst this; exact ⟨[], by simp [decodeFields], by simp [eqNilFields]⟩
  | f :: fs, vals, h, hall => by
    unfold wtFields at h
    unfold decodeFields
    by_cases hs : RoundTrip.isSer f = true
    · simp only [hs, if_true] at h ⊢
      cases vals with
      | nil => simp at h
      | cons p rest =>
        obtain ⟨nm, v⟩ := p
        simp only [Bool.and_eq_true, beq_iff_eq] at h
        obtain ⟨⟨hnm, _⟩, hrest⟩ := h
        subst hnm
        obtain ⟨rest', hr', hre⟩ := decodeFields_specN n m sh E fs rest hrest (fun g hg hsg v' hv' =>
          hall g (by simp [hg]) hsg v' (by simp [hv']))
        rcases hall f (by simp) hs v (by simp) with ⟨j, v', hj, hdj, he⟩ | ⟨hnone, he⟩
        · exact ⟨(f.name, v') :: rest', by simp only [hj, hdj, hr'], by simp [eqNilFields, he, hre]⟩
        · exact ⟨(f.name, zeroVal env n f.ty) :: rest', by simp [hnone, hr'], by simp [eqNilFields, he, hre]⟩
    · simp only [hs, Bool.false_eq_true, if_false] at h ⊢
      exact decodeFields_specN n m sh E fs vals h (fun g hg hsg v' hv' => hall g (by simp [hg]) hsg v' hv')

theorem rtn_struct (F : FragmentN env w ds) (n : Nat) (hg : ∀ k, k ≤ n → RTN env w ds k)
    (q : String) (d : Decl) (fs : List Field) (cs : List IR.Comment) (impls : List String) (v : GoVal)
    (hd : d ∈ ds) (hq : d.q = q) (hb : d.body = .struct fs cs impls)
    (ht : wt env (n + 1) (.ref q) v = true) :
    Back env w (n + 1) false (.ref q) v := by
  have hfind : env.find? q = some d := by rw [← hq]; exact F.found d hd
  have hok := F.ok d hd
  simp only [declOkN, hb, Bool.and_eq_true, List.all_eq_true, decide_eq_true_eq] at hok
  obtain ⟨⟨⟨hfields, hnd⟩, hndn⟩, hwrap⟩ := hok
  have hplainS : ∀ f ∈ fs, E2E.isSer f = true → fieldOkS env f = true := fun f hf hs =>
    (hfields f (List.mem_filter.mpr ⟨hf, hs⟩)).1.1
  have hplain : ∀ f ∈ fs, E2E.isSer f = true → keyOkN f = true := fun f hf hs =>
    keyOkN_of_fieldOkS env f (hplainS f hf hs)
  unfold Back
  cases v with
  | struct vals =>
    have hty : wtFields env n fs vals = true := by simpa [wt, hfind, hb] using ht
    have hnames := wtFields_names env n fs vals hty
    have hvnd : (vals.map (·.1)).Nodup := by rw [hnames]; exact hndn
    have hex : ∀ f ∈ fs, E2E.isSer f = true → ∃ v, vals.lookup f.name = some v := fun f hf hs => by
      obtain ⟨fv, hfv, _⟩ := wtFields_mem env n fs vals hty f hf hs
      exact ⟨fv, lookup_of_mem_nodup vals f.name fv hvnd hfv⟩
    have henc : encode env w (n + 1) false (.ref q) (.struct vals) =
        .obj (encodeFields env w n (w.structs.contains q) fs vals) := by
      simp [encode, hfind, hb]
    rw [henc]
    simp only [decode, hfind, hb]
    obtain ⟨vals', hdv, hev⟩ := decodeFields_specN env w n n (w.structs.contains q)
      (encodeFields env w n (w.structs.contains q) fs vals) fs vals hty (by
      intro f hf hs fv hfv
      have hlk := lookup_of_mem_nodup vals f.name fv hvnd hfv
      have hlook := encodeFields_lookupK env w n (w.structs.contains q) vals fs hplain hex hnd f hf hs fv hlk
      -- the value of the field is well typed
      obtain ⟨fv', hfv', hwt'⟩ := wtFields_mem env n fs vals hty f hf hs
      have : fv' = fv := by
        have h1 := lookup_of_mem_nodup vals f.name fv' hvnd hfv'
        rw [hlk] at h1; cases h1; rfl
      subst this
      by_cases hom : (isOmit f && isEmptyVal fv') = true
      · right
        rw [hom] at hlook
        simp only [if_true] at hlook
        simp only [Bool.and_eq_true] at hom
        exact ⟨hlook, empty_zero env n f.ty fv' hwt' hom.2⟩
      · left
        have hom' : (isOmit f && isEmptyVal fv') = false := by simpa using hom
        rw [hom'] at hlook
        simp only [Bool.false_eq_true, if_false] at hlook
        have hfs : f ∈ serialised fs := List.mem_filter.mpr ⟨hf, hs⟩
        have hfok := hfields f hfs
        have hchild : f.ty ∈ rtChildTys d := by
          simp only [rtChildTys, hb, List.mem_map]
          exact ⟨f, hfs, rfl⟩
        have hin : TyIn ds f.ty := fun r hr => F.closed d hd r (List.mem_flatMap.mpr ⟨f.ty, hchild, hr⟩)
        have hback : Back env w n (w.structs.contains q && isUnionTy env f.ty) f.ty fv' := by
          rcases (Bool.or_eq_true _ _).mp hfok.2 with hu | hnu
          · have hsh : w.structs.contains q = true := by
              rw [← hq]
              apply hwrap
              exact List.any_eq_true.mpr ⟨f, hfs, hu⟩
            rw [hsh, hu]
            cases hft : f.ty with
            | ref uq =>
              rw [hft] at hu hwt' hin
              simp only [isUnionTy] at hu
              obtain ⟨ud, hud, hudq⟩ := hin uq (by simp [Ty.refs])
              have hfu : env.find? uq = some ud := by rw [← hudq]; exact F.found ud hud
              simp only [hfu] at hu
              cases hub : ud.body with
              | union ms => exact rtn_union_wrapped env w ds F n hg uq ud ms fv' hud hudq hub hwt'
              | _ => simp [hub] at hu
            | _ => rw [hft] at hu; simp [isUnionTy] at hu
          · have hnotu : isUnionTy env f.ty = false := by
              cases hft : f.ty with
              | ref uq => rw [hft] at hnu; simpa [noUnion] using hnu
              | _ => simp [isUnionTy]
            rw [hnotu, Bool.and_false]
            exact hg n (Nat.le_refl n) f.ty fv' hin hnu hfok.1.2 hwt'
        obtain ⟨bv, hbv, hbe⟩ := hback
        have hsok : (!(tagOptions f.tag).contains "string" || Unquote.stringOk env f.ty) = true := by
          have := hplainS f hf hs
          simp only [fieldOkS, Bool.and_eq_true] at this
          exact this.1
        refine ⟨_, bv, hlook, ?_, hbe⟩
        rw [Unquote.fieldDoc_quoteIf env w f n _ fv' hsok hwt']
        exact hbv)
    exact ⟨.struct vals', by rw [hdv]; rfl, by simp [eqNil, hev]⟩
  | _ => simp [wt, hfind, hb] at ht

/-! ### the theorem -/

/-- **C02, round trip modulo nil, on the larger fragment** (`omitempty`, the `string` option,
`gomacro:"ignore"`, empty structs, `[]byte`, zero-length arrays, and named slices / maps of unions
with their generated element-wise methods included): for every type over the declarations of a program in the fragment
and every strictly typed Go value, `json.Unmarshal` of the document `json.Marshal` writes — both
with the generated methods — succeeds and gives a value deeply equal to the original, a nil and an
empty slice or map counting as equal. -/
theorem C02_round_trip_mod_nil (F : FragmentN env w ds) : ∀ n, RTN env w ds n := by
  intro n
  induction n using Nat.strongRecOn with
  | _ n ih =>
    cases n with
    | zero => intro t v _ _ _ ht; simp [wt] at ht
    | succ n =>
      intro t v hin hnu hs ht
      cases t with
      | basic g bk => exact rtn_basic env w n g bk v ht
      | time d => exact rtn_time env w n d v ht
      | arr k e => exact rtn_arr env w ds n (ih n (Nat.lt_succ_self n)) k e v hin hnu hs ht
      | map k e => exact rtn_map env w ds n (ih n (Nat.lt_succ_self n)) k e v hin hnu hs ht
      | ptr e => simp [shapeRT] at hs
      | ref q =>
        obtain ⟨d, hd, hq⟩ := hin q (by simp [Ty.refs])
        cases hb : d.body with
        | named u => exact rtn_named env w ds F n (fun k hk => ih k (Nat.lt_succ_of_le hk)) q d u v hd hq hb ht
        | enum un bk ms io => exact rtn_enum env w ds F n q d un bk ms io v hd hq hb ht
        | struct fs cs impls =>
          exact rtn_struct env w ds F n (fun k hk => ih k (Nat.lt_succ_of_le hk)) q d fs cs impls v hd hq hb ht
        | union ms =>
          have hfind : env.find? q = some d := by rw [← hq]; exact F.found d hd
          simp [noUnion, isUnionTy, hfind, hb] at hnu

/-- **as evaluated per program**: when the decidable check holds, every strictly typed value of
every non-union source type is read back, modulo nil, from its own document -/
theorem C02_round_trip_mod_nil_checked (h : fragmentNB env w ds = true) (n : Nat) (q : String) (v : GoVal)
    (hq : ∃ d ∈ ds, d.q = q) (hnu : isUnionTy env (.ref q) = false) (ht : wt env n (.ref q) v = true) :
    ∃ v', decode env w n false (.ref q) (encode env w n false (.ref q) v) = some v' ∧ eqNil v v' = true := by
  have F := fragmentN_of_check env w ds h
  refine C02_round_trip_mod_nil env w ds F n (.ref q) v ?_ ?_ ?_ ht
  · intro r hr
    simp only [Ty.refs, List.mem_singleton] at hr
    subst hr; exact hq
  · simp [noUnion, hnu]
  · simp [shapeRT]

end Gomacro.RoundTrip
