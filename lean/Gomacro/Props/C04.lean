import Gomacro.PgGen
/-!
# C04 — Generated Postgres JSON validators accept what Go emits, reject foreign shapes

Theorems about `PgGen.call`, the semantics of the plpgsql fragment of the six templates (trusted:
no PostgreSQL in the sandbox; three-valued logic, NULL for missing keys, `bool_and` = NULL on zero
rows, left-to-right short-circuit).  Rejection of the five corruption classes is proved per
template together with the propagation of FALSE to the CHECK; acceptance is proved
compositionally (one step per template) and evaluated end to end on every real document by `call`.
-/
namespace Gomacro.PgGen
open List Gomacro.GoJson

/-! ### FALSE propagates outwards -/

theorem and_ff_left (a : Tri) : Tri.and .ff a = .ff := by cases a <;> rfl
theorem and_ff_right (a : Tri) : Tri.and a .ff = .ff := by cases a <;> rfl

theorem foldl_and_ff (rs : List Tri) : rs.foldl Tri.and .ff = .ff := by
  induction rs with
  | nil => rfl
  | cons r rs ih => simp [List.foldl, and_ff_left, ih]

theorem foldl_and_of_mem_ff (rs : List Tri) (init : Tri) (h : Tri.ff ∈ rs) : rs.foldl Tri.and init = .ff := by
  induction rs generalizing init with
  | nil => simp at h
  | cons r rs ih =>
    simp only [List.foldl]
    rcases List.mem_cons.mp h with rfl | h
    · rw [and_ff_right]; exact foldl_and_ff rs
    · exact ih _ h

theorem boolAnd_of_mem_ff (l : List Tri) (h : Tri.ff ∈ l) : boolAnd l = .ff := by
  unfold boolAnd
  have hm : Tri.ff ∈ l.filter (· != .nul) := List.mem_filter.mpr ⟨h, by decide⟩
  have hne : (l.filter (· != .nul)).isEmpty = false := by
    cases hl : l.filter (· != .nul) with
    | nil => rw [hl] at hm; simp at hm
    | cons a as => rfl
  simp only [hne, Bool.false_eq_true, if_false]
  have : (l.filter (· != .nul)).all (· == .tt) = false := by
    apply List.all_eq_false.mpr
    exact ⟨.ff, hm, by decide⟩
  simp [this]

/-- a CHECK whose expression is FALSE refuses the row -/
theorem admits_ff : admits (some .ff) = false := rfl

/-! ### the five corruption classes, template by template -/

/-- **wrong JSON kind** at a basic (or time) position -/
theorem C04_reject_wrong_kind (script : List PgFunc) (f : Nat) (fn kind : String) (j : JVal)
    (hdef : lookupFunc script fn = some (.basic fn kind)) (hk : typeOf j ≠ kind) :
    call script (f + 1) fn (some j) = some .ff := by
  simp [call, hdef, hk]

/-- **non-member enum value** -/
theorem C04_reject_non_member (script : List PgFunc) (f : Nat) (fn kind : String) (isInt : Bool)
    (tuple : List String) (tid : String) (j : JVal)
    (hdef : lookupFunc script fn = some (.enum fn kind isInt tuple tid))
    (hm : ∀ it ∈ tuple, enumItemMatches isInt it j = false) :
    call script (f + 1) fn (some j) = some .ff := by
  have : tuple.any (fun it => enumItemMatches isInt it j) = false := by
    apply List.any_eq_false.mpr
    intro it hit; simp [hm it hit]
  simp [call, hdef, this]

/-- **unknown union Kind** -/
theorem C04_reject_unknown_kind (script : List PgFunc) (f : Nat) (fn : String) (cases : List (String × String))
    (kvs : List (String × JVal)) (k : String)
    (hdef : lookupFunc script fn = some (.union fn cases))
    (hkind : kvs.lookup "Kind" = some (.str k)) (hno : cases.lookup k = none) :
    call script (f + 1) fn (some (.obj kvs)) = some .ff := by
  simp only [call, hdef, hkind]
  split <;> simp [hno]

/-- **wrong fixed-array length** -/
theorem C04_reject_wrong_length (script : List PgFunc) (f : Nat) (fn elemFn : String) (len : Int) (l : List JVal)
    (hdef : lookupFunc script fn = some (.array fn elemFn len)) (hlen : 0 ≤ len) (hne : (l.length : Int) ≠ len) :
    call script (f + 1) fn (some (.arr l)) = none ∨ call script (f + 1) fn (some (.arr l)) = some .ff := by
  have h1 : ¬ (len == -1) = true := by simp; omega
  simp only [call, hdef]
  cases hm : l.mapM (fun x => call script f elemFn (some x)) with
  | none => left; simp [h1, hm]
  | some rs =>
    right
    have : ((l.length : Int) == len) = false := by simpa using hne
    simp [h1, hm, hlen, this, and_ff_right]

/-- **unknown object key** in a struct that declares at least one field -/
theorem C04_reject_unknown_key (script : List PgFunc) (f : Nat) (fn : String) (fields : List (String × String))
    (kvs : List (String × JVal)) (k : String) (v : JVal)
    (hdef : lookupFunc script fn = some (.struct fn fields)) (hne : fields ≠ [])
    (hk : (k, v) ∈ kvs) (hunk : ∀ p ∈ fields, p.1 ≠ k) :
    call script (f + 1) fn (some (.obj kvs)) = none ∨ call script (f + 1) fn (some (.obj kvs)) = some .ff := by
  simp only [call, hdef]
  cases hm : fields.mapM (fun (p : String × String) => call script f p.2 (kvs.lookup p.1)) with
  | none => left; simp [hm]
  | some rs =>
    right
    have hempty : fields.isEmpty = false := by cases fields <;> simp_all
    have hkey : boolAnd (kvs.map fun (k, _) => if fields.isEmpty || fields.any (·.1 == k) then Tri.tt else Tri.ff) = .ff := by
      apply boolAnd_of_mem_ff
      apply List.mem_map.mpr
      refine ⟨(k, v), hk, ?_⟩
      have : fields.any (·.1 == k) = false := by
        apply List.any_eq_false.mpr
        intro p hp; simpa using hunk p hp
      simp [hempty, this]
    simp [hm, hkey, foldl_and_ff]

/-! ### acceptance, one step per template -/

/-- a nil slice (`null`) and an empty slice (`[]`) are accepted; a nil map (`null`) too -/
theorem C04_accept_nil_slice (script : List PgFunc) (f : Nat) (fn e : String)
    (hdef : lookupFunc script fn = some (.array fn e (-1))) :
    call script (f + 1) fn (some .null) = some .tt ∧ call script (f + 1) fn (some (.arr [])) = some .tt := by
  simp [call, hdef]

theorem C04_accept_nil_map (script : List PgFunc) (f : Nat) (fn e : String)
    (hdef : lookupFunc script fn = some (.map fn e)) : call script (f + 1) fn (some .null) = some .tt := by
  simp [call, hdef]

/-- a value of the right JSON kind is accepted at a basic position -/
theorem C04_accept_basic (script : List PgFunc) (f : Nat) (fn kind : String) (j : JVal)
    (hdef : lookupFunc script fn = some (.basic fn kind)) (hk : typeOf j = kind) :
    call script (f + 1) fn (some j) = some .tt := by
  simp [call, hdef, hk]

/-- an enum member is accepted -/
theorem C04_accept_member (script : List PgFunc) (f : Nat) (fn kind : String) (isInt : Bool)
    (tuple : List String) (tid : String) (j : JVal)
    (hdef : lookupFunc script fn = some (.enum fn kind isInt tuple tid))
    (hk : typeOf j = kind) (it : String) (hit : it ∈ tuple) (hm : enumItemMatches isInt it j = true) :
    call script (f + 1) fn (some j) = some .tt := by
  have : tuple.any (fun it => enumItemMatches isInt it j) = true := List.any_eq_true.mpr ⟨it, hit, hm⟩
  simp [call, hdef, hk, this]

/-- a wrapped union value is accepted exactly as its member document is by the member's validator -/
theorem C04_union_dispatch (script : List PgFunc) (f : Nat) (fn : String) (cases : List (String × String))
    (k vf : String) (d : JVal) (hdef : lookupFunc script fn = some (.union fn cases))
    (hcase : cases.lookup k = some vf) (hnn : d ≠ .null) :
    call script (f + 1) fn (some (.obj [("Data", d), ("Kind", .str k)])) = call script f vf (some d) := by
  have h1 : isJsonNull (some d) = false := by
    cases d <;> simp_all [isJsonNull]
  simp [call, hdef, List.lookup, hcase, h1]

/-- recorded finding, as a theorem: a member whose document is `null` (a nil named slice or map
held in the union) is refused, although Go emits it -/
theorem union_null_data_refused (script : List PgFunc) (f : Nat) (fn : String) (cases : List (String × String))
    (k : String) (hdef : lookupFunc script fn = some (.union fn cases)) :
    call script (f + 1) fn (some (.obj [("Data", .null), ("Kind", .str k)])) = some .ff := by
  simp [call, hdef, List.lookup, isJsonNull]

/-- a missing key is NOT refused (the field validator is called on SQL NULL and yields NULL):
the validators check shapes of what is present, not presence -/
theorem missing_key_is_null (script : List PgFunc) (f : Nat) (fn kind : String)
    (hdef : lookupFunc script fn = some (.basic fn kind)) : call script (f + 1) fn none = some .nul := by
  simp [call, hdef]

/-- **closed script**: every function called from a body is defined -/
theorem C04_closed (script : List PgFunc) (h : closedScript script = true) :
    ∀ fd ∈ script, ∀ g ∈ calledFns fd, (lookupFunc script g).isSome = true := by
  intro fd hfd g hg
  unfold closedScript at h
  simp only [List.all_eq_true, List.any_eq_true, beq_iff_eq] at h
  obtain ⟨x, hx, hn⟩ := h fd hfd g hg
  unfold lookupFunc
  cases hfind : script.find? (·.name == g) with
  | some _ => rfl
  | none =>
    have := List.find?_eq_none.mp hfind x hx
    simp [hn] at this

/-- calling an undefined function is an error, never a silent TRUE -/
theorem undefined_function_errors (script : List PgFunc) (f : Nat) (fn : String) (arg : Option JVal)
    (h : lookupFunc script fn = none) : call script (f + 1) fn arg = none := by
  simp [call, h]

end Gomacro.PgGen
