import Gomacro.Analysis
import Gomacro.Facts.Generated
/-!
# C18 — Unsupported input is refused with a diagnostic, never a crash

* theorems over the analysis model: no modelled operation ends in a Go runtime error;
* a regenerated obligation: every fixed-width slice and every unchecked type assertion found in
  /repo's non-test sources is one the expectations below account for (with its guard).
Generators are covered by the correspondence runner (outcome classes in a child process).
-/
namespace Gomacro.Analysis
open List Gomacro Gomacro.IR Gomacro.GoFacts

theorem mapM'_no_crash {α β} (f : α → Outcome β) (l : List α)
    (h : ∀ a ∈ l, (f a).isCrash = false) : (Outcome.mapM' f l).isCrash = false := by
  induction l with
  | nil => simp [Outcome.mapM', Outcome.isCrash]
  | cons a as ih =>
    have ha := h a List.mem_cons_self
    have ih' := ih (fun x hx => h x (List.mem_cons_of_mem _ hx))
    simp only [Outcome.mapM']
    split
    · split <;> simp_all [Outcome.isCrash]
    · simp [Outcome.isCrash]
    · simp_all [Outcome.isCrash]

theorem convertNamed_no_crash (fb : FactBase) (hfacts : ∀ q, (fb.type? q).isSome = true) (q : String) :
    (convertNamed fb q).isCrash = false := by
  unfold convertNamed
  have := hfacts q
  split
  · simp_all
  · split <;> simp [Outcome.isCrash]

theorem convert_no_crash (fb : FactBase) (hfacts : ∀ q, (fb.type? q).isSome = true) :
    (t : GoTy) → (convert fb t).isCrash = false
  | .basic n info => by simp [convert, Outcome.isCrash]
  | .array n e => by
    have := convert_no_crash fb hfacts e
    simp only [convert]; split <;> simp_all [Outcome.isCrash]
  | .slice e => by
    have := convert_no_crash fb hfacts e
    simp only [convert]; split <;> simp_all [Outcome.isCrash]
  | .map k e => by
    have h1 := convert_no_crash fb hfacts k
    have h2 := convert_no_crash fb hfacts e
    simp only [convert]
    split
    · split <;> simp_all [Outcome.isCrash]
    · simp [Outcome.isCrash]
    · simp_all [Outcome.isCrash]
  | .ptr e => by
    have := convert_no_crash fb hfacts e
    simp only [convert]; split <;> simp_all [Outcome.isCrash]
  | .struct fs => by simp [convert, Outcome.isCrash]
  | .iface n => by simp [convert, Outcome.isCrash]
  | .chan => by simp [convert, Outcome.isCrash]
  | .func => by simp [convert, Outcome.isCrash]
  | .named q => by simpa [convert] using convertNamed_no_crash fb hfacts q
  | .tparam n => by simp [convert, Outcome.isCrash]
  | .other s => by simp [convert, Outcome.isCrash]

/-- special comments: an unknown `gomacro:<tag>` is a diagnostic -/
theorem specialComment_no_crash (line : String) : (specialComment line).isCrash = false := by
  unfold specialComment
  simp only
  repeat' split
  all_goals simp [Outcome.isCrash]

theorem structComments_no_crash (fb : FactBase) (tf : TypeFact) :
    (structComments fb tf).isCrash = false := by
  unfold structComments
  split
  · simp [Outcome.isCrash]
  · split
    · simp [Outcome.isCrash]
    · have := mapM'_no_crash specialComment tf.doc
        (fun a _ => specialComment_no_crash a)
      simp only
      split <;> simp_all [Outcome.isCrash]

/-- enum discovery never crashes (after the repair of the constant-comment lookup) -/
theorem C18_enums_no_crash (fb : FactBase) : (allEnums fb).isCrash = false := by
  unfold allEnums
  have hp : ∀ p ∈ fb.pkgs, (pkgEnums fb p).isCrash = false := by
    intro p _
    unfold pkgEnums
    have := mapM'_no_crash constCommentOutcome (p.consts.filter (·.typeQ != ""))
      (fun a _ => by simp [constCommentOutcome, Outcome.isCrash])
    split <;> simp_all [Outcome.isCrash]
  have := mapM'_no_crash (pkgEnums fb) fb.pkgs hp
  show (Outcome.bind _ _).isCrash = false
  unfold Outcome.bind
  split <;> simp_all [Outcome.isCrash]

/-- the source list never crashes -/
theorem C18_source_no_crash (fb : FactBase) (hfacts : ∀ q, (fb.type? q).isSome = true) :
    (sourceTys fb).isCrash = false :=
  mapM'_no_crash _ _ (fun s _ => convert_no_crash fb hfacts s.ty)

/-- The defects of the pinned commit, as theorems about the code as it was. -/
theorem constCommentOld_crashes : ∃ c : ConstFact, (constCommentOutcomeOld c).isCrash = true :=
  ⟨{ name := "D", typeQ := "p.E", val := "6", valStr := "6", isInt := true, int := 6, exported := true,
     comment := "", specIndex := 1 }, by decide⟩

end Gomacro.Analysis

namespace Gomacro.Facts
/-! ## Regenerated inventory of unchecked operations

`expected` lists every fixed-width slice (with the guard it sits under) and every unchecked type
assertion of /repo's non-test code, with the reason it cannot fail.  The extractor regenerates
`uncheckedOps` from the current sources on every run; a new or unguarded operation breaks
`C18_sites_covered`. -/

def expected : List (UncheckedOp × String) := [
  (⟨"analysis/analysis.go", "Analysis.createType", "assert", "an.handleType(typ.Underlying(), ctx).(AnonymousType)", ""⟩,
    "underlying of a named non-struct type: Basic/Array/Map/Time are AnonymousType; pointers are refused just above; others panic with a diagnostic inside handleType"),
  (⟨"analysis/analysis.go", "LocalName", "assert", "ty.Type().(*types.Named)", ""⟩, "documented precondition: callers pass Named/Enum/Struct/Union nodes only"),
  (⟨"analysis/analysis.go", "NewPkgSelector", "slice", "chunks[:2]", "len(chunks) >= 2"⟩, "guarded"),
  (⟨"analysis/analysis.go", "commonPrefix", "slice", "paths[1:]", ""⟩, "lower bound 1 on a slice whose element 0 was just read"),
  (⟨"analysis/basics.go", "Basic.Kind", "assert", "b.B.Underlying().(*types.Basic)", ""⟩, "B is a *types.Basic"),
  (⟨"analysis/compounds.go", "fetchStructComments", "assert", "scope.Type().(*types.Named)", ""⟩, "a package-level type name looked up by the name of a Named type"),
  (⟨"analysis/enums.go", "Enum.Underlying", "assert", "e.Type().Underlying().(*types.Basic)", ""⟩, "only basic types have constants (Go spec)"),
  (⟨"analysis/httpapi/parse.go", "parseEndpointFunc", "assert", "fn.(*types.Func)", ""⟩, "C13: identifier in handler position"),
  (⟨"analysis/httpapi/parse.go", "parseEndpointFunc", "assert", "ptr.Elem().(*types.Named)", ""⟩, "C13: receiver of a method value"),
  (⟨"analysis/httpapi/parse.go", "parseEndpointFunc", "assert", "xObj.Type().(*types.Named)", ""⟩, "C13: receiver of a method value"),
  (⟨"analysis/sql/sql.go", "isTableID", "slice", "name[2:]", "len(name) > 2 && strings.HasPrefix(strings.ToLower(name), \"id\")"⟩, "guarded"),
  (⟨"analysis/sql/types.go", "Array.Name", "assert", "ar.A.Elem.(*an.Basic)", ""⟩, "sql.Array is built by newType only for Basic or integer Enum elements; the Enum case is tested first"),
  (⟨"analysis/sql/types.go", "newType", "assert", "time.(*an.Time)", ""⟩, "NewTime returns *Time, or the *Named wrapping it for a named time type, which the statement just before unwraps"),
  (⟨"cmd/gomacro.go", "main", "slice", "fileArgs[1:]", ""⟩, "len(fileArgs) >= 1 checked above"),
  (⟨"generator/dart/typedecls.go", "lowerFirst", "slice", "s[0:1]", ""⟩, "early return on the empty string"),
  (⟨"generator/dart/typedecls.go", "lowerFirst", "slice", "s[1:]", ""⟩, "early return on the empty string"),
  (⟨"generator/generator.go", "ReplaceEnums", "slice", "s[2 : len(s)-1]", ""⟩, "s matches #\\[(\\w+)\\.(\\w+)\\] : at least 6 bytes"),
  (⟨"generator/go/gounions/gounions.go", "context.codeForNamed", "assert", "typ.Type().(*types.Named)", ""⟩, "Named node"),
  (⟨"generator/go/gounions/gounions.go", "context.codeForStruct", "assert", "st.Type().(*types.Named)", ""⟩, "Struct node"),
  (⟨"generator/go/gounions/gounions.go", "context.codeForUnion", "assert", "u.Type().(*types.Named)", ""⟩, "Union node"),
  (⟨"generator/go/gounions/gounions.go", "jsonForArray", "assert", "ar.Elem.(*an.Union)", ""⟩, "called under that very test in codeForNamed"),
  (⟨"generator/go/gounions/gounions.go", "jsonForArray", "assert", "typ.Underlying.(*an.Array)", ""⟩, "called under that very test in codeForNamed"),
  (⟨"generator/go/gounions/gounions.go", "jsonForMap", "assert", "ar.Elem.(*an.Union)", ""⟩, "called under that very test in codeForNamed"),
  (⟨"generator/go/gounions/gounions.go", "jsonForMap", "assert", "typ.Type().(*types.Named)", ""⟩, "Named node"),
  (⟨"generator/go/gounions/gounions.go", "jsonForMap", "assert", "typ.Underlying.(*an.Map)", ""⟩, "called under that very test in codeForNamed"),
  (⟨"generator/go/gounions/gounions.go", "jsonForUnion", "slice", "unionPrefix[0:2]", "len(unionPrefix) > 2"⟩, "guarded"),
  (⟨"generator/go/randdata/data.go", "context.functionID", "assert", "ty.Type().(*types.Named)", ""⟩, "Named/Enum/Struct/Union node"),
  (⟨"generator/go/randdata/data.go", "functionIDBasicOrNamed", "slice", "packageName[:3]", "len(packageName) > 3"⟩, "guarded"),
  (⟨"generator/go/sqlcrud/sql.go", "context.compositeConverters", "assert", "composite.Type().(*an.Struct)", ""⟩, "sql.Composite wraps a *Struct"),
  (⟨"generator/sql/json.go", "codeForUnion", "assert", "member.Type().(*types.Named)", ""⟩, "union members are named types"),
  (⟨"generator/sql/json.go", "idFromNamed", "slice", "pkg[:4]", "len(pkg) > 4"⟩, "guarded"),
  (⟨"generator/sql/json.go", "typeIDRec", "assert", "ty.Type().(*types.Named)", ""⟩, "Struct/Enum/Union node"),
  (⟨"generator/sql/tables.go", "compositeDecl", "assert", "cp.Type().(*an.Struct)", ""⟩, "sql.Composite wraps a *Struct"),
  (⟨"generator/sql/tables.go", "generateTable", "assert", "composite.Type().(*an.Struct)", ""⟩, "sql.Composite wraps a *Struct"),
  (⟨"generator/typescript/axios_api.go", "asObjectKey", "assert", "t.Underlying.(*an.Basic)", ""⟩, "C14: typed query parameters are basic or named basic")
]

/-- every operation found in the current sources is accounted for, guard included -/
def sitesCovered : Bool := uncheckedOps.all fun op => expected.any fun e => e.1 == op

/-- **regenerated obligation** -/
theorem C18_sites_covered : sitesCovered = true := by decide

end Gomacro.Facts
