import Gomacro.EndToEndSql
import Gomacro.Props.C02Nil
import Gomacro.Props.C03E2E
/-!
# C04, end to end (acceptance)

`C04_end_to_end` / `C04_check_admits`: for a program in the fragment (`EndToEndSql.FragmentSql`:
decidable, evaluated per program by the runner; the complement of the recorded findings of C04),
the validator generated for a type admits — TRUE or NULL, what a CHECK constraint lets through —
the document Go writes (model `GoJson.encode`) for every well-typed value of that type, for every
sufficiently large fuel of the plpgsql semantics `PgGen.call`. Strong induction on the encoder's
fuel, reusing the struct-field lemmas of `C03E2E`.
-/
namespace Gomacro.E2ESql
open Gomacro.IR Gomacro.GoJson Gomacro.PgGen Gomacro.E2E

def Good (r : Tri) : Prop := r = .tt ∨ r = .nul

theorem mapM_good {α} (g : α → Option Tri) : ∀ (l : List α), (∀ x ∈ l, ∃ r, g x = some r ∧ Good r) →
    ∃ rs, l.mapM g = some rs ∧ ∀ r ∈ rs, Good r
  | [], _ => ⟨[], by simp, by simp⟩
  | a :: as, h => by
    obtain ⟨r, hr, hg⟩ := h a (by simp)
    obtain ⟨rs, hrs, hgs⟩ := mapM_good g as (fun x hx => h x (by simp [hx]))
    refine ⟨r :: rs, by simp [List.mapM_cons, hr, hrs], ?_⟩
    intro x hx
    rcases List.mem_cons.mp hx with rfl | hx
    · exact hg
    · exact hgs x hx

theorem boolAnd_good (rs : List Tri) (h : ∀ r ∈ rs, Good r) : Good (boolAnd rs) := by
  unfold boolAnd
  by_cases he : (rs.filter (· != .nul)).isEmpty = true
  · simp [he, Good]
  · simp only [he, Bool.false_eq_true, if_false]
    have : (rs.filter (· != .nul)).all (· == .tt) = true := by
      simp only [List.all_eq_true, List.mem_filter, bne_iff_ne, ne_eq, beq_iff_eq, and_imp]
      intro r hr hn
      rcases h r hr with h1 | h1
      · exact h1
      · exact absurd h1 hn
    simp [this, Good]

theorem and_good (a b : Tri) (ha : Good a) (hb : Good b) : Good (Tri.and a b) := by
  rcases ha with rfl | rfl <;> rcases hb with rfl | rfl <;> simp [Tri.and, Good]

theorem foldl_and_good (rs : List Tri) (a : Tri) (ha : Good a) (h : ∀ r ∈ rs, Good r) : Good (rs.foldl Tri.and a) := by
  induction rs generalizing a with
  | nil => simpa
  | cons r rs ih =>
    simp only [List.foldl_cons]
    exact ih _ (and_good a r ha (h r (by simp))) (fun x hx => h x (by simp [hx]))

variable (script : List PgFunc)

/-- the validator admits the document, for every sufficiently large fuel -/
def Acc (fn : String) (j : JVal) : Prop := Eventually (fun m => ∃ r, call script m fn (some j) = some r ∧ Good r)

theorem acc_basic (fn kind : String) (j : JVal) (hl : lookupFunc script fn = some (.basic fn kind))
    (hk : typeOf j = kind) : Acc script fn j := ⟨1, fun m hm => by
  obtain ⟨k, rfl⟩ : ∃ k, m = k + 1 := ⟨m - 1, by omega⟩
  exact ⟨.tt, by simp [call, hl, hk], Or.inl rfl⟩⟩

theorem acc_enum (fn kind : String) (isInt : Bool) (tuple : List String) (tid : String) (j : JVal)
    (hl : lookupFunc script fn = some (.enum fn kind isInt tuple tid))
    (hk : typeOf j = kind) (hm : tuple.any (fun it => enumItemMatches isInt it j) = true) : Acc script fn j := ⟨1, fun m hm' => by
  obtain ⟨k, rfl⟩ : ∃ k, m = k + 1 := ⟨m - 1, by omega⟩
  exact ⟨.tt, by simp [call, hl, hk, hm], Or.inl rfl⟩⟩

theorem acc_array_null (fn elemFn : String) (hl : lookupFunc script fn = some (.array fn elemFn (-1))) :
    Acc script fn .null := ⟨1, fun m hm => by
  obtain ⟨k, rfl⟩ : ∃ k, m = k + 1 := ⟨m - 1, by omega⟩
  exact ⟨.tt, by simp [call, hl], Or.inl rfl⟩⟩

theorem acc_array (fn elemFn : String) (len : Int) (l : List JVal)
    (hl : lookupFunc script fn = some (.array fn elemFn len))
    (hlen : len = -1 ∨ (l.length : Int) = len)
    (h : ∀ x ∈ l, Acc script elemFn x) : Acc script fn (.arr l) := by
  apply ev_shift
  refine ev_mono (ev_forall_mem l (fun x m => ∃ r, call script m elemFn (some x) = some r ∧ Good r) h) (fun m hh => ?_)
  obtain ⟨rs, hrs, hgs⟩ := mapM_good (fun x => call script m elemFn (some x)) l hh
  simp only [call, hl]
  by_cases he : (len == -1 && l.isEmpty) = true
  · exact ⟨.tt, by simp [he], Or.inl rfl⟩
  · simp only [he, Bool.false_eq_true, if_false, hrs, Option.map_some]
    by_cases hp : len ≥ 0
    · simp only [hp, if_true]
      have hlen' : (l.length : Int) = len := by
        rcases hlen with h1 | h1
        · omega
        · exact h1
      refine ⟨_, rfl, and_good _ _ (boolAnd_good rs hgs) ?_⟩
      simp [hlen', Good]
    · simp only [hp, if_false]
      exact ⟨_, rfl, boolAnd_good rs hgs⟩

theorem acc_map_null (fn elemFn : String) (hl : lookupFunc script fn = some (.map fn elemFn)) :
    Acc script fn .null := ⟨1, fun m hm => by
  obtain ⟨k, rfl⟩ : ∃ k, m = k + 1 := ⟨m - 1, by omega⟩
  exact ⟨.tt, by simp [call, hl], Or.inl rfl⟩⟩

theorem acc_map (fn elemFn : String) (kvs : List (String × JVal))
    (hl : lookupFunc script fn = some (.map fn elemFn))
    (h : ∀ p ∈ kvs, Acc script elemFn p.2) : Acc script fn (.obj kvs) := by
  apply ev_shift
  refine ev_mono (ev_forall_mem kvs (fun p m => ∃ r, call script m elemFn (some p.2) = some r ∧ Good r) h) (fun m hh => ?_)
  obtain ⟨rs, hrs, hgs⟩ := mapM_good (fun (p : String × JVal) => call script m elemFn (some p.2)) kvs hh
  simp only [call, hl, hrs, Option.map_some]
  exact ⟨_, rfl, and_good _ _ (Or.inl rfl) (boolAnd_good rs hgs)⟩


theorem acc_struct (fn : String) (fields : List (String × String)) (kvs : List (String × JVal))
    (hl : lookupFunc script fn = some (.struct fn fields))
    (h1 : ∀ p ∈ fields, ∃ x, kvs.lookup p.1 = some x ∧ Acc script p.2 x)
    (h2 : ∀ q ∈ kvs, fields.any (fun p => p.1 == q.1) = true) : Acc script fn (.obj kvs) := by
  apply ev_shift
  have h' : ∀ p ∈ fields, Eventually (fun m => ∃ r, call script m p.2 (kvs.lookup p.1) = some r ∧ Good r) := by
    intro p hp
    obtain ⟨x, hx, ha⟩ := h1 p hp
    rw [hx]; exact ha
  refine ev_mono (ev_forall_mem fields _ h') (fun m hh => ?_)
  obtain ⟨rs, hrs, hgs⟩ := mapM_good (fun (p : String × String) => call script m p.2 (kvs.lookup p.1)) fields hh
  simp only [call, hl, hrs, Option.map_some]
  refine ⟨_, rfl, foldl_and_good rs _ (boolAnd_good _ ?_) hgs⟩
  intro r hr
  obtain ⟨q, hq, rfl⟩ := List.mem_map.mp hr
  have := h2 q hq
  obtain ⟨k, x⟩ := q
  simp only at this ⊢
  simp [this, Good]

theorem acc_union (fn : String) (cases : List (String × String)) (name vf : String) (data : JVal)
    (hl : lookupFunc script fn = some (.union fn cases))
    (hc : cases.lookup name = some vf) (hnn : isJsonNull (some data) = false)
    (h : Acc script vf data) : Acc script fn (.obj [("Data", data), ("Kind", .str name)]) := by
  apply ev_shift
  refine ev_mono h (fun m hh => ?_)
  obtain ⟨r, hr, hg⟩ := hh
  refine ⟨r, ?_, hg⟩
  have hk : ([("Data", data), ("Kind", JVal.str name)] : List (String × JVal)).lookup "Kind" = some (.str name) := by
    simp [List.lookup]
  have hd : ([("Data", data), ("Kind", JVal.str name)] : List (String × JVal)).lookup "Data" = some data := by
    simp [List.lookup]
  simp only [call, hl, hk, hd, hnn, Bool.false_eq_true, if_false, hc]
  exact hr


/-! ### the end-to-end statement -/

variable (env : Env) (w : Wrappers) (ds : List Decl)

def HasAll (t : Ty) : Prop := ∀ s ∈ subTys t, scriptHas env script s = true

def GoalS (n : Nat) : Prop :=
  ∀ t v, TyIn ds t → HasAll script env t → noUnion env t = true → shapeOk t = true → lensOk t = true →
    hasType env n t v = true → Acc script (fnName env t) (encode env w n false t v)

theorem has_self (t : Ty) (h : HasAll script env t) : scriptHas env script t = true := by
  apply h t
  cases t <;> simp [subTys]

theorem has_arr_elem (n : Int) (e : Ty) (h : HasAll script env (.arr n e)) : HasAll script env e :=
  fun s hs => h s (by simp [subTys, hs])

theorem has_map_elem (k e : Ty) (h : HasAll script env (.map k e)) : HasAll script env e :=
  fun s hs => h s (by simp [subTys, hs])

theorem goalS_basic (n : Nat) (g : String) (bk : BKind) (v : GoVal) (hh : HasAll script env (.basic g bk))
    (ht : hasType env (n + 1) (.basic g bk) v = true) :
    Acc script (fnName env (.basic g bk)) (encode env w (n + 1) false (.basic g bk) v) := by
  have hs := has_self script env _ hh
  cases bk <;> cases v <;> simp [hasType] at ht
  all_goals
    simp only [scriptHas, funcOf, nameFromKind, Option.map_some, decide_eq_true_eq] at hs
    simp only [encode]
    exact acc_basic script _ _ _ hs (by simp [typeOf])

theorem goalS_time (n : Nat) (d : Bool) (v : GoVal) (hh : HasAll script env (.time d))
    (ht : hasType env (n + 1) (.time d) v = true) :
    Acc script (fnName env (.time d)) (encode env w (n + 1) false (.time d) v) := by
  have hs := has_self script env _ hh
  cases v <;> simp [hasType] at ht
  simp only [scriptHas, funcOf, decide_eq_true_eq] at hs
  simp only [encode]
  exact acc_basic script _ _ _ hs (by simp [typeOf])

theorem goalS_arr (n : Nat) (hg : GoalS script env w ds n)
    (k : Int) (e : Ty) (v : GoVal) (hin : TyIn ds (.arr k e)) (hh : HasAll script env (.arr k e))
    (hnu : noUnion env (.arr k e) = true) (hs : shapeOk (.arr k e) = true) (hl : lensOk (.arr k e) = true)
    (ht : hasType env (n + 1) (.arr k e) v = true) :
    Acc script (fnName env (.arr k e)) (encode env w (n + 1) false (.arr k e) v) := by
  have hine := tyIn_arr ds k e hin
  have hhe := has_arr_elem script env k e hh
  have hse : shapeOk e = true := by simp only [shapeOk, Bool.and_eq_true] at hs; exact hs.1.2
  have hk0 : k ≠ 0 := by simp only [shapeOk, Bool.and_eq_true, bne_iff_ne] at hs; exact hs.1.1
  have hnue : noUnion env e = true := by simpa [noUnion] using hnu
  simp only [lensOk, Bool.and_eq_true, decide_eq_true_eq] at hl
  have hfn := has_self script env _ hh
  simp only [scriptHas, funcOf, decide_eq_true_eq] at hfn
  cases v with
  | list isSlice isNil es =>
    simp only [hasType, Bool.and_eq_true, beq_iff_eq, Bool.or_eq_true, decide_eq_true_eq] at ht
    obtain ⟨⟨hsl, hlen⟩, hall⟩ := ht
    have helems : ∀ x ∈ encodeList env w n e es, Acc script (fnName env e) x := by
      intro x hx
      obtain ⟨v', hv', rfl⟩ := encodeList_mem env w n e es x hx
      exact hg e v' hine hhe hnue hse hl.2 (hasTypeAll_mem env n e es hall v' hv')
    by_cases hneg : k < 0
    · have hk1 : k = -1 := by omega
      have hsl' : isSlice = true := by simp [hsl, hneg]
      subst hsl' hk1
      cases isNil
      · simp only [encode, Bool.and_false, Bool.false_eq_true, if_false]
        exact acc_array script _ _ _ _ hfn (Or.inl rfl) helems
      · simp only [encode, Bool.and_self, if_true]
        exact acc_array_null script _ _ hfn
    · have hsl' : isSlice = false := by simp [hsl, hneg]
      have hlen' : es.length = k.toNat := by
        rcases hlen with h | h
        · exact absurd h hneg
        · exact h
      subst hsl'
      simp only [encode, Bool.false_and, Bool.false_eq_true, if_false]
      refine acc_array script _ _ _ _ hfn (Or.inr ?_) helems
      rw [encodeList_length, hlen']
      omega
  | _ => simp [hasType] at ht

theorem goalS_map (n : Nat) (hg : GoalS script env w ds n)
    (k e : Ty) (v : GoVal) (hin : TyIn ds (.map k e)) (hh : HasAll script env (.map k e))
    (hnu : noUnion env (.map k e) = true) (hs : shapeOk (.map k e) = true) (hl : lensOk (.map k e) = true)
    (ht : hasType env (n + 1) (.map k e) v = true) :
    Acc script (fnName env (.map k e)) (encode env w (n + 1) false (.map k e) v) := by
  obtain ⟨_, hine⟩ := tyIn_map ds k e hin
  have hhe := has_map_elem script env k e hh
  have hnue : noUnion env e = true := by
    simp only [noUnion, Bool.and_eq_true] at hnu; exact hnu.2
  have hse : shapeOk e = true := by
    cases k with
    | basic g bk => cases bk <;> simp_all [shapeOk]
    | _ => simp [shapeOk] at hs
  have hle : lensOk e = true := by simpa [lensOk] using hl
  have hfn := has_self script env _ hh
  simp only [scriptHas, funcOf, decide_eq_true_eq] at hfn
  cases v with
  | map isNil kvs =>
    simp only [hasType] at ht
    cases isNil
    · simp only [encode, Bool.false_eq_true, if_false]
      refine acc_map script _ _ _ hfn ?_
      intro p hpm
      obtain ⟨kv, hkv, rfl⟩ := encodeEntries_mem env w n e kvs p hpm
      exact hg e kv.2 hine hhe hnue hse hle (hasTypeEntries_mem env n k e kvs ht kv hkv).2
    · simp only [encode, if_true]
      exact acc_map_null script _ _ hfn
  | _ => simp [hasType] at ht


theorem has_child (hprov : providedSql env script d = true) (t : Ty) (ht : t ∈ sqlChildTys d) : HasAll script env t := by
  intro s hs
  simp only [providedSql, List.all_eq_true] at hprov
  apply hprov s
  simp only [List.mem_cons, List.mem_flatMap]
  exact Or.inr ⟨t, ht, hs⟩

theorem has_own (hprov : providedSql env script d = true) : scriptHas env script (.ref d.q) = true := by
  simp only [providedSql, List.all_eq_true] at hprov
  exact hprov _ (by simp)

theorem enumLiteral_num (m : Member) (x : String) (h : TsGen.enumLiteral m = .litNum x) : x = m.valStr := by
  unfold TsGen.enumLiteral at h
  split at h
  · cases h
  · split at h
    · cases h
    · split at h
      · cases h
      · cases h; rfl

theorem goalS_enum (F : FragmentSql env w script ds) (n : Nat)
    (q : String) (d : Decl) (un : String) (bk : BKind) (ms : List Member) (io : Bool) (v : GoVal)
    (hd : d ∈ ds) (hq : d.q = q) (hb : d.body = .enum un bk ms io)
    (ht : hasType env (n + 1) (.ref q) v = true) :
    Acc script (fnName env (.ref q)) (encode env w (n + 1) false (.ref q) v) := by
  have hfind : env.find? q = some d := by rw [← hq]; exact F.found d hd
  have hok := F.ok d hd
  simp only [declOkSql, hb] at hok
  have hown := has_own script env (F.provided d hd)
  rw [hq] at hown
  have hany : ∃ m ∈ ms, litOk m v = true := by
    simpa [hasType, hfind, hb, List.any_eq_true] using ht
  obtain ⟨m, hm, hlit⟩ := hany
  cases bk with
  | int =>
    simp only [enumOkSql, List.all_eq_true, Bool.and_eq_true, beq_iff_eq] at hok
    obtain ⟨hitem, hkind⟩ := hok m hm
    simp only [scriptHas, funcOf, hfind, hb, nameFromKind, Option.map_some, decide_eq_true_eq] at hown
    cases hel : TsGen.enumLiteral m with
    | litNum x =>
      have hx := enumLiteral_num m x hel
      cases v with
      | int r =>
        simp only [litOk, hel, beq_iff_eq] at hlit
        simp only [encode, hfind, hb]
        refine acc_enum script _ _ _ _ _ _ hown (by simp [typeOf]) (List.any_eq_true.mpr ⟨enumTupleItem m, List.mem_map.mpr ⟨m, hm, rfl⟩, ?_⟩)
        simp [enumItemMatches, hitem, ← hx, hlit]
      | float r =>
        simp only [litOk, hel, beq_iff_eq] at hlit
        simp only [encode, hfind, hb]
        refine acc_enum script _ _ _ _ _ _ hown (by simp [typeOf]) (List.any_eq_true.mpr ⟨enumTupleItem m, List.mem_map.mpr ⟨m, hm, rfl⟩, ?_⟩)
        simp [enumItemMatches, hitem, ← hx, hlit]
      | _ => simp [litOk, hel] at hlit
    | _ => simp [hel] at hkind
  | str =>
    simp only [enumOkSql, List.all_eq_true, Bool.and_eq_true, beq_iff_eq] at hok
    obtain ⟨hitem, hkind⟩ := hok m hm
    simp only [scriptHas, funcOf, hfind, hb, nameFromKind, Option.map_some, decide_eq_true_eq] at hown
    cases hel : TsGen.enumLiteral m with
    | litStr x =>
      simp only [hel, beq_iff_eq] at hkind
      cases v with
      | str s =>
        simp only [litOk, hel, beq_iff_eq] at hlit
        simp only [encode, hfind, hb]
        refine acc_enum script _ _ _ _ _ _ hown (by simp [typeOf]) (List.any_eq_true.mpr ⟨enumTupleItem m, List.mem_map.mpr ⟨m, hm, rfl⟩, ?_⟩)
        simp [enumItemMatches, hitem, ← hkind, hlit]
      | _ => simp [litOk, hel] at hlit
    | _ => simp [hel] at hkind
  | _ => simp [enumOkSql] at hok


theorem lookup_map_find {α} (key val : α → String) (name : String) (pred : α → Bool) :
    ∀ (ms : List α), (∀ m ∈ ms, pred m = (key m == name)) → ∀ m0, ms.find? pred = some m0 →
      (ms.map fun m => (key m, val m)).lookup name = some (val m0)
  | [], _, m0, h => by simp at h
  | a :: as, hp, m0, h => by
    have ha := hp a (by simp)
    by_cases hpa : pred a = true
    · have : m0 = a := by simpa [List.find?, hpa] using h.symm
      subst this
      have hk : (name == key m0) = true := by
        rw [ha] at hpa
        have := beq_iff_eq.mp hpa
        simp [this]
      simp only [List.map_cons, List.lookup_cons, hk]
    · have hpa' : pred a = false := by simpa using hpa
      have hk : (name == key a) = false := by
        rw [ha] at hpa'
        have hne : key a ≠ name := by simpa using hpa'
        simp [Ne.symm hne]
      simp only [List.find?, hpa'] at h
      simp only [List.map_cons, List.lookup_cons, hk]
      exact lookup_map_find key val name pred as (fun m hm => hp m (by simp [hm])) m0 h

theorem goalS_union_wrapped (F : FragmentSql env w script ds) (n : Nat) (hg : ∀ k, k ≤ n → GoalS script env w ds k)
    (uq : String) (ud : Decl) (ms : List Ty) (v : GoVal) (hud : ud ∈ ds) (hq : ud.q = uq) (hb : ud.body = .union ms)
    (ht : hasType env n (.ref uq) v = true) :
    Acc script (fnName env (.ref uq)) (encode env w n true (.ref uq) v) := by
  have hfind : env.find? uq = some ud := by rw [← hq]; exact F.found ud hud
  have hok := F.ok ud hud
  simp only [declOkSql, hb, List.all_eq_true, Bool.and_eq_true] at hok
  have hown := has_own script env (F.provided ud hud)
  rw [hq] at hown
  simp only [scriptHas, funcOf, hfind, hb, decide_eq_true_eq] at hown
  cases n with
  | zero => simp [hasType] at ht
  | succ n' =>
    cases v with
    | iface mem =>
      cases mem with
      | none => simp [hasType, hfind, hb] at ht
      | some nv =>
        obtain ⟨name, mv⟩ := nv
        simp only [hasType, hfind, hb, Bool.and_eq_true] at ht
        obtain ⟨hany, hmv⟩ := ht
        let lname : Ty → String := fun m => match m with
          | .ref mq => (match env.find? mq with | some md => md.name | none => "?")
          | _ => "?"
        let pred : Ty → Bool := fun t => match t with
          | .ref q => (match env.find? q with | some md => md.name == name | none => false)
          | _ => false
        -- members are declarations of the fragment
        have hmem : ∀ m ∈ ms, ∃ mq md, m = .ref mq ∧ md ∈ ds ∧ env.find? mq = some md := by
          intro m hm
          have hmk := (hok m hm).2
          cases m with
          | ref mq =>
            obtain ⟨md, hmd, hmq⟩ := F.closed ud hud mq (List.mem_flatMap.mpr ⟨.ref mq, by simp [sqlChildTys, hb, hm], by simp [Ty.refs]⟩)
            exact ⟨mq, md, rfl, hmd, by rw [← hmq]; exact F.found md hmd⟩
          | _ => simp [memberOkSql] at hmk
        have hpredkey : ∀ m ∈ ms, pred m = (lname m == name) := by
          intro m hm
          obtain ⟨mq, md, rfl, _, hf⟩ := hmem m hm
          simp [pred, lname, hf]
        have hany' : ms.any pred = true := by
          rw [List.any_eq_true] at hany ⊢
          obtain ⟨m, hm, hn⟩ := hany
          refine ⟨m, hm, ?_⟩
          rw [hpredkey m hm]
          obtain ⟨mq, md, rfl, _, hf⟩ := hmem m hm
          simpa [lname, localNameOf, hf] using hn
        obtain ⟨m0, hfind0, hm0, _⟩ := find_some_of_any pred ms hany'
        have hmt : memberTy env ud name = m0 := by
          simp only [memberTy, hb]
          show (match ms.find? pred with | some t => t | none => Ty.ref "") = m0
          rw [hfind0]
        rw [hmt] at hmv
        have henc : encode env w (n' + 1) true (.ref uq) (.iface (some (name, mv))) =
            .obj [("Data", encode env w n' false m0 mv), ("Kind", .str name)] := by
          simp [encode, hfind, hb, hmt]
        rw [henc]
        have hcases : (ms.map fun m => (lname m, fnName env m)).lookup name = some (fnName env m0) :=
          lookup_map_find lname (fnName env) name pred ms hpredkey m0 hfind0
        obtain ⟨mq0, md0, hm0eq, hmd0, hf0⟩ := hmem m0 hm0
        subst hm0eq
        have hm0ok := hok _ hm0
        have hin0 : TyIn ds (.ref mq0) := by
          intro r hr
          simp only [Ty.refs, List.mem_singleton] at hr
          rw [hr]
          exact ⟨md0, hmd0, by
            have := F.found md0 hmd0
            -- both lookups find the declaration named mq0
            have hq0 : md0.q = mq0 := by
              obtain ⟨md', hmd', hmq'⟩ := F.closed ud hud mq0 (List.mem_flatMap.mpr ⟨.ref mq0, by simp [sqlChildTys, hb, hm0], by simp [Ty.refs]⟩)
              have h1 : env.find? mq0 = some md' := by rw [← hmq']; exact F.found md' hmd'
              rw [hf0] at h1
              cases h1
              exact hmq'
            exact hq0⟩
        have hhas0 : HasAll script env (.ref mq0) := by
          intro s hs
          simp only [subTys, List.mem_singleton] at hs
          rw [hs]
          have := has_own script env (F.provided md0 hmd0)
          have hq0 : md0.q = mq0 := by
            obtain ⟨d', hd', he⟩ := hin0 mq0 (by simp [Ty.refs])
            have h1 : env.find? mq0 = some d' := by rw [← he]; exact F.found d' hd'
            rw [hf0] at h1; cases h1; exact he
          rwa [hq0] at this
        have hdata := hg n' (by omega) (.ref mq0) mv hin0 hhas0 hm0ok.1 (by simp [shapeOk]) (by simp [lensOk]) hmv
        -- a member never encodes to null
        have hnn : isJsonNull (some (encode env w n' false (.ref mq0) mv)) = false := by
          have hk := hm0ok.2
          simp only [memberOkSql, hf0] at hk
          cases n' with
          | zero => simp [hasType] at hmv
          | succ n'' =>
            cases hb0 : md0.body with
            | struct fs cs im =>
              cases mv <;> simp [hasType, hf0, hb0] at hmv
              simp [encode, hf0, hb0, isJsonNull]
            | enum un bk ems io =>
              simp only [hasType, hf0, hb0, List.any_eq_true] at hmv
              obtain ⟨m, _, hl⟩ := hmv
              cases mv <;> simp [litOk] at hl <;> simp [encode, hf0, hb0, isJsonNull]
            | named u =>
              simp only [hb0] at hk
              cases u with
              | basic g bk =>
                simp only [hasType, hf0, hb0] at hmv
                cases n'' with
                | zero => simp [hasType] at hmv
                | succ n3 =>
                  cases hwn : w.nameds.contains mq0 <;> cases bk <;> cases mv <;> simp [hasType] at hmv <;>
                    simp [encode, hf0, hb0, hwn, isJsonNull]
              | _ => simp at hk
            | union ms' => simp [hb0] at hk
        exact acc_union script _ _ name _ _ hown hcases hnn hdata
    | _ => simp [hasType, hfind, hb] at ht


theorem goalS_named (F : FragmentSql env w script ds) (n : Nat) (hg : ∀ k, k ≤ n → GoalS script env w ds k)
    (q : String) (d : Decl) (u : Ty) (v : GoVal) (hd : d ∈ ds) (hq : d.q = q) (hb : d.body = .named u)
    (ht : hasType env (n + 1) (.ref q) v = true) :
    Acc script (fnName env (.ref q)) (encode env w (n + 1) false (.ref q) v) := by
  have hfind : env.find? q = some d := by rw [← hq]; exact F.found d hd
  have hok := F.ok d hd
  have hty : hasType env n u v = true := by simpa [hasType, hfind, hb] using ht
  have hchild : u ∈ sqlChildTys d := by simp [sqlChildTys, hb]
  have hin : TyIn ds u := fun r hr => F.closed d hd r (List.mem_flatMap.mpr ⟨u, hchild, hr⟩)
  have hhas := has_child script env (F.provided d hd) u hchild
  by_cases hw : w.nameds.contains q = true
  · -- a wrapped named slice / map of unions: every element goes through the union wrapper
    have hw2 : q ∈ w.nameds := by simpa using hw
    simp only [declOkSql, hb, hq, hw, if_true, Bool.and_eq_true, beq_iff_eq] at hok
    obtain ⟨hshape, hfn⟩ := hok
    rw [hfn]
    have hfnu := has_self script env _ hhas
    cases n with
    | zero => simp [hasType] at hty
    | succ m =>
      cases u with
      | arr k e =>
        cases e with
        | ref uq =>
          simp only [Bool.and_eq_true, decide_eq_true_eq] at hshape
          obtain ⟨hk, hun⟩ := hshape
          subst hk
          obtain ⟨ud, hud, hudq⟩ := hin uq (by simp [Ty.refs])
          have hfu : env.find? uq = some ud := by rw [← hudq]; exact F.found ud hud
          simp only [isUnionTy, hfu] at hun
          simp only [scriptHas, funcOf, decide_eq_true_eq] at hfnu
          cases hub : ud.body with
          | union ms =>
            cases v with
            | list isSlice isNil es =>
              simp only [hasType, Bool.and_eq_true] at hty
              have hall : hasTypeAll env (m + 1) (.ref uq) es = true :=
                hasTypeAll_mono env m (hasType_mono env m) (.ref uq) es hty.2
              have helems : ∀ x ∈ encodeListW env w (m + 1) (.ref uq) es, Acc script (fnName env (.ref uq)) x := by
                intro x hx
                obtain ⟨v', hv', rfl⟩ := encodeListW_mem env w (m + 1) (.ref uq) es x hx
                exact goalS_union_wrapped script env w ds F (m + 1) hg uq ud ms v' hud hudq hub
                  (hasTypeAll_mem env (m + 1) (.ref uq) es hall v' hv')
              by_cases hnil : (isSlice && isNil) = true
              · have henc : encode env w (m + 1 + 1) false (.ref q) (.list isSlice isNil es) = .arr [] := by
                  simp [encode, hfind, hb, hw2, hnil]
                rw [henc]
                exact acc_array script _ _ _ [] hfnu (Or.inl rfl) (by simp)
              · have hnil' : (isSlice && isNil) = false := by simpa using hnil
                have henc : encode env w (m + 1 + 1) false (.ref q) (.list isSlice isNil es) =
                    .arr (encodeListW env w (m + 1) (.ref uq) es) := by
                  simp [encode, hfind, hb, hw2, hnil']
                rw [henc]
                exact acc_array script _ _ _ _ hfnu (Or.inl rfl) helems
            | _ => simp [hasType] at hty
          | _ => simp [hub] at hun
        | _ => simp at hshape
      | map k e =>
        cases e with
        | ref uq =>
          simp only [Bool.and_eq_true] at hshape
          obtain ⟨_, hun⟩ := hshape
          obtain ⟨ud, hud, hudq⟩ := hin uq (by simp [Ty.refs])
          have hfu : env.find? uq = some ud := by rw [← hudq]; exact F.found ud hud
          simp only [isUnionTy, hfu] at hun
          simp only [scriptHas, funcOf, decide_eq_true_eq] at hfnu
          cases hub : ud.body with
          | union ms =>
            cases v with
            | map isNil kvs =>
              simp only [hasType] at hty
              have hall : hasTypeEntries env (m + 1) k (.ref uq) kvs = true :=
                hasTypeEntries_mono env m (hasType_mono env m) k (.ref uq) kvs hty
              have henc : encode env w (m + 1 + 1) false (.ref q) (.map isNil kvs) =
                  .obj (encodeEntries env w (m + 1) true (.ref uq) kvs) := by
                simp [encode, hfind, hb, hw2]
              rw [henc]
              refine acc_map script _ _ _ hfnu ?_
              intro p hpm
              obtain ⟨kv, hkv, rfl⟩ := encodeEntriesW_mem env w (m + 1) (.ref uq) kvs p hpm
              exact goalS_union_wrapped script env w ds F (m + 1) hg uq ud ms kv.2 hud hudq hub
                (hasTypeEntries_mem env (m + 1) k (.ref uq) kvs hall kv hkv).2
            | _ => simp [hasType] at hty
          | _ => simp [hub] at hun
        | _ => simp at hshape
      | _ => simp at hshape
  · have hw' : w.nameds.contains q = false := by simpa using hw
    have hw2 : q ∉ w.nameds := by simpa using hw
    simp only [declOkSql, hb, hq, hw', Bool.false_eq_true, if_false, Bool.and_eq_true, beq_iff_eq] at hok
    obtain ⟨⟨⟨hsu, hnu⟩, hlu⟩, hfn⟩ := hok
    have henc : encode env w (n + 1) false (.ref q) v = encode env w n false u v := by
      simp [encode, hfind, hb, hw2]
    rw [henc, hfn]
    exact hg n (Nat.le_refl n) u v hin hhas hnu hsu hlu hty

/-- the validator's verdict on a possibly missing value (SQL NULL), for every sufficiently large fuel -/
def AccOpt (fn : String) (arg : Option JVal) : Prop :=
  Eventually (fun m => ∃ r, call script m fn arg = some r ∧ Good r)

theorem acc_struct' (fn : String) (fields : List (String × String)) (kvs : List (String × JVal))
    (hl : lookupFunc script fn = some (.struct fn fields))
    (h1 : ∀ p ∈ fields, AccOpt script p.2 (kvs.lookup p.1))
    (h2 : ∀ q ∈ kvs, fields.any (fun p => p.1 == q.1) = true) : Acc script fn (.obj kvs) := by
  apply ev_shift
  refine ev_mono (ev_forall_mem fields _ h1) (fun m hh => ?_)
  obtain ⟨rs, hrs, hgs⟩ := mapM_good (fun (p : String × String) => call script m p.2 (kvs.lookup p.1)) fields hh
  simp only [call, hl, hrs, Option.map_some]
  refine ⟨_, rfl, foldl_and_good rs _ (boolAnd_good _ ?_) hgs⟩
  intro r hr
  obtain ⟨q, hq, rfl⟩ := List.mem_map.mp hr
  have := h2 q hq
  obtain ⟨k, x⟩ := q
  simp only at this ⊢
  simp [this, Good]

theorem selected_eq_serialised' (fs : List Field) (h : ∀ f ∈ fs, isSer f = true → Tags.get f.tag "gomacro" ≠ "ignore") :
    selected fs = serialised fs := by
  unfold selected serialised
  apply List.filter_congr
  intro f hf
  by_cases hs : isSer f = true
  · have : Tags.exported f.tag f.goExported = true :=
      (Tags.C09_selected_iff f.tag f.name f.goExported).mpr ⟨hs, h f hf hs⟩
    rw [this]; exact hs.symm
  · have hne : Tags.exported f.tag f.goExported ≠ true := fun he =>
      hs ((Tags.C09_selected_iff f.tag f.name f.goExported).mp he).1
    simp only [isSer] at hs
    simp [hne, hs]

/-- **an omitted key is admitted**: the validator of the type of an empty value (what `omitempty`
drops: false, 0, "", an empty or nil slice or map) answers NULL on SQL NULL -/
theorem acc_null_of_empty (F : FragmentSql env w script ds) : ∀ (n : Nat) (t : Ty) (v : GoVal),
    TyIn ds t → HasAll script env t → hasType env n t v = true → isEmptyVal v = true →
    AccOpt script (fnName env t) none
  | 0, _, _, _, _, ht, _ => by simp [hasType] at ht
  | n + 1, t, v, hin, hh, ht, he => by
    have hs := has_self script env _ hh
    have hnul : ∀ fd, lookupFunc script (fnName env t) = some fd →
        (match fd with | .union _ _ => False | .struct _ _ => False | _ => True) →
        AccOpt script (fnName env t) none := by
      intro fd hl hk
      refine ⟨1, fun m hm => ?_⟩
      obtain ⟨k, rfl⟩ : ∃ k, m = k + 1 := ⟨m - 1, by omega⟩
      cases fd <;> simp at hk <;> exact ⟨.nul, by simp [call, hl], Or.inr rfl⟩
    cases t with
    | basic g bk =>
      cases bk <;> cases v <;> simp [hasType] at ht
      all_goals
        simp only [scriptHas, funcOf, nameFromKind, Option.map_some, decide_eq_true_eq] at hs
        exact hnul _ hs trivial
    | time d => cases v <;> simp [hasType] at ht; simp [isEmptyVal] at he
    | arr k e =>
      simp only [scriptHas, funcOf, decide_eq_true_eq] at hs
      exact hnul _ hs trivial
    | map k e =>
      simp only [scriptHas, funcOf, decide_eq_true_eq] at hs
      exact hnul _ hs trivial
    | ptr e => simp [hasType] at ht
    | ref q =>
      obtain ⟨d, hd, hq⟩ := hin q (by simp [Ty.refs])
      have hfind : env.find? q = some d := by rw [← hq]; exact F.found d hd
      have hok := F.ok d hd
      cases hb : d.body with
      | named u =>
        simp only [declOkSql, hb, Bool.and_eq_true, beq_iff_eq] at hok
        obtain ⟨_, hfn⟩ := hok
        have hty : hasType env n u v = true := by simpa [hasType, hfind, hb] using ht
        have hchild : u ∈ sqlChildTys d := by simp [sqlChildTys, hb]
        have hinu : TyIn ds u := fun r hr => F.closed d hd r (List.mem_flatMap.mpr ⟨u, hchild, hr⟩)
        rw [← hq, hfn]
        exact acc_null_of_empty F n u v hinu (has_child script env (F.provided d hd) u hchild) hty he
      | enum un bk ms io =>
        simp only [declOkSql, hb] at hok
        have hbk : ∃ k, nameFromKind bk = some k := by
          cases bk <;> simp [enumOkSql] at hok <;> simp [nameFromKind]
        obtain ⟨k, hk⟩ := hbk
        simp only [scriptHas, funcOf, hfind, hb, hk, Option.map_some, decide_eq_true_eq] at hs
        exact hnul _ hs trivial
      | struct fs cs impls =>
        cases v <;> simp [hasType, hfind, hb] at ht
        simp [isEmptyVal] at he
      | union ms =>
        cases v with
        | iface mem =>
          cases mem with
          | none => simp [hasType, hfind, hb] at ht
          | some nv => simp [isEmptyVal] at he
        | _ => simp [hasType, hfind, hb] at ht

theorem goalS_struct (F : FragmentSql env w script ds) (n : Nat) (hg : ∀ k, k ≤ n → GoalS script env w ds k)
    (q : String) (d : Decl) (fs : List Field) (cs : List IR.Comment) (impls : List String) (v : GoVal)
    (hd : d ∈ ds) (hq : d.q = q) (hb : d.body = .struct fs cs impls)
    (ht : hasType env (n + 1) (.ref q) v = true) :
    Acc script (fnName env (.ref q)) (encode env w (n + 1) false (.ref q) v) := by
  have hfind : env.find? q = some d := by rw [← hq]; exact F.found d hd
  have hok := F.ok d hd
  simp only [declOkSql, hb, Bool.and_eq_true, List.all_eq_true, Bool.not_eq_true', decide_eq_true_eq] at hok
  obtain ⟨⟨hfields, hnd⟩, hwrap⟩ := hok
  have hfok : ∀ f ∈ fs, isSer f = true → RoundTrip.fieldOkN f = true := fun f hf hs => by
    have := (hfields f (List.mem_filter.mpr ⟨hf, hs⟩)).1.1.1
    simp only [fieldOkSql, Bool.and_eq_true] at this
    exact this.1
  have hnoign : ∀ f ∈ fs, isSer f = true → Tags.get f.tag "gomacro" ≠ "ignore" := fun f hf hs => by
    have := (hfields f (List.mem_filter.mpr ⟨hf, hs⟩)).1.1.1
    simp only [fieldOkSql, Bool.and_eq_true, bne_iff_ne, ne_eq] at this
    exact this.2
  have hsel : selected fs = serialised fs := selected_eq_serialised' fs hnoign
  have hown := has_own script env (F.provided d hd)
  rw [hq] at hown
  simp only [scriptHas, funcOf, hfind, hb, decide_eq_true_eq, hsel] at hown
  cases v with
  | struct vals =>
    have hty : hasTypeFields env n fs vals = true := by simpa [hasType, hfind, hb] using ht
    have hex : ∀ f ∈ fs, isSer f = true → ∃ v, vals.lookup f.name = some v := fun f hf hs => by
      obtain ⟨fv, hfv, _⟩ := hasTypeFields_mem env n vals fs hty f hf hs
      exact ⟨fv, hfv⟩
    have henc : encode env w (n + 1) false (.ref q) (.struct vals) =
        .obj (encodeFields env w n (w.structs.contains q) fs vals) := by
      simp [encode, hfind, hb]
    rw [henc]
    refine acc_struct' script _ _ _ hown ?_ ?_
    · intro p hp
      obtain ⟨f, hf, rfl⟩ := List.mem_map.mp hp
      obtain ⟨hfmem, hfser⟩ := List.mem_filter.mp hf
      obtain ⟨fv, hfv, htyv⟩ := hasTypeFields_mem env n vals fs hty f hfmem hfser
      dsimp only
      have hlook := RoundTrip.encodeFields_lookupN env w n (w.structs.contains q) vals fs hfok hex hnd f hfmem hfser fv hfv
      obtain ⟨⟨⟨_, hfty⟩, hnop⟩, hlf⟩ := hfields f hf
      have htyv' : hasType env n f.ty fv = true := by
        rcases htyv with h | h
        · rw [hnop] at h; exact absurd h (by simp)
        · exact h
      simp only [fieldTyOk, Bool.and_eq_true, Bool.or_eq_true] at hfty
      have hchild : f.ty ∈ sqlChildTys d := by
        simp only [sqlChildTys, hb, List.mem_map]
        exact ⟨f, by rw [hsel]; exact hf, rfl⟩
      have hin : TyIn ds f.ty := fun r hr => F.closed d hd r (List.mem_flatMap.mpr ⟨f.ty, hchild, hr⟩)
      have hhas := has_child script env (F.provided d hd) f.ty hchild
      by_cases hom : (RoundTrip.isOmit f && isEmptyVal fv) = true
      · -- the key is omitted: the validator of the field sees SQL NULL
        rw [hom] at hlook
        simp only [if_true] at hlook
        show AccOpt script (fnName env f.ty) (List.lookup (Tags.jsonName f.tag f.name) _)
        have hl' : List.lookup (Tags.jsonName f.tag f.name) (encodeFields env w n (w.structs.contains q) fs vals) = none := hlook
        rw [hl']
        simp only [Bool.and_eq_true] at hom
        exact acc_null_of_empty script env w ds F n f.ty fv hin hhas htyv' hom.2
      · have hom' : (RoundTrip.isOmit f && isEmptyVal fv) = false := by simpa using hom
        rw [hom'] at hlook
        simp only [Bool.false_eq_true, if_false] at hlook
        show AccOpt script (fnName env f.ty) (List.lookup (Tags.jsonName f.tag f.name) _)
        have hl' : List.lookup (Tags.jsonName f.tag f.name) (encodeFields env w n (w.structs.contains q) fs vals) =
            some (encode env w n (w.structs.contains q && isUnionTy env f.ty) f.ty fv) := hlook
        rw [hl']
        show Acc script (fnName env f.ty) _
        rcases hfty.2 with hu | hnu
        · have hsh : w.structs.contains q = true := by
            rw [← hq]
            apply hwrap
            exact List.any_eq_true.mpr ⟨f, hf, hu⟩
          rw [hsh, hu]
          cases hft : f.ty with
          | ref uq =>
            rw [hft] at hu htyv' hin
            simp only [isUnionTy] at hu
            obtain ⟨ud, hud, hudq⟩ := hin uq (by simp [Ty.refs])
            have hfu : env.find? uq = some ud := by rw [← hudq]; exact F.found ud hud
            simp only [hfu] at hu
            cases hub : ud.body with
            | union ms => exact goalS_union_wrapped script env w ds F n hg uq ud ms fv hud hudq hub htyv'
            | _ => simp [hub] at hu
          | _ => rw [hft] at hu; simp [isUnionTy] at hu
        · have hnotu : isUnionTy env f.ty = false := by
            cases hft : f.ty with
            | ref uq => rw [hft] at hnu; simpa [noUnion] using hnu
            | _ => simp [isUnionTy]
          rw [hnotu, Bool.and_false]
          exact hg n (Nat.le_refl n) f.ty fv hin hhas hnu hfty.1 hlf htyv'
    · intro p hp
      obtain ⟨f, hf, hfs, hpk⟩ := RoundTrip.encodeFields_keysN env w n _ vals fs hfok p hp
      refine List.any_eq_true.mpr ⟨(fkey f, fnName env f.ty), List.mem_map.mpr ⟨f, List.mem_filter.mpr ⟨hf, hfs⟩, rfl⟩, ?_⟩
      simp [hpk]
  | _ => simp [hasType, hfind, hb] at ht

/-- **C04, end to end (acceptance)**: in a program of the fragment, the validator generated for a
type admits (TRUE or NULL: what a CHECK lets through) the document Go writes for every value of
that type, for every sufficiently large fuel of the plpgsql semantics. -/
theorem C04_end_to_end (F : FragmentSql env w script ds) : ∀ n, GoalS script env w ds n := by
  intro n
  induction n using Nat.strongRecOn with
  | _ n ih =>
    cases n with
    | zero => intro t v _ _ _ _ _ ht; simp [hasType] at ht
    | succ n =>
      intro t v hin hh hnu hs hl ht
      cases t with
      | basic g bk => exact goalS_basic script env w n g bk v hh ht
      | time d => exact goalS_time script env w n d v hh ht
      | arr k e => exact goalS_arr script env w ds n (ih n (Nat.lt_succ_self n)) k e v hin hh hnu hs hl ht
      | map k e => exact goalS_map script env w ds n (ih n (Nat.lt_succ_self n)) k e v hin hh hnu hs hl ht
      | ptr e => simp [shapeOk] at hs
      | ref q =>
        obtain ⟨d, hd, hq⟩ := hin q (by simp [Ty.refs])
        cases hb : d.body with
        | named u => exact goalS_named script env w ds F n (fun k hk => ih k (Nat.lt_succ_of_le hk)) q d u v hd hq hb ht
        | enum un bk ms io => exact goalS_enum script env w ds F n q d un bk ms io v hd hq hb ht
        | struct fs cs impls =>
          exact goalS_struct script env w ds F n (fun k hk => ih k (Nat.lt_succ_of_le hk)) q d fs cs impls v hd hq hb ht
        | union ms =>
          have hfind : env.find? q = some d := by rw [← hq]; exact F.found d hd
          simp [noUnion, isUnionTy, hfind, hb] at hnu

theorem fragmentSql_of_check (h : fragmentSqlB env w script ds = true) : FragmentSql env w script ds := by
  simp only [fragmentSqlB, Bool.and_eq_true, List.all_eq_true, decide_eq_true_eq, List.any_eq_true, beq_iff_eq,
    List.isEmpty_iff] at h
  obtain ⟨⟨⟨h2, h3⟩, h4⟩, h5⟩ := h
  exact {
    found := h2
    closed := fun d hd q hq => by
      obtain ⟨d', hd', he⟩ := h3 d hd q hq
      exact ⟨d', hd', he⟩
    ok := h4
    provided := h5 }

/-- the CHECK of a column admits the row: TRUE or NULL -/
theorem C04_check_admits (h : fragmentSqlB env w script ds = true) (n : Nat) (t : Ty) (v : GoVal)
    (hin : TyIn ds t) (hh : ∀ s ∈ subTys t, scriptHas env script s = true) (hnu : noUnion env t = true)
    (hs : shapeOk t = true) (hl : lensOk t = true) (ht : hasType env n t v = true) :
    Eventually (fun m => admits (call script m (fnName env t) (some (encode env w n false t v))) = true) := by
  have := C04_end_to_end script env w ds (fragmentSql_of_check script env w ds h) n t v hin hh hnu hs hl ht
  refine ev_mono this (fun m hm => ?_)
  obtain ⟨r, hr, hg⟩ := hm
  rw [hr]
  rcases hg with rfl | rfl <;> rfl

end Gomacro.E2ESql
