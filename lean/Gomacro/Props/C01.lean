import Gomacro.GoIdents
/-!
# C01 — Generated Go boilerplate compiles with its source package (partial)

Type-checking Go is not re-implemented in Lean.  What is proved is the part the generators are
responsible for (identifier derivation and list-shaped fragments); "no ill-typed expression" is
established per input by `go/types` in the loop (correspondence runner C01), labelled as
validation, not proof.
-/
namespace Gomacro.GoIdents
open List Gomacro.IR

theorem append_left_injective (s : String) : ∀ a b : String, a ++ s = b ++ s → a = b := by
  intro a b h
  have := congrArg String.toList h
  simp only [String.toList_append] at this
  exact String.ext (List.append_cancel_right this)

/-- **Kind constants of one union are pairwise distinct** (members are distinct names) -/
theorem C01_kind_idents_nodup (union : String) (members : List String) (h : members.Nodup) :
    (unionKindIdents union members).Nodup := by
  unfold unionKindIdents
  have inj : ∀ a b : String, kindVarName a union = kindVarName b union → a = b := by
    intro a b hab
    unfold kindVarName at hab
    rw [String.append_assoc, String.append_assoc] at hab
    exact append_left_injective _ a b hab
  exact List.pairwise_map.mpr (h.imp (fun {a b} hne e => hne (inj a b e)))

/-- a Kind constant never collides with a wrapper type name of the same generation -/
theorem kind_ne_wrapper (m u u' : String) : kindVarName m u ≠ wrapperName u' := by
  unfold kindVarName wrapperName
  intro h
  have := congrArg (fun s => s.toList.getLast?) h
  simp at this

/-- known finding, as a theorem: two unions sharing their first two letters and a member get the
same Kind constant (`CircleShKind` for `Shape` and `Shadow`) -/
theorem kind_collision_across_unions :
    ∃ u₁ u₂ m : String, u₁ ≠ u₂ ∧ kindVarName m u₁ = kindVarName m u₂ :=
  ⟨"Shape", "Shadow", "Circle", by decide, by decide⟩

/-- **enum choice list is well-formed**: exactly the exported members, hence no empty element -/
theorem C01_choices_exported (ms : List Member) :
    enumChoices ms = (ms.filter (·.exported)).map (·.name) := rfl

theorem C01_choices_no_hole (ms : List Member) (h : ∀ m ∈ ms, m.name ≠ "") :
    ∀ c ∈ enumChoices ms, c ≠ "" := by
  intro c hc
  unfold enumChoices at hc
  obtain ⟨m, hm, rfl⟩ := List.mem_map.mp hc
  exact h m (List.mem_filter.mp hm).1

/-- the defect of the pinned commit: a hole for every unexported member -/
theorem choicesOld_has_hole : ∃ ms : List Member, (∀ m ∈ ms, m.name ≠ "") ∧ "" ∈ enumChoicesOld ms :=
  ⟨[⟨"A", "0", "0", "", true, true, 0, ""⟩, ⟨"b", "1", "1", "", false, true, 1, ""⟩], by decide, by decide⟩

/-- **primary-key accessor is an actual field**, whatever the spelling of `id` -/
theorem C01_pk_accessor (cols : List String) (f : String) (h : pkAccessor cols = some f) :
    f ∈ cols ∧ f.toLower = "id" := by
  unfold pkAccessor at h
  refine ⟨List.mem_of_find?_eq_some h, ?_⟩
  have := List.find?_some h
  simpa using this

/-! non-vacuity -/
example : unionKindIdents "I" ["A", "B"] = ["AIKind", "BIKind"] := by decide

end Gomacro.GoIdents
