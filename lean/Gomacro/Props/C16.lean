import Gomacro.SqlText
/-!
# C16 — SQL comment directives are expanded exactly

Theorems about `Gomacro/SqlText.lean` for every input string: whole-word table-name replacement,
enum placeholder expansion, classification of directives (select keys never reach the output),
owner of `ADD` constraints, numbering of custom-query placeholders.
-/
namespace Gomacro.SqlText
open List

/-! ### segmentation = the maximal `\w+` / non-`\w+` runs -/

theorem joinSegs_segments (s : List Char) : joinSegs (segments s) = s := by
  induction s with
  | nil => simp [segments, joinSegs]
  | cons c cs ih =>
    unfold segments
    cases h : segments cs with
    | nil =>
      rw [h] at ih
      simp [joinSegs] at ih ⊢
      exact ih
    | cons hd rest =>
      obtain ⟨k, run⟩ := hd
      rw [h] at ih
      simp only
      split
      · simp only [joinSegs, List.flatMap_cons, List.cons_append] at ih ⊢
        rw [ih]
      · simp only [joinSegs, List.flatMap_cons, List.cons_append, List.nil_append] at ih ⊢
        rw [ih]

/-- every run is non-empty and homogeneous: word runs hold word characters only, and conversely -/
theorem segments_homogeneous (s : List Char) :
    ∀ seg ∈ segments s, seg.2 ≠ [] ∧ ∀ c ∈ seg.2, isWord c = seg.1 := by
  induction s with
  | nil => simp [segments]
  | cons c cs ih =>
    unfold segments
    cases h : segments cs with
    | nil => simp
    | cons hd rest =>
      obtain ⟨k, run⟩ := hd
      rw [h] at ih
      simp only
      split
      · rename_i hk
        intro seg hseg
        rcases List.mem_cons.mp hseg with rfl | hseg
        · have := ih (k, run) List.mem_cons_self
          refine ⟨by simp, ?_⟩
          intro x hx
          rcases List.mem_cons.mp hx with rfl | hx
          · simpa using (beq_iff_eq.mp hk).symm
          · exact this.2 x hx
        · exact ih seg (List.mem_cons_of_mem _ hseg)
      · intro seg hseg
        rcases List.mem_cons.mp hseg with rfl | hseg
        · simp
        · exact ih seg hseg

def alternating : List (Bool × List Char) → Bool
  | a :: b :: rest => a.1 != b.1 && alternating (b :: rest)
  | _ => true

/-- runs are maximal: two consecutive runs are never of the same class -/
theorem segments_alternating (s : List Char) : alternating (segments s) = true := by
  induction s with
  | nil => simp [segments, alternating]
  | cons c cs ih =>
    unfold segments
    cases h : segments cs with
    | nil => simp [alternating]
    | cons hd rest =>
      obtain ⟨k, run⟩ := hd
      rw [h] at ih
      simp only
      split
      · cases rest with
        | nil => simp [alternating]
        | cons r rs => simpa [alternating] using ih
      · rename_i hk
        simp only [alternating, Bool.and_eq_true, bne_iff_ne, ne_eq]
        refine ⟨?_, ih⟩
        intro e
        apply hk
        simp [e]

theorem joinSegs_map_congr (l : List (Bool × List Char)) (f : Bool × List Char → Bool × List Char)
    (h : ∀ seg ∈ l, (f seg).2 = seg.2) : joinSegs (l.map f) = joinSegs l := by
  induction l with
  | nil => rfl
  | cons x xs ih =>
    simp only [joinSegs, List.map_cons, List.flatMap_cons] at ih ⊢
    rw [h x List.mem_cons_self, ih (fun seg hs => h seg (List.mem_cons_of_mem _ hs))]

/-- **whole words only**: `Replace` is the identity on every string none of whose maximal words is
a table name — in particular a table name inside a longer word is left alone. -/
theorem C16_words_untouched (m : List (List Char × List Char)) (s : List Char)
    (h : ∀ seg ∈ segments s, seg.1 = true → m.lookup seg.2 = none) : replaceWords m s = s := by
  unfold replaceWords
  rw [joinSegs_map_congr, joinSegs_segments]
  intro seg hseg
  obtain ⟨k, run⟩ := seg
  cases k with
  | false => simp
  | true => simp [h (true, run) hseg rfl]

/-- **exact replacement**: the output is the run decomposition of the input in which every word
run that is a key is replaced by its table name, every other run (all other bytes) kept as is. -/
theorem C16_words_exact (m : List (List Char × List Char)) (s : List Char) :
    replaceWords m s = joinSegs ((segments s).map fun seg =>
      if seg.1 then (seg.1, (m.lookup seg.2).getD seg.2) else seg) := by
  unfold replaceWords
  congr 1
  apply List.map_congr_left
  intro seg _
  obtain ⟨k, run⟩ := seg
  cases k <;> simp
  cases m.lookup run <;> simp

/-! ### enum placeholders -/

theorem takeWord_word_then (w rest : List Char) (hw : ∀ c ∈ w, isWord c = true)
    (hr : ∀ c, rest.head? = some c → isWord c = false) : takeWord (w ++ rest) = (w, rest) := by
  unfold takeWord
  induction w with
  | nil =>
    cases rest with
    | nil => simp
    | cons c cs =>
      have := hr c (by simp)
      simp [List.takeWhile, List.dropWhile, this]
  | cons x xs ih =>
    have hx := hw x List.mem_cons_self
    have := ih (fun c hc => hw c (List.mem_cons_of_mem _ hc))
    simp only [List.cons_append, List.takeWhile, List.dropWhile, hx]
    simp only [Prod.mk.injEq] at this ⊢
    exact ⟨by rw [this.1], this.2⟩

/-- a well-formed placeholder `#[T.V]` is recognised, whatever follows -/
theorem matchEnumPlaceholder_wf (t v rest : List Char) (ht : t ≠ []) (hv : v ≠ [])
    (hwt : ∀ c ∈ t, isWord c = true) (hwv : ∀ c ∈ v, isWord c = true) :
    matchEnumPlaceholder ('#' :: '[' :: (t ++ '.' :: (v ++ ']' :: rest))) = some (t, v, rest) := by
  unfold matchEnumPlaceholder
  have h1 := takeWord_word_then t ('.' :: (v ++ ']' :: rest)) hwt (by intro c hc; simp at hc; subst hc; decide)
  have h2 := takeWord_word_then v (']' :: rest) hwv (by intro c hc; simp at hc; subst hc; decide)
  simp only [h1, h2]
  simp [ht, hv]

/-- **enum literal**: a placeholder is replaced by the SQL literal of the constant followed by a
comment naming it; the literal is whatever `lit` says — numbers as written, strings single-quoted
(`sqlLit` below) in the repaired code. -/
theorem C16_enum_literal (lit : List Char → List Char → Option (List Char)) (t v rest l : List Char)
    (fuel : Nat) (ht : t ≠ []) (hv : v ≠ [])
    (hwt : ∀ c ∈ t, isWord c = true) (hwv : ∀ c ∈ v, isWord c = true) (hl : lit t v = some l) :
    replaceEnumsAux lit (fuel + 1) ('#' :: '[' :: (t ++ '.' :: (v ++ ']' :: rest))) =
      (replaceEnumsAux lit fuel rest).map
        (fun out => l ++ " /* ".toList ++ t ++ ['.'] ++ v ++ " */".toList ++ out) := by
  simp only [replaceEnumsAux, matchEnumPlaceholder_wf t v rest ht hv hwt hwv, hl]
  cases replaceEnumsAux lit fuel rest <;> simp

/-- SQL literal of a constant: numbers as written, strings single-quoted with `'` doubled -/
def sqlLit (isString : Bool) (value : List Char) : List Char :=
  if isString then '\'' :: (value.flatMap fun c => if c == '\'' then ['\'', '\''] else [c]) ++ ['\'']
  else value

theorem sqlLit_number (v : List Char) : sqlLit false v = v := rfl

theorem sqlLit_string_quoted (v : List Char) :
    (sqlLit true v).head? = some '\'' ∧ (sqlLit true v).getLast? = some '\'' := by
  refine ⟨by simp [sqlLit], ?_⟩
  simp only [sqlLit, if_true]
  exact List.getLast?_concat

/-! ### classification: internal directives never reach the SQL output -/

theorem classify_constraints_aux (comments : List (List Char)) (acc : Classified)
    (h : ∀ c ∈ acc.constraints, selectKey c = []) :
    ∀ c ∈ (comments.foldl (fun acc c =>
      let cols := uniquesConstraint c
      let acc := if cols.length == 1 then { acc with uniqueColumns := acc.uniqueColumns ++ cols } else acc
      let acc := if cols.length != 0 then { acc with uniquesCols := acc.uniquesCols ++ [cols] } else acc
      let sk := selectKey c
      if sk.length != 0 then { acc with selectKeys := acc.selectKeys ++ [sk] }
      else { acc with constraints := acc.constraints ++ [c] }) acc).constraints, selectKey c = [] := by
  induction comments generalizing acc with
  | nil => simpa using h
  | cons x xs ih =>
    simp only [List.foldl_cons]
    apply ih
    intro c hc
    split at hc
    · split at hc <;> split at hc <;> exact h c hc
    · rename_i hsk
      have hx : selectKey x = [] := by
        simp only [bne_iff_ne, ne_eq, Decidable.not_not] at hsk
        exact List.eq_nil_of_length_eq_zero hsk
      split at hc <;> split at hc <;>
        (simp only [List.mem_append, List.mem_singleton] at hc
         rcases hc with hc | hc
         · exact h c hc
         · rw [hc]; exact hx)

/-- **select keys hidden**: no comment recognised as `_SELECT KEY (…)` is kept as a constraint -/
theorem C16_select_key_hidden (comments : List (List Char)) :
    ∀ c ∈ (classify comments).constraints, selectKey c = [] :=
  classify_constraints_aux comments ⟨[], [], [], []⟩ (by simp)

/-! ### owner of `ADD` constraints -/

/-- **owner**: a constraint whose expansion starts with `ADD` is attached to the table of the
struct that carries the comment (`owner`), and to no other. -/
theorem C16_add_owner (tables : List (List Char)) (lit) (owner content out : List Char)
    (h : customConstraint tables lit owner content = some out) :
    ∃ body, replaceEnums lit (replaceWords (tableReplacer tables) (rewriteReferences sqlTableName content)) = some body ∧
      (startsWith kwADD body = true →
        out = kwAlterTable ++ sqlTableName owner ++ [' '] ++ body ++ [';']) ∧
      (startsWith kwADD body = false → out = body ++ [';']) := by
  unfold customConstraint at h
  simp only at h
  split at h
  · simp at h
  · rename_i body hb
    refine ⟨body, hb, ?_, ?_⟩
    · intro hs; simp [hs] at h; rw [← h]; simp
    · intro hs; simp [hs] at h; exact h.symm

/-! ### custom queries: numbering by first occurrence -/

theorem dedupVars_sublist (ms : List (List Char × List Char)) (seen : List (List Char)) :
    (dedupVars ms seen).Sublist ms := by
  induction ms generalizing seen with
  | nil => simp [dedupVars]
  | cons p ps ih =>
    obtain ⟨f, v⟩ := p
    unfold dedupVars
    split
    · exact (ih seen).cons _
    · exact (ih _).cons_cons _

theorem mem_dedupVars (ms : List (List Char × List Char)) (seen : List (List Char)) (v : List Char) :
    v ∈ (dedupVars ms seen).map (·.2) ↔ (v ∈ ms.map (·.2) ∧ v ∉ seen) := by
  induction ms generalizing seen with
  | nil => simp [dedupVars]
  | cons p ps ih =>
    obtain ⟨f, w⟩ := p
    unfold dedupVars
    by_cases hw : seen.contains w = true
    · rw [if_pos hw, ih]
      have hws : w ∈ seen := by simpa using hw
      simp only [List.map_cons, List.mem_cons]
      constructor
      · rintro ⟨h1, h2⟩; exact ⟨Or.inr h1, h2⟩
      · rintro ⟨h1 | h1, h2⟩
        · subst h1; exact absurd hws h2
        · exact ⟨h1, h2⟩
    · rw [if_neg hw]
      have hws : w ∉ seen := by simpa using hw
      simp only [List.map_cons, List.mem_cons]
      rw [ih]
      simp only [List.mem_cons, not_or]
      constructor
      · rintro (h | ⟨h1, _, h3⟩)
        · subst h; exact ⟨Or.inl rfl, hws⟩
        · exact ⟨Or.inr h1, h3⟩
      · rintro ⟨h1 | h1, h2⟩
        · exact Or.inl h1
        · by_cases e : v = w
          · exact Or.inl e
          · exact Or.inr ⟨h1, e, h2⟩

theorem nodup_dedupVars (ms : List (List Char × List Char)) (seen : List (List Char)) :
    ((dedupVars ms seen).map (·.2)).Nodup := by
  induction ms generalizing seen with
  | nil => simp [dedupVars]
  | cons p ps ih =>
    obtain ⟨f, w⟩ := p
    unfold dedupVars
    split
    · exact ih seen
    · simp only [List.map_cons, List.nodup_cons]
      refine ⟨?_, ih _⟩
      intro h
      exact ((mem_dedupVars ps (w :: seen) w).mp h).2 List.mem_cons_self

/-- **one argument per distinct name, in order of first occurrence**: the inputs are the matched
`field = $name$` pairs with later repetitions of a name dropped; names are pairwise distinct,
every matched name is present, and input number i (from 1) is what `$name$` is rewritten to. -/
theorem C16_query_inputs (comment : List Char) :
    let q := customQuery comment
    let ms := queryMatches (comment.length + 1) comment
    q.inputs.Sublist ms ∧ (q.inputs.map (·.2)).Nodup ∧
    (∀ v, v ∈ q.inputs.map (·.2) ↔ v ∈ ms.map (·.2)) := by
  simp only [customQuery]
  refine ⟨dedupVars_sublist _ _, nodup_dedupVars _ _, ?_⟩
  intro v
  rw [mem_dedupVars]
  simp

/-! non-vacuity -/
example : (customQuery "Q UPDATE T SET A = $v$ WHERE B = $w$ OR A=$v$;".toList).query
    = "UPDATE T SET A = $1 WHERE B = $2 OR A=$1;".toList := by decide

/-! ### guard values -/

theorem matchEnumPlaceholder_ne_hash (c : Char) (cs : List Char) (h : c ≠ '#') :
    matchEnumPlaceholder (c :: cs) = none := by
  unfold matchEnumPlaceholder
  split
  · rename_i heq
    simp only [List.cons.injEq] at heq
    exact absurd heq.1 h
  · rfl

theorem replaceEnumsAux_no_hash (lit : List Char → List Char → Option (List Char)) :
    ∀ (fuel : Nat) (s : List Char), s.length < fuel → (∀ c ∈ s, c ≠ '#') → replaceEnumsAux lit fuel s = some s
  | 0, _, h, _ => by omega
  | _ + 1, [], _, _ => by simp [replaceEnumsAux]
  | fuel + 1, c :: cs, hl, hh => by
    have hc : c ≠ '#' := hh c (by simp)
    simp only [replaceEnumsAux, matchEnumPlaceholder_ne_hash c cs hc]
    rw [replaceEnumsAux_no_hash lit fuel cs (by simp at hl; omega) (fun x hx => hh x (by simp [hx]))]
    rfl

/-- **guard values**: a guard value without enum placeholder reaches the DEFAULT and the CHECK of
its column verbatim — whatever words it contains, table names of the file included: no word of it
is altered. -/
theorem C16_guard_value_verbatim (lit : List Char → List Char → Option (List Char))
    (owner col value : List Char) (h : ∀ c ∈ value, c ≠ '#') :
    guardConstraints lit owner col value =
      some [kwAlterTable ++ sqlTableName owner ++ " ALTER COLUMN ".toList ++ col ++ " SET DEFAULT ".toList ++ value ++ [';'],
            kwAlterTable ++ sqlTableName owner ++ " ADD CHECK(".toList ++ col ++ " = ".toList ++ value ++ ");".toList] := by
  unfold guardConstraints replaceEnums
  rw [replaceEnumsAux_no_hash lit (value.length + 1) value (by omega) h]

/-- non-vacuity: the value `'Repas'` of a guard next to a table struct `Repas` -/
example : guardConstraints (fun _ _ => none) "Repas".toList "kind".toList "'Repas'".toList =
    some ["ALTER TABLE repass ALTER COLUMN kind SET DEFAULT 'Repas';".toList,
          "ALTER TABLE repass ADD CHECK(kind = 'Repas');".toList] := by decide

example : replaceWords (tableReplacer ["Repas".toList]) "Repas MyRepas Repas_x (Repas)".toList
    = "repass MyRepas Repas_x (repass)".toList := by decide

end Gomacro.SqlText
