import Gomacro.RandSem
/-!
# C15 — Generated random-data functions return well-formed values

`gen` is the program the generated `rand<T>()` functions run, over an explicit stream of draws;
`gen … = none` = still running after `fuel` nested calls, or panicking.
Main theorem: whatever the draws, a returned value is well-formed.  Termination is stated for what
it is: `gen` returns for every draw stream as soon as it returns for one fuel (monotonicity is not
needed for the tie); for cyclic types the generated code does not return (known finding, replayed
on the compiled code).
-/
namespace Gomacro.RandSem
open List Gomacro.IR Gomacro.GoJson

/-- struct field names are pairwise distinct in every struct of the environment -/
def FieldNamesNodup (env : Env) : Prop :=
  ∀ q d fs cs im, env.find? q = some d → d.body = .struct fs cs im → (fs.map (·.name)).Nodup

abbrev GenWF (env : Env) (fuel : Nat) : Prop :=
  ∀ t ds v ds', gen env fuel t ds = some (v, ds') → wellFormed env fuel t v = true

theorem genN_wf (env : Env) (fuel : Nat) (ih : GenWF env fuel) (e : Ty) :
    ∀ n ds es ds', genN env fuel e n ds = some (es, ds') →
      es.length = n ∧ wellFormedAll env fuel e es = true := by
  intro n
  induction n with
  | zero => intro ds es ds' h; simp [genN] at h; obtain ⟨rfl, _⟩ := h; simp [wellFormedAll]
  | succ n ihn =>
    intro ds es ds' h
    simp only [genN] at h
    split at h
    · simp at h
    · rename_i v ds1 hv
      cases hr : genN env fuel e n ds1 with
      | none => simp [hr] at h
      | some p =>
        obtain ⟨vs, ds2⟩ := p
        simp [hr] at h
        obtain ⟨rfl, _⟩ := h
        have := ihn ds1 vs ds2 hr
        simp [wellFormedAll, this.1, this.2, ih _ _ _ _ hv]

theorem genEntries_wf (env : Env) (fuel : Nat) (ih : GenWF env fuel) (k e : Ty) :
    ∀ n ds kvs ds', genEntries env fuel k e n ds = some (kvs, ds') →
      kvs.length = n ∧ wellFormedEntries env fuel k e kvs = true := by
  intro n
  induction n with
  | zero => intro ds kvs ds' h; simp [genEntries] at h; obtain ⟨rfl, _⟩ := h; simp [wellFormedEntries]
  | succ n ihn =>
    intro ds kvs ds' h
    simp only [genEntries] at h
    split at h
    · simp at h
    · rename_i kv ds1 hk
      split at h
      · simp at h
      · rename_i v ds2 hv
        cases hr : genEntries env fuel k e n ds2 with
        | none => simp [hr] at h
        | some p =>
          obtain ⟨rest, ds3⟩ := p
          simp [hr] at h
          obtain ⟨rfl, _⟩ := h
          have := ihn ds2 rest ds3 hr
          simp [wellFormedEntries, this.1, this.2, ih _ _ _ _ hk, ih _ _ _ _ hv]

theorem genFields_names (env : Env) (fuel : Nat) :
    ∀ fs ds vals ds', genFields env fuel fs ds = some (vals, ds') →
      ∀ p ∈ vals, p.1 ∈ fs.map (·.name) := by
  intro fs
  induction fs with
  | nil => intro ds vals ds' h; simp [genFields] at h; obtain ⟨rfl, _⟩ := h; simp
  | cons f fs ihf =>
    intro ds vals ds' h p hp
    simp only [genFields] at h
    split at h
    · have := ihf ds vals ds' h p hp
      simp only [List.map_cons, List.mem_cons]; exact Or.inr this
    · split at h
      · simp at h
      · rename_i v ds1 hv
        cases hr : genFields env fuel fs ds1 with
        | none => simp [hr] at h
        | some q =>
          obtain ⟨rest, ds2⟩ := q
          simp [hr] at h
          obtain ⟨rfl, _⟩ := h
          rcases List.mem_cons.mp hp with rfl | hp
          · simp
          · have := ihf ds1 rest ds2 hr p hp
            simp only [List.map_cons, List.mem_cons]; exact Or.inr this

theorem lookup_append_of_none {β} (pre post : List (String × β)) (k : String)
    (h : pre.lookup k = none) : (pre ++ post).lookup k = post.lookup k := by
  induction pre with
  | nil => rfl
  | cons p ps ih =>
    obtain ⟨a, b⟩ := p
    simp only [List.cons_append, List.lookup] at h ⊢
    split at h
    · simp at h
    · exact ih h

theorem lookup_none_of_not_mem {β} (l : List (String × β)) (k : String)
    (h : ∀ p ∈ l, p.1 ≠ k) : l.lookup k = none := by
  induction l with
  | nil => rfl
  | cons p ps ih =>
    obtain ⟨a, b⟩ := p
    have ha : a ≠ k := h (a, b) List.mem_cons_self
    have hb : (k == a) = false := by simpa using fun e => ha e.symm
    have := ih (fun q hq => h q (List.mem_cons_of_mem _ hq))
    unfold List.lookup
    rw [hb]
    exact this

theorem genFields_wf (env : Env) (fuel : Nat) (ih : GenWF env fuel) :
    ∀ fs ds vals ds', genFields env fuel fs ds = some (vals, ds') → (fs.map (·.name)).Nodup →
      ∀ pre : List (String × GoVal), (∀ p ∈ pre, p.1 ∉ fs.map (·.name)) →
        wellFormedFields env fuel fs (pre ++ vals) = true := by
  intro fs
  induction fs with
  | nil => intro ds vals ds' _ _ pre _; simp [wellFormedFields]
  | cons f fs ihf =>
    intro ds vals ds' h hnd pre hpre
    have hnd' := List.nodup_cons.mp (show (f.name :: fs.map (·.name)).Nodup from hnd)
    have hpre_f : pre.lookup f.name = none :=
      lookup_none_of_not_mem pre f.name (fun p hp e => hpre p hp (by simp [e]))
    simp only [genFields] at h
    simp only [wellFormedFields]
    split at h
    · -- skipped field: no value emitted for it
      rename_i hign
      have hnames := genFields_names env fuel fs ds vals ds' h
      have hv : vals.lookup f.name = none :=
        lookup_none_of_not_mem vals f.name (fun p hp e => hnd'.1 (e ▸ hnames p hp))
      rw [lookup_append_of_none pre vals f.name hpre_f, hv]
      simp only [hign, Bool.true_and]
      exact ihf ds vals ds' h hnd'.2 pre (fun p hp hm => hpre p hp (by simp [hm]))
    · rename_i hign
      split at h
      · simp at h
      · rename_i v ds1 hv
        cases hr : genFields env fuel fs ds1 with
        | none => simp [hr] at h
        | some q =>
          obtain ⟨rest, ds2⟩ := q
          simp [hr] at h
          obtain ⟨rfl, _⟩ := h
          rw [lookup_append_of_none pre _ f.name hpre_f]
          have hl : ((f.name, v) :: rest).lookup f.name = some v := by simp [List.lookup]
          rw [hl]
          have hign' : dataIgnored f = false := by simpa using hign
          simp only [hign', Bool.false_eq_true, if_false, ih _ _ _ _ hv, Bool.true_and]
          have := ihf ds1 rest ds2 hr hnd'.2 (pre ++ [(f.name, v)]) (by
            intro p hp
            rcases List.mem_append.mp hp with hp | hp
            · exact fun hm => hpre p hp (by simp [hm])
            · simp only [List.mem_singleton] at hp; subst hp; exact hnd'.1)
          simpa using this

theorem genMembers_wf (env : Env) (fuel : Nat) (ih : GenWF env fuel) :
    ∀ ms ds vals ds', genMembers env fuel ms ds = some (vals, ds') →
      ∀ p ∈ vals, wellFormedMember env fuel ms p.1 p.2 = true := by
  intro ms
  induction ms with
  | nil => intro ds vals ds' h; simp [genMembers] at h; obtain ⟨rfl, _⟩ := h; simp
  | cons m ms ihm =>
    intro ds vals ds' h p hp
    simp only [genMembers] at h
    split at h
    · simp at h
    · rename_i v ds1 hv
      cases hr : genMembers env fuel ms ds1 with
      | none => simp [hr] at h
      | some q =>
        obtain ⟨rest, ds2⟩ := q
        simp [hr] at h
        obtain ⟨rfl, _⟩ := h
        simp only [wellFormedMember]
        rcases List.mem_cons.mp hp with rfl | hp
        · simp [ih _ _ _ _ hv]
        · simp [ihm ds1 rest ds2 hr p hp]

theorem valueMatches_memberGoVal (bk : BKind) (m : Member) : valueMatches m (memberGoVal bk m) = true := by
  cases bk <;> simp [memberGoVal, valueMatches]

/-- **C15 (well-formed)**: for every environment with distinct field names, every type, every
stream of random draws and every fuel, a value returned by the generated function is
well-formed: enum components are exported constants, union components are non-nil members,
arrays / slices / maps are populated with well-formed elements, skipped fields stay absent (zero). -/
theorem C15_wellformed (env : Env) (hnd : FieldNamesNodup env) : ∀ fuel, GenWF env fuel := by
  intro fuel
  induction fuel with
  | zero => intro t ds v ds' h; simp [gen] at h
  | succ fuel ih =>
    intro t ds v ds' h
    cases t with
    | basic n bk =>
      simp only [gen, draw] at h
      cases bk <;> (split at h <;> simp at h <;> obtain ⟨rfl, _⟩ := h <;> simp [wellFormed])
    | time d =>
      simp only [gen] at h
      simp at h; obtain ⟨rfl, _⟩ := h; simp [wellFormed]
    | arr n e =>
      simp only [gen] at h
      split at h
      · rename_i hn
        cases hr : genN env fuel e n.toNat ds with
        | none => simp [hr] at h
        | some p =>
          obtain ⟨es, ds2⟩ := p
          simp [hr] at h; obtain ⟨rfl, _⟩ := h
          have := genN_wf env fuel ih e _ _ _ _ hr
          simp [wellFormed, this.1, this.2]
      · cases hr : genN env fuel e (3 + (draw ds).1 % 5) (draw ds).2 with
        | none => simp [hr] at h
        | some p =>
          obtain ⟨es, ds2⟩ := p
          simp [hr] at h; obtain ⟨rfl, _⟩ := h
          have := genN_wf env fuel ih e _ _ _ _ hr
          have hne : es ≠ [] := by
            intro e0; rw [e0] at this; simp at this; omega
          simp [wellFormed, this.2, hne]
    | map k e =>
      simp only [gen] at h
      cases hr : genEntries env fuel k e (40 + (draw ds).1 % 10) (draw ds).2 with
      | none => simp [hr] at h
      | some p =>
        obtain ⟨kvs, ds2⟩ := p
        simp [hr] at h; obtain ⟨rfl, _⟩ := h
        have := genEntries_wf env fuel ih k e _ _ _ _ hr
        have hne : kvs ≠ [] := by
          intro e0; rw [e0] at this; simp at this; omega
        simp [wellFormed, this.2, hne]
    | ptr e =>
      simp only [gen] at h
      simp [wellFormed, ih _ _ _ _ h]
    | ref q =>
      simp only [gen] at h
      cases hd : env.find? q with
      | none => simp [hd] at h
      | some d =>
        simp only [hd] at h
        cases hb : d.body with
        | named u =>
          simp only [hb] at h
          simp [wellFormed, hd, hb, ih _ _ _ _ h]
        | enum under bk ms iota =>
          simp only [hb] at h
          split at h
          · rename_i m hm
            split at h
            · simp at h
            · simp at h; obtain ⟨rfl, _⟩ := h
              have hmem : m ∈ exportedMembers ms := List.mem_of_getElem? hm
              have hm2 := List.mem_filter.mp hmem
              simp only [wellFormed, hd, hb, List.any_eq_true, Bool.and_eq_true]
              exact ⟨m, hm2.1, hm2.2, valueMatches_memberGoVal bk m⟩
          · simp at h
        | struct fs cs im =>
          simp only [hb] at h
          cases hr : genFields env fuel fs ds with
          | none => simp [hr] at h
          | some p =>
            obtain ⟨vals, ds2⟩ := p
            simp [hr] at h; obtain ⟨rfl, _⟩ := h
            have := genFields_wf env fuel ih fs ds vals ds2 hr (hnd q d fs cs im hd hb) [] (by simp)
            simpa [wellFormed, hd, hb] using this
        | union ms =>
          simp only [hb] at h
          cases hr : genMembers env fuel ms ds with
          | none => simp [hr] at h
          | some p =>
            obtain ⟨vals, ds2⟩ := p
            simp only [hr, Option.bind_some] at h
            split at h
            · rename_i name mv hsel
              split at h
              · simp at h
              · simp at h; obtain ⟨rfl, _⟩ := h
                have hmem : (name, mv) ∈ vals := List.mem_of_getElem? hsel
                have := genMembers_wf env fuel ih ms ds vals ds2 hr (name, mv) hmem
                simpa [wellFormed, hd, hb] using this
            · simp at h

/-- an enum component of a well-formed value is one of the enum's exported constants -/
theorem C15_enum_component (env : Env) (fuel : Nat) (q : String) (d : Decl) (u : String) (bk : BKind)
    (ms : List Member) (iota : Bool) (v : GoVal) (hd : env.find? q = some d) (hb : d.body = .enum u bk ms iota)
    (h : wellFormed env (fuel + 1) (.ref q) v = true) : ∃ m ∈ ms, m.exported = true ∧ valueMatches m v = true := by
  simp only [wellFormed, hd, hb, List.any_eq_true, Bool.and_eq_true] at h
  obtain ⟨m, hm, he, hv⟩ := h
  exact ⟨m, hm, he, hv⟩

/-- a union component of a well-formed value is never nil -/
theorem C15_union_non_nil (env : Env) (fuel : Nat) (q : String) (d : Decl) (ms : List Ty)
    (hd : env.find? q = some d) (hb : d.body = .union ms) :
    wellFormed env (fuel + 1) (.ref q) (.iface none) = false := by
  simp [wellFormed, hd, hb]

/-- known finding, as a theorem: an enum without exported member makes the function panic
(`rand.Intn(0)`): `gen` never returns a value for it -/
theorem gen_enum_without_exported_member (env : Env) (fuel : Nat) (q : String) (d : Decl) (u : String)
    (bk : BKind) (ms : List Member) (iota : Bool) (ds : List Nat) (hd : env.find? q = some d)
    (hb : d.body = .enum u bk ms iota) (hex : exportedMembers ms = []) :
    gen env (fuel + 1) (.ref q) ds = none := by
  simp [gen, hd, hb, hex]

def selfSliceEnv : Env := { pkgPath := "p", pkgName := "p", source := [], decls :=
  [⟨"p.R", "p", "p", "R", [], true, .struct [⟨"Kids", .arr (-1) (.ref "p.R"), "", true, false⟩] [] []⟩] }

theorem selfSlice_struct_step (f : Nat) (ds : List Nat)
    (h : ∀ ds', gen selfSliceEnv f (.arr (-1) (.ref "p.R")) ds' = none) :
    gen selfSliceEnv (f + 1) (.ref "p.R") ds = none := by
  have hfind : selfSliceEnv.find? "p.R" = some ⟨"p.R", "p", "p", "R", [], true,
      .struct [⟨"Kids", .arr (-1) (.ref "p.R"), "", true, false⟩] [] []⟩ := by decide
  have hign : dataIgnored ⟨"Kids", .arr (-1) (.ref "p.R"), "", true, false⟩ = false := by decide
  simp only [gen, hfind, genFields, hign, Bool.false_eq_true, if_false, h]
  rfl

theorem selfSlice_slice_step (f : Nat) (ds : List Nat)
    (h : ∀ ds', gen selfSliceEnv f (.ref "p.R") ds' = none) :
    gen selfSliceEnv (f + 1) (.arr (-1) (.ref "p.R")) ds = none := by
  have hneg : ¬ ((-1 : Int) ≥ 0) := by decide
  have hn : 3 + (draw ds).1 % 5 = (2 + (draw ds).1 % 5) + 1 := by omega
  simp only [gen, hneg, if_false, hn, genN, h]
  rfl

/-- known finding, as a theorem: a struct that contains a slice of itself never returns —
whatever the fuel and the draws (every slice gets at least three elements) -/
theorem gen_diverges_on_self_slice (fuel : Nat) :
    ∀ ds, gen selfSliceEnv fuel (.ref "p.R") ds = none := by
  induction fuel using Nat.strongRecOn with
  | ind n ih =>
    intro ds
    match n with
    | 0 => simp [gen]
    | 1 => exact selfSlice_struct_step 0 ds (fun ds' => by simp [gen])
    | m + 2 =>
      apply selfSlice_struct_step
      intro ds'
      apply selfSlice_slice_step
      intro ds''
      exact ih m (by omega) ds''

/-! ### termination -/

theorem genN_returns (env : Env) (fuel : Nat) (e : Ty)
    (h : ∀ ds, ∃ v ds', gen env fuel e ds = some (v, ds')) :
    ∀ n ds, ∃ es ds', genN env fuel e n ds = some (es, ds') ∧ es.length = n
  | 0, ds => ⟨[], ds, by simp [genN], rfl⟩
  | n + 1, ds => by
    obtain ⟨v, ds1, hv⟩ := h ds
    obtain ⟨es, ds2, hes, hl⟩ := genN_returns env fuel e h n ds1
    exact ⟨v :: es, ds2, by simp [genN, hv, hes], by simp [hl]⟩

theorem genEntries_returns (env : Env) (fuel : Nat) (k e : Ty)
    (hk : ∀ ds, ∃ v ds', gen env fuel k ds = some (v, ds'))
    (he : ∀ ds, ∃ v ds', gen env fuel e ds = some (v, ds')) :
    ∀ n ds, ∃ kvs ds', genEntries env fuel k e n ds = some (kvs, ds')
  | 0, ds => ⟨[], ds, by simp [genEntries]⟩
  | n + 1, ds => by
    obtain ⟨kv, ds1, hkv⟩ := hk ds
    obtain ⟨v, ds2, hv⟩ := he ds1
    obtain ⟨rest, ds3, hr⟩ := genEntries_returns env fuel k e hk he n ds2
    exact ⟨(kv, v) :: rest, ds3, by simp [genEntries, hkv, hv, hr]⟩

theorem genFields_returns (env : Env) (fuel : Nat) :
    ∀ (fs : List Field), (∀ f ∈ fs, dataIgnored f = false → ∀ ds, ∃ v ds', gen env fuel f.ty ds = some (v, ds')) →
      ∀ ds, ∃ vals ds', genFields env fuel fs ds = some (vals, ds')
  | [], _, ds => ⟨[], ds, by simp [genFields]⟩
  | f :: fs, h, ds => by
    have ih := genFields_returns env fuel fs (fun g hg => h g (by simp [hg]))
    by_cases hi : dataIgnored f = true
    · obtain ⟨vals, ds', hv⟩ := ih ds
      exact ⟨vals, ds', by simp [genFields, hi, hv]⟩
    · have hi' : dataIgnored f = false := by simpa using hi
      obtain ⟨v, ds1, hv⟩ := h f (by simp) hi' ds
      obtain ⟨rest, ds2, hr⟩ := ih ds1
      exact ⟨(f.name, v) :: rest, ds2, by simp [genFields, hi', hv, hr]⟩

theorem genMembers_returns (env : Env) (fuel : Nat) :
    ∀ (ms : List Ty), (∀ m ∈ ms, ∀ ds, ∃ v ds', gen env fuel m ds = some (v, ds')) →
      ∀ ds, ∃ vals ds', genMembers env fuel ms ds = some (vals, ds') ∧ vals.length = ms.length
  | [], _, ds => ⟨[], ds, by simp [genMembers], rfl⟩
  | m :: ms, h, ds => by
    obtain ⟨v, ds1, hv⟩ := h m (by simp) ds
    obtain ⟨rest, ds2, hr, hl⟩ := genMembers_returns env fuel ms (fun g hg => h g (by simp [hg])) ds1
    exact ⟨(nameOfTy env m, v) :: rest, ds2, by simp [genMembers, hv, hr], by simp [hl]⟩

/-- **C15 (termination)**: when the static check `returns env fuel t` holds — every named type is
declared, no unsupported basic kind, every enum has an exported constant, every union a member, and
the recursion of the generated functions bottoms out within `fuel` nested calls (no type reaches
itself through a non-empty container, a field or a union member) — the generated function returns
a value, whatever the draws. -/
theorem C15_terminates (env : Env) : ∀ (fuel : Nat) (t : Ty), returns env fuel t = true →
    ∀ ds, ∃ v ds', gen env fuel t ds = some (v, ds')
  | 0, _, h => by simp [returns] at h
  | fuel + 1, t, h => by
    have ih := C15_terminates env fuel
    intro ds
    cases t with
    | basic g bk =>
      cases bk <;> simp [returns] at h <;> simp [gen, draw] <;> (cases ds <;> simp)
    | time d => simp [gen]
    | arr n e =>
      simp only [returns, Bool.or_eq_true, beq_iff_eq] at h
      by_cases hn : n ≥ 0
      · simp only [gen, hn, if_true]
        rcases h with h0 | he
        · subst h0
          exact ⟨.list false false [], ds, by simp [genN]⟩
        · obtain ⟨es, ds', hes, _⟩ := genN_returns env fuel e (ih e he) n.toNat ds
          exact ⟨.list false false es, ds', by simp [hes]⟩
      · simp only [gen, hn, if_false]
        rcases h with h0 | he
        · omega
        · obtain ⟨es, ds', hes, _⟩ := genN_returns env fuel e (ih e he) (3 + (draw ds).1 % 5) (draw ds).2
          exact ⟨.list true false es, ds', by simp [hes]⟩
    | map k e =>
      simp only [returns, Bool.and_eq_true] at h
      obtain ⟨kvs, ds', hk⟩ := genEntries_returns env fuel k e (ih k h.1) (ih e h.2) (40 + (draw ds).1 % 10) (draw ds).2
      exact ⟨.map false kvs, ds', by simp [gen, hk]⟩
    | ptr e =>
      simp only [returns] at h
      simpa [gen] using ih e h ds
    | ref q =>
      simp only [returns] at h
      cases hf : env.find? q with
      | none => simp [hf] at h
      | some d =>
        simp only [hf] at h
        cases hb : d.body with
        | named u =>
          simp only [hb] at h
          simpa [gen, hf, hb] using ih u h ds
        | enum un bk ms io =>
          simp only [hb, Bool.not_eq_true'] at h
          have hne : (exportedMembers ms).length > 0 := by
            cases hex : exportedMembers ms with
            | nil => simp [hex] at h
            | cons a l => simp
          have hlt : (draw ds).1 % (exportedMembers ms).length < (exportedMembers ms).length := Nat.mod_lt _ hne
          simp only [gen, hf, hb]
          rw [List.getElem?_eq_getElem hlt]
          simp [h]
        | struct fs cs im =>
          simp only [hb] at h
          have hfs : ∀ f ∈ fs, dataIgnored f = false → ∀ ds, ∃ v ds', gen env fuel f.ty ds = some (v, ds') := by
            intro f hf hi
            exact ih f.ty (returnsFields_mem env fuel fs h f hf hi)
          obtain ⟨vals, ds', hv⟩ := genFields_returns env fuel fs hfs ds
          exact ⟨.struct vals, ds', by simp [gen, hf, hb, hv]⟩
        | union ms =>
          simp only [hb, Bool.and_eq_true, Bool.not_eq_true'] at h
          have hms : ∀ m ∈ ms, ∀ ds, ∃ v ds', gen env fuel m ds = some (v, ds') :=
            fun m hm => ih m (returnsAll_mem env fuel ms h.2 m hm)
          obtain ⟨vals, ds1, hv, hl⟩ := genMembers_returns env fuel ms hms ds
          have hne : vals.length > 0 := by
            rw [hl]
            cases ms with
            | nil => simp at h
            | cons a l => simp
          have hlt : (draw ds1).1 % vals.length < vals.length := Nat.mod_lt _ hne
          have hnemp : vals.isEmpty = false := by
            cases vals with
            | nil => simp at hne
            | cons a l => rfl
          simp only [gen, hf, hb, hv, Option.bind]
          rw [List.getElem?_eq_getElem hlt]
          simp [hnemp]

end Gomacro.RandSem
