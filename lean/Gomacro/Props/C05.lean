import Gomacro.MiniSql
/-!
# C05 — Generated CRUD code and generated schema agree, statement by statement

* structural theorems about the statement shapes the model emits (placeholders, alignment of the
  returned columns with the scan destinations), evaluated on every *real* statement by the tie;
* behavioural theorems over `MiniSql`: against a table with a serial id, the emitted insert /
  select-by-id / update / delete-by-id statements behave like the map `id ↦ row`.
The lib/pq value conversions and a real PostgreSQL are not covered (none in the sandbox).
-/
namespace Gomacro.CrudGen
open List

/-- `$1 … $n` in order is accepted by `placeholdersOk` -/
theorem phs_ok (name : String) (t : String) (cols : List String) (r : List String) (n : Nat) :
    placeholdersOk { name := name, stmt := .insert t cols (phs n) r, nargs := n } = true := by
  unfold placeholdersOk
  simp only [Stmt.placeholders, Bool.and_eq_true, List.all_eq_true]
  constructor
  · intro p hp
    simp only [phs, List.mem_map, List.mem_range] at hp
    obtain ⟨i, hi, rfl⟩ := hp
    simp; omega
  · intro p hp; simpa using hp

/-- **UPDATE**: values are `$1 … $k`, the id is `$(k+1)`, and k+1 arguments are passed -/
theorem C05_update_placeholders (name t : String) (cols r : List String) (k : Nat) :
    placeholdersOk { name := name, stmt := .update t cols (phs k) [.eq "id" (k + 1)] r, nargs := k + 1 } = true := by
  unfold placeholdersOk
  simp only [Stmt.placeholders, condPh, List.map_cons, List.map_nil, Bool.and_eq_true, List.all_eq_true]
  constructor
  · intro p hp
    rcases List.mem_append.mp hp with hp | hp
    · simp only [phs, List.mem_map, List.mem_range] at hp
      obtain ⟨i, hi, rfl⟩ := hp
      simp; omega
    · simp at hp; subst hp; simp
  · intro p hp
    simp only [phs, List.mem_map, List.mem_range] at hp
    obtain ⟨i, hi, rfl⟩ := hp
    by_cases h : i < k
    · simp only [List.contains_iff_mem, List.mem_append]
      left
      exact List.mem_map.mpr ⟨i, List.mem_range.mpr h, rfl⟩
    · have : i = k := by omega
      subst this; simp

/-- a single `$1` with one argument (by-id and by-key-array statements) -/
theorem C05_single_placeholder (name : String) (s : Stmt) (h : s.placeholders = [1]) :
    placeholdersOk { name := name, stmt := s, nargs := 1 } = true := by
  simp [placeholdersOk, h, phs]

/-- composite keys: `k₁ = $1 AND k₂ = $2 …` with one argument per key -/
theorem C05_key_placeholders (name t : String) (cols : List String) (ks : List String) :
    placeholdersOk { name := name, stmt := .select cols t (ks.zipIdx.map fun (k, i) => .eq k (i + 1)), nargs := ks.length } = true := by
  unfold placeholdersOk
  simp only [Stmt.placeholders, List.map_map, Bool.and_eq_true, List.all_eq_true]
  constructor
  · intro p hp
    simp only [List.mem_map, Function.comp] at hp
    obtain ⟨⟨k, i⟩, hmem, rfl⟩ := hp
    have hget := List.mem_zipIdx_iff_getElem?.mp hmem
    have hlt : i < ks.length := by
      have := List.getElem?_eq_some_iff.mp hget
      exact this.1
    simp [condPh]; exact decide_eq_true (by omega)
  · intro p hp
    simp only [phs, List.mem_map, List.mem_range] at hp
    obtain ⟨i, hi, rfl⟩ := hp
    simp only [List.contains_iff_mem, List.mem_map, Function.comp]
    refine ⟨(ks[i], i), ?_, by simp [condPh]⟩
    exact List.mem_zipIdx_iff_getElem?.mpr (by simp [hi])

/-- **scan alignment**: a statement returning the CRUD columns in order is aligned with scan
destinations listed in the same order -/
theorem C05_scan_aligned (scan : List String) (t : String) (conds : List Cond) :
    scanAligned scan (.select (scan.map colName) t conds) = true := by
  simp [scanAligned, Stmt.returned]

/-- **guards excluded**: no guard column among the CRUD columns -/
theorem C05_guards_excluded (cols : List PgTables.Column) :
    ∀ c ∈ crudCols cols, Tags.get c.tag "gomacro-sql-guard" = "" := by
  intro c hc
  simpa [crudCols] using (List.mem_filter.mp hc).2

end Gomacro.CrudGen

namespace Gomacro.MiniSql
open List Gomacro.CrudGen

theorem id_newRow (i : Val) (cols : List String) (phs : List Nat) (args : List Val) :
    Row.id (newRow i cols phs args) = i := by
  simp [newRow, Row.id, Row.get]

theorem satisfies_id (i : Val) : satisfies [i] [] [Cond.eq "id" 1] = fun r => Row.id r == i := by
  funext r
  simp [satisfies, holds, Row.id]

/-- **insert then select**: the inserted row is found under the id the insert assigned, and the
table stays well-formed (ids unique, below the next id) -/
theorem C05_insert_then_lookup (t : Table) (hwf : WF t) (tn : String) (cols : List String) (phs : List Nat)
    (ret : List String) (args : List Val) :
    lookupId (exec t (.insert tn cols phs ret) args).1 t.nextId = some (newRow t.nextId cols phs args) ∧
    WF (exec t (.insert tn cols phs ret) args).1 := by
  have hne : ∀ r ∈ t.rows, Row.id r ≠ t.nextId := fun r hr => Nat.ne_of_lt (hwf.2 r hr)
  constructor
  · show (t.rows ++ [newRow t.nextId cols phs args]).find? (fun r => Row.id r == t.nextId) = _
    have hn : t.rows.find? (fun r => Row.id r == t.nextId) = none :=
      List.find?_eq_none.mpr (fun r hr => by simpa using hne r hr)
    rw [List.find?_append, hn]
    simp [List.find?, id_newRow]
  · show WF { rows := t.rows ++ [newRow t.nextId cols phs args], nextId := t.nextId + 1 }
    constructor
    · show ((t.rows ++ [newRow t.nextId cols phs args]).map Row.id).Nodup
      rw [List.map_append, List.nodup_append]
      refine ⟨hwf.1, by simp, ?_⟩
      intro a ha b hb
      simp only [List.map_cons, List.map_nil, List.mem_singleton] at hb
      subst hb
      obtain ⟨r, hr, rfl⟩ := List.mem_map.mp ha
      rw [id_newRow]
      exact hne r hr
    · intro r hr
      show Row.id r < t.nextId + 1
      rcases List.mem_append.mp hr with hr | hr
      · exact Nat.lt_succ_of_lt (hwf.2 r hr)
      · simp only [List.mem_singleton] at hr
        subst hr; rw [id_newRow]; exact Nat.lt_succ_self _

/-- **select by id** returns exactly the rows stored under that id (at most one when ids are unique) -/
theorem C05_select_by_id (t : Table) (tn : String) (cols : List String) (i : Val) :
    (exec t (.select cols tn [.eq "id" 1]) [i]).2 = (t.rows.filter fun r => Row.id r == i).map (project cols) := by
  simp only [exec, satisfies_id]

/-- **delete by id** removes exactly the rows with that id and returns them -/
theorem C05_delete_by_id (t : Table) (tn : String) (ret : List String) (i : Val) :
    (exec t (.delete tn [.eq "id" 1] ret) [i]).2 = (t.rows.filter fun r => Row.id r == i).map (project ret) ∧
    lookupId (exec t (.delete tn [.eq "id" 1] ret) [i]).1 i = none ∧
    ∀ j, j ≠ i → lookupId (exec t (.delete tn [.eq "id" 1] ret) [i]).1 j = lookupId t j := by
  refine ⟨by simp only [exec, satisfies_id], ?_, ?_⟩
  · simp only [exec, satisfies_id, lookupId]
    apply List.find?_eq_none.mpr
    intro r hr
    have := (List.mem_filter.mp hr).2
    simpa using this
  · intro j hj
    simp only [exec, satisfies_id, lookupId]
    induction t.rows with
    | nil => rfl
    | cons r rs ih =>
      by_cases hm : Row.id r = i
      · have h1 : (!(Row.id r == i)) = false := by simp [hm]
        have h2 : (Row.id r == j) = false := by simp [hm]; exact fun e => hj e.symm
        simp only [List.filter, h1, List.find?, h2]
        exact ih
      · have h1 : (!(Row.id r == i)) = true := by simp [hm]
        simp only [List.filter, h1, List.find?]
        split
        · rfl
        · exact ih

/-- **update** replaces the row stored under the id by the new values and keeps its id -/
theorem C05_update_replaces (t : Table) (tn : String) (cols : List String) (phs : List Nat) (ret : List String)
    (args : List Val) (k : Nat) (r : Row) (hr : r ∈ t.rows) (hid : Row.id r = args.getD (k - 1) 0) :
    newRow (Row.id r) cols phs args ∈ (exec t (.update tn cols phs [.eq "id" k] ret) args).1.rows := by
  simp only [exec]
  apply List.mem_map.mpr
  refine ⟨r, hr, ?_⟩
  have : satisfies args [] [Cond.eq "id" k] r = true := by
    simp [satisfies, holds]; simpa [Row.id] using hid
  simp [this]

/-- rows with another id are untouched by an update by id -/
theorem C05_update_frame (t : Table) (tn : String) (cols : List String) (phs : List Nat) (ret : List String)
    (args : List Val) (k : Nat) (r : Row) (hr : r ∈ t.rows) (hid : Row.id r ≠ args.getD (k - 1) 0) :
    r ∈ (exec t (.update tn cols phs [.eq "id" k] ret) args).1.rows := by
  simp only [exec]
  apply List.mem_map.mpr
  refine ⟨r, hr, ?_⟩
  have : satisfies args [] [Cond.eq "id" k] r = false := by
    simp [satisfies, holds]; simpa [Row.id] using hid
  simp [this]

/-- by-foreign-key / by-key selections return exactly the matching rows -/
theorem C05_select_matching (t : Table) (tn : String) (cols : List String) (conds : List Cond) (args anyArgs : List Val) :
    (exec t (.select cols tn conds) args anyArgs).2 = (t.rows.filter (satisfies args anyArgs conds)).map (project cols) := rfl

/-! non-vacuity: a table with two rows satisfies the invariant -/
example : WF { rows := [[("id", 0), ("a", 5)], [("id", 1), ("a", 7)]], nextId := 2 } := by
  constructor
  · decide
  · intro r hr; simp at hr; rcases hr with rfl | rfl <;> decide

end Gomacro.MiniSql
