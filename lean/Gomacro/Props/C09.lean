import Gomacro.Tags
/-!
# C09 — Field selection and JSON naming coincide with encoding/json

`Gomacro/Tags.lean` holds both sides: the rules of `analysis.StructField` (`exported`, `jsonName`)
and the rules of `encoding/json` (`goJsonKey`, validated against the real library on every run).
-/
namespace Gomacro.Tags

/-- **selection**: a field takes part in the outputs iff encoding/json serialises it and it is
not tagged `gomacro:"ignore"` — for every tag string and field name. -/
theorem C09_selected_iff (tag goName : String) (goExported : Bool) :
    exported tag goExported = true ↔
      ((goJsonKey tag goName goExported).isSome = true ∧ get tag "gomacro" ≠ "ignore") := by
  unfold exported goJsonKey
  by_cases h1 : get tag "json" = "-" <;> by_cases h2 : get tag "gomacro" = "ignore" <;>
    cases goExported <;> simp [h1, h2] <;> split <;> simp

/-- **key**: a selected field appears under exactly the key encoding/json uses, whenever the name
part of the json tag is empty or made of characters encoding/json accepts in a tag name. -/
theorem C09_key_eq (tag goName : String) (goExported : Bool) (k : String)
    (hvalid : namePart (get tag "json") = "" ∨ isValidTag (namePart (get tag "json")) = true)
    (hk : goJsonKey tag goName goExported = some k) : jsonName tag goName = k := by
  unfold goJsonKey at hk
  unfold jsonName
  cases goExported with
  | false => simp at hk
  | true =>
    simp only [Bool.not_true, Bool.false_eq_true, if_false] at hk
    split at hk
    · simp at hk
    · rcases hvalid with he | hv
      · have hnv : isValidTag (namePart (get tag "json")) = false := by
          rw [he]; simp [isValidTag]
        simp only [hnv, Bool.false_eq_true, if_false, Option.some.injEq] at hk
        simp [he, hk]
      · simp only [hv, if_true, Option.some.injEq] at hk
        have hne : namePart (get tag "json") ≠ "" := by
          intro e; rw [e] at hv; simp [isValidTag] at hv
        rw [hk] at hne
        simp [hne, hk]

/-- the name part never contains a comma: tag options never reach an output key -/
theorem C09_no_option_in_key (v : String) : ',' ∉ (namePart v).toList := by
  unfold namePart
  simp only [String.toList_ofList]
  intro h
  have : ∀ (l : List Char), ',' ∉ l.takeWhile (· ≠ ',') := by
    intro l
    induction l with
    | nil => simp
    | cons c cs ih =>
      by_cases hc : c = ','
      · simp [List.takeWhile, hc]
      · simp only [List.takeWhile, ne_eq, hc, not_false_eq_true, decide_true, List.mem_cons, not_or]
        exact ⟨fun e => hc e.symm, ih⟩
  exact this _ h

/-- unexported, `json:"-"` and `gomacro:"ignore"` fields are never selected -/
theorem C09_ignored_not_selected (tag : String) (goExported : Bool)
    (h : goExported = false ∨ get tag "json" = "-" ∨ get tag "gomacro" = "ignore") :
    exported tag goExported = false := by
  unfold exported
  rcases h with h | h | h
  · subst h; split <;> simp
  · simp [h]
  · simp [h]

/-- The defect of the pinned commit, as a theorem: with the whole tag value as name,
`json:"x,omitempty"` was keyed `x,omitempty`. -/
theorem jsonNameOld_keeps_options :
    let v := ['x', ',', 'o']
    String.ofList v ≠ namePart (String.ofList v) := by
  decide

/-! non-vacuity: the hypotheses of `C09_key_eq` hold on a tag with options -/
example : lookupAux "json".toList 30 "xml:\"a\" json:\"x,omitempty\"".toList = some "x,omitempty".toList := by
  decide

end Gomacro.Tags
