import Gomacro.PgAst
import Gomacro.Props.C04E2E
import Std.Data.String.ToInt
/-!
# C04: the syntax of the generated validators means what the template-level semantics says

`C04_ast_refines`: on a script of well-formed template instances, every verdict of the
template-level semantics `PgGen.call` (about which `Props/C04.lean` and `Props/C04E2E.lean` are
stated) is the verdict of the plpgsql-fragment semantics `PgAst.evalFunc` on the syntax trees
`PgAst.astOf` of the same functions. The driver parses the REAL text of every validator
(`PgParse`), compares the tree with `astOf` of the model's function, and evaluates the real trees
on real documents: a changed template is judged on documents.
-/
namespace Gomacro.PgAst
open Gomacro.GoJson Gomacro.PgGen

theorem q_inj (a b : String) : q a = q b ↔ a = b := by
  constructor
  · intro h
    have := congrArg String.toList h
    simp only [q, String.toList_append] at this
    exact String.toList_inj.mp (List.append_cancel_left (List.append_cancel_right this))
  · intro h; rw [h]

theorem q_beq (a b : String) : (q a == q b) = (a == b) := by
  rw [Bool.eq_iff_iff]
  simp only [beq_iff_eq]
  exact q_inj a b

theorem astOf_name (f : PgFunc) : (astOf f).name = f.name := by cases f <;> rfl

theorem find_map (script : List PgFunc) (fn : String) :
    (script.map astOf).find? (·.name == fn) = (lookupFunc script fn).map astOf := by
  induction script with
  | nil => rfl
  | cons f rest ih =>
    simp only [List.map_cons, List.find?_cons, lookupFunc, astOf_name]
    cases h : (f.name == fn)
    · simpa [lookupFunc] using ih
    · rfl

variable (callF : String → Option JVal → Option Tri)

theorem eval_data (arg : Option JVal) (env : List (String × SVal)) (h : env.lookup "data" = some (.jb arg)) :
    evalExpr callF env data = some (.jb arg) := by simp [data, evalExpr, h]

def typeTri (j : Option JVal) (k : String) : Tri :=
  match j with | none => .nul | some v => Tri.ofBool (typeOf v == k)
def typeTriNot (j : Option JVal) (k : String) : Tri :=
  match j with | none => .nul | some v => Tri.ofBool (!(typeOf v == k))

theorem eval_typeIs (env : List (String × SVal)) (e : Expr) (k : String) (j : Option JVal)
    (he : evalExpr callF env e = some (.jb j)) :
    evalExpr callF env (typeIs e k) = some (.bool (typeTri j k)) := by
  cases j with
  | none => simp [typeIs, evalExpr, he, sqlEq, typeTri]
  | some v =>
    simp only [typeIs, evalExpr, he, sqlEq, Option.map, typeTri]
    rw [q_beq, Bool.beq_comm]

theorem eval_typeIsNot (env : List (String × SVal)) (e : Expr) (k : String) (j : Option JVal)
    (he : evalExpr callF env e = some (.jb j)) :
    evalExpr callF env (typeIsNot e k) = some (.bool (typeTriNot j k)) := by
  cases j with
  | none => simp [typeIsNot, evalExpr, he, sqlEq, Tri.not, typeTriNot]
  | some v =>
    simp only [typeIsNot, evalExpr, he, sqlEq, Option.map, typeTriNot]
    rw [q_beq, Bool.beq_comm]
    cases (typeOf v == k) <;> simp [Tri.ofBool, Tri.not]

/-! ### the templates, one by one (`callF` = the script one unit of fuel down) -/

/-- one call of a template instance, the functions it calls given by `cF` (the body of `PgGen.call`) -/
def step (cF : String → Option JVal → Option Tri) (fd : PgFunc) (arg : Option JVal) : Option Tri :=
  match arg with
  | none =>
    (match fd with
     | .union _ _ => some .ff
     | .struct _ fields => (fields.mapM fun (p : String × String) => cF p.2 none).map fun (rs : List Tri) => rs.foldl Tri.and .nul
     | _ => some .nul)
  | some j =>
    match fd with
    | .basic _ kind => some (if typeOf j == kind then .tt else .ff)
    | .enum _ kind isInt tuple _ =>
      some (if typeOf j == kind && tuple.any (fun it => enumItemMatches isInt it j) then .tt else .ff)
    | .array _ elemFn len =>
      (match j with
       | .null => if len == -1 then some .tt else some .ff
       | .arr l =>
         if len == -1 && l.isEmpty then some .tt
         else
           (l.mapM fun x => cF elemFn (some x)).map fun rs =>
             if len ≥ 0 then Tri.and (boolAnd rs) (if (l.length : Int) == len then .tt else .ff)
             else boolAnd rs
       | _ => some .ff)
    | .map _ elemFn =>
      (match j with
       | .null => some .tt
       | .obj kvs => (kvs.mapM fun (p : String × JVal) => cF elemFn (some p.2)).map fun rs => Tri.and .tt (boolAnd rs)
       | _ => some .ff)
    | .struct _ fields =>
      (match j with
       | .obj kvs =>
         let keysOk := boolAnd (kvs.map fun (k, _) => if fields.isEmpty || fields.any (·.1 == k) then Tri.tt else Tri.ff)
         (fields.mapM fun (p : String × String) => cF p.2 (kvs.lookup p.1)).map fun (rs : List Tri) => rs.foldl Tri.and keysOk
       | _ => some .ff)
    | .union _ cases =>
      (match j with
       | .obj kvs =>
         (match kvs.lookup "Kind", kvs.lookup "Data" with
          | some (.str k), data =>
            if isJsonNull data then some .ff
            else (match cases.lookup k with
              | some vf => cF vf data
              | none => some .ff)
          | some _, _ => some .ff
          | none, _ => some .ff)
       | _ => some .ff)

theorem mapM_some {α β} (g : α → β) : ∀ (l : List α), l.mapM (fun x => some (g x)) = some (l.map g)
  | [] => rfl
  | x :: xs => by simp [List.mapM_cons, mapM_some g xs]

theorem mapM_refines {α} (g g' : α → Option Tri) (hg : ∀ x r, g x = some r → g' x = some r) :
    ∀ (l : List α) rs, l.mapM g = some rs → l.mapM g' = some rs
  | [], rs, h => by simpa using h
  | x :: xs, rs, h => by
    simp only [List.mapM_cons] at h ⊢
    cases hx : g x with
    | none => simp [hx] at h
    | some r =>
      cases hxs : xs.mapM g with
      | none => simp [hx, hxs] at h
      | some rs' =>
        simp only [hx, hxs] at h
        simp only [hg x r hx, mapM_refines g g' hg xs rs' hxs]
        exact h

variable (cF : String → Option JVal → Option Tri) (hC : ∀ fn a r, cF fn a = some r → callF fn a = some r)

def validTail : Block := blk [.ifThen (.not (.var "is_valid")) (blk [.raise]) .nil, .ret (.var "is_valid")]

theorem exec_valid_tail (t : Tri) (env : List (String × SVal)) :
    execBlock callF (("is_valid", .bool t) :: env) validTail = .ret (.bool t) := by
  cases t <;> simp [validTail, blk, execBlock, execStmt, evalExpr, asBool, Tri.not, List.lookup]

theorem run_decl_valid (fn : String) (e : Expr) (arg : Option JVal) :
    runFunc callF { name := fn, decls := [("is_valid", some e)], body := validTail } arg =
      asBool (evalExpr callF [("data", .jb arg)] e) := by
  cases he : evalExpr callF [("data", .jb arg)] e with
  | none => simp [runFunc, evalDecls, he, asBool]
  | some x =>
    cases x with
    | bool t => simp [runFunc, evalDecls, he, exec_valid_tail, asBool]
    | _ => simp [runFunc, evalDecls, he, asBool, validTail, blk, execBlock, execStmt, evalExpr, List.lookup]

theorem run_enum (fn kind : String) (isInt : Bool) (tuple : List String) (tid : String) (arg : Option JVal)
    (hw : wf (.enum fn kind isInt tuple tid) = true) :
    runFunc callF (astOf (.enum fn kind isInt tuple tid)) arg = step cF (.enum fn kind isInt tuple tid) arg := by
  have hd : evalExpr callF [("data", SVal.jb arg)] data = some (.jb arg) := eval_data callF arg _ (by simp [List.lookup])
  have hk : kind = (if isInt then "number" else "string") := by simpa [wf] using hw
  show runFunc callF { name := fn, decls := [("is_valid", some _)], body := validTail } arg = _
  rw [run_decl_valid]
  cases arg with
  | none =>
    cases isInt <;> simp [evalExpr, eval_typeIs callF _ data kind none hd, hd, asBool, Tri.and, step, typeTri]
  | some j =>
    cases isInt
    · simp only [Bool.false_eq_true, if_false] at hk ⊢
      subst hk
      cases j <;>
        simp [evalExpr, eval_typeIs callF _ data _ _ hd, hd, asBool, typeOf, Tri.ofBool, Tri.and, step, enumItemMatches, q, typeTri]
      split <;> simp_all [Tri.and]
    · simp only [if_true] at hk ⊢
      subst hk
      cases j <;>
        simp [evalExpr, eval_typeIs callF _ data _ _ hd, hd, asBool, typeOf, Tri.ofBool, Tri.and, step, enumItemMatches, typeTri]
      split <;> simp_all [Tri.and]


theorem run_basic' (fn kind : String) (arg : Option JVal) :
    runFunc callF (astOf (.basic fn kind)) arg = step cF (.basic fn kind) arg := by
  have hd : evalExpr callF [("data", SVal.jb arg)] data = some (.jb arg) := eval_data callF arg _ (by simp [List.lookup])
  show runFunc callF { name := fn, decls := [("is_valid", some _)], body := validTail } arg = _
  rw [run_decl_valid, eval_typeIs callF _ data kind arg hd]
  cases arg with
  | none => rfl
  | some j => simp [step, typeTri, Tri.ofBool, asBool]

/-! statements -/

@[simp] theorem asBool_map_bool (o : Option Tri) : asBool (o.map SVal.bool) = o := by cases o <;> rfl
@[simp] theorem asBool_some_bool (t : Tri) : asBool (some (SVal.bool t)) = some t := rfl

theorem exec_if_ret_taken (env : List (String × SVal)) (c e : Expr) (v : SVal) (rest : Block)
    (h : evalExpr callF env c = some (.bool .tt)) (hv : evalExpr callF env e = some v) :
    execBlock callF env (.cons (.ifThen c (blk [.ret e]) .nil) rest) = .ret v := by
  simp [execBlock, execStmt, h, hv, blk]

theorem exec_if_skipped (env : List (String × SVal)) (c : Expr) (b : Block) (rest : Block) (t : Tri)
    (h : evalExpr callF env c = some (.bool t)) (ht : t ≠ .tt) :
    execBlock callF env (.cons (.ifThen c b .nil) rest) = execBlock callF env rest := by
  cases t <;> simp_all [execBlock, execStmt]

theorem exec_ret (env : List (String × SVal)) (e : Expr) (v : SVal) (rest : Block)
    (h : evalExpr callF env e = some v) :
    execBlock callF env (.cons (.ret e) rest) = .ret v := by
  simp [execBlock, execStmt, h]

theorem toString_len (n : Nat) (m : Int) : (toString m == toString n) = ((n : Int) == m) := by
  rw [Bool.eq_iff_iff]
  simp only [beq_iff_eq]
  have : toString n = toString (n : Int) := rfl
  rw [this]
  constructor
  · intro h; exact (Int.repr_inj.mp h).symm
  · intro h; rw [h]

theorem eval_call_value (env : List (String × SVal)) (f : String) (x : JVal) :
    evalExpr callF (("value", .jb (some x)) :: env) (.call f (.var "value")) = (callF f (some x)).map .bool := by
  simp [evalExpr, List.lookup]

theorem eval_call_value_each (env : List (String × SVal)) (f : String) (k : String) (x : JVal) :
    evalExpr callF (("key", .txt (some k)) :: ("value", .jb (some x)) :: env) (.call f (.var "value")) = (callF f (some x)).map .bool := by
  simp [evalExpr, List.lookup]

theorem eval_allElems (env : List (String × SVal)) (f : String) (l : List JVal)
    (hd : evalExpr callF env data = some (.jb (some (.arr l)))) :
    evalExpr callF env (.allElems (.call f (.var "value")) data) =
      (l.mapM fun x => callF f (some x)).map fun rs => .bool (boolAnd rs) := by
  simp only [evalExpr, hd, List.lookup, beq_self_eq_true, asBool_map_bool]

theorem eval_allElems_null (env : List (String × SVal)) (body : Expr)
    (hd : evalExpr callF env data = some (.jb none)) :
    evalExpr callF env (.allElems body data) = some (.bool .nul) := by
  simp only [evalExpr, hd]

theorem eval_arrLen_eq (env : List (String × SVal)) (l : List JVal) (m : Int)
    (hd : evalExpr callF env data = some (.jb (some (.arr l)))) :
    evalExpr callF env (.eq (.arrLen data) (.lit (toString m))) = some (.bool (Tri.ofBool ((l.length : Int) == m))) := by
  simp only [evalExpr, hd, sqlEq, Option.map, toString_len]

theorem eval_arrLen_eq_null (env : List (String × SVal)) (raw : String)
    (hd : evalExpr callF env data = some (.jb none)) :
    evalExpr callF env (.eq (.arrLen data) (.lit raw)) = some (.bool .nul) := by
  simp only [evalExpr, hd, sqlEq, Option.map]


theorem eval_and (env : List (String × SVal)) (a b : Expr) (x y : Tri)
    (ha : evalExpr callF env a = some (.bool x)) (hb : evalExpr callF env b = some (.bool y)) :
    evalExpr callF env (.and a b) = some (.bool (Tri.and x y)) := by
  simp only [evalExpr, ha, hb, asBool_some_bool]
  cases x <;> cases y <;> rfl

theorem eval_and_ff (env : List (String × SVal)) (a b : Expr)
    (ha : evalExpr callF env a = some (.bool .ff)) :
    evalExpr callF env (.and a b) = some (.bool .ff) := by
  simp only [evalExpr, ha, asBool_some_bool]

theorem runFunc_nodecl (fn : String) (body : Block) (arg : Option JVal) :
    runFunc callF { name := fn, decls := [], body := body } arg =
      (match execBlock callF [("data", .jb arg)] body with | .ret (.bool t) => some t | _ => none) := by
  rfl

include hC in
theorem run_array (fn elemFn : String) (len : Int) (arg : Option JVal) (r : Tri)
    (hw : wf (.array fn elemFn len) = true) (hs : step cF (.array fn elemFn len) arg = some r) :
    runFunc callF (astOf (.array fn elemFn len)) arg = some r := by
  have hlen : len ≥ -1 := by simpa [wf] using hw
  have hd0 : evalExpr callF [("data", SVal.jb arg)] data = some (.jb arg) := eval_data callF arg _ (by simp [List.lookup])
  have hmapM : ∀ (l : List JVal) rs, (l.mapM fun x => cF elemFn (some x)) = some rs →
      (l.mapM fun x => callF elemFn (some x)) = some rs :=
    fun l rs hrs => mapM_refines (fun x => cF elemFn (some x)) (fun x => callF elemFn (some x)) (fun x r h => hC elemFn (some x) r h) l rs hrs
  have h0 : (toString (0 : Int)) = "0" := rfl
  by_cases hm : len = -1
  · subst hm
    have hbody : (astOf (.array fn elemFn (-1))) = { name := fn, decls := [], body :=
        (Block.cons (.ifThen (typeIs data "null") (blk [.ret .tru]) .nil)
        (Block.cons (.ifThen (typeIsNot data "array") (blk [.ret .fls]) .nil)
        (Block.cons (.ifThen (.eq (.arrLen data) (.lit "0")) (blk [.ret .tru]) .nil)
        (Block.cons (.ret (.allElems (.call elemFn (.var "value")) data)) .nil)))) } := by
      simp [astOf, blk]
    rw [hbody, runFunc_nodecl]
    cases arg with
    | none =>
      simp only [step] at hs; cases hs
      rw [exec_if_skipped callF _ _ _ _ .nul (eval_typeIs callF _ data _ none hd0) (by simp),
          exec_if_skipped callF _ _ _ _ .nul (eval_typeIsNot callF _ data _ none hd0) (by simp),
          exec_if_skipped callF _ _ _ _ .nul (eval_arrLen_eq_null callF _ _ hd0) (by simp),
          exec_ret callF _ _ _ _ (eval_allElems_null callF _ _ hd0)]
    | some j =>
      cases j with
      | null =>
        simp only [step] at hs; simp at hs; subst hs
        rw [exec_if_ret_taken callF _ _ .tru (.bool .tt) _ (by rw [eval_typeIs callF _ data _ _ hd0]; simp [typeTri, typeTriNot, typeOf, Tri.ofBool]) (by simp [evalExpr])]
      | arr l =>
        simp only [step] at hs
        rw [exec_if_skipped callF _ _ _ _ .ff (by rw [eval_typeIs callF _ data _ _ hd0]; simp [typeTri, typeTriNot, typeOf, Tri.ofBool]) (by simp),
            exec_if_skipped callF _ _ _ _ .ff (by rw [eval_typeIsNot callF _ data _ _ hd0]; simp [typeTri, typeTriNot, typeOf, Tri.ofBool]) (by simp)]
        have hlenE := eval_arrLen_eq callF _ l 0 hd0
        rw [h0] at hlenE
        by_cases he : l.isEmpty = true
        · simp [he] at hs; subst hs
          have hl : l = [] := by simpa using he
          subst hl
          rw [exec_if_ret_taken callF _ _ .tru (.bool .tt) _ (by rw [hlenE]; simp [Tri.ofBool]) (by simp [evalExpr])]
        · have he' : l.isEmpty = false := by simpa using he
          simp only [he', Bool.and_false, Bool.false_eq_true, if_false] at hs
          cases hrs : (l.mapM fun x => cF elemFn (some x)) with
          | none => simp [hrs] at hs
          | some rs =>
            simp [hrs] at hs; subst hs
            have hne : ((l.length : Int) == 0) = false := by
              cases l with
              | nil => simp at he'
              | cons x xs => simp; omega
            rw [exec_if_skipped callF _ _ _ _ .ff (by rw [hlenE, hne]; simp [Tri.ofBool]) (by simp),
                exec_ret callF _ _ _ _ (by rw [eval_allElems callF _ _ l hd0, hmapM l rs hrs]; rfl)]
      | _ =>
        simp only [step] at hs; simp at hs; subst hs
        rw [exec_if_skipped callF _ _ _ _ .ff (by rw [eval_typeIs callF _ data _ _ hd0]; simp [typeTri, typeTriNot, typeOf, Tri.ofBool]) (by simp),
            exec_if_ret_taken callF _ _ .fls (.bool .ff) _ (by rw [eval_typeIsNot callF _ data _ _ hd0]; simp [typeTri, typeTriNot, typeOf, Tri.ofBool]) (by simp [evalExpr])]
  · have hpos : len ≥ 0 := by omega
    have hm' : (len == -1) = false := by simpa using hm
    have hbody : (astOf (.array fn elemFn len)) = { name := fn, decls := [], body :=
        (Block.cons (.ifThen (typeIsNot data "array") (blk [.ret .fls]) .nil)
        (Block.cons (.ret (.and (.allElems (.call elemFn (.var "value")) data) (.eq (.arrLen data) (.lit (toString len))))) .nil)) } := by
      simp [astOf, blk, hm', hpos]
    rw [hbody, runFunc_nodecl]
    cases arg with
    | none =>
      simp only [step] at hs; cases hs
      rw [exec_if_skipped callF _ _ _ _ .nul (eval_typeIsNot callF _ data _ none hd0) (by simp),
          exec_ret callF _ _ (.bool (Tri.and .nul .nul)) _
            (eval_and callF _ _ _ _ _ (eval_allElems_null callF _ _ hd0) (eval_arrLen_eq_null callF _ _ hd0))]
      rfl
    | some j =>
      cases j with
      | arr l =>
        simp only [step, hm', Bool.false_and, Bool.false_eq_true, if_false] at hs
        cases hrs : (l.mapM fun x => cF elemFn (some x)) with
        | none => simp [hrs] at hs
        | some rs =>
          simp [hrs, hpos] at hs; subst hs
          rw [exec_if_skipped callF _ _ _ _ .ff (by rw [eval_typeIsNot callF _ data _ _ hd0]; simp [typeTri, typeTriNot, typeOf, Tri.ofBool]) (by simp),
              exec_ret callF _ _ (.bool (Tri.and (boolAnd rs) (Tri.ofBool ((l.length : Int) == len)))) _
                (eval_and callF _ _ _ _ _ (by rw [eval_allElems callF _ _ l hd0, hmapM l rs hrs]; rfl) (eval_arrLen_eq callF _ l len hd0))]
          simp [Tri.ofBool]
      | _ =>
        simp only [step] at hs; simp [hm'] at hs; subst hs
        rw [exec_if_ret_taken callF _ _ .fls (.bool .ff) _ (by rw [eval_typeIsNot callF _ data _ _ hd0]; simp [typeTri, typeTriNot, typeOf, Tri.ofBool]) (by simp [evalExpr])]


theorem eval_allEach (env : List (String × SVal)) (f : String) (kvs : List (String × JVal))
    (hd : evalExpr callF env data = some (.jb (some (.obj kvs)))) :
    evalExpr callF env (.allEach (.call f (.var "value")) data) =
      (kvs.mapM fun (p : String × JVal) => callF f (some p.2)).map fun rs => .bool (boolAnd rs) := by
  have hk : ("value" == "key") = false := by decide
  simp only [evalExpr, hd, List.lookup, beq_self_eq_true, hk, asBool_map_bool]

theorem eval_allEach_null (env : List (String × SVal)) (body : Expr)
    (hd : evalExpr callF env data = some (.jb none)) :
    evalExpr callF env (.allEach body data) = some (.bool .nul) := by
  simp only [evalExpr, hd]

include hC in
theorem run_map (fn elemFn : String) (arg : Option JVal) (r : Tri)
    (hs : step cF (.map fn elemFn) arg = some r) :
    runFunc callF (astOf (.map fn elemFn)) arg = some r := by
  have hd0 : evalExpr callF [("data", SVal.jb arg)] data = some (.jb arg) := eval_data callF arg _ (by simp [List.lookup])
  have hbody : (astOf (.map fn elemFn)) = { name := fn, decls := [], body :=
      (Block.cons (.ifThen (typeIs data "null") (blk [.ret .tru]) .nil)
      (Block.cons (.ret (.and (typeIs data "object") (.allEach (.call elemFn (.var "value")) data))) .nil)) } := by
    simp [astOf, blk]
  rw [hbody, runFunc_nodecl]
  cases arg with
  | none =>
    simp only [step] at hs; cases hs
    rw [exec_if_skipped callF _ _ _ _ .nul (eval_typeIs callF _ data _ none hd0) (by simp),
        exec_ret callF _ _ (.bool (Tri.and .nul .nul)) _
          (eval_and callF _ _ _ _ _ (eval_typeIs callF _ data _ none hd0) (eval_allEach_null callF _ _ hd0))]
    rfl
  | some j =>
    cases j with
    | null =>
      simp only [step] at hs; cases hs
      rw [exec_if_ret_taken callF _ _ .tru (.bool .tt) _ (by rw [eval_typeIs callF _ data _ _ hd0]; simp [typeTri, typeTriNot, typeOf, Tri.ofBool]) (by simp [evalExpr])]
    | obj kvs =>
      simp only [step] at hs
      cases hrs : (kvs.mapM fun (p : String × JVal) => cF elemFn (some p.2)) with
      | none => simp [hrs] at hs
      | some rs =>
        simp [hrs] at hs; subst hs
        have hm := mapM_refines (fun (p : String × JVal) => cF elemFn (some p.2)) (fun p => callF elemFn (some p.2))
          (fun p r h => hC elemFn (some p.2) r h) kvs rs hrs
        rw [exec_if_skipped callF _ _ _ _ .ff (by rw [eval_typeIs callF _ data _ _ hd0]; simp [typeTri, typeTriNot, typeOf, Tri.ofBool]) (by simp),
            exec_ret callF _ _ (.bool (Tri.and .tt (boolAnd rs))) _
              (eval_and callF _ _ _ _ _ (by rw [eval_typeIs callF _ data _ _ hd0]; simp [typeTri, typeTriNot, typeOf, Tri.ofBool])
                (by rw [eval_allEach callF _ _ kvs hd0, hm]; rfl))]
    | _ =>
      simp only [step] at hs; cases hs
      rw [exec_if_skipped callF _ _ _ _ .ff (by rw [eval_typeIs callF _ data _ _ hd0]; simp [typeTri, typeTriNot, typeOf, Tri.ofBool]) (by simp),
          exec_ret callF _ _ (.bool .ff) _
            (eval_and_ff callF _ _ _ (by rw [eval_typeIs callF _ data _ _ hd0]; simp [typeTri, typeTriNot, typeOf, Tri.ofBool]))]


def getKey (arg : Option JVal) (k : String) : Option JVal :=
  match arg with
  | some (.obj kvs) => kvs.lookup k
  | _ => none

theorem eval_arrow (env : List (String × SVal)) (arg : Option JVal) (k : String)
    (hd : evalExpr callF env data = some (.jb arg)) :
    evalExpr callF env (.arrow data k) = some (.jb (getKey arg k)) := by
  simp only [evalExpr, hd]
  cases arg with
  | none => rfl
  | some j => cases j <;> rfl

theorem eval_or (env : List (String × SVal)) (a b : Expr) (x y : Tri)
    (ha : evalExpr callF env a = some (.bool x)) (hb : evalExpr callF env b = some (.bool y)) :
    evalExpr callF env (.or a b) = some (.bool (Tri.or x y)) := by
  simp only [evalExpr, ha, hb, asBool_some_bool]
  cases x <;> cases y <;> rfl

theorem eval_or_tt (env : List (String × SVal)) (a b : Expr)
    (ha : evalExpr callF env a = some (.bool .tt)) :
    evalExpr callF env (.or a b) = some (.bool .tt) := by
  simp only [evalExpr, ha, asBool_some_bool]

/-- the Kind of the document, as `data->>'Kind'` reads it when it is a string or missing -/
theorem eval_kindText (env : List (String × SVal)) (kvs : List (String × JVal))
    (hd : evalExpr callF env data = some (.jb (some (.obj kvs)))) :
    evalExpr callF env (.arrowText data "Kind") =
      (match kvs.lookup "Kind" with
       | none => some (.txt none)
       | some .null => some (.txt none)
       | some (.str s) => some (.txt (some s))
       | some _ => none) := by
  simp only [evalExpr, hd]
  cases kvs.lookup "Kind" with
  | none => rfl
  | some v => cases v <;> rfl

theorem eval_eq (env : List (String × SVal)) (a b : Expr) (x y : SVal)
    (ha : evalExpr callF env a = some x) (hb : evalExpr callF env b = some y) :
    evalExpr callF env (.eq a b) = (sqlEq x y).map .bool := by
  simp only [evalExpr, ha, hb]

theorem eval_call (env : List (String × SVal)) (f : String) (a : Expr) (darg : Option JVal)
    (ha : evalExpr callF env a = some (.jb darg)) :
    evalExpr callF env (.call f a) = (callF f darg).map .bool := by
  simp only [evalExpr, ha]

theorem eval_lit (env : List (String × SVal)) (raw : String) : evalExpr callF env (.lit raw) = some (.lit raw) := by
  simp only [evalExpr]

theorem exec_arms_none (env : List (String × SVal)) (hk : evalExpr callF env (.arrowText data "Kind") = some (.txt none)) :
    ∀ (cases : List (String × String)), execArms callF env (armsOf cases) = none
  | [] => rfl
  | (k, f) :: rest => by
    simp only [armsOf, execArms]
    rw [eval_eq callF env _ _ _ _ hk (eval_lit callF env _)]
    simp only [sqlEq, Option.map, asBool_some_bool]
    exact exec_arms_none env hk rest

theorem exec_arms_str (env : List (String × SVal)) (k : String) (darg : Option JVal)
    (hk : evalExpr callF env (.arrowText data "Kind") = some (.txt (some k)))
    (hdata : evalExpr callF env (.arrow data "Data") = some (.jb darg)) :
    ∀ (cases : List (String × String)), execArms callF env (armsOf cases) =
      (cases.lookup k).map fun vf => (match callF vf darg with | some t => Res.ret (.bool t) | none => Res.err)
  | [] => rfl
  | (k', f) :: rest => by
    simp only [armsOf, execArms, List.lookup]
    rw [eval_eq callF env _ _ _ _ hk (eval_lit callF env _)]
    simp only [sqlEq, Option.map, asBool_some_bool]
    rw [q_beq, Bool.beq_comm]
    cases hkk : (k == k')
    · simp only [Tri.ofBool, Bool.false_eq_true, if_false]
      exact exec_arms_str env k darg hk hdata rest
    · have hcall := eval_call callF env f _ darg hdata
      simp only [Tri.ofBool, if_true, blk, execBlock, execStmt, hcall]
      cases callF f darg <;> rfl

include hC in
theorem run_union (fn : String) (cases : List (String × String)) (arg : Option JVal) (r : Tri)
    (hs : step cF (.union fn cases) arg = some r) :
    runFunc callF (astOf (.union fn cases)) arg = some r := by
  have hd0 : evalExpr callF [("data", SVal.jb arg)] data = some (.jb arg) := eval_data callF arg _ (by simp [List.lookup])
  have hbody : (astOf (.union fn cases)) = { name := fn, decls := [], body :=
      (Block.cons (.ifThen (.or (.or (typeIsNot data "object") (typeIsNot (.arrow data "Kind") "string")) (typeIs (.arrow data "Data") "null"))
          (blk [.ret .fls]) .nil)
      (Block.cons (.case (armsOf cases) (blk [.ret .fls])) .nil)) } := by
    simp [astOf, blk]
  rw [hbody, runFunc_nodecl]
  have hA := eval_typeIsNot callF _ data "object" arg hd0
  have hB := eval_typeIsNot callF _ (.arrow data "Kind") "string" _ (eval_arrow callF _ arg "Kind" hd0)
  have hCc := eval_typeIs callF _ (.arrow data "Data") "null" _ (eval_arrow callF _ arg "Data" hd0)
  have hcond := eval_or callF _ _ _ _ _ (eval_or callF _ _ _ _ _ hA hB) hCc
  have hfls : evalExpr callF [("data", SVal.jb arg)] .fls = some (.bool .ff) := by simp [evalExpr]
  -- no arm matches: ELSE RETURN FALSE
  have helse : ∀ env, execArms callF env (armsOf cases) = none →
      execBlock callF env (Block.cons (.case (armsOf cases) (blk [.ret .fls])) .nil) = .ret (.bool .ff) := by
    intro env h
    simp [execBlock, execStmt, h, blk, evalExpr]
  cases arg with
  | none =>
    simp only [step] at hs; cases hs
    rw [exec_if_skipped callF _ _ _ _ _ hcond (by simp [typeTri, typeTriNot, getKey, Tri.or]),
        helse _ (exec_arms_none callF _ (by simp [evalExpr, hd0]) cases)]
  | some j =>
    cases j with
    | obj kvs =>
      simp only [step] at hs
      have hkt := eval_kindText callF _ kvs hd0
      cases hK : kvs.lookup "Kind" with
      | none =>
        simp only [hK] at hs hkt; cases hs
        cases hD : kvs.lookup "Data" with
        | none =>
          rw [exec_if_skipped callF _ _ _ _ _ hcond (by simp [typeTri, typeTriNot, getKey, hK, hD, typeOf, Tri.ofBool, Tri.or]),
              helse _ (exec_arms_none callF _ hkt cases)]
        | some dv =>
          cases dv with
          | null =>
            rw [exec_if_ret_taken callF _ _ .fls (.bool .ff) _ (by rw [hcond]; simp [typeTri, typeTriNot, getKey, hK, hD, typeOf, Tri.ofBool, Tri.or]) hfls]
          | _ =>
            rw [exec_if_skipped callF _ _ _ _ _ hcond (by simp [typeTri, typeTriNot, getKey, hK, hD, typeOf, Tri.ofBool, Tri.or]),
                helse _ (exec_arms_none callF _ hkt cases)]
      | some kv =>
        cases kv with
        | str k =>
          simp only [hK] at hs hkt
          cases hD : kvs.lookup "Data" with
          | none =>
            simp only [hD, isJsonNull, Bool.false_eq_true, if_false] at hs
            rw [exec_if_skipped callF _ _ _ _ _ hcond (by simp [typeTri, typeTriNot, getKey, hK, hD, typeOf, Tri.ofBool, Tri.or])]
            have harms := exec_arms_str callF _ k none hkt (by rw [eval_arrow callF _ _ "Data" hd0]; simp [typeTri, typeTriNot, getKey, hD]) cases
            cases hl : cases.lookup k with
            | none =>
              simp only [hl] at hs; cases hs
              rw [helse _ (by rw [harms, hl]; rfl)]
            | some vf =>
              simp only [hl] at hs
              simp only [execBlock, execStmt, harms, hl, Option.map, hC vf none r hs]
          | some dv =>
            by_cases hnull : dv = .null
            · subst hnull
              simp only [hD, isJsonNull, if_true] at hs; cases hs
              rw [exec_if_ret_taken callF _ _ .fls (.bool .ff) _ (by rw [hcond]; simp [typeTri, typeTriNot, getKey, hK, hD, typeOf, Tri.ofBool, Tri.or]) hfls]
            · have hjn : isJsonNull (some dv) = false := by cases dv <;> simp_all [isJsonNull]
              have htn : (typeOf dv == "null") = false := by cases dv <;> simp_all [typeOf]
              simp only [hD, hjn, Bool.false_eq_true, if_false] at hs
              have htn' : ¬ typeOf dv = "null" := by simpa using htn
              have hks : typeOf (JVal.str k) = "string" := rfl
              have hko : typeOf (JVal.obj kvs) = "object" := rfl
              rw [exec_if_skipped callF _ _ _ _ _ hcond (by simp [typeTri, typeTriNot, getKey, hK, hD, hks, hko, Tri.ofBool, Tri.or, htn'])]
              have harms := exec_arms_str callF _ k (some dv) hkt (by rw [eval_arrow callF _ _ "Data" hd0]; simp [typeTri, typeTriNot, getKey, hD]) cases
              cases hl : cases.lookup k with
              | none =>
                simp only [hl] at hs; cases hs
                rw [helse _ (by rw [harms, hl]; rfl)]
              | some vf =>
                simp only [hl] at hs
                simp only [execBlock, execStmt, harms, hl, Option.map, hC vf (some dv) r hs]
        | _ =>
          simp only [hK] at hs; cases hs
          rw [exec_if_ret_taken callF _ _ .fls (.bool .ff) _ (by
            rw [eval_or_tt callF _ _ _ (by rw [eval_or callF _ _ _ _ _ hA hB]; simp [typeTri, typeTriNot, getKey, hK, typeOf, Tri.ofBool, Tri.or])]) hfls]
    | _ =>
      simp only [step] at hs; cases hs
      rw [exec_if_ret_taken callF _ _ .fls (.bool .ff) _ (by
        rw [eval_or_tt callF _ _ _ (eval_or_tt callF _ _ _ (by rw [hA]; simp [typeTri, typeTriNot, typeOf, Tri.ofBool]))]) hfls]


/-! ### structs -/

def fieldChain (fields : List (String × String)) (base : Expr) : Expr :=
  fields.foldl (fun acc (p : String × String) => .and acc (.call p.2 (.arrow data p.1))) base

theorem eval_fieldChain (env : List (String × SVal)) (arg : Option JVal)
    (hd : evalExpr callF env data = some (.jb arg)) :
    ∀ (fields : List (String × String)) (base : Expr) (x : Tri) (rs : List Tri),
      evalExpr callF env base = some (.bool x) →
      (fields.mapM fun (p : String × String) => callF p.2 (getKey arg p.1)) = some rs →
      evalExpr callF env (fieldChain fields base) = some (.bool (rs.foldl Tri.and x))
  | [], base, x, rs, hb, hm => by
    simp at hm; subst hm
    simpa [fieldChain] using hb
  | p :: rest, base, x, rs, hb, hm => by
    simp only [List.mapM_cons] at hm
    cases hp : callF p.2 (getKey arg p.1) with
    | none => simp [hp] at hm
    | some y =>
      cases hr : (rest.mapM fun (p : String × String) => callF p.2 (getKey arg p.1)) with
      | none => simp [hp, hr] at hm
      | some rs' =>
        simp [hp, hr] at hm; subst hm
        have hcall : evalExpr callF env (.call p.2 (.arrow data p.1)) = some (.bool y) := by
          rw [eval_call callF env p.2 _ _ (eval_arrow callF env arg p.1 hd), hp]; rfl
        have hstep := eval_and callF env base _ x y hb hcall
        have := eval_fieldChain env arg hd rest (.and base (.call p.2 (.arrow data p.1))) (Tri.and x y) rs' hstep hr
        simpa [fieldChain] using this

theorem eval_keysOk (env : List (String × SVal)) (fields : List (String × String)) (kvs : List (String × JVal))
    (hd : evalExpr callF env data = some (.jb (some (.obj kvs)))) :
    evalExpr callF env (.allEach (if fields.isEmpty then .tru else .inList (.var "key") (fields.map fun p => q p.1)) data) =
      some (.bool (boolAnd (kvs.map fun (p : String × JVal) =>
        if fields.isEmpty || fields.any (·.1 == p.1) then Tri.tt else Tri.ff))) := by
  simp only [evalExpr, hd]
  by_cases he : fields.isEmpty = true
  · simp only [he, if_true, evalExpr, asBool_some_bool, Bool.true_or]
    rw [mapM_some]; rfl
  · have he' : fields.isEmpty = false := by simpa using he
    simp only [he', Bool.false_eq_true, if_false, evalExpr, List.lookup, beq_self_eq_true, asBool_some_bool, Bool.false_or]
    rw [mapM_some]
    simp only [Option.map]
    congr 3
    apply List.map_congr_left
    intro p _
    have : ((fields.map fun p => q p.1).any fun x => x == q p.1) = fields.any (fun f => f.1 == p.1) := by
      rw [List.any_map]
      congr 1
      funext f
      simp only [Function.comp, q_beq]
    rw [this]
    cases fields.any (fun f => f.1 == p.1) <;> rfl

include hC in
theorem run_struct (fn : String) (fields : List (String × String)) (arg : Option JVal) (r : Tri)
    (hs : step cF (.struct fn fields) arg = some r) :
    runFunc callF (astOf (.struct fn fields)) arg = some r := by
  let env : List (String × SVal) := [("is_valid", .bool .nul), ("data", .jb arg)]
  have hd0 : evalExpr callF env data = some (.jb arg) := eval_data callF arg _ (by simp [env, List.lookup])
  have hrun : runFunc callF (astOf (.struct fn fields)) arg =
      (match execBlock callF env
        (Block.cons (.ifThen (typeIsNot data "object") (blk [.ret .fls]) .nil)
        (Block.cons (.assign "is_valid" (fieldChain fields
          (.allEach (if fields.isEmpty then .tru else .inList (.var "key") (fields.map fun p => q p.1)) data)))
        (Block.cons (.ret (.var "is_valid")) .nil))) with
       | .ret (.bool t) => some t | _ => none) := by
    rfl
  rw [hrun]
  have hfin : ∀ (E : Expr) (X : Tri), evalExpr callF env E = some (.bool X) →
      execBlock callF env (Block.cons (.assign "is_valid" E) (Block.cons (.ret (.var "is_valid")) .nil)) = .ret (.bool X) := by
    intro E X hE
    simp [execBlock, execStmt, hE, evalExpr, List.lookup]
  cases arg with
  | none =>
    simp only [step] at hs
    cases hrs : (fields.mapM fun (p : String × String) => cF p.2 none) with
    | none => simp [hrs] at hs
    | some rs =>
      simp [hrs] at hs; subst hs
      have hm := mapM_refines (fun (p : String × String) => cF p.2 none) (fun p => callF p.2 (getKey none p.1))
        (fun p r h => hC p.2 none r h) fields rs hrs
      rw [exec_if_skipped callF _ _ _ _ .nul (eval_typeIsNot callF _ data _ none hd0) (by simp),
          hfin _ _ (eval_fieldChain callF env none hd0 fields _ .nul rs (eval_allEach_null callF _ _ hd0) hm)]
  | some j =>
    cases j with
    | obj kvs =>
      simp only [step] at hs
      cases hrs : (fields.mapM fun (p : String × String) => cF p.2 (kvs.lookup p.1)) with
      | none => simp [hrs] at hs
      | some rs =>
        simp [hrs] at hs; subst hs
        have hm := mapM_refines (fun (p : String × String) => cF p.2 (kvs.lookup p.1)) (fun p => callF p.2 (getKey (some (.obj kvs)) p.1))
          (fun p r h => hC p.2 _ r h) fields rs hrs
        rw [exec_if_skipped callF _ _ _ _ .ff (by rw [eval_typeIsNot callF _ data _ _ hd0]; simp [typeTriNot, typeOf, Tri.ofBool]) (by simp),
            hfin _ _ (eval_fieldChain callF env _ hd0 fields _ _ rs (eval_keysOk callF env fields kvs hd0) hm)]
    | _ =>
      simp only [step] at hs; cases hs
      rw [exec_if_ret_taken callF _ _ .fls (.bool .ff) _ (by rw [eval_typeIsNot callF _ data _ _ hd0]; simp [typeTriNot, typeOf, Tri.ofBool]) (by simp [evalExpr])]


/-! ### the refinement -/

theorem call_succ (script : List PgFunc) (n : Nat) (fn : String) (arg : Option JVal) :
    call script (n + 1) fn arg =
      (match lookupFunc script fn with
       | none => none
       | some fd => step (call script n) fd arg) := by
  rw [call]
  cases lookupFunc script fn with
  | none => rfl
  | some fd =>
    cases arg with
    | none => cases fd <;> rfl
    | some j => cases fd <;> rfl

/-- **the syntax of the templates means what the template-level semantics says**: whenever
`PgGen.call` gives a verdict on a script of well-formed template instances, evaluating the syntax
trees of the same functions (`astOf`) with the semantics of the plpgsql fragment gives the same
verdict -/
theorem C04_ast_refines (script : List PgFunc) (hw : ∀ f ∈ script, wf f = true) :
    ∀ (n : Nat) (fn : String) (arg : Option JVal) (r : Tri),
      call script n fn arg = some r → evalFunc (script.map astOf) n fn arg = some r
  | 0, _, _, _, h => by simp [call] at h
  | n + 1, fn, arg, r, h => by
    have ih : ∀ fn a r, call script n fn a = some r → evalFunc (script.map astOf) n fn a = some r :=
      fun fn a r h => C04_ast_refines script hw n fn a r h
    rw [call_succ] at h
    rw [evalFunc, find_map]
    cases hl : lookupFunc script fn with
    | none => simp [hl] at h
    | some fd =>
      simp only [hl] at h
      have hwf : wf fd = true := by
        apply hw
        simp only [lookupFunc] at hl
        exact List.mem_of_find?_eq_some hl
      simp only [Option.map]
      cases fd with
      | basic f kind => rw [run_basic' _ (call script n)]; exact h
      | enum f kind isInt tuple tid => rw [run_enum _ (call script n) f kind isInt tuple tid arg hwf]; exact h
      | array f e len => exact run_array _ (call script n) ih f e len arg r hwf h
      | map f e => exact run_map _ (call script n) ih f e arg r h
      | struct f fields => exact run_struct _ (call script n) ih f fields arg r h
      | union f cases => exact run_union _ (call script n) ih f cases arg r h

/-- the end-to-end acceptance theorem, on the syntax trees: the CHECK of a covered column, evaluated
by the semantics of the plpgsql fragment on the trees of the generated functions, admits the
document Go writes for every well-typed value -/
theorem C04_check_admits_ast (env : IR.Env) (w : GoJson.Wrappers) (script : List PgFunc) (ds : List IR.Decl)
    (h : E2ESql.fragmentSqlB env w script ds = true) (hw : ∀ f ∈ script, wf f = true) (n : Nat) (t : IR.Ty) (v : GoVal)
    (hin : E2E.TyIn ds t) (hh : ∀ s ∈ E2ESql.subTys t, E2ESql.scriptHas env script s = true) (hnu : E2E.noUnion env t = true)
    (hs : E2E.shapeOk t = true) (hl : E2ESql.lensOk t = true) (ht : E2E.hasType env n t v = true) :
    E2E.Eventually (fun m => admits (evalFunc (script.map astOf) m (fnName env t) (some (encode env w n false t v))) = true) := by
  have := E2ESql.C04_end_to_end script env w ds (E2ESql.fragmentSql_of_check script env w ds h) n t v hin hh hnu hs hl ht
  refine E2E.ev_mono this (fun m hm => ?_)
  obtain ⟨r, hr, hg⟩ := hm
  rw [C04_ast_refines script hw m _ _ r hr]
  rcases hg with rfl | rfl <;> rfl

/-- rejection transfers as well: what the template-level semantics refuses, the syntax refuses -/
theorem C04_reject_ast (script : List PgFunc) (hw : ∀ f ∈ script, wf f = true) (n : Nat) (fn : String) (doc : JVal)
    (h : call script n fn (some doc) = some .ff) :
    admits (evalFunc (script.map astOf) n fn (some doc)) = false := by
  rw [C04_ast_refines script hw n fn _ .ff h]; rfl

end Gomacro.PgAst
