import Gomacro.HttpApi
/-!
# C13 — Every registered HTTP route is extracted with its contract

The supported idiom is given as a *specification syntax* (`Item`, `StmtS`, `RetS`, `Reg`) with a
rendering into syntax trees; the theorems say that the extractor model inverts the rendering:
for every handler written in the idiom — any items, in any order, grouped in assignments in any
way, separated by arbitrary inert statements — the extracted contract is the declared one, and for
every list of registrations the endpoint list has one entry per registration kept by the prefix
filter, in source order, with the folded URL and the verb.
The correspondence runner evaluates the same model on the syntax trees of synthesised route files
and compares it with the real `ParseEcho`, and both with the synthesiser's route table.
-/
namespace Gomacro.HttpApi
open List

/-! ### specification syntax -/

inductive Item
  | bind (ty : String) (byAddr : Bool)
  | query (name : String)
  | queryBool (name : String)
  | queryInt64 (name : String)
  | queryInt (name ty : String)
  | formValue (name : String)
  | formFile (name : String)
  | formJSON (name ty : String)
  deriving DecidableEq, Repr

/-- names and types are not empty (an empty name is ignored by the extractor) -/
def Item.wf : Item → Bool
  | .bind ty _ => ty ≠ ""
  | .query n | .queryBool n | .queryInt64 n | .formValue n | .formFile n => n ≠ ""
  | .queryInt n ty | .formJSON n ty => n ≠ "" && ty ≠ ""

def strLit (s : String) : Node := .mk { cst := some s } []
def identN (n ty : String) : Node := .mk { kind := .ident, name := n, ty := ty } []
def selN (x : Node) (n : String) : Node := .mk { kind := .sel, name := n } [x, .mk { kind := .ident, name := n } []]
def callN (fn : Node) (args : List Node) (ty ty0 : String) : Node := .mk { kind := .call, ty := ty, ty0 := ty0 } (fn :: args)

/-- the call expression of an item; `x` (the echo context), `r` (the receiver of the typed
helpers) and `v` (the bound variable's name) are arbitrary -/
def renderItem (x r : Node) (v : String) : Item → Node
  | .bind ty true => callN (selN x "Bind") [.mk { kind := .addr, ty := "*" ++ ty, elem := ty } [identN v ty]] "error" ""
  | .bind ty false => callN (selN x "Bind") [.mk { kind := .ident, name := v, ty := "*" ++ ty, elem := ty } []] "error" ""
  | .query n => callN (selN x "QueryParam") [strLit n] "string" ""
  | .queryBool n => callN (selN r "QueryParamBool") [x, strLit n] "bool" ""
  | .queryInt64 n => callN (selN r "QueryParamInt64") [x, strLit n] "int64" ""
  | .queryInt n ty => callN (.mk { kind := .index } [identN "QueryParamInt" "", identN ty ""]) [x, strLit n] ("(" ++ ty ++ ", error)") ty
  | .formValue n => callN (selN x "FormValue") [strLit n] "string" ""
  | .formFile n => callN (selN x "FormFile") [strLit n] "(*mime/multipart.FileHeader, error)" "*mime/multipart.FileHeader"
  | .formJSON n ty => callN (identN "FormValueJSON" "") [x, strLit n, .mk { kind := .addr, ty := "*" ++ ty, elem := ty } [identN v ty]] "error" ""

/-- what an item declares -/
def applyItem : Item → Contract → Contract
  | .bind ty _, c => { c with input := ty }
  | .query n, c => { c with query := c.query ++ [(n, "string")] }
  | .queryBool n, c => { c with query := c.query ++ [(n, "bool")] }
  | .queryInt64 n, c => { c with query := c.query ++ [(n, "int64")] }
  | .queryInt n ty, c => { c with query := c.query ++ [(n, ty)] }
  | .formValue n, c => { c with formValues := c.formValues ++ [n] }
  | .formFile n, c => { c with formFile := n }
  | .formJSON n ty, c => { c with formJSON := some (n, ty) }

theorem parseAssign_render (x r : Node) (v : String) (it : Item) (c : Contract) (h : it.wf = true) :
    parseAssign (renderItem x r v it) c = applyItem it c := by
  cases it with
  | bind ty a =>
    have ht : ty ≠ "" := by simpa [Item.wf] using h
    cases a <;>
      simp [parseAssign, renderItem, applyItem, bindCall, callWithString, formValueJSON, calleeName, addQuery,
        callN, selN, identN, Node.kind, Node.a, Node.children, ht]
  | query n =>
    have hn : n ≠ "" := by simpa [Item.wf] using h
    simp [parseAssign, renderItem, applyItem, bindCall, callWithString, formValueJSON, calleeName, addQuery,
      callN, selN, strLit, Node.kind, Node.a, Node.children, hn]
  | queryBool n =>
    have hn : n ≠ "" := by simpa [Item.wf] using h
    simp [parseAssign, renderItem, applyItem, bindCall, callWithString, formValueJSON, calleeName, addQuery,
      callN, selN, strLit, Node.kind, Node.a, Node.children, hn]
  | queryInt64 n =>
    have hn : n ≠ "" := by simpa [Item.wf] using h
    simp [parseAssign, renderItem, applyItem, bindCall, callWithString, formValueJSON, calleeName, addQuery,
      callN, selN, strLit, Node.kind, Node.a, Node.children, hn]
  | queryInt n ty =>
    have hn : n ≠ "" ∧ ty ≠ "" := by simpa [Item.wf] using h
    simp [parseAssign, renderItem, applyItem, bindCall, callWithString, formValueJSON, calleeName, addQuery,
      callN, identN, strLit, Node.kind, Node.a, Node.children, hn.1, hn.2]
  | formValue n =>
    have hn : n ≠ "" := by simpa [Item.wf] using h
    simp [parseAssign, renderItem, applyItem, bindCall, callWithString, formValueJSON, calleeName, addQuery,
      callN, selN, strLit, Node.kind, Node.a, Node.children, hn]
  | formFile n =>
    have hn : n ≠ "" := by simpa [Item.wf] using h
    simp [parseAssign, renderItem, applyItem, bindCall, callWithString, formValueJSON, calleeName, addQuery,
      callN, selN, strLit, Node.kind, Node.a, Node.children, hn]
  | formJSON n ty =>
    have hn : n ≠ "" ∧ ty ≠ "" := by simpa [Item.wf] using h
    simp [parseAssign, renderItem, applyItem, bindCall, callWithString, formValueJSON, calleeName, addQuery,
      callN, identN, strLit, Node.kind, Node.a, Node.children, hn.1, hn.2]

def applyItems (its : List Item) (c : Contract) : Contract := its.foldl (fun c it => applyItem it c) c

theorem parseRhs_render (x r : Node) (v : String) (its : List Item) (c : Contract) (h : ∀ it ∈ its, it.wf = true) :
    parseRhs (its.map (renderItem x r v)) c = applyItems its c := by
  induction its generalizing c with
  | nil => rfl
  | cons it its ih =>
    simp only [parseRhs, List.map_cons, List.foldl_cons, applyItems]
    rw [parseAssign_render x r v it c (h it (by simp))]
    exact ih _ (fun i hi => h i (by simp [hi]))

/-! ### inert syntax: statements the extractor looks through without effect -/

mutual
def inert : Node → Bool
  | .mk a cs =>
    if a.kind = .ret then (match cs with | [r] => r.kind ≠ .call | _ => false)
    else if a.kind = .assign then (cs.drop a.nlhs).all (fun r => r.kind ≠ .call)
    else inertList cs
def inertList : List Node → Bool
  | [] => true
  | n :: ns => inert n && inertList ns
end

theorem parseAssign_noncall (rh : Node) (c : Contract) (h : rh.kind ≠ .call) : parseAssign rh c = c := by
  simp [parseAssign, bindCall, callWithString, formValueJSON, addQuery, h]

theorem parseRhs_noncall (rhs : List Node) (c : Contract) (h : rhs.all (fun r => r.kind ≠ .call) = true) :
    parseRhs rhs c = c := by
  induction rhs generalizing c with
  | nil => rfl
  | cons r rs ih =>
    simp only [List.all_cons, Bool.and_eq_true, decide_eq_true_eq] at h
    simp only [parseRhs, List.foldl_cons]
    rw [parseAssign_noncall r c h.1]
    exact ih c h.2

mutual
theorem body_inert : ∀ (n : Node) (c : Contract), inert n = true → body n c = c
  | .mk a cs, c, h => by
    unfold inert at h
    unfold body
    by_cases h1 : a.kind = .ret
    · simp only [h1, if_true] at h ⊢
      match cs, h with
      | [r], h =>
        have : r.kind ≠ .call := by simpa using h
        simp [parseReturn, this]
    · by_cases h2 : a.kind = .assign
      · simp only [h2, if_true] at h ⊢
        exact parseRhs_noncall _ c h
      · simp only [h1, h2, if_false] at h ⊢
        exact bodyList_inert cs c h
theorem bodyList_inert : ∀ (ns : List Node) (c : Contract), inertList ns = true → bodyList ns c = c
  | [], c, _ => by simp [bodyList]
  | n :: ns, c, h => by
    simp only [inertList, Bool.and_eq_true] at h
    simp only [bodyList]
    rw [body_inert n c h.1]
    exact bodyList_inert ns c h.2
end

theorem bodyList_append (a b : List Node) (c : Contract) : bodyList (a ++ b) c = bodyList b (bodyList a c) := by
  induction a generalizing c with
  | nil => simp [bodyList]
  | cons n ns ih => simp only [List.cons_append, bodyList]; exact ih _

/-! ### statements and handlers of the idiom -/

/-- a statement: arbitrary inert syntax; an assignment whose right-hand sides are item calls
(`a, b := c.QueryParam("x"), c.QueryParam("y")`); or the guarded form
`if err := c.Bind(&in); err != nil { …inert… }` -/
inductive StmtS
  | junk (n : Node)
  | assign (lhs : List Node) (items : List Item)
  | guarded (lhs : List Node) (items : List Item) (cond : Node) (thenBody : List Node)

def StmtS.items : StmtS → List Item
  | .junk _ => []
  | .assign _ its => its
  | .guarded _ its _ _ => its

def StmtS.wf : StmtS → Bool
  | .junk n => inert n
  | .assign _ its => its.all Item.wf
  | .guarded _ its cond tb => its.all Item.wf && inert cond && inertList tb

def assignN (x r : Node) (v : String) (lhs : List Node) (its : List Item) : Node :=
  .mk { kind := .assign, nlhs := lhs.length } (lhs ++ its.map (renderItem x r v))

def renderStmt (x r : Node) (v : String) : StmtS → Node
  | .junk n => n
  | .assign lhs its => assignN x r v lhs its
  | .guarded lhs its cond tb => .mk {} [assignN x r v lhs its, cond, .mk {} tb]

theorem body_assignN (x r : Node) (v : String) (lhs : List Node) (its : List Item) (c : Contract)
    (h : its.all Item.wf = true) : body (assignN x r v lhs its) c = applyItems its c := by
  unfold assignN body
  simp only [reduceCtorEq, if_false, if_true, List.drop_left]
  exact parseRhs_render x r v its c (by simpa using h)

theorem body_renderStmt (x r : Node) (v : String) (s : StmtS) (c : Contract) (h : s.wf = true) :
    body (renderStmt x r v s) c = applyItems s.items c := by
  cases s with
  | junk n => exact body_inert n c h
  | assign lhs its => exact body_assignN x r v lhs its c h
  | guarded lhs its cond tb =>
    simp only [StmtS.wf, Bool.and_eq_true] at h
    simp only [renderStmt, StmtS.items]
    unfold body
    simp only [reduceCtorEq, if_false, bodyList]
    rw [body_assignN x r v lhs its c h.1.1, body_inert cond _ h.1.2]
    have : inert (.mk {} tb) = true := by unfold inert; simpa using h.2
    exact body_inert _ _ this

theorem applyItems_append (a b : List Item) (c : Contract) : applyItems (a ++ b) c = applyItems b (applyItems a c) := by
  simp [applyItems, List.foldl_append]

theorem bodyList_stmts (x r : Node) (v : String) (ss : List StmtS) (c : Contract) (h : ∀ s ∈ ss, s.wf = true) :
    bodyList (ss.map (renderStmt x r v)) c = applyItems (ss.flatMap StmtS.items) c := by
  induction ss generalizing c with
  | nil => rfl
  | cons s ss ih =>
    simp only [List.map_cons, bodyList, List.flatMap_cons, applyItems_append]
    rw [body_renderStmt x r v s c (h s (by simp))]
    exact ih _ (fun t ht => h t (by simp [ht]))

/-- the final return statement -/
inductive RetS
  /-- `return c.JSON(200, out)` / `JSONPretty`, `out` a variable or a composite literal of type `ty` -/
  | json (pretty composite : Bool) (ty : String)
  /-- `return c.Blob(200, name, bytes)` -/
  | blob (ty : String)
  /-- `return nil` / `return err` -/
  | plain (e : Node)

def RetS.wf : RetS → Bool
  | .json _ _ ty => ty ≠ ""
  | .blob ty => ty ≠ ""
  | .plain e => e.kind ≠ .call

def renderRet (x code : Node) (v : String) : RetS → Node
  | .json p comp ty =>
    .mk { kind := .ret } [callN (selN x (if p then "JSONPretty" else "JSON"))
      ([code, if comp then .mk { kind := .composite, ty := ty } [] else identN v ty] ++ if p then [strLit " "] else []) "error" ""]
  | .blob ty => .mk { kind := .ret } [callN (selN x "Blob") [code, strLit "", identN v ty] "error" ""]
  | .plain e => .mk { kind := .ret } [e]

def applyRet : RetS → Contract → Contract
  | .json _ _ ty, c => { c with ret := ty }
  | .blob ty, c => { c with ret := ty, blob := true }
  | .plain _, c => c

theorem body_renderRet (x code : Node) (v : String) (r : RetS) (c : Contract) (h : r.wf = true) :
    body (renderRet x code v r) c = applyRet r c := by
  cases r with
  | json p comp ty =>
    have ht : ty ≠ "" := by simpa [RetS.wf] using h
    cases p <;> cases comp <;>
      simp [renderRet, body, parseReturn, applyRet, callN, selN, identN, Node.kind, Node.a, Node.children, ht]
  | blob ty =>
    have ht : ty ≠ "" := by simpa [RetS.wf] using h
    simp [renderRet, body, parseReturn, applyRet, callN, selN, identN, Node.kind, Node.a, Node.children, ht]
  | plain e =>
    have he : e.kind ≠ .call := by simpa [RetS.wf] using h
    simp [renderRet, body, parseReturn, applyRet, he]

/-- a handler of the idiom: statements, then the return -/
structure HandlerS where
  stmts : List StmtS
  ret : RetS

def HandlerS.wf (hs : HandlerS) : Bool := hs.stmts.all StmtS.wf && hs.ret.wf
def HandlerS.items (hs : HandlerS) : List Item := hs.stmts.flatMap StmtS.items

def renderHandler (x r code : Node) (v : String) (hs : HandlerS) : Node :=
  .mk {} (hs.stmts.map (renderStmt x r v) ++ [renderRet x code v hs.ret])

/-- **C13 (contract)**: the contract extracted from a handler of the idiom is the declared one -/
theorem C13_contract (x r code : Node) (v name : String) (hs : HandlerS) (h : hs.wf = true) :
    body (renderHandler x r code v hs) { name := name } = applyRet hs.ret (applyItems hs.items { name := name }) := by
  simp only [HandlerS.wf, Bool.and_eq_true, List.all_eq_true] at h
  unfold renderHandler body
  simp only [reduceCtorEq, if_false, bodyList_append, bodyList]
  rw [bodyList_stmts x r v hs.stmts _ h.1, body_renderRet x code v hs.ret _ h.2]
  rfl

/-! ### the declared contract, field by field -/

def Item.queryOf : Item → Option (String × String)
  | .query n => some (n, "string")
  | .queryBool n => some (n, "bool")
  | .queryInt64 n => some (n, "int64")
  | .queryInt n ty => some (n, ty)
  | _ => none
def Item.formValueOf : Item → Option String | .formValue n => some n | _ => none
def Item.bindOf : Item → Option String | .bind ty _ => some ty | _ => none
def Item.fileOf : Item → Option String | .formFile n => some n | _ => none
def Item.jsonOf : Item → Option (String × String) | .formJSON n ty => some (n, ty) | _ => none

/-- **query parameters**: exactly the declared ones, in source order, with their types -/
theorem C13_query (its : List Item) (c : Contract) :
    (applyItems its c).query = c.query ++ its.filterMap Item.queryOf := by
  induction its generalizing c with
  | nil => simp [applyItems]
  | cons it its ih =>
    simp only [applyItems, List.foldl_cons] at ih ⊢
    rw [ih]
    cases it <;> simp [applyItem, Item.queryOf, List.filterMap_cons]

/-- **form values**: exactly the declared ones, in source order -/
theorem C13_form_values (its : List Item) (c : Contract) :
    (applyItems its c).formValues = c.formValues ++ its.filterMap Item.formValueOf := by
  induction its generalizing c with
  | nil => simp [applyItems]
  | cons it its ih =>
    simp only [applyItems, List.foldl_cons] at ih ⊢
    rw [ih]
    cases it <;> simp [applyItem, Item.formValueOf, List.filterMap_cons]

/-- **bound input**: the type of the (last) bound variable; none when nothing is bound -/
theorem C13_input (its : List Item) (c : Contract) :
    (applyItems its c).input = ((its.filterMap Item.bindOf).getLast?).getD c.input := by
  induction its generalizing c with
  | nil => simp [applyItems]
  | cons it its ih =>
    simp only [applyItems, List.foldl_cons] at ih ⊢
    rw [ih]
    cases it <;> simp [applyItem, Item.bindOf, List.getLast?_cons, List.filterMap_cons]
    all_goals cases (filterMap Item.bindOf its).getLast? <;> rfl

theorem C13_form_file (its : List Item) (c : Contract) :
    (applyItems its c).formFile = ((its.filterMap Item.fileOf).getLast?).getD c.formFile := by
  induction its generalizing c with
  | nil => simp [applyItems]
  | cons it its ih =>
    simp only [applyItems, List.foldl_cons] at ih ⊢
    rw [ih]
    cases it <;> simp [applyItem, Item.fileOf, List.getLast?_cons, List.filterMap_cons]
    all_goals cases (filterMap Item.fileOf its).getLast? <;> rfl

theorem C13_form_json (its : List Item) (c : Contract) :
    (applyItems its c).formJSON = ((its.filterMap Item.jsonOf).getLast?).or c.formJSON := by
  induction its generalizing c with
  | nil => simp [applyItems]
  | cons it its ih =>
    simp only [applyItems, List.foldl_cons] at ih ⊢
    rw [ih]
    cases it <;> simp [applyItem, Item.jsonOf, List.getLast?_cons, List.filterMap_cons]
    all_goals cases (filterMap Item.jsonOf its).getLast? <;> rfl

/-- items never raise the crash flag, never touch the name, the return type or the blob flag -/
theorem C13_items_frame (its : List Item) (c : Contract) :
    (applyItems its c).crashed = c.crashed ∧ (applyItems its c).name = c.name ∧
    (applyItems its c).ret = c.ret ∧ (applyItems its c).blob = c.blob := by
  induction its generalizing c with
  | nil => simp [applyItems]
  | cons it its ih =>
    simp only [applyItems, List.foldl_cons] at ih ⊢
    rw [(ih _).1, (ih _).2.1, (ih _).2.2.1, (ih _).2.2.2]
    cases it <;> simp [applyItem]

/-- **no crash**: the extractor does not panic on a handler of the idiom -/
theorem C13_no_crash (x r code : Node) (v name : String) (hs : HandlerS) (h : hs.wf = true) :
    (body (renderHandler x r code v hs) { name := name }).crashed = false := by
  rw [C13_contract x r code v name hs h]
  cases hr : hs.ret <;> simp [applyRet, (C13_items_frame hs.items { name := name }).1]

/-! ### handler resolution -/

theorem C13_resolve_method (fs : Funcs) (p t m : String) (xa : Attr) (b : Node) (hk : xa.kind = .ident)
    (ho : xa.obj = .var p t) (hl : fs.lookup (p, t, m) = some b) :
    resolveHandler fs (selN (.mk xa []) m) = some (b, m) := by
  simp [resolveHandler, selN, Node.kind, Node.a, Node.children, hk, ho, hl]

theorem C13_resolve_imported (fs : Funcs) (p m : String) (xa : Attr) (b : Node) (hk : xa.kind = .ident)
    (ho : xa.obj = .pkgName p) (hl : fs.lookup (p, "", m) = some b) :
    resolveHandler fs (selN (.mk xa []) m) = some (b, m) := by
  simp [resolveHandler, selN, Node.kind, Node.a, Node.children, hk, ho, hl]

theorem C13_resolve_func (fs : Funcs) (p m : String) (a : Attr) (b : Node) (hk : a.kind = .ident)
    (ho : a.obj = .func p m) (hl : fs.lookup (p, "", m) = some b) :
    resolveHandler fs (.mk a []) = some (b, m) := by
  simp [resolveHandler, Node.kind, Node.a, hk, ho, hl]

theorem C13_resolve_literal (fs : Funcs) (a : Attr) (sig b : Node) (hk : a.kind = .funcLit) :
    resolveHandler fs (.mk a [sig, b]) = some (b, "Anonymous" ++ toString a.pos) := by
  simp [resolveHandler, Node.kind, Node.a, Node.children, hk]

/-! ### file level -/

/-- a registration `e.VERB(url, handler)`; `res` is what the handler resolves to -/
structure Reg where
  verb : String
  url : String
  urlNode : Node
  handler : Node
  recv : Node
  extra : List Node := []

def Reg.wf (fs : Funcs) (r : Reg) : Prop :=
  isVerb r.verb = true ∧ r.urlNode.a.cst = some r.url ∧ (resolveHandler fs r.handler).isSome

/-- the expression statement of a registration -/
def renderReg (r : Reg) : Node :=
  .mk {} [.mk { kind := .call } (selN r.recv r.verb :: r.urlNode :: r.handler :: r.extra)]

def Reg.kept (pre : String) (r : Reg) : Bool := pre = "" || r.url.startsWith pre

def Reg.endpoint (fs : Funcs) (r : Reg) : Endpoint :=
  match resolveHandler fs r.handler with
  | some (b, name) => ⟨r.url, r.verb, body b { name := name }⟩
  | none => ⟨r.url, r.verb, { name := "" }⟩

theorem verbCall_reg (recv url h : Node) (extra : List Node) (verb : String) (hv : isVerb verb = true) :
    verbCall { kind := .call } (selN recv verb :: url :: h :: extra) = some (verb, url, h) := by
  simp [verbCall, selN, Node.kind, Node.a, hv]

theorem scan_reg (fs : Funcs) (pre : String) (r : Reg) (acc : Acc) (h : r.wf fs) :
    (scan fs pre (renderReg r) acc).out = acc.out ++ (if r.kept pre then [r.endpoint fs] else []) := by
  obtain ⟨hv, hu, hr⟩ := h
  have h0 : verbCall {} [Node.mk { kind := .call } (selN r.recv r.verb :: r.urlNode :: r.handler :: r.extra)] = none := by
    simp [verbCall]
  unfold renderReg scan
  simp only [h0, scanList]
  unfold scan
  simp only [verbCall_reg _ _ _ _ _ hv, register, hu]
  cases hh : resolveHandler fs r.handler with
  | none => simp [hh] at hr
  | some p =>
    obtain ⟨b, name⟩ := p
    by_cases hk : pre = ""
    · simp [hk, Reg.kept, Reg.endpoint, hh]
    · by_cases hp : r.url.startsWith pre = true
      · simp [hk, hp, Reg.kept, Reg.endpoint, hh]
      · simp [hk, hp, Reg.kept]

/-- **C13 (routes)**: one endpoint per registration kept by the prefix filter, in source order,
with the verb and the constant-folded URL; inert statements in between change nothing -/
theorem C13_routes (fs : Funcs) (pre : String) (regs : List Reg) (acc : Acc) (h : ∀ r ∈ regs, r.wf fs) :
    (scanList fs pre (regs.map renderReg) acc).out = acc.out ++ (regs.filter (Reg.kept pre)).map (Reg.endpoint fs) := by
  induction regs generalizing acc with
  | nil => simp [scanList]
  | cons r rs ih =>
    simp only [List.map_cons, scanList]
    rw [ih _ (fun t ht => h t (by simp [ht])), scan_reg fs pre r acc (h r (by simp))]
    by_cases hk : r.kept pre = true
    · simp [hk]
    · simp [hk]

/-- **prefix filter**: exactly the routes whose URL has the prefix -/
theorem C13_prefix (pre : String) (r : Reg) (hp : pre ≠ "") : r.kept pre = r.url.startsWith pre := by
  simp [Reg.kept, hp]

/-- non-vacuity: a concrete handler of the idiom and its contract -/
example :
    body (renderHandler (identN "c" "echo.Context") (identN "ct" "controller") (strLit "") "v"
      { stmts := [.guarded [identN "err" "error"] [.bind "In" true] (.mk {} []) [.mk { kind := .ret } [identN "err" "error"]],
                  .assign [identN "a" "", identN "b" ""] [.query "x", .queryInt "id" "IdDossier"],
                  .junk (.mk {} [identN "fmt" ""]),
                  .assign [identN "f" ""] [.formFile "file"]],
        ret := .json false false "Out" }) { name := "h" }
    = { name := "h", input := "In", ret := "Out", query := [("x", "string"), ("id", "IdDossier")], formFile := "file" } := by
  rw [C13_contract _ _ _ _ _ _ (by decide)]
  rfl

end Gomacro.HttpApi
