import Gomacro.TsGen
/-!
# C03 — Every JSON document Go emits inhabits the generated TypeScript type

`inhabits` (Gomacro/TsGen.lean) is the structural semantics of the emitted types: exact objects,
erased brands, `Record<K,V>`, tuples, literal unions.  The theorems below are the compositional
steps of the inhabitation argument — one per type constructor the generator emits — for every
environment, value and document; the end-to-end statement for a whole program is evaluated by the
same `inhabits` on every real document of the correspondence run (the TS semantics is trusted:
no TypeScript compiler exists in the sandbox).
-/
namespace Gomacro.TsGen
open List Gomacro.IR Gomacro.GoJson

variable (tenv : List (String × TsType))

/-- **nil slices and nil maps**: Go writes `null`, and the generated reference type accepts it -/
theorem C03_nil_slice (f : Nat) (e : TsType) : inhabits tenv (f + 2) (.union [.arr e, .null]) .null = true := by
  simp [inhabits]

theorem C03_nil_map (f : Nat) (k v : TsType) : inhabits tenv (f + 2) (.union [.record k v, .null]) .null = true := by
  simp [inhabits]

/-- **slices**: an array all of whose elements inhabit the element type inhabits `( T[] | null)` -/
theorem C03_slice (f : Nat) (e : TsType) (l : List JVal) (h : ∀ x ∈ l, inhabits tenv f e x = true) :
    inhabits tenv (f + 2) (.union [.arr e, .null]) (.arr l) = true := by
  simp only [inhabits, List.any_cons, List.any_nil, Bool.or_false, List.all_eq_true]
  exact h

/-- **fixed arrays**: tuple aliases accept exactly the arrays of the declared length -/
theorem C03_tuple_length (f : Nat) (es : List TsType) (l : List JVal)
    (h : inhabits tenv (f + 1) (.tuple es) (.arr l) = true) : l.length = es.length := by
  simp only [inhabits, Bool.and_eq_true, beq_iff_eq] at h
  exact h.1.symm

theorem C03_tuple_wrong_length (f : Nat) (es : List TsType) (l : List JVal) (h : l.length ≠ es.length) :
    inhabits tenv (f + 1) (.tuple es) (.arr l) = false := by
  simp only [inhabits, Bool.and_eq_false_iff, beq_eq_false_iff_ne, ne_eq]
  left; exact fun e => h e.symm

/-- **maps**: an object whose keys read at the key type and whose values inhabit the element type -/
theorem C03_map (f : Nat) (k v : TsType) (kvs : List (String × JVal))
    (h : ∀ p ∈ kvs, keyParses tenv f k p.1 = true ∧ inhabits tenv f v p.2 = true) :
    inhabits tenv (f + 2) (.union [.record k v, .null]) (.obj kvs) = true := by
  simp only [inhabits, List.any_cons, List.any_nil, Bool.or_false, List.all_eq_true,
    Bool.and_eq_true]
  intro p hp
  exact h p hp

/-- **brands** (`Int`, `Time`, `Date_`, named integers) are erased: same inhabitants as the base -/
theorem C03_brand (f : Nat) (b : TsType) (tag : String) (j : JVal) :
    inhabits tenv (f + 1) (.brand b tag) j = inhabits tenv f b j := by
  simp [inhabits]

/-- **names**: a reference has the inhabitants of the declaration it resolves to -/
theorem C03_ref (f : Nat) (n : String) (t : TsType) (j : JVal) (h : tenv.lookup n = some t) :
    inhabits tenv (f + 1) (.ref n) j = inhabits tenv f t j := by
  simp [inhabits, h]

/-- an undeclared name has no inhabitant (so a non-closed output is never satisfied) -/
theorem C03_undeclared_ref (f : Nat) (n : String) (j : JVal) (h : tenv.lookup n = none) :
    inhabits tenv (f + 1) (.ref n) j = false := by
  simp [inhabits, h]

/-- **structs**: objects are exact — every declared property present with an inhabitant, no other key -/
theorem C03_object_exact (f : Nat) (fs : List (String × TsType)) (kvs : List (String × JVal)) :
    inhabits tenv (f + 1) (.obj fs) (.obj kvs) = true ↔
      ((∀ p ∈ fs, ∃ x, kvs.lookup p.1 = some x ∧ inhabits tenv f p.2 x = true) ∧
       (∀ q ∈ kvs, ∃ p ∈ fs, p.1 = q.1)) := by
  simp only [inhabits, Bool.and_eq_true, List.all_eq_true, List.any_eq_true, beq_iff_eq]
  constructor
  · rintro ⟨h1, h2⟩
    refine ⟨?_, ?_⟩
    · intro p hp
      have := h1 p hp
      cases hl : kvs.lookup p.1 with
      | none => simp [hl] at this
      | some x => exact ⟨x, rfl, by simpa [hl] using this⟩
    · intro q hq
      obtain ⟨p, hp, e⟩ := h2 q hq
      exact ⟨p, hp, e⟩
  · rintro ⟨h1, h2⟩
    refine ⟨?_, ?_⟩
    · intro p hp
      obtain ⟨x, hx, hi⟩ := h1 p hp
      simp [hx, hi]
    · intro q hq
      obtain ⟨p, hp, e⟩ := h2 q hq
      exact ⟨p, hp, e⟩

/-- a missing property (what `omitempty` produces) is refused — recorded finding, as a theorem -/
theorem C03_missing_property_refused (f : Nat) (k : String) (t : TsType) (fs : List (String × TsType))
    (kvs : List (String × JVal)) (h : kvs.lookup k = none) :
    inhabits tenv (f + 1) (.obj ((k, t) :: fs)) (.obj kvs) = false := by
  simp [inhabits, h]

/-- **unions**: `{"Kind": m, "Data": d}` inhabits the union type as soon as `d` inhabits the
declared type of member `m` -/
theorem C03_union_member (f : Nat) (ms : List (String × String × TsType)) (tn lname : String)
    (data : TsType) (d : JVal) (hm : (tn, lname, data) ∈ ms) (hd : inhabits tenv (f + 1) data d = true) :
    inhabits tenv (f + 3)
      (.union (ms.map fun (_, l, dt) => .obj [("Kind", .litStr l), ("Data", dt)]))
      (.obj [("Data", d), ("Kind", .str lname)]) = true := by
  simp only [inhabits, List.any_eq_true, List.mem_map]
  refine ⟨.obj [("Kind", .litStr lname), ("Data", data)], ⟨(tn, lname, data), hm, rfl⟩, ?_⟩
  apply (C03_object_exact tenv (f + 1) _ _).mpr
  constructor
  · intro p hp
    simp only [List.mem_cons, List.not_mem_nil, or_false] at hp
    rcases hp with rfl | rfl
    · exact ⟨.str lname, by simp [List.lookup], by simp [inhabits]⟩
    · exact ⟨d, by simp [List.lookup], hd⟩
  · intro q hq
    simp only [List.mem_cons, List.not_mem_nil, or_false] at hq
    rcases hq with rfl | rfl
    · exact ⟨("Data", data), by simp, rfl⟩
    · exact ⟨("Kind", .litStr lname), by simp, rfl⟩

/-- an unknown Kind inhabits no alternative -/
theorem C03_unknown_kind (f : Nat) (ms : List (String × String × TsType)) (k : String) (d : JVal)
    (h : ∀ m ∈ ms, m.2.1 ≠ k) :
    inhabits tenv (f + 3)
      (.union (ms.map fun (_, l, dt) => .obj [("Kind", .litStr l), ("Data", dt)]))
      (.obj [("Data", d), ("Kind", .str k)]) = false := by
  simp only [inhabits, List.any_eq_false, List.mem_map]
  rintro t ⟨m, hm, rfl⟩
  have hne := h m hm
  simp [inhabits, List.lookup, hne]

/-- **enums**: the enum type is the union of its members' literals; a member's value inhabits it -/
theorem C03_enum_member (f : Nat) (lits : List TsType) (lit : TsType) (j : JVal) (hm : lit ∈ lits)
    (hl : inhabits tenv f lit j = true) : inhabits tenv (f + 1) (.union lits) j = true := by
  simp only [inhabits, List.any_eq_true]
  exact ⟨lit, hm, hl⟩

/-- **well-formed output**: when `closedOnce` holds every name mentioned by a declared type is
declared, and no name is declared twice -/
theorem C03_closed (decls : List (String × TsDecl)) (h : closedOnce decls = true) :
    let byId := decls.foldl (fun acc (p : String × TsDecl) => if acc.any (·.1 == p.1) then acc else acc ++ [p]) []
    (∀ p ∈ tsEnvOf byId, ∀ n ∈ tyNames p.2, n ∈ (tsEnvOf byId).map (·.1)) ∧
    ((tsEnvOf byId).map (·.1)).eraseDups.length = ((tsEnvOf byId).map (·.1)).length := by
  unfold closedOnce at h
  simp only [Bool.and_eq_true, List.all_eq_true, beq_iff_eq] at h
  refine ⟨?_, h.2⟩
  intro p hp n hn
  have := h.1 p hp n hn
  simpa using this

end Gomacro.TsGen
