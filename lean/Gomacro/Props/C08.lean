import Gomacro.PgTables
/-!
# C08 — The SQL schema is a faithful image of the table structs

The clauses of the documented Go→SQL mapping, as theorems about the schema model
(`Gomacro/PgTables.lean`), which the correspondence runner compares token-wise with the real
CREATE TABLE / CREATE TYPE / ALTER TABLE statements on every synthesised model file.
-/
namespace Gomacro.PgTables
open List Gomacro.IR Gomacro.PgGen

/-! ### type mapping -/

theorem C08_bool (env : Env) (f : Nat) (n : String) : newType env (f + 1) (.basic n .bool) = some (.builtin "boolean" false) := rfl

theorem C08_small_int (env : Env) (f : Nat) (n : String) (h : n = "int16" ∨ n = "uint8") :
    newType env (f + 1) (.basic n .int) = some (.builtin "smallint" false) := by
  rcases h with rfl | rfl <;> simp [newType, basicTypeName]

theorem C08_integer (env : Env) (f : Nat) (n : String) (h1 : n ≠ "int16") (h2 : n ≠ "uint8") (h3 : n ≠ "byte") :
    newType env (f + 1) (.basic n .int) = some (.builtin "integer" false) := by
  simp [newType, basicTypeName, h1, h2, h3]

theorem C08_real (env : Env) (f : Nat) (n : String) : newType env (f + 1) (.basic n .float) = some (.builtin "real" false) := rfl
theorem C08_text (env : Env) (f : Nat) (n : String) : newType env (f + 1) (.basic n .str) = some (.builtin "text" false) := rfl

theorem C08_time (env : Env) (f : Nat) :
    newType env (f + 1) (.time false) = some (.builtin "timestamp (0) with time zone" false) ∧
    newType env (f + 1) (.time true) = some (.builtin "date" false) := ⟨rfl, rfl⟩

theorem C08_bytea (env : Env) (f : Nat) (bk : BKind) :
    newType env (f + 1) (.arr (-1) (.basic "uint8" bk)) = some (.builtin "bytea" false) := by
  simp [newType]

theorem C08_typed_array (env : Env) (f : Nat) (len : Int) (n : String) (bk : BKind) (h1 : n ≠ "uint8") (h2 : n ≠ "byte") :
    newType env (f + 1) (.arr len (.basic n bk)) = some (.array (basicTypeName n bk ++ "[]") len) := by
  simp [newType, h1, h2]

theorem C08_map_json (env : Env) (f : Nat) (k e : Ty) : newType env (f + 1) (.map k e) = some .json := rfl

theorem C08_pointer_refused (env : Env) (f : Nat) (e : Ty) : newType env (f + 1) (.ptr e) = none := rfl

theorem C08_union_json (env : Env) (f : Nat) (q : String) (d : Decl) (ms : List Ty)
    (hd : env.find? q = some d) (hb : d.body = .union ms) : newType env (f + 1) (.ref q) = some .json := by
  simp [newType, hd, hb]

theorem C08_enum (env : Env) (f : Nat) (q : String) (d : Decl) (u : String) (bk : BKind) (ms : List Member) (io : Bool)
    (hd : env.find? q = some d) (hb : d.body = .enum u bk ms io) : newType env (f + 1) (.ref q) = some (.enum q) := by
  simp [newType, hd, hb]

/-- an all-integer struct (which is not a nullable wrapper) is a composite type, any other struct is jsonb -/
theorem C08_struct (env : Env) (f : Nat) (q : String) (d : Decl) (fs : List Field) (cs im)
    (hd : env.find? q = some d) (hb : d.body = .struct fs cs im) (hn : nullXXX fs = none) :
    newType env (f + 1) (.ref q) =
      if fs.all (fun fl => isIntField env fl.ty) then some (.composite q) else some .json := by
  simp [newType, hd, hb, hn]

/-- a nullable wrapper over a basic type is the basic SQL type, nullable -/
theorem C08_null_wrapper (env : Env) (f : Nat) (q : String) (d : Decl) (fs : List Field) (cs im)
    (data : Field) (n : String) (bk : BKind)
    (hd : env.find? q = some d) (hb : d.body = .struct fs cs im) (hn : nullXXX fs = some data)
    (ht : data.ty = .basic n bk) (hk : bk ≠ .none) :
    newType env (f + 1) (.ref q) = some (.builtin (basicTypeName n bk) true) := by
  simp [newType, hd, hb, hn, ht, hk]

/-! ### nullability and per-type CHECKs -/

/-- does the column constraint of this SQL type contain NOT NULL? -/
def hasNotNull : SqlType → Bool
  | .builtin _ nullable => !nullable
  | .array _ len => len ≥ 0
  | _ => true

/-- the constraint text is some per-type CHECK followed by NOT NULL exactly when `hasNotNull` -/
theorem C08_constraint_shape (env : Env) (c : Column) :
    ∃ pre, typeConstraint env c = pre ++ (if hasNotNull c.sql then "NOT NULL" else "") := by
  unfold typeConstraint
  cases hs : c.sql with
  | builtin n nullable => cases nullable <;> exact ⟨"", by simp [hasNotNull]⟩
  | enum q => exact ⟨" CHECK (" ++ c.name ++ " IN " ++ enumTuple env q ++ ") ", by simp [hasNotNull, String.append_assoc]⟩
  | array n len =>
    by_cases hl : len ≥ 0
    · exact ⟨" CHECK (array_length(" ++ c.name ++ ", 1) = " ++ toString len ++ ") ", by simp [hasNotNull, hl, String.append_assoc]⟩
    · exact ⟨"", by simp [hasNotNull, hl]⟩
  | composite q => exact ⟨"", by simp [hasNotNull]⟩
  | json => exact ⟨"", by simp [hasNotNull]⟩

/-- **NOT NULL rule**: a column is NOT NULL unless its Go type is a nullable wrapper or maps to a
variable-length SQL array -/
theorem C08_not_null_rule (st : SqlType) :
    hasNotNull st = false ↔ ((∃ n, st = .builtin n true) ∨ (∃ n len, st = .array n len ∧ len < 0)) := by
  cases st with
  | builtin n nullable => cases nullable <;> simp [hasNotNull]
  | enum q => simp [hasNotNull]
  | array n len =>
    simp only [hasNotNull, decide_eq_false_iff_not, ge_iff_le, Int.not_le, reduceCtorEq, exists_false,
      false_or, SqlType.array.injEq]
    constructor
    · intro h; exact ⟨n, len, ⟨rfl, rfl⟩, h⟩
    · rintro ⟨_, _, ⟨_, rfl⟩, h⟩; exact h
  | composite q => simp [hasNotNull]
  | json => simp [hasNotNull]

/-- enum columns carry a CHECK listing the enum's constants; fixed arrays a length CHECK -/
theorem C08_enum_check (env : Env) (c : Column) (q : String) (h : c.sql = .enum q) :
    typeConstraint env c = " CHECK (" ++ c.name ++ " IN " ++ enumTuple env q ++ ") NOT NULL" := by
  simp [typeConstraint, h]

theorem C08_length_check (env : Env) (c : Column) (n : String) (len : Int) (h : c.sql = .array n len) (hl : 0 ≤ len) :
    typeConstraint env c = " CHECK (array_length(" ++ c.name ++ ", 1) = " ++ toString len ++ ") NOT NULL" := by
  simp [typeConstraint, h, hl]

/-- the id field is a serial primary key, whatever its Go type -/
theorem C08_primary (env : Env) (c : Column) : columnLine env true c = c.name ++ " serial PRIMARY KEY" := by
  simp [columnLine]

/-! ### columns and foreign keys -/

theorem mapM_option_names (env : Env) : ∀ (l : List Field) (cols : List Column),
    l.mapM (fun f => (newType env 16 f.ty).map fun st => ({ name := f.name, ty := f.ty, tag := f.tag, sql := st } : Column)) = some cols →
    cols.map (·.name) = l.map (·.name)
  | [], cols, h => by
    have : cols = [] := by simpa [List.mapM_nil, pure] using h.symm
    subst this; rfl
  | f :: l, cols, h => by
    rw [List.mapM_cons] at h
    cases hf : newType env 16 f.ty with
    | none => simp [hf, bind, Option.bind] at h
    | some st =>
      cases hr : l.mapM (fun f => (newType env 16 f.ty).map fun st => ({ name := f.name, ty := f.ty, tag := f.tag, sql := st } : Column)) with
      | none => simp [hf, hr, bind, Option.bind] at h
      | some rest =>
        simp [hf, hr, bind, Option.bind, pure] at h
        subst h
        simp [mapM_option_names env l rest hr]

/-- one column per exported or guard field, in field order -/
theorem C08_columns_in_order (env : Env) (fs : List Field) (cols : List Column) (h : columns env fs = some cols) :
    cols.map (·.name) = (fs.filter fun f => isGuard f || f.goExported).map (·.name) :=
  mapM_option_names env _ cols h

theorem fkOf_field (env : Env) (table : String) (c : Column) (fk : ForeignKey)
    (h : fkOf env table c = some fk) : fk.field = c.name := by
  unfold fkOf at h
  simp only at h
  split at h
  · split at h
    · simp at h; rw [← h]
    · split at h
      · simp at h; rw [← h]
      · simp at h
  · split at h
    · simp at h; rw [← h]
    · simp at h

/-- **at most one FOREIGN KEY per field**, and only on columns of the table -/
theorem C08_fk_per_field (env : Env) (table : String) (cols : List Column) :
    ((foreignKeys env table cols).map (·.field)).Sublist (cols.map (·.name)) := by
  unfold foreignKeys
  induction cols with
  | nil => simp
  | cons c cs ih =>
    simp only [List.filterMap_cons, List.map_cons]
    cases hfk : fkOf env table c with
    | none => exact ih.cons _
    | some fk =>
      simp only [List.map_cons, fkOf_field env table c fk hfk]
      exact ih.cons_cons _

/-- the foreign key of an ID-typed field targets the table named by the ID type, with the tagged
ON DELETE action -/
theorem C08_fk_target (env : Env) (table : String) (c : Column) (t : String)
    (h : tableIdTarget env c.ty = some t) (h1 : t ≠ "") (h2 : t ≠ table) :
    fkOf env table c = some ⟨c.name, t, Tags.get c.tag "gomacro-sql-on-delete"⟩ := by
  simp [fkOf, h, h1, h2]

/-- a field tagged `gomacro-sql-foreign:"T"` (and not of an ID type) references table T -/
theorem C08_fk_tag (env : Env) (table : String) (c : Column)
    (h : tableIdTarget env c.ty = none) (ht : Tags.get c.tag "gomacro-sql-foreign" ≠ "") :
    fkOf env table c = some ⟨c.name, Tags.get c.tag "gomacro-sql-foreign", Tags.get c.tag "gomacro-sql-on-delete"⟩ := by
  simp [fkOf, h, ht]

end Gomacro.PgTables
