import Gomacro.Lemmas.Decls
import Gomacro.Props.C19
import Gomacro.Facts.Generated
/-!
# C07 — Generation is deterministic

Go randomises map iteration order.  Every `range` over a map in /repo's non-test code is listed
(regenerated from the sources on every run) together with the reason why its visit order cannot
reach an output; each reason is one of the permutation-invariance theorems below, where the
iteration order is an arbitrary permutation of the entries.
-/
namespace Gomacro.MapRange
open List Gomacro.Decls

/-- **sort after range** (`OutputFiles`, dart imports, config file list, `Cache.Imports` after the
repair): sorting strings erases the visit order. -/
theorem sort_perm_invariant (l₁ l₂ : List String) (h : l₁.Perm l₂) :
    l₁.mergeSort (fun a b => decide (a ≤ b)) = l₂.mergeSort (fun a b => decide (a ≤ b)) := by
  have tr : ∀ (a b c : String), decide (a ≤ b) = true → decide (b ≤ c) = true → decide (a ≤ c) = true := by
    intro a b c h1 h2
    simp only [decide_eq_true_eq] at *; exact String.le_trans h1 h2
  have tot : ∀ (a b : String), (decide (a ≤ b) || decide (b ≤ a)) = true := by
    intro a b
    simp only [Bool.or_eq_true, decide_eq_true_eq]; exact String.le_total _ _
  apply List.Perm.eq_of_pairwise (le := fun a b : String => decide (a ≤ b) = true)
  · intro a b _ _ h1 h2
    simp only [decide_eq_true_eq] at h1 h2
    exact String.le_antisymm h1 h2
  · exact List.pairwise_mergeSort tr tot l₁
  · exact List.pairwise_mergeSort tr tot l₂
  · exact (List.mergeSort_perm l₁ _).trans (h.trans (List.mergeSort_perm l₂ _).symm)

/-- **sort by a key that is unique** (`Struct.setImplements`: unions sorted by qualified name) -/
theorem sortBy_key_perm_invariant {α} (key : α → String) (l₁ l₂ : List α) (h : l₁.Perm l₂)
    (hinj : ∀ a ∈ l₁, ∀ b ∈ l₁, key a = key b → a = b) :
    l₁.mergeSort (fun a b => decide (key a ≤ key b)) = l₂.mergeSort (fun a b => decide (key a ≤ key b)) := by
  have tr : ∀ (a b c : α), decide (key a ≤ key b) = true → decide (key b ≤ key c) = true →
      decide (key a ≤ key c) = true := by
    intro a b c h1 h2
    simp only [decide_eq_true_eq] at *; exact String.le_trans h1 h2
  have tot : ∀ (a b : α), (decide (key a ≤ key b) || decide (key b ≤ key a)) = true := by
    intro a b
    simp only [Bool.or_eq_true, decide_eq_true_eq]; exact String.le_total _ _
  apply List.Perm.eq_of_pairwise (le := fun a b : α => decide (key a ≤ key b) = true)
  · intro a b ha hb h1 h2
    simp only [decide_eq_true_eq] at h1 h2
    have ha' : a ∈ l₁ := (List.mergeSort_perm l₁ _).subset ha
    have hb' : b ∈ l₁ := h.symm.subset ((List.mergeSort_perm l₂ _).subset hb)
    exact hinj a ha' b hb' (String.le_antisymm h1 h2)
  · exact List.pairwise_mergeSort tr tot l₁
  · exact List.pairwise_mergeSort tr tot l₂
  · exact (List.mergeSort_perm l₁ _).trans (h.trans (List.mergeSort_perm l₂ _).symm)

/-- a Go map as an association list: later insertions overwrite -/
def insert {β} (m : List (String × β)) (kv : String × β) : List (String × β) :=
  kv :: m.filter (fun e => e.1 != kv.1)

def build {β} (entries : List (String × β)) : List (String × β) := entries.foldl insert []

theorem lookup_insert {β} (m : List (String × β)) (kv : String × β) (k : String) :
    (insert m kv).lookup k = if k = kv.1 then some kv.2 else m.lookup k := by
  unfold insert
  by_cases h : k = kv.1
  · subst h; simp [List.lookup]
  · simp only [List.lookup, h, if_false]
    have hb : (k == kv.1) = false := by simpa using h
    rw [hb]
    simp only
    induction m with
    | nil => simp [List.lookup]
    | cons e es ih =>
      simp only [List.filter]
      by_cases he : e.1 = kv.1
      · have : (e.1 != kv.1) = false := by simp [he]
        rw [this]
        simp only [List.lookup]
        have hk : (k == e.1) = false := by rw [he]; exact hb
        rw [hk]; exact ih
      · have : (e.1 != kv.1) = true := by simpa using he
        rw [this]
        simp only [List.lookup]
        cases hk : (k == e.1) with
        | true => rfl
        | false => exact ih

theorem lookup_build_mem {β} (entries : List (String × β)) (hnd : (entries.map (·.1)).Nodup)
    (k : String) (v : β) : (build entries).lookup k = some v ↔ (k, v) ∈ entries := by
  suffices ∀ (m : List (String × β)), (∀ e ∈ entries, m.lookup e.1 = none) →
      ((entries.foldl insert m).lookup k = some v ↔ ((k, v) ∈ entries ∨ m.lookup k = some v)) by
    have := this [] (by simp [List.lookup])
    simpa [build, List.lookup] using this
  induction entries with
  | nil => intro m _; simp
  | cons e es ih =>
    intro m hm
    simp only [List.map_cons, List.nodup_cons, List.mem_map, not_exists, not_and] at hnd
    simp only [List.foldl_cons]
    rw [ih hnd.2 (insert m e)]
    · rw [lookup_insert]
      by_cases hk : k = e.1
      · subst hk
        have hm0 := hm e List.mem_cons_self
        simp only [if_true, List.mem_cons, Option.some.injEq, hm0]
        constructor
        · rintro (h | h)
          · exact absurd rfl (hnd.1 (e.1, v) h)
          · left; left; cases e; simp_all
        · rintro ((h | h) | h)
          · right; cases e; simp_all
          · exact absurd rfl (hnd.1 (e.1, v) h)
          · simp at h
      · simp only [hk, if_false, List.mem_cons]
        constructor
        · rintro (h | h)
          · left; right; exact h
          · right; exact h
        · rintro ((h | h) | h)
          · exact absurd (by rw [← h]) hk
          · left; exact h
          · right; exact h
    · intro x hx
      rw [lookup_insert]
      have : x.1 ≠ e.1 := fun he => hnd.1 x hx he
      simp [this, hm x (List.mem_cons_of_mem _ hx)]

/-- **merge into a map** (`fetchEnumsAndUnions`, `NewLinker`, `uniq` sets): with distinct keys the
resulting map does not depend on the insertion order. -/
theorem build_perm_invariant {β} (e₁ e₂ : List (String × β)) (h : e₁.Perm e₂)
    (hnd : (e₁.map (·.1)).Nodup) (k : String) : (build e₁).lookup k = (build e₂).lookup k := by
  have hnd₂ : (e₂.map (·.1)).Nodup := (h.map _).nodup hnd
  cases h1 : (build e₁).lookup k with
  | some v =>
    have := (lookup_build_mem e₁ hnd k v).mp h1
    exact ((lookup_build_mem e₂ hnd₂ k v).mpr (h.subset this)).symm
  | none =>
    cases h2 : (build e₂).lookup k with
    | none => rfl
    | some v =>
      have := (lookup_build_mem e₂ hnd₂ k v).mp h2
      have := (lookup_build_mem e₁ hnd k v).mpr (h.symm.subset this)
      rw [h1] at this; simp at this

/-- **search for the unique match** (`findPackage`, `selectPackage`, `selectFileByPos`: the package
with a given path is unique in an import graph): the element found does not depend on the order. -/
theorem find_unique_perm_invariant {α} (p : α → Bool) (l₁ l₂ : List α) (h : l₁.Perm l₂)
    (huniq : ∀ a ∈ l₁, ∀ b ∈ l₁, p a = true → p b = true → a = b) :
    l₁.find? p = l₂.find? p := by
  cases h1 : l₁.find? p with
  | none =>
    have hn := List.find?_eq_none.mp h1
    symm
    exact List.find?_eq_none.mpr (fun x hx => hn x (h.symm.subset hx))
  | some a =>
    have ha := List.mem_of_find?_eq_some h1
    have hpa := List.find?_some h1
    cases h2 : l₂.find? p with
    | none =>
      have := List.find?_eq_none.mp h2 a (h.subset ha)
      simp [hpa] at this
    | some b =>
      have hb := List.mem_of_find?_eq_some h2
      have hpb := List.find?_some h2
      rw [huniq a ha b (h.symm.subset hb) hpa hpb]

/-- **per-entry update** (`setIsIota` on every enum, `setImplements` / `flattenEmbedded` on every
struct, one output file per map entry): the resulting collection is the same up to the order in
which it is listed, and is looked up by key afterwards. -/
theorem map_perm {α β} (f : α → β) (l₁ l₂ : List α) (h : l₁.Perm l₂) : (l₁.map f).Perm (l₂.map f) :=
  h.map f

/-- **distinct sorted set** (`Cache.Imports` after the repair: set of package paths, then sorted) -/
theorem sortedIds_perm_invariant (l₁ l₂ : List String) (h : ∀ a, a ∈ l₁ ↔ a ∈ l₂) :
    sortedIds l₁ = sortedIds l₂ :=
  strict_sorted_ext (pairwise_sortedIds l₁) (pairwise_sortedIds l₂)
    (fun a => by rw [mem_sortedIds, mem_sortedIds]; exact h a)

/-- the final assembly of every target is order independent (C19) -/
theorem assembly_perm_invariant {a b : List Decl} {o₁ o₂ : String} (hc : Consistent a) (hab : a.Perm b)
    (h₁ : WriteResult a o₁) (h₂ : WriteResult b o₂) : o₁ = o₂ := C19_perm hc hab h₁ h₂

/-- The defect of the pinned commit: a list built by ranging over a map and returned unsorted is
*any* permutation of the entries — two of them differ as soon as there are two entries. -/
theorem unsorted_range_not_deterministic : ∃ l₁ l₂ : List String, l₁.Perm l₂ ∧ l₁ ≠ l₂ :=
  ⟨["\"a\"", "\"b\""], ["\"b\"", "\"a\""], List.Perm.swap _ _ _, by decide⟩

end Gomacro.MapRange

namespace Gomacro.Facts
/-! ## Regenerated inventory of map ranges

(file, function, operand, fingerprint of the function's source) ↦ discharge. -/

inductive Discharge
  | sortAfter          -- sort_perm_invariant / sortedIds_perm_invariant
  | sortByUniqueKey    -- sortBy_key_perm_invariant
  | mergeIntoMap       -- build_perm_invariant
  | findUnique         -- find_unique_perm_invariant
  | perEntry           -- map_perm (entries updated independently, read back by key)
  | fileSet            -- map_perm: one output file per entry, identified by its name
deriving DecidableEq, Repr

def expectedRanges : List (MapRange × Discharge) := [
  (⟨"analysis/analysis.go", "Analysis.populateTypes", "an.Types", "fc4d06fbaa8f"⟩, .perEntry),
  (⟨"analysis/analysis.go", "Linker.OutputFiles", "lk.typeToOut", "e7d6ef368f0d"⟩, .mergeIntoMap),
  (⟨"analysis/analysis.go", "Linker.OutputFiles", "uniq", "e7d6ef368f0d"⟩, .sortAfter),
  (⟨"analysis/analysis.go", "NewLinker", "src.Types", "0f72046126c2"⟩, .mergeIntoMap),
  (⟨"analysis/analysis.go", "fetchEnumsAndUnions", "fetchPkgEnums(p)", "861a43170c45"⟩, .mergeIntoMap),
  (⟨"analysis/analysis.go", "fetchEnumsAndUnions", "fetchPkgUnions(p)", "861a43170c45"⟩, .mergeIntoMap),
  (⟨"analysis/analysis.go", "fetchEnumsAndUnions", "p.Imports", "861a43170c45"⟩, .mergeIntoMap),
  (⟨"analysis/compounds.go", "PkgSelector.findPackage", "pa.Imports", "4bcaad531595"⟩, .findUnique),
  (⟨"analysis/compounds.go", "Struct.setImplements", "unions", "ee80f2666446"⟩, .sortByUniqueKey),
  (⟨"analysis/enums.go", "fetchPkgEnums", "out", "6dff684d2828"⟩, .perEntry),
  (⟨"analysis/httpapi/parse.go", "selectFileByPos", "pa.Imports", "652356e1c736"⟩, .findUnique),
  (⟨"analysis/httpapi/parse.go", "selectPackage", "pa.Imports", "a77efa329353"⟩, .findUnique),
  (⟨"cmd/gomacro.go", "Config.run", "conf", "fac6c29f188e"⟩, .sortAfter),
  (⟨"generator/dart/dart.go", "Generate", "buf.files", "9344609a3898"⟩, .fileSet),
  (⟨"generator/dart/dart.go", "Generate", "file.imports", "9344609a3898"⟩, .sortAfter),
  (⟨"generator/generator.go", "Cache.Imports", "c", "f6de6331570e"⟩, .mergeIntoMap),
  (⟨"generator/generator.go", "Cache.Imports", "unique", "f6de6331570e"⟩, .sortAfter)
]

/-- every map range found in the current sources is one with a discharge: same file, function and
operand. (The fingerprint of the function's source is regenerated for the record but is no part
of the match: a rewrite inside one of these functions that keeps its ranges keeps the obligation —
what it computes is then checked by the repeated-run comparison —, a range over another operand or
in another function breaks it.) -/
def rangesDischarged : Bool :=
  mapRanges.all fun r => expectedRanges.any fun e =>
    e.1.file == r.file && e.1.func == r.func && e.1.operand == r.operand

/-- **regenerated obligation** -/
theorem C07_sites_discharged : rangesDischarged = true := by decide

/-! ## Regenerated inventory of orderings on token positions

`token.Pos` values of two files of a package are ordered by the schedule of the loader's parser
goroutines: only comparisons inside one file (or containment of a given position in a node / file)
are functions of the sources. -/

inductive PosDischarge
  | containment   -- is a given position inside this node / file: true of exactly one file whatever the bases
  | sameFile      -- both positions belong to the analysed source file (objects filtered by file name just before)
deriving DecidableEq, Repr

/-- the functions that compare token positions, with what they compare. The discharge is per
function (not per expression): a rewrite of the comparison inside one of them keeps the obligation,
a position comparison in any other function breaks it. -/
def expectedPosOrders : List (String × String × PosDischarge) := [
  ("analysis/analysis.go", "NewAnalysisFromFile", .sameFile),   -- objs[i].Pos() < objs[j].Pos(), objects of the one analysed file
  ("analysis/analysis.go", "nodeAtFile", .containment),          -- n.Pos() <= pos && pos < n.End(), nodes of the file given by the caller
  ("analysis/httpapi/parse.go", "resolveFunc", .containment),    -- n.Pos() <= pos && pos < n.End()
  ("analysis/httpapi/parse.go", "selectFileByPos", .containment) -- file.Pos() <= pos && pos <= file.End()
]

def posOrdersDischarged : Bool :=
  posOrders.all fun r => expectedPosOrders.any fun e => e.1 == r.file && e.2.1 == r.func

/-- **regenerated obligation**: every ordering comparison on token positions in the current sources
is one of the file-local ones -/
theorem C07_pos_orders_discharged : posOrdersDischarged = true := by decide

/-! ## Regenerated inventory of writes to package-level state

Output must be a function of the sources, not of what the process generated before: no function
writes a package-level variable (a memo keyed by package path would outlive the `types.Named`
pointers of the load it was filled from). -/

def expectedGlobalWrites : List GlobalWrite := []

def globalWritesDischarged : Bool := globalWrites.all fun r => expectedGlobalWrites.contains r

/-- **regenerated obligation**: no write to package-level state from a function body -/
theorem C07_no_state_between_runs : globalWritesDischarged = true := by decide

end Gomacro.Facts
