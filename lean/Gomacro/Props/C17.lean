import Gomacro.Paths
/-!
# C17 — the common root is a real ancestor of every file

Property theorems about the root computation (`commonAll`).  `packages.Load` itself is not
modelled: loading is covered by the correspondence runner only.
-/
namespace Gomacro.Paths
open List

theorem common2_prefix_left {α} [DecidableEq α] (a b : List α) : common2 a b <+: a := by
  induction a generalizing b with
  | nil => simp [common2]
  | cons x xs ih =>
    cases b with
    | nil => simp [common2]
    | cons y ys =>
      unfold common2
      split
      · exact List.cons_prefix_cons.mpr ⟨rfl, ih ys⟩
      · exact List.nil_prefix

theorem common2_prefix_right {α} [DecidableEq α] (a b : List α) : common2 a b <+: b := by
  induction a generalizing b with
  | nil => simp [common2]
  | cons x xs ih =>
    cases b with
    | nil => simp [common2]
    | cons y ys =>
      unfold common2
      split
      · rename_i h; subst h; exact List.cons_prefix_cons.mpr ⟨rfl, ih ys⟩
      · exact List.nil_prefix

theorem common2_greatest {α} [DecidableEq α] {c a b : List α} (ha : c <+: a) (hb : c <+: b) :
    c <+: common2 a b := by
  induction c generalizing a b with
  | nil => exact List.nil_prefix
  | cons x xs ih =>
    cases a with
    | nil => simp at ha
    | cons y ys =>
      cases b with
      | nil => simp at hb
      | cons z zs =>
        obtain ⟨h1, h2⟩ := List.cons_prefix_cons.mp ha
        obtain ⟨h3, h4⟩ := List.cons_prefix_cons.mp hb
        subst h1; subst h3
        simp only [common2, if_true]
        exact List.cons_prefix_cons.mpr ⟨rfl, ih h2 h4⟩

theorem foldl_common2_prefix (p : List String) (ps : List (List String)) :
    ps.foldl common2 p <+: p ∧ ∀ d ∈ ps, ps.foldl common2 p <+: d := by
  induction ps generalizing p with
  | nil => simp
  | cons q qs ih =>
    simp only [List.foldl_cons, List.mem_cons, forall_eq_or_imp]
    obtain ⟨h1, h2⟩ := ih (common2 p q)
    exact ⟨h1.trans (common2_prefix_left p q), h1.trans (common2_prefix_right p q), h2⟩

/-- **C17 (ancestor).** The root is a component-wise prefix — an ancestor directory or the
directory itself — of every directory it was computed from, whatever the directories are called. -/
theorem C17_root_ancestor (ds : List (List String)) : ∀ d ∈ ds, commonAll ds <+: d := by
  cases ds with
  | nil => simp
  | cons p ps =>
    intro d hd
    have h := foldl_common2_prefix p ps
    rcases List.mem_cons.mp hd with rfl | hd
    · exact h.1
    · exact h.2 d hd

theorem foldl_common2_greatest {c p : List String} {ps : List (List String)}
    (hp : c <+: p) (h : ∀ d ∈ ps, c <+: d) : c <+: ps.foldl common2 p := by
  induction ps generalizing p with
  | nil => simpa
  | cons q qs ih =>
    simp only [List.foldl_cons]
    exact ih (common2_greatest hp (h q List.mem_cons_self))
      (fun d hd => h d (List.mem_cons_of_mem _ hd))

/-- **C17 (deepest).** Every common ancestor is an ancestor of the root: the root is the
deepest common directory. -/
theorem C17_root_greatest {c : List String} {ds : List (List String)} (hne : ds ≠ [])
    (h : ∀ d ∈ ds, c <+: d) : c <+: commonAll ds := by
  cases ds with
  | nil => exact absurd rfl hne
  | cons p ps =>
    exact foldl_common2_greatest (h p List.mem_cons_self) (fun d hd => h d (List.mem_cons_of_mem _ hd))

/-- a file system: a set of directories closed under taking (non-empty) ancestors -/
def PrefixClosed (fs : List String → Prop) : Prop :=
  ∀ d, fs d → ∀ p, p <+: d → p ≠ [] → fs p

/-- absolute paths start with the empty component (`"/a"` splits to `["", "a"]`) -/
def Absolute (d : List String) : Prop := ∃ t, d = "" :: t

/-- **C17 (non-empty).** For absolute directories the root is itself absolute. -/
theorem C17_root_absolute {ds : List (List String)} (hne : ds ≠ []) (h : ∀ d ∈ ds, Absolute d) :
    Absolute (commonAll ds) := by
  have hp : [""] <+: commonAll ds := by
    apply C17_root_greatest hne
    intro d hd
    obtain ⟨t, rfl⟩ := h d hd
    exact List.cons_prefix_cons.mpr ⟨rfl, List.nil_prefix⟩
  obtain ⟨t, ht⟩ := hp
  exact ⟨t, by simpa using ht.symm⟩

/-- **C17 (exists).** If all the directories exist in a prefix-closed file system, so does the root. -/
theorem C17_root_exists {fs : List String → Prop} (hfs : PrefixClosed fs)
    {ds : List (List String)} (hne : ds ≠ []) (habs : ∀ d ∈ ds, Absolute d)
    (hin : ∀ d ∈ ds, fs d) : fs (commonAll ds) := by
  cases ds with
  | nil => exact absurd rfl hne
  | cons p ps =>
    have hroot := C17_root_ancestor (p :: ps) p List.mem_cons_self
    obtain ⟨t, ht⟩ := C17_root_absolute hne habs
    exact hfs p (hin p List.mem_cons_self) _ hroot (by rw [ht]; simp)

/-- structural split of a character list at '/' -/
def comps : List Char → List (List Char)
  | [] => [[]]
  | c :: cs =>
    if c = '/' then [] :: comps cs
    else match comps cs with
      | [] => [[c]]
      | h :: t => (c :: h) :: t

/-- The defect of the pinned commit, as a theorem: the byte-wise common prefix of two sibling
directories sharing a name prefix is not a whole-component ancestor of them
(`/s/foo` for `/s/foo1` and `/s/foo2`). -/
theorem bytewise_not_ancestor :
    ∃ a b : List Char, (comps (bytewise [a, b])).isPrefixOf (comps a) = false := by
  refine ⟨"/s/foo1".toList, "/s/foo2".toList, ?_⟩
  decide

/-! non-vacuity -/
example : commonAll [["", "s", "foo1"], ["", "s", "foo2"], ["", "s", "foo1", "x"]] = ["", "s"] := by decide
example : Absolute ["", "s", "foo1"] := ⟨_, rfl⟩

end Gomacro.Paths
