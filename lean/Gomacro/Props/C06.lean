import Gomacro.DartGen
import Gomacro.Props.C09
/-!
# C06 — Dart JSON routines mirror the Go wire format and link across files

Theorems about the Dart model (`Gomacro/DartGen.lean`), which the correspondence runner compares,
file by file and declaration by declaration, with the real `dart.Generate`:
* structs: one constructor argument, one key read and one key written per exported field, in
  field order, under the key `encoding/json` uses;
* unions: dispatch on exactly the Go member names under Kind / Data; member classes implement
  their exported unions;
* enums: the value table lists exactly the exported constants, in order, and value → member →
  value is the identity;
* files: no file imports itself; a named type is emitted in the file of its package; linking
  (`closedFile`) is decidable and evaluated on every generated output.
-/
namespace Gomacro.DartGen
open List Gomacro.IR

/-! ### structs -/

/-- keys read by `fromJson`, keys written by `toJson`, constructor arguments: one per field of the
structured declaration, in order (what `printStruct` prints) -/
def DStruct.keysRead (s : DStruct) : List String := s.fields.map (·.jsonKey)
def DStruct.keysWritten (s : DStruct) : List String := s.fields.map (·.jsonKey)
def DStruct.ctorArgs (s : DStruct) : List String := s.fields.map (·.dartName)

/-- **one entry per exported field, in field order, keyed by JSONName** -/
theorem C06_struct_keys (env : Env) (d : Decl) (fs : List Field) (impls : List String) :
    (structOf env d fs impls).keysRead = (selectedFields fs).map (fun f => Tags.jsonName f.tag f.name) ∧
    (structOf env d fs impls).keysWritten = (structOf env d fs impls).keysRead ∧
    (structOf env d fs impls).ctorArgs.length = (selectedFields fs).length := by
  simp [DStruct.keysRead, DStruct.keysWritten, DStruct.ctorArgs, structOf, fieldOf, Function.comp_def]

/-- **the keys are Go's**: a selected field is read and written under the key encoding/json uses
(for tag names encoding/json accepts) -/
theorem C06_struct_key_is_go_key (env : Env) (f : Field) (k : String)
    (hvalid : Tags.namePart (Tags.get f.tag "json") = "" ∨ Tags.isValidTag (Tags.namePart (Tags.get f.tag "json")) = true)
    (hk : Tags.goJsonKey f.tag f.name f.goExported = some k) : (fieldOf env f).jsonKey = k := by
  simp only [fieldOf]
  exact Tags.C09_key_eq f.tag f.name f.goExported k hvalid hk

/-- **exactly the exported fields**: a field is among the constructor arguments iff encoding/json
serialises it and it is not tagged `gomacro:"ignore"` -/
theorem C06_struct_selection (f : Field) (fs : List Field) :
    f ∈ selectedFields fs ↔ f ∈ fs ∧
      ((Tags.goJsonKey f.tag f.name f.goExported).isSome = true ∧ Tags.get f.tag "gomacro" ≠ "ignore") := by
  simp only [selectedFields, List.mem_filter]
  rw [Tags.C09_selected_iff f.tag f.name f.goExported]

/-- the Dart field name is the key with a lower-case first letter; opaque fields are `dynamic` -/
theorem C06_struct_field_shape (env : Env) (f : Field) :
    (fieldOf env f).dartName = lowerFirst (fieldOf env f).jsonKey ∧
    ((fieldOf env f).isOpaque = true → (fieldOf env f).ty = "dynamic") := by
  constructor
  · simp only [fieldOf]
  · intro h
    simp only [fieldOf] at h ⊢
    rw [if_pos h]

/-! ### unions -/

/-- **dispatch on exactly the Go member names**, in order, for reading and for writing -/
theorem C06_union_tags (env : Env) (d : Decl) (ms : List Ty) :
    (unionOf env d ms).members.map (·.1) = ms.map (fun m =>
      match m with
      | .ref q => (match env.find? q with | some md => md.name | none => "?")
      | _ => "?") := by
  simp only [unionOf, List.map_map]
  apply List.map_congr_left
  intro a _
  cases a <;> rfl

theorem C06_union_one_case_per_member (env : Env) (d : Decl) (ms : List Ty) :
    (unionOf env d ms).members.length = ms.length := by
  simp [unionOf]

/-- **member classes implement their exported unions** -/
theorem C06_implements (env : Env) (d : Decl) (fs : List Field) (impls : List String) (n : String) :
    n ∈ (structOf env d fs impls).implements ↔
      ∃ q ∈ impls, ∃ u, env.find? q = some u ∧ u.exported = true ∧ u.name = n := by
  simp only [structOf, implementsOf, List.mem_filterMap]
  constructor
  · rintro ⟨q, hq, h⟩
    cases hf : env.find? q with
    | none => simp [hf] at h
    | some u =>
      simp only [hf, Option.bind_some] at h
      by_cases he : u.exported = true
      · simp only [he, if_true, Option.some.injEq] at h
        exact ⟨q, hq, u, hf, he, h⟩
      · simp [he] at h
  · rintro ⟨q, hq, u, hf, he, hn⟩
    exact ⟨q, hq, by simp [hf, he, hn]⟩

/-! ### enums -/

/-- **the table lists exactly the exported constants**, in order, with their values -/
theorem C06_enum_table (d : Decl) (bk : BKind) (ms : List Member) (io : Bool) :
    (enumOf d bk ms io).members.map (·.2.1) = (ms.filter (·.exported)).map (·.valStr) ∧
    (enumOf d bk ms io).members.length = (ms.filter (·.exported)).length := by
  simp [enumOf, Function.comp_def]

/-- the conversion the generated extension implements: member index ↦ value, value ↦ index -/
def toValue (table : List String) (i : Nat) : Option String := table[i]?
def fromValue (table : List String) (v : String) : Option Nat :=
  let i := table.idxOf v
  if i < table.length then some i else none

/-- **member → value → member is the identity** when the values are pairwise distinct -/
theorem C06_enum_roundtrip (table : List String) (i : Nat) (hi : i < table.length) (hd : table.Nodup) :
    (toValue table i).bind (fromValue table) = some i := by
  simp only [toValue, List.getElem?_eq_getElem hi, Option.bind_some, fromValue]
  have := hd.idxOf_getElem i hi
  simp [this, hi]

/-- **value → member → value is the identity** for every value of the table -/
theorem C06_enum_roundtrip_value (table : List String) (v : String) (hv : v ∈ table) :
    (fromValue table v).bind (toValue table) = some v := by
  have hlt : table.idxOf v < table.length := List.idxOf_lt_length_of_mem hv
  simp [fromValue, hlt, toValue]

/-! ### files -/

/-- **no file imports itself** -/
theorem C06_no_self_import (env : Env) (pre : String) : ∀ f ∈ generate env pre, noSelfImport f = true := by
  intro f hf
  simp only [generate, List.mem_map] at hf
  obtain ⟨name, _, rfl⟩ := hf
  simp [noSelfImport]

/-- **a named type is emitted in the file assigned to its package** -/
theorem C06_named_in_its_package_file (env : Env) (pre : String) (d : Decl) :
    (ofNamed env pre d).1.file = fileOfPkg pre d.pkgPath := by
  unfold ofNamed
  cases d.body <;> rfl

/-- every declaration of an output file is assigned to that file -/
theorem C06_decls_of_file (env : Env) (pre : String) : ∀ f ∈ generate env pre, ∀ e ∈ f.candidates, e.file = f.name := by
  intro f hf e he
  simp only [generate, List.mem_map] at hf
  obtain ⟨name, _, rfl⟩ := hf
  simp only [List.mem_map, List.mem_filter] at he
  obtain ⟨⟨e', needs⟩, ⟨_, hfile⟩, rfl⟩ := he
  simpa using hfile

/-- when `closedFile` holds every symbol the file uses resolves under Dart scoping, to the file
meant to provide it -/
theorem C06_closed (files : List OutFile) (f : OutFile) (h : closedFile files f = true) :
    ∀ d ∈ f.decls, ∀ u ∈ d.uses, ∃ g, resolve files f u.1 = some g ∧ (∀ want, u.2 = some want → g = want) := by
  intro d hd u hu
  simp only [closedFile, Bool.and_eq_true, List.all_eq_true] at h
  have hok := h.1 u (List.mem_flatMap.mpr ⟨d, hd, hu⟩)
  unfold useOk at hok
  cases hr : resolve files f u.1 with
  | none => simp [hr] at hok
  | some g =>
    refine ⟨g, rfl, ?_⟩
    intro want hw
    simp only [hr, hw, beq_iff_eq] at hok
    exact hok

/-- enum constant names: the prefix up to the first underscore is cut (`Color_Red` ↦ `red`) -/
example : memberName "Color_Red" = "red" ∧ memberName "Foo_" = "foo_" ∧ memberName "Blue" = "blue" := by decide

end Gomacro.DartGen
