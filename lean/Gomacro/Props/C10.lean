import Gomacro.Lemmas.Enums
/-!
# C10 — Enum detection is exact

Theorems about `Gomacro/Analysis.lean` (`enumNames`, `enumMembers`, `mkEnum`, `isIotaDecision`),
the model of `fetchPkgEnums` / `Enum.setIsIota`, for every list of constant facts.
-/
namespace Gomacro.Analysis
open List Gomacro.IR Gomacro.GoFacts

theorem mem_eraseDups' {α} [BEq α] [LawfulBEq α] (a : α) (l : List α) : a ∈ l.eraseDups ↔ a ∈ l := by
  simp

/-- **enum iff**: a named type is an enum of package `p` exactly when `p` declares at least one
constant of that type that is not opted out. -/
theorem C10_enum_iff (p : PkgFacts) (q : String) :
    q ∈ enumNames p ↔ ∃ c ∈ p.consts, c.typeQ = q ∧ q ≠ "" ∧ optOut c = false := by
  unfold enumNames
  rw [mem_eraseDups']
  simp only [List.mem_map, List.mem_filter, Bool.and_eq_true, bne_iff_ne, ne_eq, Bool.not_eq_true']
  constructor
  · rintro ⟨c, ⟨hc, hne, ho⟩, rfl⟩; exact ⟨c, hc, rfl, hne, ho⟩
  · rintro ⟨c, hc, rfl, hne, ho⟩; exact ⟨c, ⟨hc, hne, ho⟩, rfl⟩

/-- **members exact**: the members are all the non-opted-out constants of that type, exported or
not, each as often as it is declared, with exact values and comments (up to the order, which the
iota sort may change). -/
theorem C10_members_exact (fb : FactBase) (p : PkgFacts) (q : String) :
    (mkEnum fb p q).members.Perm
      ((p.consts.filter fun c => c.typeQ == q && !optOut c).map toMember) := by
  unfold mkEnum enumMembers
  simp only
  repeat' split
  all_goals first | exact sortByVal_perm _ | exact List.Perm.refl _

/-- when the enum is not iota-like the declaration (scope) order is kept as is -/
theorem C10_members_order_kept (fb : FactBase) (p : PkgFacts) (q : String)
    (h : (mkEnum fb p q).isIota = false) :
    (mkEnum fb p q).members = (enumMembers p q).map toMember := by
  unfold mkEnum at h ⊢
  simp only at h ⊢
  simp [h]

theorem exportedVals_perm {a b : List Member} (h : a.Perm b) : (exportedVals a).Perm (exportedVals b) :=
  (h.filter _).map _

theorem exportedVals_sorted {a : List Member} (h : a.Pairwise (fun x y => x.int ≤ y.int)) :
    (exportedVals a).Pairwise (· ≤ ·) := by
  unfold exportedVals
  exact List.pairwise_map.mpr (List.Pairwise.sublist List.filter_sublist h)

/-- **iota sound**: an enum is flagged iota-like only if it is integer-backed and its exported
members, in the reported (sorted) member order, have exactly the values 0, 1, 2, … -/
theorem C10_iota_sound (bk : BKind) (ms : List Member) (h : isIotaDecision bk ms = true) :
    bk = .int ∧
    exportedVals (sortByVal ms) =
      (List.range (exportedVals ms).length).map (fun (i : Nat) => (i : Int)) := by
  unfold isIotaDecision at h
  simp only [Bool.and_eq_true, beq_iff_eq, List.all_eq_true, decide_eq_true_eq] at h
  obtain ⟨⟨hbk, hall⟩, hmax, hlen⟩ := h
  refine ⟨hbk, ?_⟩
  have hperm := exportedVals_perm (sortByVal_perm ms)
  have hsorted := exportedVals_sorted (sortByVal_sorted ms)
  have hnodup : (exportedVals ms).Nodup := nodup_of_dedupInts_length (by simpa using hlen)
  have hnodup' : (exportedVals (sortByVal ms)).Nodup := hperm.symm.nodup hnodup
  have hstrict : (exportedVals (sortByVal ms)).Pairwise (· < ·) :=
    (List.Pairwise.and hsorted hnodup').imp (fun {a b} ⟨h1, h2⟩ => by omega)
  have hl : (exportedVals (sortByVal ms)).length = (exportedVals ms).length := hperm.length_eq
  have hb : ∀ x ∈ exportedVals (sortByVal ms),
      (0 : Int) ≤ x ∧ x < 0 + ((exportedVals (sortByVal ms)).length : Int) := by
    intro x hx
    have hx' : x ∈ exportedVals ms := hperm.subset hx
    constructor
    · unfold exportedVals at hx'
      obtain ⟨m, hm, rfl⟩ := List.mem_map.mp hx'
      exact (hall m (List.mem_filter.mp hm).1).2
    · have h1 := le_maxInt hx'
      rw [hl]
      have h2 : ((dedupInts (exportedVals ms)).length : Int) = maxInt (exportedVals ms) + 1 := hmax
      have h3 : (dedupInts (exportedVals ms)).length = (exportedVals ms).length := by simpa using hlen
      rw [h3] at h2
      omega
  have := strict_bounded_eq_range _ 0 hstrict hb
  rw [hl] at this
  rw [this]
  apply List.map_congr_left
  intro i _; omega

/-- **iota complete**: an integer-backed enum whose members are all non-negative and whose
exported values are 0 … k-1 in some order — in particular every plain iota block — is flagged. -/
theorem C10_iota_complete (ms : List Member) (k : Nat)
    (hall : ∀ m ∈ ms, m.isInt = true ∧ 0 ≤ m.int)
    (hperm : (exportedVals ms).Perm ((List.range k).map (fun (i : Nat) => (i : Int)))) :
    isIotaDecision .int ms = true := by
  unfold isIotaDecision
  have hnodup : (exportedVals ms).Nodup := by
    apply hperm.symm.nodup
    exact List.pairwise_map.mpr ((List.nodup_range (n := k)).imp (fun {a b} h => by omega))
  have hlen : (exportedVals ms).length = k := by simpa using hperm.length_eq
  have hded := dedupInts_length_of_nodup hnodup
  have hmax : maxInt (exportedVals ms) + 1 = (k : Int) := by
    rcases Nat.eq_zero_or_pos k with rfl | hk
    · have : exportedVals ms = [] := by simpa using hperm.length_eq
      simp [this, maxInt]
    · have hmem : ((k - 1 : Nat) : Int) ∈ exportedVals ms :=
        hperm.symm.subset (List.mem_map.mpr ⟨k - 1, by simp; omega, rfl⟩)
      have h1 := le_maxInt hmem
      rcases @maxInt_mem_or (exportedVals ms) with h2 | h2
      · omega
      · obtain ⟨i, hi, he⟩ := List.mem_map.mp (hperm.subset h2)
        simp at hi
        omega
  have e1 : (ms.all fun m => m.isInt && decide (m.int ≥ 0)) = true := by
    simp only [List.all_eq_true, Bool.and_eq_true, decide_eq_true_eq]
    exact fun m hm => hall m hm
  have e2 : (((dedupInts (exportedVals ms)).length : Int) == maxInt (exportedVals ms) + 1) = true := by
    rw [hded, hlen]; simp; omega
  have e3 : ((dedupInts (exportedVals ms)).length == (exportedVals ms).length) = true := by
    simp [hded]
  simp only [e1, e2, e3, beq_self_eq_true, Bool.and_self]

/-- The defect of the pinned commit, as a theorem: exported values 0, 0, 1 were flagged. -/
theorem isIotaDecisionOld_unsound :
    ∃ ms : List Member, isIotaDecisionOld .int ms = true ∧ exportedVals ms = [0, 0, 1] := by
  refine ⟨[⟨"A", "0", "0", "", true, true, 0, ""⟩, ⟨"B", "0", "0", "", true, true, 0, ""⟩,
           ⟨"C", "1", "1", "", true, true, 1, ""⟩], ?_, ?_⟩ <;> decide

/-- multi-name constant specs: the comment lookup of any name but the first crashes
(the code as it was at the pinned commit; repaired by a `fix:` commit) -/
theorem constCommentOld_crash_iff (c : ConstFact) :
    (constCommentOutcomeOld c).isCrash = true ↔ c.specIndex ≠ 0 := by
  unfold constCommentOutcomeOld
  split <;> simp_all [Outcome.isCrash]

/-! non-vacuity: a block with an unexported member interleaved -/
example : isIotaDecision .int [⟨"A", "0", "0", "", true, true, 0, ""⟩, ⟨"b", "5", "5", "", false, true, 5, ""⟩,
    ⟨"C", "1", "1", "", true, true, 1, ""⟩] = true := by decide

end Gomacro.Analysis
