import Gomacro.RoundTrip
/-!
# The `string` option: the decoder's reading inverts the encoder's quoting

`unescQ_escapeGo`: reading a Go-escaped JSON string literal gives the string back;
`fieldDoc_quoteIf`: for a strictly typed value of a field on which the option is inside the fragment
(`Unquote.stringOk`), what the decoder hands to the field's own decoding is the document the
encoder quoted.
-/
namespace Gomacro.Unquote
open Gomacro.IR Gomacro.GoJson

theorem hexVal_hexDigit : ∀ k, k < 16 → hexVal (hexDigit k) = some k := by decide

theorem hex4_low (n : Nat) (h : n < 256) :
    hex4 '0' '0' (hexDigit (n / 16)) (hexDigit (n % 16)) = some n := by
  have h1 := hexVal_hexDigit (n / 16) (by omega)
  have h2 := hexVal_hexDigit (n % 16) (by omega)
  have h0 : hexVal '0' = some 0 := by decide
  simp only [hex4, h0, h1, h2]
  congr 1
  omega

theorem unescQ_esc1 (x : Char) (r : List Char) (y : Char)
    (h : (x, y) = ('"', '"') ∨ (x, y) = ('\\', '\\') ∨ (x, y) = ('n', '\n') ∨ (x, y) = ('r', '\r') ∨ (x, y) = ('t', '\t')) :
    unescQ ('\\' :: x :: r) = (unescQ r).map (y :: ·) := by
  rcases h with h | h | h | h | h <;> cases h <;> (rw [unescQ.eq_def]; rfl)

theorem unescQ_plain (c : Char) (r : List Char) (h1 : c ≠ '"') (h2 : c ≠ '\\') :
    unescQ (c :: r) = (unescQ r).map (c :: ·) := by
  rw [unescQ.eq_def]; simp [h1, h2]

theorem unescQ_u (a b c d : Char) (r : List Char) (k : Nat) (h : hex4 a b c d = some k) :
    unescQ ('\\' :: 'u' :: a :: b :: c :: d :: r) = (unescQ r).map (Char.ofNat k :: ·) := by
  have : unescQ ('\\' :: 'u' :: a :: b :: c :: d :: r) =
      match hex4 a b c d with | some k => (unescQ r).map (Char.ofNat k :: ·) | none => none := by
    rw [unescQ.eq_def]; rfl
  rw [this, h]

theorem unescQ_end : unescQ ['"'] = some [] := by rw [unescQ.eq_def]; rfl

theorem unescQ_escapeGo : ∀ cs : List Char, unescQ (escapeGo cs ++ ['"']) = some cs
  | [] => by simpa [escapeGo] using unescQ_end
  | c :: cs => by
    have ih := unescQ_escapeGo cs
    simp only [escapeGo]
    split
    · rename_i h
      have : c = '"' := by simpa using h
      subst this
      rw [List.cons_append, List.cons_append, unescQ_esc1 '"' _ '"' (by simp), ih]; rfl
    · split
      · rename_i _ h
        have : c = '\\' := by simpa using h
        subst this
        rw [List.cons_append, List.cons_append, unescQ_esc1 '\\' _ '\\' (by simp), ih]; rfl
      · split
        · rename_i _ _ h
          have : c = '\n' := by simpa using h
          subst this
          rw [List.cons_append, List.cons_append, unescQ_esc1 'n' _ '\n' (by simp), ih]; rfl
        · split
          · rename_i _ _ _ h
            have : c = '\r' := by simpa using h
            subst this
            rw [List.cons_append, List.cons_append, unescQ_esc1 'r' _ '\r' (by simp), ih]; rfl
          · split
            · rename_i _ _ _ _ h
              have : c = '\t' := by simpa using h
              subst this
              rw [List.cons_append, List.cons_append, unescQ_esc1 't' _ '\t' (by simp), ih]; rfl
            · split
              · rename_i _ _ _ _ _ h
                have hlt : c.toNat < 256 := by
                  simp only [Bool.or_eq_true, decide_eq_true_eq, beq_iff_eq] at h
                  rcases h with ((h | h) | h) | h
                  · omega
                  · subst h; decide
                  · subst h; decide
                  · subst h; decide
                simp only [List.cons_append]
                rw [unescQ_u _ _ _ _ _ c.toNat (hex4_low c.toNat hlt), ih]
                simp [Char.ofNat_toNat]
              · rename_i hq hb _ _ _ hlow
                have hq' : c ≠ '"' := by simpa using hq
                have hb' : c ≠ '\\' := by simpa using hb
                split
                · rename_i h
                  have h' : c.toNat = 0x2028 := by simpa using h
                  have hc : c = Char.ofNat 0x2028 := by rw [← h', Char.ofNat_toNat]
                  have : "\\u2028".toList = ['\\', 'u', '2', '0', '2', '8'] := by decide
                  rw [this]
                  simp only [List.cons_append, List.nil_append]
                  rw [unescQ_u _ _ _ _ _ 0x2028 (by decide), ih, hc]; rfl
                · split
                  · rename_i _ h
                    have h' : c.toNat = 0x2029 := by simpa using h
                    have hc : c = Char.ofNat 0x2029 := by rw [← h', Char.ofNat_toNat]
                    have : "\\u2029".toList = ['\\', 'u', '2', '0', '2', '9'] := by decide
                    rw [this]
                    simp only [List.cons_append, List.nil_append]
                    rw [unescQ_u _ _ _ _ _ 0x2029 (by decide), ih, hc]; rfl
                  · rw [List.cons_append, unescQ_plain c _ hq' hb', ih]; rfl
end Gomacro.Unquote

namespace Gomacro.Unquote
open Gomacro.IR Gomacro.GoJson
theorem unquoteLit_str (s : String) :
    unquoteLit .str ("\"" ++ String.ofList (escapeGo s.toList) ++ "\"") = some (.str s) := by
  have : ("\"" ++ String.ofList (escapeGo s.toList) ++ "\"").toList = '"' :: (escapeGo s.toList ++ ['"']) := by
    simp [String.toList_append]
  simp only [unquoteLit, this, unescQ_escapeGo]
  simp

theorem unquoteLit_bool (b : Bool) : unquoteLit .bool (if b then "true" else "false") = some (.bool b) := by
  cases b <;> simp [unquoteLit]
end Gomacro.Unquote

namespace Gomacro.Unquote
open Gomacro.IR Gomacro.GoJson Gomacro.RoundTrip

/-- the document of a scalar value -/
def scalarDoc : GoVal → JVal
  | .bool b => .bool b
  | .int r => .num r
  | .float r => .num r
  | .str s => .str s
  | _ => .null

theorem quoted_scalar (opts : List String) (hs : opts.contains "string" = true) (bk : BKind) (v : GoVal)
    (hk : kindMatches bk v = true) :
    (match quoteIf opts v (scalarDoc v) with | .str s => unquoteLit bk s | _ => none) = some (scalarDoc v) := by
  cases bk <;> cases v <;> simp [kindMatches] at hk
  · simp only [quoteIf, hs, if_true, scalarDoc, quoteScalar]
    exact unquoteLit_str _
  · simp only [quoteIf, hs, if_true, scalarDoc, quoteScalar, unquoteLit]
  · simp only [quoteIf, hs, if_true, scalarDoc, quoteScalar, unquoteLit]
  · simp only [quoteIf, hs, if_true, scalarDoc, quoteScalar]
    exact unquoteLit_bool _

variable (env : Env) (w : Wrappers)

theorem enc_basic (n : Nat) (sh : Bool) (g : String) (bk : BKind) (v : GoVal)
    (h : wt env n (.basic g bk) v = true) :
    kindMatches bk v = true ∧ encode env w n sh (.basic g bk) v = scalarDoc v := by
  cases n with
  | zero => simp [wt] at h
  | succ m =>
    cases bk <;> cases v <;> simp [wt] at h <;> simp [kindMatches, encode, scalarDoc]

/-- a strictly typed value of a type that is not of scalar kind is not a scalar: the option is ignored -/
def nonScalar : GoVal → Bool
  | .bool _ => false
  | .int _ => false
  | .float _ => false
  | .str _ => false
  | _ => true

theorem quoteIf_nonScalar (opts : List String) (v : GoVal) (j : JVal) (h : nonScalar v = true) :
    quoteIf opts v j = j := by
  unfold quoteIf
  cases v <;> simp [nonScalar] at h <;> simp

theorem nonScalar_anon (n : Nat) (t : Ty) (v : GoVal) (h : wt env n t v = true)
    (ht : (match t with | .time _ => true | .arr _ _ => true | .map _ _ => true | _ => false) = true) :
    nonScalar v = true := by
  cases n with
  | zero => simp [wt] at h
  | succ m =>
    cases t <;> simp at ht <;> cases v <;> simp [wt] at h <;> simp [nonScalar]

theorem fieldDoc_quoteIf (f : Field) (n : Nat) (sh : Bool) (v : GoVal)
    (hok : (!(tagOptions f.tag).contains "string" || stringOk env f.ty) = true)
    (hwt : wt env n f.ty v = true) :
    fieldDoc env f (quoteIf (tagOptions f.tag) v (encode env w n sh f.ty v)) = some (encode env w n sh f.ty v) := by
  by_cases hs : (tagOptions f.tag).contains "string" = true
  · have hso : stringOk env f.ty = true := by rw [hs] at hok; simpa using hok
    simp only [fieldDoc, hs, if_true]
    cases hft : f.ty with
    | basic g bk =>
      rw [hft] at hwt hso
      obtain ⟨hk, he⟩ := enc_basic env w n sh g bk v hwt
      have hbk : bk ≠ .none := by simpa [stringOk] using hso
      have hq : quotedKind env (.basic g bk) = some bk := by simp [quotedKind, hbk]
      rw [hq, he]
      exact quoted_scalar _ hs bk v hk
    | time d =>
      rw [hft] at hwt
      rw [quoteIf_nonScalar _ _ _ (nonScalar_anon env n _ v hwt rfl)]
      simp [quotedKind]
    | arr k e =>
      rw [hft] at hwt
      rw [quoteIf_nonScalar _ _ _ (nonScalar_anon env n _ v hwt rfl)]
      simp [quotedKind]
    | map k e =>
      rw [hft] at hwt
      rw [quoteIf_nonScalar _ _ _ (nonScalar_anon env n _ v hwt rfl)]
      simp [quotedKind]
    | ptr e => rw [hft] at hso; simp [stringOk] at hso
    | ref q =>
      rw [hft] at hwt hso
      cases n with
      | zero => simp [wt] at hwt
      | succ m =>
        cases hfind : env.find? q with
        | none => simp [stringOk, hfind] at hso
        | some d =>
          cases hb : d.body with
          | enum g bk ms cs =>
            have hbk : bk ≠ .none := by simpa [stringOk, hfind, hb] using hso
            have hq : quotedKind env (.ref q) = some bk := by simp [quotedKind, hfind, hb, hbk]
            have hk : kindMatches bk v = true := by
              simp only [wt, hfind, hb, Bool.and_eq_true] at hwt
              exact hwt.2
            have he : encode env w (m + 1) sh (.ref q) v = scalarDoc v := by
              cases bk <;> cases v <;> simp [kindMatches] at hk <;> simp [encode, hfind, hb, scalarDoc]
            rw [hq, he]
            exact quoted_scalar _ hs bk v hk
          | named u =>
            have hwu : wt env m u v = true := by simpa [wt, hfind, hb] using hwt
            cases hu : u with
            | basic g bk =>
              rw [hu] at hwu
              have hbk : bk ≠ .none := by simpa [stringOk, hfind, hb, hu] using hso
              have hq : quotedKind env (.ref q) = some bk := by simp [quotedKind, hfind, hb, hu, hbk]
              obtain ⟨hk, he0⟩ := enc_basic env w m false g bk v hwu
              have he : encode env w (m + 1) sh (.ref q) v = scalarDoc v := by
                rw [← he0]
                simp only [encode, hfind, hb, hu]
                split <;> rfl
              rw [hq, he]
              exact quoted_scalar _ hs bk v hk
            | time dd =>
              rw [hu] at hwu
              rw [quoteIf_nonScalar _ _ _ (nonScalar_anon env m _ v hwu rfl)]
              simp [quotedKind, hfind, hb, hu]
            | arr k e =>
              rw [hu] at hwu
              rw [quoteIf_nonScalar _ _ _ (nonScalar_anon env m _ v hwu rfl)]
              simp [quotedKind, hfind, hb, hu]
            | map k e =>
              rw [hu] at hwu
              rw [quoteIf_nonScalar _ _ _ (nonScalar_anon env m _ v hwu rfl)]
              simp [quotedKind, hfind, hb, hu]
            | ptr e => simp [stringOk, hfind, hb, hu] at hso
            | ref r => simp [stringOk, hfind, hb, hu] at hso
          | struct fs cs impls =>
            have hns : nonScalar v = true := by
              cases v <;> simp [wt, hfind, hb] at hwt <;> simp [nonScalar]
            rw [quoteIf_nonScalar _ _ _ hns]
            simp [quotedKind, hfind, hb]
          | union ms =>
            have hns : nonScalar v = true := by
              cases v <;> simp [wt, hfind, hb] at hwt <;> simp [nonScalar]
            rw [quoteIf_nonScalar _ _ _ hns]
            simp [quotedKind, hfind, hb]
  · have hs' : (tagOptions f.tag).contains "string" = false := by simpa using hs
    simp only [fieldDoc, quoteIf, hs', Bool.false_eq_true, if_false]

end Gomacro.Unquote
