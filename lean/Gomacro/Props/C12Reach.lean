import Gomacro.Props.C12
/-!
# C12 — finite and closed, unconditionally

`Reach`: an abstract worklist loop (`expandG` adds the successors of every visited node, `reachG`
repeats it until a round adds nothing, with fuel) reaches a set closed under the successor relation
as soon as its fuel exceeds the number of nodes that have successors (`reachG_closed`: each round
that adds something completes one more keyed node — a strictly decreasing potential).
`C12_reach_closed` instantiates it for the analysis model (`fb.types.length + 1` rounds), and
`C12_analysis_succeeds` concludes that the model never runs out of fuel: when the enums and the
source list convert and every referred name has facts, `analyse` returns an environment, which
`C12_closed` says is closed. The recursive descent of the Go code is tied to it differentially.
-/
namespace Gomacro.Analysis.Reach

def addNew (a : List String) (r : String) : List String := if a.contains r then a else a ++ [r]

def expandG (succ : String → List String) (visited : List String) : List String :=
  visited.foldl (fun acc q => (succ q).foldl addNew acc) visited

def reachG (succ : String → List String) : Nat → List String → List String
  | 0, v => v
  | n + 1, v =>
    let v' := expandG succ v
    if v'.length == v.length then v else reachG succ n v'

/-! adding the successors of one node -/

theorem addNew_sub (a : List String) (r : String) : ∀ x ∈ a, x ∈ addNew a r := by
  intro x hx; unfold addNew; split <;> simp [hx]

theorem addNew_mem (a : List String) (r : String) : r ∈ addNew a r := by
  unfold addNew; split
  · rename_i h; simpa using h
  · simp

theorem addNew_of_mem (a : List String) (r : String) (h : r ∈ a) : addNew a r = a := by
  simp [addNew, h]

theorem addNew_len (a : List String) (r : String) : a.length ≤ (addNew a r).length := by
  unfold addNew; split <;> simp

theorem addNew_len_eq (a : List String) (r : String) (h : (addNew a r).length = a.length) : r ∈ a := by
  unfold addNew at h; split at h
  · rename_i hc; simpa using hc
  · simp at h

theorem foldAdd_sub : ∀ (rs a : List String), ∀ x ∈ a, x ∈ rs.foldl addNew a
  | [], a, x, hx => by simpa using hx
  | r :: rs, a, x, hx => by
    simp only [List.foldl_cons]
    exact foldAdd_sub rs (addNew a r) x (addNew_sub a r x hx)

theorem foldAdd_mem : ∀ (rs a : List String), ∀ r ∈ rs, r ∈ rs.foldl addNew a
  | [], _, r, hr => by simp at hr
  | r0 :: rs, a, r, hr => by
    simp only [List.foldl_cons]
    rcases List.mem_cons.mp hr with rfl | hr
    · exact foldAdd_sub rs _ _ (addNew_mem a _)
    · exact foldAdd_mem rs _ r hr

theorem foldAdd_len : ∀ (rs a : List String), a.length ≤ (rs.foldl addNew a).length
  | [], a => by simp
  | r :: rs, a => by
    simp only [List.foldl_cons]
    exact Nat.le_trans (addNew_len a r) (foldAdd_len rs _)

theorem foldAdd_len_eq : ∀ (rs a : List String), (rs.foldl addNew a).length = a.length → ∀ r ∈ rs, r ∈ a
  | [], _, _, r, hr => by simp at hr
  | r0 :: rs, a, h, r, hr => by
    simp only [List.foldl_cons] at h
    have h1 := addNew_len a r0
    have h2 := foldAdd_len rs (addNew a r0)
    have he : (addNew a r0).length = a.length := by omega
    have hin : r0 ∈ a := addNew_len_eq a r0 he
    have hsame : addNew a r0 = a := addNew_of_mem a r0 hin
    rcases List.mem_cons.mp hr with rfl | hr
    · exact hin
    · rw [hsame] at h
      exact foldAdd_len_eq rs a h r hr

theorem foldAdd_same : ∀ (rs a : List String), (∀ r ∈ rs, r ∈ a) → rs.foldl addNew a = a
  | [], _, _ => rfl
  | x :: xs, a, h => by
    simp only [List.foldl_cons]
    rw [addNew_of_mem a x (h x (by simp))]
    exact foldAdd_same xs a (fun r hr => h r (by simp [hr]))

/-! one round over a list of nodes -/

def round (succ : String → List String) (qs a : List String) : List String :=
  qs.foldl (fun acc q => (succ q).foldl addNew acc) a

theorem round_sub (succ : String → List String) : ∀ (qs a : List String), ∀ x ∈ a, x ∈ round succ qs a
  | [], a, x, hx => by simpa [round] using hx
  | q :: qs, a, x, hx => by
    simp only [round, List.foldl_cons]
    exact round_sub succ qs _ x (foldAdd_sub (succ q) a x hx)

theorem round_succ (succ : String → List String) : ∀ (qs a : List String), ∀ q ∈ qs, ∀ r ∈ succ q, r ∈ round succ qs a
  | [], _, q, hq, _, _ => by simp at hq
  | q0 :: qs, a, q, hq, r, hr => by
    simp only [round, List.foldl_cons]
    rcases List.mem_cons.mp hq with rfl | hq
    · exact round_sub succ qs _ r (foldAdd_mem (succ q) a r hr)
    · exact round_succ succ qs _ q hq r hr

theorem round_len (succ : String → List String) : ∀ (qs a : List String), a.length ≤ (round succ qs a).length
  | [], a => by simp [round]
  | q :: qs, a => by
    simp only [round, List.foldl_cons]
    exact Nat.le_trans (foldAdd_len (succ q) a) (round_len succ qs _)

theorem round_len_eq (succ : String → List String) : ∀ (qs a : List String), (round succ qs a).length = a.length →
    ∀ q ∈ qs, ∀ r ∈ succ q, r ∈ a
  | [], _, _, q, hq, _, _ => by simp at hq
  | q0 :: qs, a, h, q, hq, r, hr => by
    simp only [round, List.foldl_cons] at h
    have h1 := foldAdd_len (succ q0) a
    have h2 := round_len succ qs ((succ q0).foldl addNew a)
    have h2' : ((succ q0).foldl addNew a).length ≤ (List.foldl (fun acc q => List.foldl addNew acc (succ q)) (List.foldl addNew a (succ q0)) qs).length := h2
    have he : ((succ q0).foldl addNew a).length = a.length := by omega
    have hall := foldAdd_len_eq (succ q0) a he
    -- nothing was added for q0: the accumulator is unchanged
    have hsame : (succ q0).foldl addNew a = a := foldAdd_same (succ q0) a hall
    rcases List.mem_cons.mp hq with rfl | hq
    · exact hall r hr
    · rw [hsame] at h
      exact round_len_eq succ qs a h q hq r hr

/-- closed under the successor relation -/
def Closed (succ : String → List String) (v : List String) : Prop := ∀ q ∈ v, ∀ r ∈ succ q, r ∈ v

theorem expandG_sub (succ : String → List String) (v : List String) : ∀ x ∈ v, x ∈ expandG succ v :=
  round_sub succ v v

theorem expandG_succ (succ : String → List String) (v : List String) : ∀ q ∈ v, ∀ r ∈ succ q, r ∈ expandG succ v :=
  round_succ succ v v

theorem expandG_fix (succ : String → List String) (v : List String) (h : (expandG succ v).length = v.length) :
    Closed succ v := round_len_eq succ v v h

/-! the potential: keyed nodes that are in the set with all their successors -/

def done (succ : String → List String) (v : List String) (q : String) : Bool :=
  v.contains q && (succ q).all v.contains

def count (succ : String → List String) (keys v : List String) : Nat := (keys.filter (done succ v)).length

theorem filter_len_mono {α} (p p' : α → Bool) (hpp : ∀ x, p x = true → p' x = true) :
    ∀ (l : List α), (l.filter p).length ≤ (l.filter p').length
  | [] => by simp
  | x :: xs => by
    have ih := filter_len_mono p p' hpp xs
    by_cases hp : p x = true
    · simp [hp, hpp x hp]; exact ih
    · have hp' : p x = false := by simpa using hp
      cases hq : p' x <;> simp [hp', hq] <;> omega

theorem filter_len_strict {α} (p p' : α → Bool) (hpp : ∀ x, p x = true → p' x = true) :
    ∀ (l : List α), (∃ x ∈ l, p x = false ∧ p' x = true) → (l.filter p).length < (l.filter p').length
  | [], h => by obtain ⟨x, hx, _⟩ := h; simp at hx
  | y :: ys, h => by
    obtain ⟨x, hx, hpx, hpx'⟩ := h
    have hmono := filter_len_mono p p' hpp ys
    rcases List.mem_cons.mp hx with rfl | hx
    · simp [hpx, hpx']; omega
    · have ih := filter_len_strict p p' hpp ys ⟨x, hx, hpx, hpx'⟩
      by_cases hp : p y = true
      · simp [hp, hpp y hp]; exact ih
      · have hp' : p y = false := by simpa using hp
        cases hq : p' y <;> simp [hp', hq] <;> omega

theorem done_mono (succ : String → List String) (v v' : List String) (hsub : ∀ x ∈ v, x ∈ v') (q : String)
    (h : done succ v q = true) : done succ v' q = true := by
  simp only [done, Bool.and_eq_true, List.contains_iff_mem, List.all_eq_true] at h ⊢
  exact ⟨hsub q h.1, fun r hr => hsub r (h.2 r hr)⟩

/-- a round that adds something finishes one more keyed node -/
theorem count_lt (succ : String → List String) (keys v : List String)
    (hkeys : ∀ q, succ q ≠ [] → q ∈ keys)
    (hgrow : (expandG succ v).length ≠ v.length) :
    count succ keys v < count succ keys (expandG succ v) := by
  apply filter_len_strict _ _ (done_mono succ v _ (expandG_sub succ v))
  -- some node of v has a successor outside v
  have hnc : ¬ Closed succ v := by
    intro hc
    apply hgrow
    -- a closed set is not extended
    have : ∀ (qs a : List String), (∀ q ∈ qs, ∀ r ∈ succ q, r ∈ a) → round succ qs a = a := by
      intro qs
      induction qs with
      | nil => intro a _; rfl
      | cons q qs ih =>
        intro a h
        simp only [round, List.foldl_cons]
        have hsame : (succ q).foldl addNew a = a := foldAdd_same (succ q) a (h q (by simp))
        rw [hsame]
        exact ih a (fun q' hq' => h q' (by simp [hq']))
    have := this v v hc
    unfold expandG
    show (round succ v v).length = v.length
    rw [this]
  have hex : ∃ q ∈ v, ∃ r ∈ succ q, r ∉ v := by
    cases hb : (v.all fun q => (succ q).all v.contains) with
    | true =>
      exfalso; apply hnc
      intro q hq r hr
      simp only [List.all_eq_true, List.contains_iff_mem] at hb
      exact hb q hq r hr
    | false =>
      simp only [List.all_eq_false] at hb
      obtain ⟨q, hq, hq2⟩ := hb
      simp only [Bool.not_eq_true, List.all_eq_false] at hq2
      obtain ⟨r, hr, hrv⟩ := hq2
      exact ⟨q, hq, r, hr, by simpa using hrv⟩
  obtain ⟨q, hq, r, hr, hrv⟩ := hex
  refine ⟨q, hkeys q (by intro he; rw [he] at hr; simp at hr), ?_, ?_⟩
  · simp only [done, Bool.and_eq_false_iff]
    right
    simp only [List.all_eq_false]
    exact ⟨r, hr, by simpa using hrv⟩
  · simp only [done, Bool.and_eq_true, List.contains_iff_mem, List.all_eq_true]
    exact ⟨expandG_sub succ v q hq, fun r' hr' => expandG_succ succ v q hq r' hr'⟩

theorem count_le (succ : String → List String) (keys v : List String) : count succ keys v ≤ keys.length :=
  List.length_filter_le _ _

/-- **the loop reaches a fixpoint**: with more fuel than keyed nodes not yet finished, the result
is closed under the successor relation -/
theorem reachG_closed (succ : String → List String) (keys : List String)
    (hkeys : ∀ q, succ q ≠ [] → q ∈ keys) :
    ∀ (n : Nat) (v : List String), keys.length - count succ keys v < n → Closed succ (reachG succ n v)
  | 0, _, h => by omega
  | n + 1, v, h => by
    simp only [reachG]
    by_cases he : (expandG succ v).length = v.length
    · simp only [he, beq_self_eq_true, if_true]
      exact expandG_fix succ v he
    · have he' : ((expandG succ v).length == v.length) = false := by simpa using he
      simp only [he', Bool.false_eq_true, if_false]
      apply reachG_closed succ keys hkeys n
      have h1 := count_lt succ keys v hkeys he
      have h2 := count_le succ keys (expandG succ v)
      omega

theorem reachG_sub (succ : String → List String) : ∀ (n : Nat) (v : List String), ∀ x ∈ v, x ∈ reachG succ n v
  | 0, _, x, hx => by simpa [reachG] using hx
  | n + 1, v, x, hx => by
    simp only [reachG]
    split
    · exact hx
    · exact reachG_sub succ n _ x (expandG_sub succ v x hx)

end Gomacro.Analysis.Reach

namespace Gomacro.Analysis
open List Gomacro Gomacro.IR Gomacro.GoFacts

/-- what one visited name adds to the set: the references of its declaration, and its embedded types -/
def succOf (fb : FactBase) (enums : List EnumInfo) (unions : List (String × List String)) (q : String) : List String :=
  match fb.type? q with
  | none => []
  | some tf => refsOfOutcome (declOf fb enums unions tf) ++ (if tf.underStr == timeString then [] else embeddedRefs tf)

theorem expand_eq (fb : FactBase) (enums : List EnumInfo) (unions : List (String × List String)) (v : List String) :
    expand fb enums unions v = Reach.expandG (succOf fb enums unions) v := by
  unfold expand Reach.expandG
  congr 1
  funext acc q
  unfold succOf
  cases fb.type? q <;> rfl

theorem reachAux_eq (fb : FactBase) (enums : List EnumInfo) (unions : List (String × List String)) :
    ∀ (n : Nat) (v : List String), reachAux fb enums unions n v = Reach.reachG (succOf fb enums unions) n v
  | 0, _ => rfl
  | n + 1, v => by
    simp only [reachAux, Reach.reachG, expand_eq]
    split
    · rfl
    · exact reachAux_eq fb enums unions n _

theorem type?_mem (fb : FactBase) (q : String) (tf : TypeFact) (h : fb.type? q = some tf) :
    tf ∈ fb.types ∧ tf.q = q := by
  unfold FactBase.type? at h
  exact ⟨List.mem_of_find?_eq_some h, by simpa using List.find?_some h⟩

/-- **finite**: the reachability loop of the analysis model, with one unit of fuel more than there
are named types, stops on a set closed under "refers to" -/
theorem C12_reach_closed (fb : FactBase) (enums : List EnumInfo) (unions : List (String × List String))
    (start : List String) :
    Reach.Closed (succOf fb enums unions) (reachAux fb enums unions (fb.types.length + 1) start) := by
  rw [reachAux_eq]
  apply Reach.reachG_closed (succOf fb enums unions) (fb.types.map (·.q))
  · intro q hq
    unfold succOf at hq
    cases h : fb.type? q with
    | none => simp [h] at hq
    | some tf =>
      obtain ⟨hm, hq'⟩ := type?_mem fb q tf h
      exact List.mem_map.mpr ⟨tf, hm, hq'⟩
  · simp only [List.length_map]
    omega


/-- every name the program refers to is the name of a type with facts (what the go/types walker
guarantees: it records every named type it meets) -/
def RefsHaveFacts (fb : FactBase) (enums : List EnumInfo) (unions : List (String × List String)) (src : List Ty) : Prop :=
  ∀ q, (q ∈ src.flatMap Ty.refs ∨ ∃ p, q ∈ succOf fb enums unions p) → (fb.type? q).isSome = true

/-- **closed, unconditionally**: when the enums and the source list convert, the analysis model
succeeds — its reachability loop never runs out of fuel: the environment it returns is closed -/
theorem C12_analysis_succeeds (fb : FactBase) (enums : List EnumInfo) (src : List Ty)
    (he : allEnums fb = .ok enums) (hs : sourceTys fb = .ok src)
    (hfacts : RefsHaveFacts fb enums (allUnions fb) src) :
    ∃ r, analyse fb = .ok r := by
  unfold analyse
  simp -zeta only [he]
  extract_lets unions
  simp -zeta only [hs]
  extract_lets start reach outcomes decls failures unionQs decls'
  have hclosed : Reach.Closed (succOf fb enums unions) reach := C12_reach_closed fb enums unions _
  have hstart : ∀ q ∈ src.flatMap Ty.refs, q ∈ reach := by
    intro q hq
    show q ∈ reachAux fb enums unions (fb.types.length + 1) start
    rw [reachAux_eq]
    exact Reach.reachG_sub _ _ _ q (List.mem_eraseDups.mpr hq)
  -- every mentioned element of the reachable set is a declaration of the result or a recorded failure
  have hok : ∀ q ∈ reach, (q ∈ src.flatMap Ty.refs ∨ ∃ p, q ∈ succOf fb enums unions p) →
      (decls'.any (·.q == q) || (failures.map (·.1)).contains q) = true := by
    intro q hq hmention
    have hsome := hfacts q hmention
    cases htf : fb.type? q with
    | none => simp [htf] at hsome
    | some tf =>
      have hout : (q, declOf fb enums unions tf) ∈ outcomes :=
        List.mem_filterMap.mpr ⟨q, hq, by simp [htf]⟩
      cases ho : declOf fb enums unions tf with
      | ok d =>
        have hdq : d.q = q := by
          have := (C12_decl_identity fb enums unions tf d ho).1
          rw [this]; exact (type?_mem fb q tf htf).2
        rw [ho] at hout
        have hd : d ∈ decls := List.mem_filterMap.mpr ⟨_, hout, rfl⟩
        apply Bool.or_eq_true_iff.mpr
        left
        rw [List.any_eq_true]
        refine ⟨_, List.mem_map.mpr ⟨d, hd, rfl⟩, ?_⟩
        cases hb : d.body <;> simp [hdq]
      | diag m =>
        rw [ho] at hout
        apply Bool.or_eq_true_iff.mpr
        right
        simp only [List.contains_iff_mem]
        exact List.mem_map.mpr ⟨(q, "diag"), List.mem_filterMap.mpr ⟨_, hout, rfl⟩, rfl⟩
      | crash m =>
        rw [ho] at hout
        apply Bool.or_eq_true_iff.mpr
        right
        simp only [List.contains_iff_mem]
        exact List.mem_map.mpr ⟨(q, "crash"), List.mem_filterMap.mpr ⟨_, hout, rfl⟩, rfl⟩
  have hcl : closedB src decls' (failures.map (·.1)) = true := by
    unfold closedB
    simp only [Bool.and_eq_true, List.all_eq_true]
    constructor
    · intro t ht q hq
      have hm : q ∈ src.flatMap Ty.refs := List.mem_flatMap.mpr ⟨t, ht, hq⟩
      exact hok q (hstart q hm) (Or.inl hm)
    · intro d' hd' r hr
      obtain ⟨d, hd, rfl⟩ := List.mem_map.mp hd'
      obtain ⟨⟨p, o⟩, hpo, hsome⟩ := List.mem_filterMap.mp hd
      cases o with
      | ok d0 =>
        simp only [Option.some.injEq] at hsome
        subst hsome
        obtain ⟨p', hp', hmap⟩ := List.mem_filterMap.mp hpo
        cases htf : fb.type? p' with
        | none => simp [htf] at hmap
        | some tf =>
          simp only [htf, Option.map, Option.some.injEq, Prod.mk.injEq] at hmap
          obtain ⟨rfl, hdecl⟩ := hmap
          have hrefs : r ∈ d0.body.refs := by
            cases hb : d0.body <;> simp_all [Body.refs]
          have hsucc : r ∈ succOf fb enums unions p' := by
            unfold succOf
            simp only [htf, hdecl, refsOfOutcome]
            exact List.mem_append.mpr (Or.inl hrefs)
          exact hok r (hclosed p' hp' r hsucc) (Or.inr ⟨p', hsucc⟩)
      | diag m => simp at hsome
      | crash m => simp at hsome
  simp only [hcl, if_true]
  exact ⟨_, rfl⟩

end Gomacro.Analysis
