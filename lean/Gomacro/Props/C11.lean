import Gomacro.Analysis
/-!
# C11 — Union detection and membership are exact

Theorems about `pkgUnions` (model of `fetchPkgUnions`) and `implementsOf` (model of
`Struct.setImplements` as applied by `populateTypes`), for every scope and every
`types.Implements` matrix (which is a parameter: go/types is trusted).
-/
namespace Gomacro.Analysis
open List Gomacro.IR Gomacro.GoFacts

/-- the members the code computes for interface `i` of package `p` -/
def unionMembers (fb : FactBase) (p : PkgFacts) (i : String) : List String :=
  p.types.filter fun t => !isIfaceQ fb t && implementsB p t i

/-- **union iff**: a named interface of the package is a union exactly when some non-interface
named type of the same package implements it; its member list is then `unionMembers`. -/
theorem C11_union_iff (fb : FactBase) (p : PkgFacts) (i : String) (ms : List String) :
    (i, ms) ∈ pkgUnions fb p ↔
      (i ∈ p.types ∧ isIfaceQ fb i = true ∧ ms = unionMembers fb p i ∧ ms ≠ []) := by
  unfold pkgUnions unionMembers
  simp only [List.mem_filterMap, List.mem_filter]
  constructor
  · rintro ⟨j, ⟨hj, hi⟩, h⟩
    split at h
    · simp at h
    · rename_i hne
      simp only [Option.some.injEq, Prod.mk.injEq] at h
      obtain ⟨rfl, rfl⟩ := h
      exact ⟨hj, hi, rfl, by simpa using hne⟩
  · rintro ⟨hj, hi, rfl, hne⟩
    refine ⟨i, ⟨hj, hi⟩, ?_⟩
    split
    · rename_i he; exact absurd (List.isEmpty_iff.mp he) hne
    · rfl

/-- **members exact**: exactly the non-interface named types of the package implementing it -/
theorem C11_members_exact (fb : FactBase) (p : PkgFacts) (i t : String) :
    t ∈ unionMembers fb p i ↔ (t ∈ p.types ∧ isIfaceQ fb t = false ∧ implementsB p t i = true) := by
  unfold unionMembers
  simp [List.mem_filter]

theorem C11_no_interface_member (fb : FactBase) (p : PkgFacts) (i t : String)
    (h : t ∈ unionMembers fb p i) : isIfaceQ fb t = false :=
  ((C11_members_exact fb p i t).mp h).2.1

/-- members come from the union's own package scope -/
theorem C11_members_same_pkg (fb : FactBase) (p : PkgFacts) (i t : String)
    (h : t ∈ unionMembers fb p i) : t ∈ p.types :=
  ((C11_members_exact fb p i t).mp h).1

/-- **name order, each once**: the scope is strictly sorted by name, and so are the members -/
theorem C11_members_sorted_nodup (fb : FactBase) (p : PkgFacts) (i : String)
    (hs : p.types.Pairwise (· < ·)) : (unionMembers fb p i).Pairwise (· < ·) :=
  List.Pairwise.sublist List.filter_sublist hs

/-- **back-links exact**: the unions a struct reports are exactly the analysed unions listing it -/
theorem C11_implements_exact (unions : List (String × List String)) (analysed : List String)
    (q u : String) :
    u ∈ implementsOf unions analysed q ↔
      ∃ ms, (u, ms) ∈ unions ∧ u ∈ analysed ∧ q ∈ ms := by
  unfold implementsOf
  simp only [List.mem_mergeSort, List.mem_map, List.mem_filter, Bool.and_eq_true,
    List.contains_iff_mem, Prod.exists, exists_and_right, exists_eq_right]

/-- **back-links in name order** -/
theorem C11_implements_sorted (unions : List (String × List String)) (analysed : List String)
    (q : String) : (implementsOf unions analysed q).Pairwise (· ≤ ·) := by
  unfold implementsOf
  have := List.pairwise_mergeSort (le := fun a b : String => decide (a ≤ b))
    (fun a b c h1 h2 => by simp only [decide_eq_true_eq] at *; exact String.le_trans h1 h2)
    (fun a b => by simp only [Bool.or_eq_true, decide_eq_true_eq]; exact String.le_total _ _)
    ((unions.filter fun (u, ms) => analysed.contains u && ms.contains q).map (·.1))
  exact this.imp (fun h => by simpa using h)

/-! non-vacuity -/
example : "U0" ∈ implementsOf [("U1", ["S"]), ("U0", ["S", "T"]), ("U2", ["T"])] ["U0", "U1", "U2"] "S" :=
  (C11_implements_exact _ _ _ _).mpr ⟨["S", "T"], by decide, by decide, by decide⟩
example : "U2" ∉ implementsOf [("U1", ["S"]), ("U0", ["S", "T"]), ("U2", ["T"])] ["U0", "U1", "U2"] "S" := by
  rw [C11_implements_exact]
  rintro ⟨ms, h1, _, h3⟩
  simp at h1
  subst h1
  simp at h3

end Gomacro.Analysis
