import Gomacro.GoJson
/-!
# C02 — Union values survive a JSON round trip in the Kind/Data wire format

Theorems about `Gomacro/GoJson.lean` (`encode` = encoding/json + the wrappers gounions generates;
validated against the compiled real thing on every run):
 * wire format of a union value in a wrapped position;
 * a struct marshalled through its generated shadow struct keeps, for every non-union field,
   exactly the key and the encoding of the plain struct (struct tags included);
 * the generated `switch wr.Kind` decoder inverts the generated encoder (abstract codec form).
The round trip through encoding/json's own decoder for the non-union layers is NOT proved
(encoding/json is not modelled as a decoder); it is exercised on the compiled code on every run.
-/
namespace Gomacro.GoJson
open Gomacro.IR

/-- **wire format of a union**: in a wrapped position a member value `v` of member type `name` is
written as the object `{"Kind": name, "Data": <the member's own JSON>}`. -/
theorem C02_wire_union (env : Env) (w : Wrappers) (fuel : Nat) (q : String) (d : Decl) (ms : List Ty)
    (name : String) (mv : GoVal) (hd : env.find? q = some d) (hb : d.body = .union ms) :
    encode env w (fuel + 1) true (.ref q) (.iface (some (name, mv))) =
      .obj [("Data", encode env w fuel false (memberTy env d name) mv), ("Kind", .str name)] := by
  simp [encode, hd, hb]

/-- outside a wrapped position (no generated code around it) Go writes the dynamic value bare -/
theorem wire_union_unwrapped (env : Env) (w : Wrappers) (fuel : Nat) (q : String) (d : Decl) (ms : List Ty)
    (name : String) (mv : GoVal) (hd : env.find? q = some d) (hb : d.body = .union ms) :
    encode env w (fuel + 1) false (.ref q) (.iface (some (name, mv))) =
      encode env w fuel false (memberTy env d name) mv := by
  simp [encode, hd, hb]

/-- **sibling fields**: marshalling a struct through the generated shadow struct gives, when none
of the listed fields is a union, exactly what encoding/json gives on the original struct: same
keys (tag names), same `omitempty` / `string` behaviour, same encodings. -/
theorem C02_shadow_fields_same (env : Env) (w : Wrappers) (fuel : Nat) (fs : List Field)
    (vals : List (String × GoVal)) (h : ∀ f ∈ fs, isUnionTy env f.ty = false) :
    encodeFields env w fuel true fs vals = encodeFields env w fuel false fs vals := by
  induction fs with
  | nil => simp [encodeFields]
  | cons f fs ih =>
    have hf := h f List.mem_cons_self
    have ih' := ih (fun g hg => h g (List.mem_cons_of_mem _ hg))
    simp only [encodeFields, hf, Bool.and_false, ih']

/-- the keys written for a struct do not depend on the shadow struct at all -/
theorem C02_shadow_keys_same (env : Env) (w : Wrappers) (fuel : Nat) (fs : List Field)
    (vals : List (String × GoVal)) :
    (encodeFields env w fuel true fs vals).map (·.1) = (encodeFields env w fuel false fs vals).map (·.1) := by
  induction fs with
  | nil => simp [encodeFields]
  | cons f fs ih =>
    simp only [encodeFields]
    split
    · split
      · exact ih
      · simp [ih]
    · exact ih

/-! ### the generated Kind/Data codec, abstractly -/

/-- `wrapper{Kind, Data}` as the generated `MarshalJSON` builds it -/
def wrap (kind : String) (data : JVal) : JVal := .obj [("Data", data), ("Kind", .str kind)]

/-- what the generated `UnmarshalJSON` reads back: `wr.Kind`, `wr.Data` (key order is irrelevant) -/
def unwrap : JVal → Option (String × JVal)
  | .obj kvs =>
    match kvs.lookup "Kind", kvs.lookup "Data" with
    | some (.str k), some d => some (k, d)
    | _, _ => none
  | _ => none

theorem unwrap_wrap (k : String) (d : JVal) : unwrap (wrap k d) = some (k, d) := by
  simp [wrap, unwrap, List.lookup]

/-- the generated `switch wr.Kind { case "M": json.Unmarshal(wr.Data, &data) … }` -/
def decodeUnion {α} (members : List (String × (JVal → Option α))) (j : JVal) : Option α :=
  match unwrap j with
  | some (k, d) => match members.lookup k with
    | some dec => dec d
    | none => none
  | none => none

/-- **round trip of the union layer**: if the member's own codec round-trips, so does the
Kind/Data codec, whichever member it is (member names are the dispatch keys). -/
theorem C02_union_codec_roundtrip {α} (members : List (String × (JVal → Option α)))
    (name : String) (dec : JVal → Option α) (enc : α → JVal) (v : α)
    (hm : members.lookup name = some dec) (hrt : dec (enc v) = some v) :
    decodeUnion members (wrap name (enc v)) = some v := by
  simp [decodeUnion, unwrap_wrap, hm, hrt]

/-- an unknown Kind is never decoded into a value (the generated code panics "exhaustive switch") -/
theorem decodeUnion_unknown_kind {α} (members : List (String × (JVal → Option α)))
    (k : String) (d : JVal) (h : members.lookup k = none) : decodeUnion members (wrap k d) = none := by
  simp [decodeUnion, unwrap_wrap, h]

/-- element-wise wrapping of a named slice of unions: one wrapped element per element, in order -/
theorem C02_named_slice_elementwise (env : Env) (w : Wrappers) (fuel : Nat) (e : Ty) (es : List GoVal) :
    (encodeListW env w fuel e es).length = es.length ∧
    ∀ i (h : i < es.length), (encodeListW env w fuel e es)[i]? = some (encode env w fuel true e es[i]) := by
  induction es with
  | nil => simp [encodeListW]
  | cons x xs ih =>
    refine ⟨by simp [encodeListW, ih.1], ?_⟩
    intro i hi
    cases i with
    | zero => simp [encodeListW]
    | succ n =>
      simp only [encodeListW, List.getElem?_cons_succ, List.getElem_cons_succ]
      exact ih.2 n (by simpa using hi)

/-! non-vacuity: the hypotheses of `C02_wire_union` hold in a concrete environment -/
example : ∃ d ms, ({ pkgPath := "p", pkgName := "p", source := [], decls := [
      ⟨"p.U", "p", "p", "U", [], true, .union [.ref "p.X"]⟩,
      ⟨"p.X", "p", "p", "X", [], true, .struct [⟨"N", .basic "int" .int, "", true, false⟩] [] []⟩] } : Env).find? "p.U"
      = some d ∧ d.body = .union ms :=
  ⟨⟨"p.U", "p", "p", "U", [], true, .union [.ref "p.X"]⟩, [.ref "p.X"], by decide, rfl⟩

end Gomacro.GoJson
