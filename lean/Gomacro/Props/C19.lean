import Gomacro.Lemmas.Decls
/-!
# C19 — Declaration assembly is a set-like, order-independent merge

Property theorems only.  Model: `Gomacro/Decls.lean` (`WriteResult` = every admissible
behaviour of `generator.WriteDeclarations`, the unstable `sort.Slice` being *any*
ID-sorted permutation of the input).
-/
namespace Gomacro.Decls
open List

/-- ids emitted = priority ids ascending, then the other ids ascending -/
theorem emitted_ids_eq {input s : List Decl} (hp : s.Perm input) (hs : SortedById s) :
    (emitted s).map (·.id) = specOrder input := by
  unfold emitted stablePrio specOrder
  rw [dedupFirst_append, List.map_append]
  have hsP : SortedById (s.filter (·.prio)) := List.Pairwise.sublist List.filter_sublist hs
  have hsN : SortedById (s.filter (fun d => !d.prio)) := List.Pairwise.sublist List.filter_sublist hs
  have hasPrio_iff : ∀ i, hasPrio input i = true ↔ i ∈ (s.filter (·.prio)).map (·.id) := by
    intro i
    unfold hasPrio
    rw [← hp.any_eq]
    simp only [List.any_eq_true, Bool.and_eq_true, beq_iff_eq, List.mem_map, List.mem_filter]
    constructor
    · rintro ⟨d, hd, h1, h2⟩; exact ⟨d, ⟨hd, h2⟩, h1⟩
    · rintro ⟨d, ⟨hd, h2⟩, h1⟩; exact ⟨d, hd, h1, h2⟩
  congr 1
  · apply strict_sorted_ext (strict_dedupFirst_ids hsP)
      (List.Pairwise.sublist List.filter_sublist (pairwise_sortedIds _))
    intro i
    rw [mem_dedupFirst_ids, List.mem_filter, mem_sortedIds, hasPrio_iff]
    simp only [List.not_mem_nil, not_false_eq_true, and_true]
    constructor
    · intro h
      refine ⟨?_, h⟩
      obtain ⟨d, hd, rfl⟩ := List.mem_map.mp h
      exact List.mem_map.mpr ⟨d, hp.subset (List.mem_filter.mp hd).1, rfl⟩
    · exact fun h => h.2
  · apply strict_sorted_ext (strict_dedupFirst_ids hsN)
      (List.Pairwise.sublist List.filter_sublist (pairwise_sortedIds _))
    intro i
    rw [mem_dedupFirst_ids, List.mem_filter, mem_sortedIds]
    simp only [List.append_nil, Bool.not_eq_true']
    have hb : hasPrio input i = false ↔ i ∉ (s.filter (·.prio)).map (·.id) := by
      rw [← hasPrio_iff]; cases hasPrio input i <;> simp
    rw [hb]
    constructor
    · rintro ⟨h1, h2⟩
      refine ⟨?_, h2⟩
      obtain ⟨d, hd, rfl⟩ := List.mem_map.mp h1
      exact List.mem_map.mpr ⟨d, hp.subset (List.mem_filter.mp hd).1, rfl⟩
    · rintro ⟨h1, h2⟩
      refine ⟨?_, h2⟩
      obtain ⟨d, hd, rfl⟩ := List.mem_map.mp h1
      have hds : d ∈ s := hp.symm.subset hd
      refine List.mem_map.mpr ⟨d, List.mem_filter.mpr ⟨hds, ?_⟩, rfl⟩
      cases hpr : d.prio
      · rfl
      · exact absurd (List.mem_map.mpr ⟨d, List.mem_filter.mpr ⟨hds, hpr⟩, rfl⟩) h2

theorem emitted_subset {s : List Decl} : ∀ d ∈ emitted s, d ∈ s := by
  intro d hd
  have := (dedupFirst_sublist [] (stablePrio s)).subset hd
  unfold stablePrio at this
  rcases List.mem_append.mp this with h | h <;> exact (List.mem_filter.mp h).1

theorem contentOf_eq {input : List Decl} (hc : Consistent input) {d : Decl} (hd : d ∈ input) :
    contentOf input d.id = d.content := by
  unfold contentOf
  cases hf : input.find? (fun x => x.id == d.id) with
  | none =>
    have := List.find?_eq_none.mp hf d hd
    simp at this
  | some e =>
    have he := List.mem_of_find?_eq_some hf
    have hid := List.find?_some hf
    simp only [beq_iff_eq] at hid
    exact hc e he d hd hid

/-- **C19 (spec equality).** Whatever ID-sorted permutation the unstable sort returns, the text
is: for every distinct ID exactly once its content and a newline, the IDs having a priority
declaration first in increasing order, then the others in increasing order. -/
theorem C19_spec {input : List Decl} {out : String}
    (hc : Consistent input) (h : WriteResult input out) : out = spec input := by
  obtain ⟨s, hp, hs, rfl⟩ := h
  unfold render spec
  rw [← emitted_ids_eq hp hs, List.map_map]
  congr 1
  apply List.map_congr_left
  intro d hd
  simp only [Function.comp]
  rw [contentOf_eq hc (hp.subset (emitted_subset d hd))]

/-- **C19 (order independence).** -/
theorem C19_perm {a b : List Decl} {o₁ o₂ : String} (hc : Consistent a) (hab : a.Perm b)
    (h₁ : WriteResult a o₁) (h₂ : WriteResult b o₂) : o₁ = o₂ := by
  have h₂' : WriteResult a o₂ := by
    obtain ⟨s, hp, hs, e⟩ := h₂
    exact ⟨s, hp.trans hab.symm, hs, e⟩
  rw [C19_spec hc h₁, C19_spec hc h₂']

/-- the executable instance is one admissible behaviour (so `WriteResult` is inhabited) -/
theorem writeDecls_mem (input : List Decl) : WriteResult input (writeDecls input) := by
  refine ⟨input.mergeSort (fun a b => decide (a.id ≤ b.id)), List.mergeSort_perm _ _, ?_, rfl⟩
  have := List.pairwise_mergeSort (le := fun a b : Decl => decide (a.id ≤ b.id))
    (fun a b c h1 h2 => by
      simp only [decide_eq_true_eq] at *; exact String.le_trans h1 h2)
    (fun a b => by
      simp only [Bool.or_eq_true, decide_eq_true_eq]; exact String.le_total _ _) input
  exact this.imp (fun h => by simpa using h)

theorem C19_total (input : List Decl) : ∃ out, WriteResult input out :=
  ⟨_, writeDecls_mem input⟩

theorem C19_writeDecls_eq_spec {input : List Decl} (hc : Consistent input) :
    writeDecls input = spec input := C19_spec hc (writeDecls_mem input)

/-- each distinct id is emitted exactly once -/
theorem C19_exactly_once {input s : List Decl} (hp : s.Perm input) :
    ((emitted s).map (·.id)).Nodup ∧ ∀ i, i ∈ (emitted s).map (·.id) ↔ i ∈ input.map (·.id) := by
  refine ⟨nodup_dedupFirst_ids _ _, ?_⟩
  intro i
  unfold emitted
  rw [mem_dedupFirst_ids]
  simp only [List.not_mem_nil, not_false_eq_true, and_true, stablePrio, List.map_append,
    List.mem_append, List.mem_map, List.mem_filter]
  constructor
  · rintro (⟨d, ⟨hd, _⟩, rfl⟩ | ⟨d, ⟨hd, _⟩, rfl⟩) <;> exact ⟨d, hp.subset hd, rfl⟩
  · rintro ⟨d, hd, rfl⟩
    cases hpr : d.prio
    · exact Or.inr ⟨d, ⟨hp.symm.subset hd, by simp [hpr]⟩, rfl⟩
    · exact Or.inl ⟨d, ⟨hp.symm.subset hd, hpr⟩, rfl⟩

/-- shape of the specification order: two strictly increasing runs, priority ids first -/
theorem C19_spec_order (input : List Decl) :
    ∃ P O, specOrder input = P ++ O ∧ P.Pairwise (· < ·) ∧ O.Pairwise (· < ·) ∧
      (∀ i, i ∈ P ↔ i ∈ input.map (·.id) ∧ hasPrio input i = true) ∧
      (∀ i, i ∈ O ↔ i ∈ input.map (·.id) ∧ hasPrio input i = false) := by
  refine ⟨_, _, rfl, List.Pairwise.sublist List.filter_sublist (pairwise_sortedIds _),
    List.Pairwise.sublist List.filter_sublist (pairwise_sortedIds _), ?_, ?_⟩
  · intro i; simp [List.mem_filter, mem_sortedIds]
  · intro i; simp [List.mem_filter, mem_sortedIds]

/-! non-vacuity: a consistent input with equal IDs of different priority -/
example : Consistent [⟨"b", "B", false⟩, ⟨"a", "A", false⟩, ⟨"b", "B", true⟩] := by
  intro a ha b hb h
  simp only [List.mem_cons, List.not_mem_nil, or_false] at ha hb
  rcases ha with rfl | rfl | rfl <;> rcases hb with rfl | rfl | rfl <;> simp_all

example : spec [⟨"b", "B", false⟩, ⟨"a", "A", false⟩, ⟨"b", "B", true⟩] = "B\nA\n" := by decide

end Gomacro.Decls
