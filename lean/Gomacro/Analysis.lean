import Gomacro.IR
import Gomacro.GoFacts
import Gomacro.Tags
/-!
Model of the analysis stage (analysis/analysis.go, enums.go, unions.go, compounds.go, basics.go)
as a function of the fact base.

The Go code is a memoised recursive descent over `types.Type`.  The model is *declarative*:
 * `convert`  : a Go type expression ↦ IR type expression (named types are leaves),
 * `declOf`   : the IR declaration of one named type (enum / union / struct / named),
 * `reach`    : the set of named types reachable from the analysed file,
 * `analyse`  : source ↦ environment of the reachable declarations, back-links included.
Agreement with the recursive descent is checked by the correspondence runner on every run.
-/
namespace Gomacro.Analysis
open Gomacro IR GoFacts

def timeString : String := "struct{wall uint64; ext int64; loc *time.Location}"

def containsSub (s sub : String) : Bool := (s.splitOn sub).length > 1

def isDateName (name : String) : Bool := containsSub name.toLower "date"

def bkOfInfo : String → BKind
  | "bool" => .bool | "int" => .int | "float" => .float | "string" => .str | _ => .none

/-! ### enums (enums.go) -/

def optOut (c : ConstFact) : Bool := containsSub c.comment "gomacro:no-enum"

def toMember (c : ConstFact) : Member :=
  { name := c.name, val := c.val, valStr := c.valStr, comment := c.comment, exported := c.exported,
    isInt := c.isInt, int := c.int, str := c.str }

/-- `fetchConstComment` at the pinned commit: the position lookup returns the `*ast.ValueSpec`
only for the first name of a spec; for `A, B T = 1, 2` the lookup of `B` yields the identifier
and the unchecked type assertion fails. -/
def constCommentOutcomeOld (c : ConstFact) : Outcome Unit :=
  if c.specIndex = 0 then .ok () else .crash "enums.fetchConstComment: node.(*ast.ValueSpec)"

/-- `fetchConstComment` after the repair: the specification declaring the name is looked up
directly, whatever the position of the name inside it. -/
def constCommentOutcome (_c : ConstFact) : Outcome Unit := .ok ()

/-- constants of named type `q`, not opted out, in scope order -/
def enumMembers (p : PkgFacts) (q : String) : List ConstFact :=
  p.consts.filter fun c => c.typeQ == q && !optOut c

def insertByVal (m : Member) : List Member → List Member
  | [] => [m]
  | x :: xs => if m.int < x.int then m :: x :: xs else x :: insertByVal m xs

/-- a stable sort by value (one admissible behaviour of the unstable `sort.Sort`) -/
def sortByVal (ms : List Member) : List Member := ms.foldr insertByVal []

def exportedVals (ms : List Member) : List Int := (ms.filter (·.exported)).map (·.int)

def dedupInts : List Int → List Int
  | [] => []
  | x :: xs => if xs.contains x then dedupInts xs else x :: dedupInts xs

def maxInt : List Int → Int
  | [] => -1
  | x :: xs => if x > maxInt xs then x else maxInt xs

/-- the decision of `Enum.setIsIota` (after the repair: duplicates among exported values refuse) -/
def isIotaDecision (bk : BKind) (ms : List Member) : Bool :=
  bk == .int && ms.all (fun m => m.isInt && m.int ≥ 0) &&
  (let ev := exportedVals ms
   let seen := dedupInts ev
   (seen.length : Int) == maxInt ev + 1 && seen.length == ev.length)

/-- the decision as it was at the pinned commit (duplicates not detected) -/
def isIotaDecisionOld (bk : BKind) (ms : List Member) : Bool :=
  bk == .int && ms.all (fun m => m.isInt && m.int ≥ 0) &&
  (let ev := exportedVals ms
   ((dedupInts ev).length : Int) == maxInt ev + 1)

structure EnumInfo where
  q : String
  bk : BKind
  under : String
  members : List Member
  isIota : Bool
deriving Repr, Inhabited

def mkEnum (fb : FactBase) (p : PkgFacts) (q : String) : EnumInfo :=
  let ms := (enumMembers p q).map toMember
  let (bk, under) := match fb.type? q with
    | some tf => match tf.under with
      | .basic n info => (bkOfInfo info, n)
      | _ => (BKind.none, "")
    | none => (BKind.none, "")
  let iota := isIotaDecision bk ms
  { q := q, bk := bk, under := under, members := if iota then sortByVal ms else ms, isIota := iota }

def enumNames (p : PkgFacts) : List String :=
  (p.consts.filter fun c => c.typeQ != "" && !optOut c).map (·.typeQ) |>.eraseDups

/-- `fetchPkgEnums` of one package -/
def pkgEnums (fb : FactBase) (p : PkgFacts) : Outcome (List EnumInfo) :=
  match Outcome.mapM' constCommentOutcome (p.consts.filter (·.typeQ != "")) with
  | .ok _ => .ok ((enumNames p).map (mkEnum fb p))
  | .diag m => .diag m
  | .crash s => .crash s

/-- `fetchEnumsAndUnions`, enum part: every scanned package overwrites the entries of the types it
has constants of. The walk scans a package, then its imports, *without* a visited set: a package
that declares constants of a type of another package imports that package, which is therefore
scanned again afterwards — the entry of the package declaring the type is always the last one
written. (When the declaring package has no constant of the type, or lies outside the selector, the
last user package in walk order wins: the facts list the packages in a deterministic pre-order.) -/
def allEnums (fb : FactBase) : Outcome (List EnumInfo) := do
  let per ← Outcome.mapM' (pkgEnums fb) fb.pkgs
  let tagged := (fb.pkgs.zip per).flatMap fun (p, es) => es.map fun e => (p.path, e)
  let isHome (x : String × EnumInfo) : Bool := (fb.type? x.2.q).map (·.pkgPath) == some x.1
  let flat := ((tagged.filter fun x => !isHome x) ++ tagged.filter isHome).map (·.2)
  -- last writer wins
  pure (flat.reverse.foldl (fun acc e => if acc.any (·.q == e.q) then acc else e :: acc) [])

/-! ### unions (unions.go) -/

def implementsB (p : PkgFacts) (t i : String) : Bool :=
  match p.implements.lookup t with
  | some is => is.contains i
  | none => false

def isIfaceQ (fb : FactBase) (q : String) : Bool :=
  match fb.type? q with
  | some tf => tf.isIface
  | none => false

/-- `fetchPkgUnions`: (interface, members in scope order), empty ones dropped -/
def pkgUnions (fb : FactBase) (p : PkgFacts) : List (String × List String) :=
  (p.types.filter (isIfaceQ fb)).filterMap fun i =>
    let ms := p.types.filter fun t => !isIfaceQ fb t && implementsB p t i
    if ms.isEmpty then none else some (i, ms)

def allUnions (fb : FactBase) : List (String × List String) := fb.pkgs.flatMap (pkgUnions fb)

/-! ### type expressions (createType, anonymous part) -/

/-- a named type as a leaf: `time.Time` itself is predefined, everything else is a reference -/
def convertNamed (fb : FactBase) (q : String) : Outcome Ty :=
  match fb.type? q with
  | none => .crash ("no type fact for " ++ q)
  | some tf =>
    if tf.underStr == timeString && tf.pkgPath == "time" then .ok (.time (isDateName tf.name))
    else .ok (.ref q)

def convert (fb : FactBase) : GoTy → Outcome Ty
  | .basic n info => .ok (.basic n (bkOfInfo info))
  | .array n e => match convert fb e with
    | .ok e' => .ok (.arr n e') | .diag m => .diag m | .crash s => .crash s
  | .slice e => match convert fb e with
    | .ok e' => .ok (.arr (-1) e') | .diag m => .diag m | .crash s => .crash s
  | .map k e => match convert fb k with
    | .ok k' => (match convert fb e with
      | .ok e' => .ok (.map k' e') | .diag m => .diag m | .crash s => .crash s)
    | .diag m => .diag m | .crash s => .crash s
  | .ptr e => match convert fb e with
    | .ok e' => .ok (.ptr e') | .diag m => .diag m | .crash s => .crash s
  | .struct _ => .diag "anonymous structs are not supported"
  | .named q => convertNamed fb q
  | .iface _ => .diag "unsupported type (interface)"
  | .chan => .diag "unsupported type (chan)"
  | .func => .diag "unsupported type (func)"
  | .tparam n => .diag ("unsupported type " ++ n)
  | .other s => .diag ("unsupported type " ++ s)

/-! ### special comments (compounds.go) -/

def isWordChar (c : Char) : Bool := c.isAlphanum || c == '_'

/-- `isSpecialComment`: `^// gomacro:(\w+) (.+)` -/
def specialComment (line : String) : Outcome (Option Comment) :=
  let pre := "// gomacro:".toList
  let cs := line.toList
  if cs.take pre.length ≠ pre then .ok none else
  let rest := cs.drop pre.length
  let word := rest.takeWhile isWordChar
  let after := rest.drop word.length
  match word, after with
  | [], _ => .ok none
  | _, ' ' :: content =>
    let content := content.takeWhile (· ≠ '\n')
    if content.isEmpty then .ok none
    else match String.ofList word with
      | "SQL" => .ok (some ⟨1, String.ofList content⟩)
      | "QUERY" => .ok (some ⟨2, String.ofList content⟩)
      | w => .diag ("unknown special comment " ++ w)
  | _, _ => .ok none

def ignorePath (fb : FactBase) (path : String) : Bool := fb.pfx != "" && !path.startsWith fb.pfx

/-- `fetchStructComments` (after the repair): the doc comment of the type's own declaration —
the doc of the `type T struct` declaration, or of the member's own specification inside
`type ( … )`.  (At the pinned commit the doc of the whole group was used: `tf.groupDoc`.) -/
def structComments (fb : FactBase) (tf : TypeFact) : Outcome (List Comment) :=
  if ignorePath fb tf.pkgPath then .ok [] else
  if !(fb.pkgs.any (·.path == tf.pkgPath)) then .diag ("package " ++ tf.pkgPath ++ " not found") else
  let lines := tf.doc
  match Outcome.mapM' specialComment lines with
  | .ok cs => .ok (cs.filterMap id)
  | .diag m => .diag m
  | .crash s => .crash s

/-! ### declarations (createType, named part) -/

def structGoFields (fb : FactBase) (q : String) : Option (List (String × GoTy × String × Bool × Bool)) :=
  match fb.type? q with
  | some tf => match tf.under with
    | .struct fs => if tf.underStr == timeString then none else some fs
    | _ => none
  | none => none

/-- `handleStructFields`: fields in order, embedded struct fields replaced by that struct's
(already flattened) fields — unless the `json` tag gives the embedded field a name (after the
repair: at the pinned commit every embedded struct was flattened).  Fuel bounds the embedding depth. -/
def structFields (fb : FactBase) (enums : List EnumInfo) (unions : List (String × List String)) :
    Nat → List (String × GoTy × String × Bool × Bool) → Outcome (List Field)
  | _, [] => .ok []
  | fuel, (name, ty, tag, exp, emb) :: rest =>
    match convert fb ty with
    | .diag m => .diag m
    | .crash s => .crash s
    | .ok t =>
      let here : Outcome (List Field) :=
        match emb, ty, fuel with
        | true, .named q, fuel' + 1 =>
          -- as encoding/json: an embedded struct whose json tag names it (or is "-") is a regular field
          if Tags.namePart (Tags.get tag "json") != "" then .ok [⟨name, t, tag, exp, emb⟩]
          else if enums.any (·.q == q) || unions.any (·.1 == q) then .ok [⟨name, t, tag, exp, emb⟩]
          else match structGoFields fb q with
            | some fs => structFields fb enums unions fuel' fs
            | none => .ok [⟨name, t, tag, exp, emb⟩]
        | _, _, _ => .ok [⟨name, t, tag, exp, emb⟩]
      match here with
      | .diag m => .diag m
      | .crash s => .crash s
      | .ok fs =>
        match structFields fb enums unions fuel rest with
        | .ok more => .ok (fs ++ more)
        | .diag m => .diag m
        | .crash s => .crash s

def declOf (fb : FactBase) (enums : List EnumInfo) (unions : List (String × List String))
    (tf : TypeFact) : Outcome Decl :=
  let mk (b : Body) : Decl :=
    { q := tf.q, pkgPath := tf.pkgPath, pkgName := tf.pkgName, name := tf.name, targs := tf.targs,
      exported := tf.exported, body := b }
  if tf.underStr == timeString then
    .ok (mk (.named (.time (isDateName tf.name))))
  else match enums.find? (·.q == tf.q) with
  | some e => .ok (mk (.enum e.under e.bk e.members e.isIota))
  | none =>
    match unions.lookup tf.q with
    | some ms =>
      match Outcome.mapM' (convertNamed fb) ms with
      | .ok tys => .ok (mk (.union tys))
      | .diag m => .diag m
      | .crash s => .crash s
    | none =>
      match tf.under with
      | .struct fs =>
        match structFields fb enums unions (fb.types.length + 1) fs with
        | .diag m => .diag m
        | .crash s => .crash s
        | .ok fields =>
          match structComments fb tf with
          | .ok cs => .ok (mk (.struct fields cs []))
          | .diag m => .diag m
          | .crash s => .crash s
      | .ptr _ => .diag "named pointer types are not supported"
      | u =>
        match convert fb u with
        | .ok t => .ok (mk (.named t))
        | .diag m => .diag m
        | .crash s => .crash s

/-! ### reachability and assembly -/

def refsOfOutcome : Outcome Decl → List String
  | .ok d => d.body.refs
  | _ => []

/-- named types embedded in a struct: `handleStructFields` analyses (and registers) them even
though their fields are merged into the embedding struct -/
def embeddedRefs (tf : TypeFact) : List String :=
  match tf.under with
  | .struct fs => fs.filterMap fun (_, ty, _, _, emb) =>
      match emb, ty with
      | true, .named q => some q
      | _, _ => none
  | _ => []

/-- one round: add the references of every visited declaration -/
def expand (fb : FactBase) (enums : List EnumInfo) (unions : List (String × List String))
    (visited : List String) : List String :=
  visited.foldl (fun acc q =>
    match fb.type? q with
    | none => acc
    | some tf => (refsOfOutcome (declOf fb enums unions tf) ++
        (if tf.underStr == timeString then [] else embeddedRefs tf)).foldl
        (fun a r => if a.contains r then a else a ++ [r]) acc) visited

def reachAux (fb : FactBase) (enums : List EnumInfo) (unions : List (String × List String)) :
    Nat → List String → List String
  | 0, v => v
  | n + 1, v =>
    let v' := expand fb enums unions v
    if v'.length == v.length then v else reachAux fb enums unions n v'

def sourceTys (fb : FactBase) : Outcome (List Ty) :=
  Outcome.mapM' (fun s => convert fb s.ty) fb.source

structure Result where
  env : Env
  /-- outcome classes of every reachable declaration that does not convert (for the tie: the
  recursive descent stops at the first one it meets) -/
  failures : List (String × String)
deriving Repr, Inhabited

def failureOf {α} : Outcome α → Option String
  | .ok _ => none
  | .diag _ => some "diag"
  | .crash _ => some "crash"

def implementsOf (unions : List (String × List String)) (analysed : List String) (q : String) : List String :=
  let us := (unions.filter fun (u, ms) => analysed.contains u && ms.contains q).map (·.1)
  us.mergeSort (fun a b => decide (a ≤ b))

/-- every reference of every declaration (and of the source list) resolves to a declaration of the
environment, or to a declaration that failed to convert -/
def closedB (src : List Ty) (decls : List Decl) (failed : List String) : Bool :=
  let ok (q : String) : Bool := decls.any (·.q == q) || failed.contains q
  (src.all fun t => t.refs.all ok) && (decls.all fun d => d.body.refs.all ok)

def analyse (fb : FactBase) : Outcome Result :=
  match allEnums fb with
  | .diag m => .diag m
  | .crash s => .crash s
  | .ok enums =>
    let unions := allUnions fb
    match sourceTys fb with
    | .diag m => .diag m
    | .crash s => .crash s
    | .ok src =>
      let start := (src.flatMap Ty.refs).eraseDups
      let reach := reachAux fb enums unions (fb.types.length + 1) start
      let outcomes := reach.filterMap fun q => (fb.type? q).map fun tf => (q, declOf fb enums unions tf)
      let decls := outcomes.filterMap fun (_, o) => match o with | .ok d => some d | _ => none
      let failures := outcomes.filterMap fun (q, o) => (failureOf o).map fun c => (q, c)
      let unionQs := decls.filterMap fun d => match d.body with | .union _ => some d.q | _ => none
      let decls := decls.map fun d =>
        match d.body with
        | .struct fs cs _ => { d with body := .struct fs cs (implementsOf unions unionQs d.q) }
        | _ => d
      if closedB src decls (failures.map (·.1)) then
        .ok { env := { pkgPath := fb.rootPath, pkgName := fb.rootName, source := src, decls := decls },
              failures := failures }
      else .crash "analysis model: reachability fuel exhausted"

end Gomacro.Analysis
