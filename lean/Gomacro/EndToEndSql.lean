import Gomacro.EndToEnd
import Gomacro.PgGen
import Gomacro.RoundTrip
/-!
# The fragment of programs for the end-to-end theorem of C04 (acceptance)

`FragmentSql`: decidable conditions under which `Props/C04E2E.lean` proves that the CHECK of a jsonb
column admits every document Go writes for a well-typed value of the column's type. They are the
complement of the recorded findings of C04 (`,string`, gomacro-ignore, `[]byte`, float /
bool enums, unions behind anonymous containers or holding nil containers, two types under one
validator name).
-/
namespace Gomacro.E2ESql
open Gomacro.IR Gomacro.GoJson Gomacro.PgGen Gomacro.E2E

/-- type expressions the validators of a declaration are generated for -/
def sqlChildTys (d : Decl) : List Ty :=
  match d.body with
  | .named u => [u]
  | .enum _ _ _ _ => []
  | .struct fs _ _ => (selected fs).map (·.ty)
  | .union ms => ms

/-- a type expression and its anonymous components (stopping at names) -/
def subTys : Ty → List Ty
  | .arr n e => .arr n e :: subTys e
  | .map k e => .map k e :: subTys e
  | t => [t]

/-- the script defines the validator of the type under the name its callers use -/
def scriptHas (env : Env) (script : List PgFunc) (t : Ty) : Bool :=
  match funcOf env t with
  | some fd => decide (lookupFunc script (fnName env t) = some fd)
  | none => true

/-- enum members as the validator lists them agree with what Go writes -/
def enumOkSql (bk : BKind) (ms : List Member) : Bool :=
  match bk with
  | .int => ms.all fun m => enumTupleItem m == m.valStr &&
      (match TsGen.enumLiteral m with | .litNum x => x == m.valStr | _ => false)
  | .str => ms.all fun m => enumTupleItem m == "'" ++ m.str ++ "'" &&
      (match TsGen.enumLiteral m with | .litStr x => x == m.str | _ => false)
  | _ => false

/-- slices have length -1 (the only negative length the validators know) -/
def lensOk : Ty → Bool
  | .arr n e => decide (n ≥ -1) && lensOk e
  | .map _ e => lensOk e
  | _ => true

/-- members of a union never encode to `null` (the union validator refuses a null Data) -/
def memberOkSql (env : Env) (m : Ty) : Bool :=
  match m with
  | .ref q => (match env.find? q with
    | some d => (match d.body with
      | .struct _ _ _ => true
      | .enum _ _ _ _ => true
      | .named (.basic _ bk) => bk != .none
      | _ => false)
    | none => false)
  | _ => false

/-- a field the validators handle as Go writes it: no `,string`, a key encoding/json accepts, not
hidden from the generators by gomacro-ignore; `omitempty` is inside (an omitted key is SQL NULL for
the field's validator, which answers NULL) -/
def fieldOkSql (f : Field) : Bool :=
  RoundTrip.fieldOkN f && Tags.get f.tag "gomacro" != "ignore"

def declOkSql (env : Env) (w : Wrappers) (d : Decl) : Bool :=
  match d.body with
  | .named u =>
    (if w.nameds.contains d.q then
      -- a named slice / map of unions, written element-wise through the wrapper
      (match u with
       | .arr n (.ref uq) => decide (n = -1) && isUnionTy env (.ref uq)
       | .map k (.ref uq) =>
         (match k with | .basic _ .str => true | .basic _ .int => true | _ => false) && isUnionTy env (.ref uq)
       | _ => false)
     else shapeOk u && noUnion env u && lensOk u) && fnName env (.ref d.q) == fnName env u
  | .enum _ bk ms _ => enumOkSql bk ms
  | .struct fs _ _ =>
    (serialised fs).all (fun f => fieldOkSql f && fieldTyOk env f && !Tags.opaqueFor f.tag "typescript" && lensOk f.ty) &&
    ((serialised fs).map fun f => Tags.jsonName f.tag f.name).Nodup &&
    ((serialised fs).any (fun f => isUnionTy env f.ty) → w.structs.contains d.q)
  | .union ms => ms.all (fun m => noUnion env m && memberOkSql env m)

def providedSql (env : Env) (script : List PgFunc) (d : Decl) : Bool :=
  ((Ty.ref d.q) :: (sqlChildTys d).flatMap subTys).all (scriptHas env script)

structure FragmentSql (env : Env) (w : Wrappers) (script : List PgFunc) (ds : List Decl) : Prop where
  found : ∀ d ∈ ds, env.find? d.q = some d
  closed : ∀ d ∈ ds, ∀ q ∈ (sqlChildTys d).flatMap Ty.refs, ∃ d' ∈ ds, d'.q = q
  ok : ∀ d ∈ ds, declOkSql env w d = true
  provided : ∀ d ∈ ds, providedSql env script d = true

def fragmentSqlB (env : Env) (w : Wrappers) (script : List PgFunc) (ds : List Decl) : Bool :=
  ds.all (fun d => decide (env.find? d.q = some d)) &&
  ds.all (fun d => ((sqlChildTys d).flatMap Ty.refs).all fun q => ds.any fun d' => d'.q == q) &&
  ds.all (declOkSql env w) &&
  ds.all (providedSql env script)

end Gomacro.E2ESql
