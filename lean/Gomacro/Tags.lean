/-!
Struct tags: a literal model of `reflect.StructTag.Get` (conventional `key:"value"` syntax) and of the
field rules of `analysis.StructField` (JSONName / Exported), next to the rules of `encoding/json`.
-/
namespace Gomacro.Tags

/-- scan a tag name: up to a ':' ; space, quote, control characters are syntax errors -/
def scanName : List Char → List Char → List Char × List Char
  | acc, [] => (acc.reverse, [])
  | acc, c :: cs =>
    if c.toNat > 32 ∧ c ≠ ':' ∧ c ≠ '"' ∧ c.toNat ≠ 127 then scanName (c :: acc) cs
    else (acc.reverse, c :: cs)

/-- scan a quoted value (after the opening quote); returns raw content and the rest after the closing quote -/
def scanValue : List Char → List Char → Option (List Char × List Char)
  | _, [] => none
  | acc, '"' :: cs => some (acc.reverse, cs)
  | acc, '\\' :: c :: cs => scanValue (c :: '\\' :: acc) cs
  | _, ['\\'] => none
  | acc, c :: cs => scanValue (c :: acc) cs

/-- `strconv.Unquote` on the scanned value, for the escapes `\"` and `\\` (others: error) -/
def unquote : List Char → Option (List Char)
  | [] => some []
  | '\\' :: '"' :: cs => (unquote cs).map ('"' :: ·)
  | '\\' :: '\\' :: cs => (unquote cs).map ('\\' :: ·)
  | '\\' :: _ => none
  | c :: cs => (unquote cs).map (c :: ·)

def dropSpaces : List Char → List Char
  | ' ' :: cs => dropSpaces cs
  | cs => cs

/-- `reflect.StructTag.Lookup`, with fuel = length of the tag -/
def lookupAux (key : List Char) : Nat → List Char → Option (List Char)
  | 0, _ => none
  | fuel + 1, tag =>
    let tag := dropSpaces tag
    if tag.isEmpty then none else
    let (name, rest) := scanName [] tag
    match name, rest with
    | [], _ => none
    | _, ':' :: '"' :: rest' =>
      match scanValue [] rest' with
      | none => none
      | some (raw, rest'') =>
        if name = key then unquote raw
        else lookupAux key fuel rest''
    | _, _ => none

def get (tag : String) (key : String) : String :=
  match lookupAux key.toList (tag.length + 1) tag.toList with
  | some v => String.ofList v
  | none => ""

/-- the part of a json tag before the first comma -/
def namePart (v : String) : String := String.ofList (v.toList.takeWhile (· ≠ ','))

/-- `StructField.JSONName` (after the repair: tag options are cut off) -/
def jsonName (tag goName : String) : String :=
  let n := namePart (get tag "json")
  if n ≠ "" then n else goName

/-- `StructField.JSONName` as it was at the pinned commit: the whole tag value -/
def jsonNameOld (tag goName : String) : String :=
  let n := get tag "json"
  if n ≠ "" then n else goName

/-- `StructField.Exported` -/
def exported (tag : String) (goExported : Bool) : Bool :=
  if get tag "json" = "-" then false
  else if get tag "gomacro" = "ignore" then false
  else goExported

def opaqueFor (tag target : String) : Bool :=
  let t := get tag "gomacro-opaque"
  t ≠ "" && (t.splitOn target).length > 1

/-! ### encoding/json's own rule (the specification side) -/

def validTagChar (c : Char) : Bool :=
  "!#$%&()*+-./:;<=>?@[]^_{|}~ ".toList.contains c || c.isAlphanum || c.toNat ≥ 128

/-- `encoding/json.isValidTag` (letters and digits approximated by ASCII alphanumerics and every
non-ASCII code point; the harness only feeds ASCII and letters) -/
def isValidTag (s : String) : Bool := s ≠ "" && s.toList.all validTagChar

/-- key under which `encoding/json` serialises a (non-embedded) field, `none` if it is skipped -/
def goJsonKey (tag goName : String) (goExported : Bool) : Option String :=
  if !goExported then none
  else
    let v := get tag "json"
    if v = "-" then none
    else
      let n := namePart v
      if isValidTag n then some n else some goName

end Gomacro.Tags
