import Gomacro.TsGen
import Gomacro.RandSem
/-!
# Typing of Go values and the fragment of programs for the end-to-end theorems

`hasType env fuel t v`: the dumped Go value `v` is a value of the IR type `t` (mirrors the recursion
of `GoJson.encode`, so that the two can be unfolded together).
`Fragment`: the decidable conditions on a program under which the end-to-end theorem of C03 is
proved (`Props/C03E2E.lean`): they are exactly the complement of the recorded findings of C02 / C03
(omitempty, `,string`, gomacro-ignore, `[]byte`, zero-length arrays, unions behind anonymous
containers, same name in two packages). The driver evaluates them on every synthesised program.
-/
namespace Gomacro.E2E
open Gomacro.IR Gomacro.GoJson Gomacro.TsGen

/-! ### decidable equality of TypeScript types -/

mutual
def tsBeq : TsType → TsType → Bool
  | .str, .str | .num, .num | .bool, .bool | .null, .null | .unknown, .unknown | .never, .never => true
  | .litStr a, .litStr b => a == b
  | .litNum a, .litNum b => a == b
  | .litBool a, .litBool b => a == b
  | .arr a, .arr b => tsBeq a b
  | .tuple a, .tuple b => tsBeqList a b
  | .record k v, .record k' v' => tsBeq k k' && tsBeq v v'
  | .union a, .union b => tsBeqList a b
  | .obj a, .obj b => tsBeqFields a b
  | .ref a, .ref b => a == b
  | .brand a s, .brand b s' => tsBeq a b && s == s'
  | _, _ => false
def tsBeqList : List TsType → List TsType → Bool
  | [], [] => true
  | a :: as, b :: bs => tsBeq a b && tsBeqList as bs
  | _, _ => false
def tsBeqFields : List (String × TsType) → List (String × TsType) → Bool
  | [], [] => true
  | (k, a) :: as, (k', b) :: bs => k == k' && tsBeq a b && tsBeqFields as bs
  | _, _ => false
end

/-! ### typing -/

/-- the value is the enum constant `m`, and `m`'s literal type is of the matching kind -/
def litOk (m : Member) : GoVal → Bool
  | .int r => (match enumLiteral m with | .litNum x => x == r | _ => false)
  | .float r => (match enumLiteral m with | .litNum x => x == r | _ => false)
  | .str s => (match enumLiteral m with | .litStr x => x == s | _ => false)
  | .bool b => (match enumLiteral m with | .litBool x => x == b | _ => false)
  | _ => false

/-- key types of maps: strings, or integers written in decimal -/
def keyOk (k : Ty) (key : GoVal) : Bool :=
  match k, key with
  | .basic _ .str, .str _ => true
  | .basic _ .int, .int r => isNumericText r
  | _, _ => false

/-- local name of a member type -/
def localNameOf (env : Env) : Ty → String
  | .ref q => (match env.find? q with | some d => d.name | none => "?")
  | _ => "?"

mutual
def hasType (env : Env) : Nat → Ty → GoVal → Bool
  | 0, _, _ => false
  | fuel + 1, t, v =>
    match t, v with
    | .basic _ .bool, .bool _ => true
    | .basic _ .int, .int _ => true
    | .basic _ .float, .float _ => true
    | .basic _ .str, .str _ => true
    | .time _, .time _ => true
    | .arr n e, .list isSlice _ es =>
      (isSlice == decide (n < 0)) && (n < 0 || es.length == n.toNat) && hasTypeAll env fuel e es
    | .map k e, .map _ kvs => hasTypeEntries env fuel k e kvs
    | .ref q, v =>
      match env.find? q with
      | none => false
      | some d =>
        match d.body, v with
        | .named u, v => hasType env fuel u v
        | .enum _ _ ms _, v => ms.any fun m => litOk m v
        | .struct fs _ _, .struct vals => hasTypeFields env fuel fs vals
        | .union ms, .iface (some (name, mv)) =>
          ms.any (fun m => localNameOf env m == name) && hasType env fuel (memberTy env d name) mv
        | _, _ => false
    | _, _ => false
def hasTypeAll (env : Env) : Nat → Ty → List GoVal → Bool
  | _, _, [] => true
  | fuel, e, v :: vs => hasType env fuel e v && hasTypeAll env fuel e vs
def hasTypeEntries (env : Env) : Nat → Ty → Ty → List (GoVal × GoVal) → Bool
  | _, _, _, [] => true
  | fuel, k, e, (key, v) :: kvs => keyOk k key && hasType env fuel e v && hasTypeEntries env fuel k e kvs
/-- every field that encoding/json serialises has a value of its type -/
def hasTypeFields (env : Env) : Nat → List Field → List (String × GoVal) → Bool
  | _, [], _ => true
  | fuel, f :: fs, vals =>
    (match Tags.goJsonKey f.tag f.name f.goExported with
     | none => true
     | some _ => (match vals.lookup f.name with
       | some v => Tags.opaqueFor f.tag "typescript" || hasType env fuel f.ty v
       | none => false)) && hasTypeFields env fuel fs vals
end

/-! ### the fragment -/

/-- no union at the top of the type or under anonymous containers -/
def noUnion (env : Env) : Ty → Bool
  | .ref q => !isUnionTy env (.ref q)
  | .arr _ e => noUnion env e
  | .map k e => noUnion env k && noUnion env e
  | .ptr _ => false
  | _ => true

/-- anonymous shapes the TypeScript generator handles without a recorded finding -/
def shapeOk : Ty → Bool
  | .arr n e =>
    n != 0 && shapeOk e &&
    (match e with
     | .basic g _ => g != "uint8" && g != "byte"
     | .arr m _ => !(n ≥ 1 && m == -1)
     | .map _ _ => !(n ≥ 1)
     | _ => true)
  | .map k e =>
    (match k with | .basic _ .str => true | .basic _ .int => true | _ => false) && shapeOk e
  | .ptr _ => false
  | .basic _ .none => false
  | _ => true

def plainField (f : Field) : Bool :=
  let opts := tagOptions f.tag
  !opts.contains "omitempty" && !opts.contains "string" && Tags.get f.tag "gomacro" != "ignore" &&
  (Tags.namePart (Tags.get f.tag "json") == "" || Tags.isValidTag (Tags.namePart (Tags.get f.tag "json")))

def fieldTyOk (env : Env) (f : Field) : Bool :=
  shapeOk f.ty && (isUnionTy env f.ty || noUnion env f.ty)

def serialised (fs : List Field) : List Field :=
  fs.filter fun f => (Tags.goJsonKey f.tag f.name f.goExported).isSome

/-- conditions on one declaration -/
def declOk (env : Env) (w : Wrappers) (d : Decl) : Bool :=
  match d.body with
  | .named u =>
    (if w.nameds.contains d.q then
      -- a named slice / map of unions, written element-wise through the generated wrapper
      (match u with
       | .arr n (.ref uq) => decide (n = -1) && isUnionTy env (.ref uq)
       | .map k (.ref uq) =>
         (match k with | .basic _ .str => true | .basic _ .int => true | _ => false) && isUnionTy env (.ref uq)
       | _ => false)
     else shapeOk u && noUnion env u) &&
    (match u with | .basic _ .int => true | _ => d.name != refName env u)
  | .enum _ _ _ _ => true
  | .struct fs _ _ =>
    !fs.isEmpty &&
    (serialised fs).all (fun f => plainField f && fieldTyOk env f) &&
    ((serialised fs).map fun f => Tags.jsonName f.tag f.name).Nodup &&
    ((serialised fs).map (·.name)).Nodup &&
    ((serialised fs).any (fun f => isUnionTy env f.ty) → w.structs.contains d.q)
  | .union ms =>
    ms.all (fun m => noUnion env m && (match m with | .ref _ => true | _ => false)) &&
    (ms.map (localNameOf env)).Nodup

/-- what the declared TypeScript environment has to provide for a declaration: the names its own
declaration and its anonymous children introduce, with their types -/
def needed (env : Env) (d : Decl) : List (String × TsType) :=
  tsEnvOf (declOfNamed env d ++ (childTys d).flatMap (declsOfAnon env))

def lookupIs (tenv : List (String × TsType)) (n : String) (t : TsType) : Bool :=
  match tenv.lookup n with | some t' => tsBeq t' t | none => false

structure Fragment (env : Env) (w : Wrappers) (tenv : List (String × TsType)) (ds : List Decl) : Prop where
  found : ∀ d ∈ ds, env.find? d.q = some d
  closed : ∀ d ∈ ds, ∀ q ∈ (childTys d).flatMap Ty.refs, ∃ d' ∈ ds, d'.q = q
  ok : ∀ d ∈ ds, declOk env w d = true
  provided : ∀ d ∈ ds, ∀ p ∈ needed env d, lookupIs tenv p.1 p.2 = true

/-- the same, as a decidable check (what the driver evaluates) -/
def fragmentB (env : Env) (w : Wrappers) (tenv : List (String × TsType)) (ds : List Decl) : Bool :=
  ds.all (fun d => decide (env.find? d.q = some d)) &&
  ds.all (fun d => ((childTys d).flatMap Ty.refs).all fun q => ds.any fun d' => d'.q == q) &&
  ds.all (declOk env w) &&
  ds.all (fun d => (needed env d).all fun p => lookupIs tenv p.1 p.2)

end Gomacro.E2E
