package main

import (
	"encoding/json"
	"fmt"
	"go/types"
	"math/rand"
	"reflect"
	"regexp"
	"sort"
	"strings"

	"github.com/benoitkugler/gomacro/analysis"

	"verifharness/internal/drv"
	"verifharness/internal/facts"
	"verifharness/internal/load"
	"verifharness/internal/rep"
	"verifharness/internal/synth"
)

func init() {
	runners["C09"] = runC09
	runners["C10"] = func(r *rep.Report, th bool) error {
		opt := synth.DefaultOptions()
		opt.Enums = 6
		opt.Structs = 3
		return runAnalysisTie(r, th, opt, []string{"enum"}, "c10", "enum detection / members / IsIota of the real analysis vs the Lean model on the walker's facts")
	}
	runners["C11"] = func(r *rep.Report, th bool) error {
		opt := synth.DefaultOptions()
		opt.Unions = 4
		opt.Structs = 6
		return runAnalysisTie(r, th, opt, []string{"union"}, "c11", "union detection / members / Implements back-links of the real analysis vs the Lean model")
	}
	runners["C12"] = func(r *rep.Report, th bool) error {
		opt := synth.DefaultOptions()
		opt.Structs = 7
		opt.Nameds = 5
		return runAnalysisTie(r, th, opt, []string{"graph"}, "c12", "analysed type graph (kinds, lengths, keys/elements, fields, source order, reachable set) of the real analysis vs the Lean model")
	}
}

var slugRe = regexp.MustCompile(`[^a-z0-9]+`)

func slug(s string) string {
	return strings.Trim(slugRe.ReplaceAllString(strings.ToLower(s), "-"), "-")
}

// classify a field-list mismatch: promoted fields lost because the embedded struct was still
// being analysed when it was flattened
func embeddedIncomplete(mm mismatch) bool {
	mb, _ := json.Marshal(mm.Model)
	ib, _ := json.Marshal(mm.Impl)
	var mf, imf []struct{ Name string }
	if json.Unmarshal(mb, &mf) != nil || json.Unmarshal(ib, &imf) != nil {
		return false
	}
	if len(imf) >= len(mf) {
		return false
	}
	j := 0
	for _, f := range mf {
		if j < len(imf) && imf[j].Name == f.Name {
			j++
		}
	}
	return j == len(imf)
}

// runAnalysisTie synthesises programs, runs the real analysis and the Lean model on the walker's
// facts and reports mismatches in `parts` as property failures.
func runAnalysisTie(r *rep.Report, thorough bool, opt synth.Options, parts []string, prefix, what string) error {
	d, err := drv.Start()
	if err != nil {
		return err
	}
	defer d.Close()
	r.Rule = what + "; programs drawn by the feature-grammar synthesiser (harness/internal/synth), every feature counted in the histogram; non-trivial = the program declares at least one construct of the kind under test; distinct by feature set + source hash"
	rng := rand.New(rand.NewSource(r.Seed))
	batches, per := 1, 120
	if thorough {
		batches, per = 5, 300
	}
	inPart := map[string]bool{}
	for _, p := range parts {
		inPart[p] = true
	}
	for b := 0; b < batches; b++ {
		o := opt
		if b%2 == 1 {
			o.Risky = false
		}
		cases := genCases(rng, per, fmt.Sprintf("%s%d", prefix, b), o)
		if b == 0 {
			cases = append(cases, synth.HandWritten()...)
		}
		l, err := load.Cases(cases)
		if err != nil {
			return err
		}
		for id, e := range l.Bad {
			r.Note("synthesiser produced an ill-typed program %s: %s", id, e)
		}
		for _, a := range analyseCases(l) {
			m, err := callAnalyse(d, a)
			if err != nil {
				l.Close()
				return err
			}
			nontrivial := false
			for _, f := range a.Case.Feat {
				r.Hist("feat:" + f)
				for _, p := range parts {
					if strings.HasPrefix(f, p) || p == "graph" {
						nontrivial = true
					}
				}
			}
			r.Case(map[string]any{"case": a.Case.ID, "features": a.Case.Feat, "src_defs.go": a.Case.Sources()["defs.go"]}, nontrivial)
			r.Hist("analysis:" + a.Out.Class)
			if a.Out.Class == "fatal" {
				if inPart["graph"] {
					r.Fail(rep.Failure{Signature: prefix + ":analysis-does-not-terminate", What: "the analysis kills the process on this program: " + a.Out.Msg,
						Input: map[string]any{"case": a.Case.ID, "sources": a.Case.Sources()}, Observed: a.Out.Msg})
				}
				continue
			}
			for _, mm := range compareAnalysis(a, m) {
				// a program the specification model analyses and the implementation refuses: whatever
				// the part looked at, the analysis did not deliver (e.g. an enum or union of an
				// imported package that was not collected makes a later step stop)
				if mm.Part == "outcome" && mm.Detail == "model accepts, implementation stops" {
					r.Fail(rep.Failure{Signature: prefix + ":supported-program-refused", What: "the analysis stops on a program the specification model analyses: " + fmt.Sprint(mm.Impl),
						Input: map[string]any{"case": a.Case.ID, "sources": a.Case.Sources()}, Observed: mm.Impl})
					continue
				}
				if !inPart[mm.Part] {
					r.Hist("other-part-mismatch:" + mm.Part)
					continue
				}
				sig := prefix + ":" + slug(mm.Detail)
				if mm.Detail == "fields differ" && embeddedIncomplete(mm) {
					sig = prefix + ":embedded-struct-flattened-while-incomplete"
				}
				r.Fail(rep.Failure{Signature: sig, What: "analysis result differs from the specification model: " + mm.String(),
					Input: map[string]any{"case": a.Case.ID, "q": mm.Q, "sources": a.Case.Sources()}, Expected: mm.Model, Observed: mm.Impl})
			}
			// closure of the implementation's own result (C12): every reference resolves
			if inPart["graph"] && a.Env != nil {
				declared := map[string]bool{}
				for _, dd := range a.Env.Decls {
					declared[strings.TrimSuffix(dd.Q, "#2")] = true
				}
				keys := map[string]bool{}
				for _, k := range a.Env.TypeKeys {
					keys[k] = true
				}
				for q := range declared {
					if !keys[q] {
						r.Fail(rep.Failure{Signature: prefix + ":reachable-type-not-in-types-map", What: "a named type reachable from Source is not a key of Analysis.Types", Input: map[string]any{"case": a.Case.ID, "q": q, "sources": a.Case.Sources()}})
					}
				}
			}
		}
		l.Close()
	}
	return nil
}

// ---------------------------------------------------------------------------------------------
// C09

var c09Tags = []string{
	``, `json:"x"`, `json:"x,omitempty"`, `json:",omitempty"`, `json:"-"`, `json:"-,"`, `json:"-,omitempty"`,
	`json:""`, `json:","`, `json:"x,"`, `json:"x,string"`, `json:"x,omitempty,string"`,
	`xml:"a" json:"x"`, `json:"x" xml:"a"`, `xml:"a" json:"x,omitempty" yaml:"b"`, `json:"x"  xml:"a"`, ` json:"x"`,
	`gomacro:"ignore"`, `json:"x" gomacro:"ignore"`, `gomacro:"ignore" json:"x"`, `gomacro:"other"`, `gomacro:"ignore,x"`,
	`gomacro-opaque:"typescript"`, `gomacro-opaque:"dart, typescript"`, `gomacro-data:"ignore"`,
	`json:"with space"`, `json:"é"`, `json:"a.b"`, `json:"a-b_c"`, `json:"1"`, `json:"X"`, `json:"x y,omitempty"`,
	`json:x`, `json:"x`, `json: "x"`, `json"x"`, `jsonx:"y"`, `xjson:"y"`, `json:"a" json:"b"`,
	`json:"-" xml:"x"`, `yaml:"-"`, `json:"omitempty"`, `json:",string"`, `json:"x,omitzero"`,
}

func buildReflectType(fb *facts.FactBase, t *facts.GoTy, depth int) (reflect.Type, bool) {
	switch t.K {
	case "basic":
		switch t.Info {
		case "bool":
			return reflect.TypeOf(true), true
		case "int":
			return reflect.TypeOf(int(0)), true
		case "float":
			return reflect.TypeOf(float64(0)), true
		case "string":
			return reflect.TypeOf(""), true
		}
		return nil, false
	case "slice", "array":
		e, ok := buildReflectType(fb, t.E, depth)
		if !ok {
			return nil, false
		}
		return reflect.SliceOf(e), true
	case "map":
		e, ok := buildReflectType(fb, t.E, depth)
		if !ok {
			return nil, false
		}
		return reflect.MapOf(reflect.TypeOf(""), e), true
	case "named":
		tf := fb.Types[t.Q]
		if tf == nil || depth <= 0 {
			return reflect.TypeOf(0), true
		}
		if strings.HasPrefix(tf.UnderStr, "struct{wall uint64") {
			return reflect.TypeOf(""), true // time.Time and named times: a JSON string
		}
		if tf.Under.K == "struct" {
			return buildReflectStruct(fb, tf.Under, depth-1)
		}
		if tf.IsIface {
			return reflect.TypeOf((*any)(nil)).Elem(), true
		}
		return buildReflectType(fb, tf.Under, depth-1)
	case "struct":
		return buildReflectStruct(fb, t, depth-1)
	}
	return nil, false
}

func buildReflectStruct(fb *facts.FactBase, t *facts.GoTy, depth int) (reflect.Type, bool) {
	var fs []reflect.StructField
	for _, f := range t.Fields {
		if !f.Exported {
			if f.Embedded {
				return nil, false // promotion through an unexported embedded struct: not mirrored
			}
			continue // reflect.StructOf refuses unexported fields; encoding/json ignores them
		}
		ft, ok := buildReflectType(fb, f.T, depth)
		if !ok {
			return nil, false
		}
		sf := reflect.StructField{Name: f.Name, Type: ft, Tag: reflect.StructTag(f.Tag), Anonymous: f.Embedded}
		if f.Embedded && ft.Kind() != reflect.Struct {
			return nil, false // embedded non-structs: outside what reflect.StructOf can mirror
		}
		fs = append(fs, sf)
	}
	var out reflect.Type
	func() {
		defer func() {
			if recover() != nil {
				out = nil
			}
		}()
		out = reflect.StructOf(fs)
	}()
	return out, out != nil
}

// fill makes a value whose fields are all non-zero, so that omitempty drops nothing
func fill(v reflect.Value, depth int) {
	switch v.Kind() {
	case reflect.Bool:
		v.SetBool(true)
	case reflect.Int:
		v.SetInt(1)
	case reflect.Float64:
		v.SetFloat(1.5)
	case reflect.String:
		v.SetString("x")
	case reflect.Slice:
		s := reflect.MakeSlice(v.Type(), 1, 1)
		if depth > 0 {
			fill(s.Index(0), depth-1)
		}
		v.Set(s)
	case reflect.Map:
		m := reflect.MakeMap(v.Type())
		e := reflect.New(v.Type().Elem()).Elem()
		if depth > 0 {
			fill(e, depth-1)
		}
		m.SetMapIndex(reflect.ValueOf("k"), e)
		v.Set(m)
	case reflect.Struct:
		for i := 0; i < v.NumField(); i++ {
			if v.Field(i).CanSet() {
				fill(v.Field(i), depth-1)
			}
		}
	case reflect.Interface:
		v.Set(reflect.ValueOf(1))
	}
}

func isSubsequence(a, b []string) bool {
	j := 0
	for _, x := range b {
		if j < len(a) && a[j] == x {
			j++
		}
	}
	return j == len(a)
}

// orderedKeys returns the top-level keys of a JSON object in document order
func orderedKeys(b []byte) []string {
	dec := json.NewDecoder(strings.NewReader(string(b)))
	tok, err := dec.Token()
	if err != nil || tok != json.Delim('{') {
		return nil
	}
	var keys []string
	for dec.More() {
		k, err := dec.Token()
		if err != nil {
			return keys
		}
		keys = append(keys, k.(string))
		var skip json.RawMessage
		if err := dec.Decode(&skip); err != nil {
			return keys
		}
	}
	return keys
}

func runC09(r *rep.Report, thorough bool) error {
	d, err := drv.Start()
	if err != nil {
		return err
	}
	defer d.Close()
	r.Rule = "pure: every tag spelling of a fixed catalogue x {exported, unexported} field names through the real StructField.JSONName/Exported, the Lean field model, the Lean encoding/json specification and the real encoding/json (reflect.StructOf + Marshal); programs: synthesised structs (tags, embedded and nested structs) — keys and order of json.Marshal of a reflect mirror of every struct vs the flattened exported fields of the real analysis. non-trivial = tag present or embedded field"
	// ---- pure part
	for _, tag := range c09Tags {
		for _, name := range []string{"F", "Field", "f", "Xy"} {
			exportedGo := name[0] >= 'A' && name[0] <= 'Z'
			sf := analysis.StructField{Field: types.NewField(0, nil, name, types.Typ[types.Int], false), Tag: reflect.StructTag(tag)}
			implName, implExp := sf.JSONName(), sf.Exported()
			reply, err := d.Call(map[string]any{"op": "c09.field", "tag": tag, "name": name, "goExported": exportedGo})
			if err != nil {
				return err
			}
			in := map[string]any{"tag": tag, "name": name}
			r.Case(in, tag != "")
			// real encoding/json
			var realKey *string
			st := reflect.StructField{Name: name, Type: reflect.TypeOf(0), Tag: reflect.StructTag(tag)}
			if !exportedGo {
				st.PkgPath = "acme.org/x"
			}
			if strings.Contains(tag, ",string") {
				st.Type = reflect.TypeOf(0)
			}
			v := reflect.New(reflect.StructOf([]reflect.StructField{st})).Elem()
			if exportedGo {
				v.Field(0).SetInt(1)
			}
			b, merr := json.Marshal(v.Interface())
			if merr == nil {
				if ks := orderedKeys(b); len(ks) == 1 {
					realKey = &ks[0]
				}
			}
			var specKey *string
			if s, ok := reply["goJsonKey"].(string); ok {
				specKey = &s
			}
			if (realKey == nil) != (specKey == nil) || (realKey != nil && *realKey != *specKey) {
				r.Disagree(rep.Disagreement{Tie: "c09.lean-encoding-json-spec-vs-real-encoding-json", Input: in, Model: specKey, Impl: realKey})
				continue
			}
			gomacroIgnore := reply["get_gomacro"].(string) == "ignore"
			wantSelected := realKey != nil && !gomacroIgnore
			if implExp != wantSelected {
				r.Fail(rep.Failure{Signature: "c09:selection-differs-from-encoding-json", What: "field selected although encoding/json skips it (or the converse)", Input: in, Expected: wantSelected, Observed: implExp})
			} else if wantSelected && implName != *realKey {
				sig := "c09:key-differs-from-encoding-json"
				if strings.Contains(implName, ",") {
					sig = "c09:json-name-keeps-tag-options"
				}
				r.Fail(rep.Failure{Signature: sig, What: "field appears under a key different from the one encoding/json uses", Input: in, Expected: *realKey, Observed: implName})
			}
			if implName != reply["jsonName"].(string) || implExp != reply["exported"].(bool) {
				r.Disagree(rep.Disagreement{Tie: "c09.field-model-vs-StructField", Input: in, Model: reply, Impl: map[string]any{"jsonName": implName, "exported": implExp}})
			}
		}
	}
	// ---- programs: flattened field lists vs real encoding/json on a reflect mirror
	rng := rand.New(rand.NewSource(r.Seed))
	n := 100
	if thorough {
		n = 600
	}
	opt := synth.DefaultOptions()
	opt.Structs = 6
	cases := genCases(rng, n, "c09", opt)
	cases = append(cases, synth.HandWritten()...)
	l, err := load.Cases(cases)
	if err != nil {
		return err
	}
	defer l.Close()
	for _, a := range analyseCases(l) {
		m, err := callAnalyse(d, a)
		if err != nil {
			return err
		}
		for _, mm := range compareAnalysis(a, m) {
			if mm.Part != "graph" || mm.Detail != "fields differ" {
				r.Hist("other-part-mismatch:" + mm.Part)
				continue
			}
			sig := "c09:fields-differ"
			if embeddedIncomplete(mm) {
				sig = "c09:embedded-struct-flattened-while-incomplete"
			}
			r.Fail(rep.Failure{Signature: sig, What: "struct field list differs from the flattened list encoding/json works with: " + mm.String(),
				Input: map[string]any{"case": a.Case.ID, "q": mm.Q, "sources": a.Case.Sources()}, Expected: mm.Model, Observed: mm.Impl})
		}
		if a.Env == nil {
			continue
		}
		for _, dd := range a.Env.Decls {
			if dd.Kind != "struct" || strings.HasSuffix(dd.Q, "#2") {
				continue
			}
			tf := a.FB.Types[dd.Q]
			if tf == nil || tf.Under.K != "struct" || len(tf.TArgs) > 0 {
				continue
			}
			rt, ok := buildReflectStruct(a.FB, tf.Under, 6)
			if !ok {
				r.Hist("struct-not-mirrored-by-reflect")
				continue
			}
			v := reflect.New(rt).Elem()
			fill(v, 6)
			b, err := json.Marshal(v.Interface())
			if err != nil {
				r.Hist("mirror-marshal-error")
				continue
			}
			realKeys := orderedKeys(b)
			var implKeys []string
			hasTag := false
			for _, f := range dd.Fields {
				if f.Tag != "" || f.Embedded {
					hasTag = true
				}
				if f.Exported {
					implKeys = append(implKeys, f.JSONName)
				}
			}
			// keys hidden by encoding/json's conflict rule (same key at the same depth) are outside
			// the conflict-free case the property talks about
			dup := map[string]int{}
			for _, k := range implKeys {
				dup[k]++
			}
			clash := false
			for _, c := range dup {
				if c > 1 {
					clash = true
				}
			}
			in := map[string]any{"case": a.Case.ID, "struct": dd.Q, "sources": a.Case.Sources()}
			r.Case(map[string]any{"struct": dd.Q, "keys": implKeys}, hasTag)
			if clash {
				r.Hist("key-clash(outside conflict-free case)")
				continue
			}
			// gomacro:"ignore" fields are deliberately dropped by gomacro only
			var realFiltered []string
			ign := map[string]bool{}
			for _, f := range dd.Fields {
				if reflect.StructTag(f.Tag).Get("gomacro") == "ignore" && f.GoExported {
					ign[f.JSONName] = true
				}
			}
			for _, k := range realKeys {
				if !ign[k] {
					realFiltered = append(realFiltered, k)
				}
			}
			if !reflect.DeepEqual(realFiltered, implKeys) && !(len(realFiltered) == 0 && len(implKeys) == 0) {
				sig := "c09:struct-keys-differ-from-encoding-json"
				if strings.Contains(strings.Join(implKeys, "|"), ",") {
					sig = "c09:json-name-keeps-tag-options"
				}
				hasEmbedded := false
				for _, gf := range tf.Under.Fields {
					if gf.Embedded {
						hasEmbedded = true
					}
				}
				if hasEmbedded && len(implKeys) < len(realFiltered) && isSubsequence(implKeys, realFiltered) {
					sig = "c09:embedded-struct-flattened-while-incomplete"
				}
				sort.Strings(nil)
				r.Fail(rep.Failure{Signature: sig, What: "exported fields / JSON names of the analysed struct differ from the keys encoding/json emits", Input: in, Expected: realFiltered, Observed: implKeys})
			}
		}
	}
	return nil
}
