package main

import (
	"fmt"
	"go/ast"
	"go/constant"
	"go/token"
	"go/types"
	"io"
	"log"
	"math/rand"
	"reflect"
	"strings"

	"github.com/benoitkugler/gomacro/analysis"
	"github.com/benoitkugler/gomacro/analysis/httpapi"
	"golang.org/x/tools/go/packages"

	"verifharness/internal/drv"
	"verifharness/internal/load"
	"verifharness/internal/rep"
	"verifharness/internal/routes"
	"verifharness/internal/synth"
)

func init() { runners["C13"] = runC13 }

// ---- translator: go/ast + go/types -> the attributed rose tree of Gomacro/HttpApi.lean ----

type hObj struct {
	K string `json:"k"`
	P string `json:"p,omitempty"`
	N string `json:"n,omitempty"`
}

type hNode struct {
	K    string   `json:"k"`
	N    string   `json:"n,omitempty"`
	Ty   string   `json:"ty,omitempty"`
	Ty0  string   `json:"ty0,omitempty"`
	El   string   `json:"el,omitempty"`
	Cst  *string  `json:"cst,omitempty"`
	Obj  *hObj    `json:"obj,omitempty"`
	Pos  int      `json:"pos,omitempty"`
	NLhs int      `json:"nlhs,omitempty"`
	C    []*hNode `json:"c"`
}

func tyString(t types.Type) string {
	if t == nil {
		return ""
	}
	return normTy(types.TypeString(t, nil))
}

func normTy(s string) string {
	s = strings.ReplaceAll(s, "[]byte", "[]uint8")
	return strings.ReplaceAll(s, "interface{}", "any")
}

func hMake(n ast.Node, info *types.Info) *hNode {
	nd := &hNode{K: "other", C: []*hNode{}}
	if e, ok := n.(ast.Expr); ok {
		t := info.TypeOf(e)
		nd.Ty = tyString(t)
		if tup, ok := t.(*types.Tuple); ok && tup.Len() > 0 {
			nd.Ty0 = tyString(tup.At(0).Type())
		}
		if p, ok := t.(*types.Pointer); ok {
			nd.El = tyString(p.Elem())
		}
		if tv, ok := info.Types[e]; ok && tv.Value != nil && tv.Value.Kind() == constant.String {
			s := constant.StringVal(tv.Value)
			nd.Cst = &s
		}
	}
	switch n := n.(type) {
	case *ast.CallExpr:
		nd.K = "call"
	case *ast.SelectorExpr:
		nd.K = "sel"
		nd.N = n.Sel.Name
	case *ast.Ident:
		nd.K = "ident"
		nd.N = n.Name
		obj := info.Uses[n]
		if obj == nil {
			obj = info.Defs[n]
		}
		nd.Ty = ""
		if obj != nil {
			nd.Ty = tyString(obj.Type())
			switch o := obj.(type) {
			case *types.PkgName:
				nd.Obj = &hObj{K: "pkg", P: o.Imported().Path()}
			case *types.Var:
				t := o.Type()
				if p, ok := t.(*types.Pointer); ok {
					t = p.Elem()
				}
				if named, ok := t.(*types.Named); ok && named.Obj().Pkg() != nil {
					nd.Obj = &hObj{K: "var", P: named.Obj().Pkg().Path(), N: named.Obj().Name()}
				}
			case *types.Func:
				if o.Pkg() != nil {
					nd.Obj = &hObj{K: "func", P: o.Pkg().Path(), N: o.Name()}
				}
			case *types.Const:
				if o.Val().Kind() == constant.String && nd.Cst == nil {
					s := constant.StringVal(o.Val())
					nd.Cst = &s
				}
			}
		}
	case *ast.IndexExpr:
		nd.K = "index"
	case *ast.UnaryExpr:
		if n.Op == token.AND {
			nd.K = "addr"
		}
	case *ast.CompositeLit:
		nd.K = "composite"
		nd.Ty = ""
		if n.Type != nil {
			nd.Ty = tyString(info.Types[n.Type].Type)
		}
	case *ast.FuncLit:
		nd.K = "funcLit"
		nd.Pos = int(n.Pos())
	case *ast.AssignStmt:
		nd.K = "assign"
		nd.NLhs = len(n.Lhs)
	case *ast.ReturnStmt:
		nd.K = "ret"
	}
	return nd
}

// hTranslate walks in ast.Inspect order (the order the extractor sees).
func hTranslate(root ast.Node, info *types.Info) *hNode {
	var stack []*hNode
	var out *hNode
	ast.Inspect(root, func(n ast.Node) bool {
		if n == nil {
			stack = stack[:len(stack)-1]
			return false
		}
		nd := hMake(n, info)
		if len(stack) > 0 {
			p := stack[len(stack)-1]
			p.C = append(p.C, nd)
		} else {
			out = nd
		}
		stack = append(stack, nd)
		return true
	})
	return out
}

type hFunc struct {
	Pkg  string `json:"pkg"`
	Recv string `json:"recv"`
	Name string `json:"name"`
	Body *hNode `json:"body"`
}

// hFuncs lists the declared functions and methods of the user packages reachable from root.
func hFuncs(root *packages.Package) []hFunc {
	var out []hFunc
	packages.Visit([]*packages.Package{root}, nil, func(p *packages.Package) {
		if !strings.HasPrefix(p.PkgPath, synth.ModulePath) {
			return
		}
		for _, f := range p.Syntax {
			for _, d := range f.Decls {
				fd, ok := d.(*ast.FuncDecl)
				if !ok || fd.Body == nil {
					continue
				}
				recv := ""
				if fd.Recv != nil && len(fd.Recv.List) == 1 {
					t := fd.Recv.List[0].Type
					if s, ok := t.(*ast.StarExpr); ok {
						t = s.X
					}
					if id, ok := t.(*ast.Ident); ok {
						recv = id.Name
					}
				}
				out = append(out, hFunc{Pkg: p.PkgPath, Recv: recv, Name: fd.Name.Name, Body: hTranslate(fd.Body, p.TypesInfo)})
			}
		}
	})
	return out
}

// ---- the real extractor, observed ----

type cParam struct {
	Name string `json:"name"`
	Ty   string `json:"ty"`
}

type cContract struct {
	Name       string   `json:"name"`
	Input      string   `json:"input"`
	Ret        string   `json:"ret"`
	Blob       bool     `json:"blob"`
	Query      []cParam `json:"query"`
	FormValues []string `json:"formValues"`
	FormFile   string   `json:"formFile"`
	FormJSON   *cParam  `json:"formJSON"`
}

type cEndpoint struct {
	URL      string    `json:"url"`
	Method   string    `json:"method"`
	Contract cContract `json:"contract"`
}

func anaTy(t analysis.Type) string {
	if t == nil || reflect.ValueOf(t).IsNil() {
		return ""
	}
	return tyString(t.Type())
}

func convEndpoints(eps []httpapi.Endpoint) []cEndpoint {
	out := []cEndpoint{}
	for _, e := range eps {
		c := cContract{Name: e.Contract.Name, Input: anaTy(e.Contract.InputBody), Ret: anaTy(e.Contract.Return), Blob: e.Contract.IsReturnBlob,
			Query: []cParam{}, FormValues: []string{}, FormFile: e.Contract.InputForm.File}
		for _, q := range e.Contract.InputQueryParams {
			c.Query = append(c.Query, cParam{q.Name, anaTy(q.Type)})
		}
		c.FormValues = append(c.FormValues, e.Contract.InputForm.ValueNames...)
		if j := e.Contract.InputForm.JSON; j.Name != "" {
			c.FormJSON = &cParam{j.Name, anaTy(j.Type)}
		}
		out = append(out, cEndpoint{URL: e.Url, Method: e.Method, Contract: c})
	}
	return out
}

func realParseEcho(pkg *packages.Package, file, prefix string) (eps []cEndpoint, crash string) {
	defer func() {
		if r := recover(); r != nil {
			crash = fmt.Sprint(r)
		}
	}()
	return convEndpoints(httpapi.ParseEcho(pkg, file, prefix)), ""
}

// ---- oracle: the endpoints the route table declares ----

func oracleContract(h *routes.Handler) cContract {
	c := cContract{Name: h.Name, Query: []cParam{}, FormValues: []string{}}
	for _, it := range h.Items() {
		switch it.K {
		case "bind":
			c.Input = normTy(it.Ty)
		case "query", "queryBool", "queryInt64", "queryInt":
			c.Query = append(c.Query, cParam{it.Name, normTy(it.Ty)})
		case "formValue":
			c.FormValues = append(c.FormValues, it.Name)
		case "formFile":
			c.FormFile = it.Name
		case "formJSON":
			c.FormJSON = &cParam{it.Name, normTy(it.Ty)}
		}
	}
	switch h.Ret.K {
	case "json":
		c.Ret = normTy(h.Ret.Ty)
	case "blob":
		c.Ret = normTy(h.Ret.Ty)
		c.Blob = true
	}
	return c
}

func oracleEndpoints(t *routes.Table, prefix string) []cEndpoint {
	out := []cEndpoint{}
	for _, r := range t.Routes {
		if prefix != "" && !strings.HasPrefix(r.URL, prefix) {
			continue
		}
		out = append(out, cEndpoint{URL: r.URL, Method: r.Verb, Contract: oracleContract(r.Handler)})
	}
	return out
}

// epDiff names the first field on which two endpoint lists differ ("" = equal); anonymous
// handler names are compared by their prefix.
func epDiff(want, got []cEndpoint) string {
	if len(want) != len(got) {
		return fmt.Sprintf("endpoint-count(want %d, got %d)", len(want), len(got))
	}
	for i := range want {
		w, g := want[i], got[i]
		wn, gn := w.Contract.Name, g.Contract.Name
		if wn == "" && strings.HasPrefix(gn, "Anonymous") {
			gn = ""
		}
		if gn == "" && strings.HasPrefix(wn, "Anonymous") {
			wn = ""
		}
		switch {
		case w.URL != g.URL:
			return "url"
		case w.Method != g.Method:
			return "verb"
		case wn != gn:
			return "handler-name"
		case w.Contract.Input != g.Contract.Input:
			return "bound-input"
		case w.Contract.Ret != g.Contract.Ret:
			return "return-type"
		case w.Contract.Blob != g.Contract.Blob:
			return "blob-flag"
		case !reflect.DeepEqual(w.Contract.Query, g.Contract.Query):
			return "query-parameters"
		case !reflect.DeepEqual(w.Contract.FormValues, g.Contract.FormValues):
			return "form-values"
		case w.Contract.FormFile != g.Contract.FormFile:
			return "form-file"
		case !reflect.DeepEqual(w.Contract.FormJSON, g.Contract.FormJSON):
			return "form-json"
		}
	}
	return ""
}

func decodeEndpoints(v any) []cEndpoint {
	out := []cEndpoint{}
	l, _ := v.([]any)
	for _, e := range l {
		em := e.(map[string]any)
		out = append(out, cEndpoint{URL: em["url"].(string), Method: em["method"].(string), Contract: decodeContract(em["contract"])})
	}
	return out
}

func decodeContract(v any) cContract {
	cm := v.(map[string]any)
	c := cContract{Name: cm["name"].(string), Input: cm["input"].(string), Ret: cm["ret"].(string), Blob: cm["blob"].(bool),
		Query: []cParam{}, FormValues: strsOf(cm["formValues"]), FormFile: cm["formFile"].(string)}
	if c.FormValues == nil {
		c.FormValues = []string{}
	}
	for _, q := range cm["query"].([]any) {
		qm := q.(map[string]any)
		c.Query = append(c.Query, cParam{qm["name"].(string), qm["ty"].(string)})
	}
	if j, ok := cm["formJSON"].(map[string]any); ok {
		c.FormJSON = &cParam{j["name"].(string), j["ty"].(string)}
	}
	return c
}

func c13Cases(rng *rand.Rand, n int) []*routes.Table {
	var out []*routes.Table
	for i := 0; i < n; i++ {
		out = append(out, routes.New(rng, fmt.Sprintf("r%04d", i)))
	}
	return out
}

func runC13(r *rep.Report, thorough bool) error {
	r.Rule = "synthesised Echo-style route files (2-10 registrations; handlers as pointer / value / local-variable receivers, functions, other-file functions and methods, imported functions and methods, function literals; URLs as concatenations of literals, local / package / typed / other-file / imported constants; bodies from the idiom: Bind by address or pointer, plain / guarded / grouped assignments of QueryParam, typed and generic query helpers, FormValue, FormFile, FormValueJSON, inert statements; JSON / JSONPretty of a variable or composite literal, Blob, plain return) x prefix filters (none, a whole URL, a proper prefix, a prefix of nothing): real ParseEcho vs the route table (failure) and vs the Lean extractor model run on the go/ast tree of the same files (correspondence); the Go oracle vs the declared contract of the Lean specification. non-trivial = a file with at least one route whose handler has two items or more"
	log.SetOutput(io.Discard) // the extractor logs every route the prefix filter drops
	rng := rand.New(rand.NewSource(r.Seed))
	n := 60
	if thorough {
		n = 600
	}
	tables := c13Cases(rng, n)
	var cases []*synth.Case
	for _, t := range tables {
		cases = append(cases, t.Case)
	}
	l, err := load.Cases(cases)
	if err != nil {
		return err
	}
	defer l.Close()
	d, err := drv.Start()
	if err != nil {
		return err
	}
	defer d.Close()
	for _, t := range tables {
		pkg := l.Pkgs[t.Case.ID]
		if pkg == nil {
			r.Disagree(rep.Disagreement{Tie: "c13.synthesised-file-ill-typed", Input: map[string]any{"case": t.Case.ID, "errors": l.Bad[t.Case.ID], "sources": t.Case.Sources()}})
			continue
		}
		file := l.Mod.MainFile(t.Case)
		var fileAST *ast.File
		for _, f := range pkg.Syntax {
			if pkg.Fset.File(f.Package).Name() == file {
				fileAST = f
			}
		}
		tree := hTranslate(fileAST, pkg.TypesInfo)
		funcs := hFuncs(pkg)
		// the Go oracle against the declared contract of the Lean specification
		var hs []map[string]any
		for _, rt := range t.Routes {
			hs = append(hs, map[string]any{"name": rt.Handler.Name, "items": rt.Handler.Items(), "ret": rt.Handler.Ret})
		}
		if len(hs) > 0 {
			reply, err := d.Call(map[string]any{"op": "c13.spec", "handlers": hs})
			if err != nil {
				return err
			}
			for i, c := range reply["contracts"].([]any) {
				cm := c.(map[string]any)
				lc := decodeContract(cm["contract"])
				lc.Input, lc.Ret = normTy(lc.Input), normTy(lc.Ret)
				if ok, _ := cm["wf"].(bool); !ok || !reflect.DeepEqual(lc, oracleContract(t.Routes[i].Handler)) {
					r.Disagree(rep.Disagreement{Tie: "c13.oracle-vs-lean-specification", Input: map[string]any{"case": t.Case.ID, "handler": t.Routes[i].Handler}, Model: cm, Impl: oracleContract(t.Routes[i].Handler)})
				}
			}
		}
		for _, prefix := range t.Prefixes {
			nontrivial := false
			for _, rt := range t.Routes {
				if len(rt.Handler.Items()) >= 2 {
					nontrivial = true
				}
			}
			in := map[string]any{"case": t.Case.ID, "prefix": prefix, "sources": t.Case.Sources()}
			r.Case(map[string]any{"case": t.Case.ID, "prefix": prefix, "routes": len(t.Routes)}, nontrivial)
			real, crash := realParseEcho(pkg, file, prefix)
			want := oracleEndpoints(t, prefix)
			reply, err := d.Call(map[string]any{"op": "c13.extract", "file": tree, "funcs": funcs, "prefix": prefix})
			if err != nil {
				return err
			}
			model := decodeEndpoints(reply["endpoints"])
			modelCrash, _ := reply["crashed"].(bool)
			for _, rt := range t.Routes {
				r.Hist("handler:" + rt.Handler.Form)
				r.Hist("return:" + rt.Handler.Ret.K)
				for _, it := range rt.Handler.Items() {
					r.Hist("item:" + it.K)
				}
			}
			if crash != "" {
				r.Fail(rep.Failure{Signature: "c13:panic:" + slug(firstWords(crash, 6)), What: "ParseEcho panics on a route file of the supported idiom: " + crash, Input: in, Expected: want})
				if !modelCrash {
					r.Disagree(rep.Disagreement{Tie: "c13.model-vs-parseecho(crash)", Input: in, Model: model, Impl: crash})
				}
				continue
			}
			if modelCrash {
				r.Disagree(rep.Disagreement{Tie: "c13.model-vs-parseecho(model crashes)", Input: in, Model: model, Impl: real})
			} else if df := epDiff(model, real); df != "" {
				r.Disagree(rep.Disagreement{Tie: "c13.model-vs-parseecho:" + df, Input: in, Model: model, Impl: real})
			}
			if df := epDiff(want, real); df != "" {
				r.Fail(rep.Failure{Signature: "c13:" + df, What: "the extracted endpoints differ from the registered routes: " + df, Input: in, Expected: want, Observed: real})
			}
		}
	}
	return nil
}
