package main

import (
	"github.com/benoitkugler/gomacro/analysis"
	"golang.org/x/tools/go/packages"
)

func analysisNew(p *packages.Package, file string) *analysis.Analysis {
	return analysis.NewAnalysisFromFile(p, file)
}
