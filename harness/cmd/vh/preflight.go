package main

import (
	"bufio"
	"bytes"
	"encoding/json"
	"fmt"
	"os"
	"os/exec"
	"runtime/debug"
	"strings"

	"golang.org/x/tools/go/packages"

	"verifharness/internal/load"
)

// Pre-flight: the real analysis is first run on every case in a child process with a stack limit,
// so that unbounded recursion (a fatal error in Go) is attributed to the program that causes it
// instead of killing the runner.

type preflightIn struct {
	Root  string            `json:"root"`
	Files map[string]string `json:"files"` // case id -> analysed file
	Order []string          `json:"order"`
	Skip  int               `json:"skip"`
}

func preflightChild() error {
	var in preflightIn
	if err := json.NewDecoder(os.Stdin).Decode(&in); err != nil {
		return err
	}
	debug.SetMaxStack(48 << 20)
	var patterns []string
	for _, id := range in.Order[in.Skip:] {
		patterns = append(patterns, "file="+in.Files[id])
	}
	pkgs, err := packages.Load(&packages.Config{Dir: in.Root, Mode: load.Mode}, patterns...)
	if err != nil {
		return err
	}
	byFile := map[string]*packages.Package{}
	for _, p := range pkgs {
		for _, f := range p.GoFiles {
			byFile[f] = p
		}
	}
	w := bufio.NewWriter(os.Stdout)
	for _, id := range in.Order[in.Skip:] {
		p := byFile[in.Files[id]]
		if p == nil {
			continue
		}
		fmt.Fprintf(w, "start %s\n", id)
		w.Flush()
		guard(func() { analysisNew(p, in.Files[id]) })
		fmt.Fprintf(w, "done %s\n", id)
		w.Flush()
	}
	return nil
}

// preflightAnalysis returns case id -> description of the fatal error, for the cases on which the
// real analysis kills the process.
func preflightAnalysis(l *load.Loaded) map[string]string {
	fatal := map[string]string{}
	in := preflightIn{Root: l.Mod.Root, Files: map[string]string{}}
	for _, c := range l.Mod.Cases {
		if l.Pkgs[c.ID] != nil {
			in.Files[c.ID] = l.Mod.MainFile(c)
			in.Order = append(in.Order, c.ID)
		}
	}
	self, _ := os.Executable()
	for round := 0; round < 20 && in.Skip < len(in.Order); round++ {
		b, _ := json.Marshal(in)
		cmd := exec.Command(self, "preflight")
		cmd.Stdin = bytes.NewReader(b)
		var stderr bytes.Buffer
		cmd.Stderr = &stderr
		out, _ := cmd.Output()
		inflight := ""
		done := 0
		for _, line := range strings.Split(string(out), "\n") {
			f := strings.Fields(line)
			if len(f) != 2 {
				continue
			}
			if f[0] == "start" {
				inflight = f[1]
			} else if f[0] == "done" {
				inflight = ""
				done++
			}
		}
		if inflight == "" {
			break
		}
		msg := stderr.String()
		kind := "fatal error"
		if strings.Contains(msg, "stack overflow") || strings.Contains(msg, "goroutine stack exceeds") {
			kind = "unbounded recursion (stack overflow)"
		}
		fatal[inflight] = kind
		for i, id := range in.Order {
			if id == inflight {
				in.Skip = i + 1
			}
		}
	}
	return fatal
}
