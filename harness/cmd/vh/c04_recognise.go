package main

import (
	"regexp"
	"strconv"
	"strings"
)

// Recognition of the six plpgsql validator templates in the real generated text. The result is a
// template instance for the Lean model (Gomacro/PgGen.lean: PgFunc); it is only used when the
// instance, printed by the model, gives back the real text token for token (checked by the caller),
// so a wrong recognition cannot turn into a wrong verdict.

var (
	pgFnRe       = regexp.MustCompile(`FUNCTION (\w+)`)
	pgKindRe     = regexp.MustCompile(`jsonb_typeof\(data\) = '(\w+)'`)
	pgElemRe     = regexp.MustCompile(`bool_and\( (\w+)\(value\) \)`)
	pgLenRe      = regexp.MustCompile(`AND jsonb_array_length\(data\) = (\d+)`)
	pgFieldRe    = regexp.MustCompile(`AND (\w+)\(data->'([^']*)'\)`)
	pgCaseRe     = regexp.MustCompile(`WHEN data->>'Kind' = '([^']*)' THEN RETURN (\w+)\(data->'Data'\);`)
	pgTupleRe    = regexp.MustCompile(`(data::int|data#>>'\{\}') IN \((.*)\); BEGIN`)
	pgWarnTypeRe = regexp.MustCompile(`RAISE WARNING '% is not a (\S+)', data`)
)

// splitTuple splits on ", " outside single quotes
func splitTuple(s string) []string {
	var out []string
	var cur strings.Builder
	inq := false
	for i := 0; i < len(s); i++ {
		c := s[i]
		if c == '\'' {
			inq = !inq
		}
		if !inq && c == ',' && i+1 < len(s) && s[i+1] == ' ' {
			out = append(out, cur.String())
			cur.Reset()
			i++
			continue
		}
		cur.WriteByte(c)
	}
	if cur.Len() > 0 || len(out) > 0 {
		out = append(out, cur.String())
	}
	return out
}

func pgRecognise(text string) map[string]any {
	t := strings.Join(strings.Fields(text), " ")
	m := pgFnRe.FindStringSubmatch(t)
	if m == nil {
		return nil
	}
	out := map[string]any{"fn": m[1]}
	pairs := func(ms [][]string, a, b int) []any {
		l := []any{}
		for _, x := range ms {
			l = append(l, map[string]any{"a": x[a], "b": x[b]})
		}
		return l
	}
	switch {
	case strings.Contains(t, "jsonb_array_elements(data)"):
		e := pgElemRe.FindStringSubmatch(t)
		if e == nil {
			return nil
		}
		out["k"], out["elem"], out["len"] = "array", e[1], -1
		if l := pgLenRe.FindStringSubmatch(t); l != nil {
			n, _ := strconv.Atoi(l[1])
			out["len"] = n
		}
	case strings.Contains(t, "CASE"):
		out["k"], out["cases"] = "union", pairs(pgCaseRe.FindAllStringSubmatch(t, -1), 1, 2)
	case strings.Contains(t, "jsonb_each(data)") && strings.Contains(t, "is_valid :="):
		out["k"], out["fields"] = "struct", pairs(pgFieldRe.FindAllStringSubmatch(t, -1), 2, 1)
	case strings.Contains(t, "jsonb_each(data)"):
		e := pgElemRe.FindStringSubmatch(t)
		if e == nil {
			return nil
		}
		out["k"], out["elem"] = "map", e[1]
	case pgTupleRe.MatchString(t):
		tm := pgTupleRe.FindStringSubmatch(t)
		k := pgKindRe.FindStringSubmatch(t)
		w := pgWarnTypeRe.FindStringSubmatch(t)
		if k == nil || w == nil {
			return nil
		}
		out["k"], out["kind"], out["isInt"], out["tuple"], out["typeId"] = "enum", k[1], tm[1] == "data::int", splitTuple(tm[2]), w[1]
	default:
		k := pgKindRe.FindStringSubmatch(t)
		if k == nil {
			return nil
		}
		out["k"], out["kind"] = "basic", k[1]
	}
	return out
}

// pgCalled lists the validators a recognised instance calls
func pgCalled(f map[string]any) []string {
	var out []string
	if e, ok := f["elem"].(string); ok {
		out = append(out, e)
	}
	for _, key := range []string{"fields", "cases"} {
		if l, ok := f[key].([]any); ok {
			for _, p := range l {
				out = append(out, p.(map[string]any)["b"].(string))
			}
		}
	}
	return out
}

// pgReachable recognises the validators reachable from fn in the real script (id -> text);
// ok = false when one of them is missing or not an instance of the templates
func pgReachable(real map[string]string, fn string) (funcs []map[string]any, texts []string, ok bool) {
	seen := map[string]bool{}
	todo := []string{fn}
	for len(todo) > 0 {
		f := todo[0]
		todo = todo[1:]
		if seen[f] {
			continue
		}
		seen[f] = true
		txt, has := real[f]
		if !has {
			return nil, nil, false
		}
		ast := pgRecognise(txt)
		if ast == nil || ast["fn"] != f {
			return nil, nil, false
		}
		funcs = append(funcs, ast)
		texts = append(texts, txt)
		todo = append(todo, pgCalled(ast)...)
	}
	return funcs, texts, true
}
