package main

import (
	"encoding/json"
	"fmt"
	"math/big"
	"math/rand"
	"reflect"
	"regexp"
	"strings"

	"verifharness/internal/drv"
	"verifharness/internal/gobuild"
	"verifharness/internal/gorun"
	"verifharness/internal/irdump"
	"verifharness/internal/load"
	"verifharness/internal/rep"
	"verifharness/internal/synth"
)

func init() { runners["C02"] = runC02 }

func exportedName(n string) bool { return n != "" && n[0] >= 'A' && n[0] <= 'Z' }

// buildSpec lists what the run-time driver of a case registers.
func buildSpec(a *analysed, randText string) gorun.Spec {
	s := gorun.Spec{Case: a.Case.ID, PkgName: a.Case.Main.Name, Unions: map[string][]string{}, Rand: map[string]string{}, Imports: map[string]string{}, Enums: map[string][]string{}}
	for k, v := range a.Case.Main.Imports {
		s.Imports[k] = v
	}
	// standard library packages whose types can be enums through constants of the analysed package
	if _, taken := s.Imports["time"]; !taken {
		s.Imports["time"] = "time"
	}
	decl := map[string]*irdump.Decl{}
	for _, d := range a.Env.Decls {
		decl[d.Q] = d
	}
	importName := map[string]string{} // pkg path -> import name
	for n, p := range s.Imports {
		importName[p] = n
	}
	expr := func(d *irdump.Decl) string {
		if d.PkgPath == a.Env.PkgPath {
			return d.Name
		}
		if n, ok := importName[d.PkgPath]; ok && exportedName(d.Name) {
			return n + "." + d.Name
		}
		return ""
	}
	seen := map[string]bool{}
	for _, t := range a.Env.Source {
		d := decl[t.Q]
		if t.K != "ref" || d == nil || d.PkgPath != a.Env.PkgPath || len(d.TArgs) > 0 || seen[d.Name] {
			continue
		}
		if d.Kind == "union" {
			continue
		}
		seen[d.Name] = true
		s.Types = append(s.Types, d.Name)
		fn := "rand" + d.Name
		if randText != "" && regexp.MustCompile(`func `+regexp.QuoteMeta(fn)+`\(\)`).MatchString(randText) {
			s.Rand[d.Name] = fn
		}
	}
	for _, d := range a.Env.Decls {
		if d.Kind != "enum" || strings.HasSuffix(d.Q, "#2") {
			continue
		}
		e := expr(d)
		if e == "" {
			continue
		}
		var cs []string
		for _, m := range d.Members {
			if m.Name == "_" {
				continue
			}
			// a constant lives in the package that declares it, which need not be the type's
			// (const DefaultTimeout time.Duration in the analysed package)
			mp := m.Pkg
			if mp == "" {
				mp = d.PkgPath
			}
			if mp == a.Env.PkgPath {
				cs = append(cs, m.Name)
			} else if m.Exported && importName[mp] != "" {
				cs = append(cs, importName[mp]+"."+m.Name)
			}
		}
		// the constants of the type as the Go type checker sees them (not the analysis under test):
		// those of the type's own package when it declares any, else those of every scanned package
		if a.FB != nil {
			has := map[string]bool{}
			for _, c := range cs {
				has[c] = true
			}
			add := func(home bool) (n int) {
				for _, p := range a.FB.Pkgs {
					if home != (p.Path == d.PkgPath) {
						continue
					}
					for _, c := range p.Consts {
						if c.TypeQ != d.Q || c.Name == "_" || strings.Contains(c.Comment, "gomacro:no-enum") {
							continue
						}
						n++
						name := ""
						if p.Path == a.Env.PkgPath {
							name = c.Name
						} else if c.Exported && importName[p.Path] != "" {
							name = importName[p.Path] + "." + c.Name
						}
						if name != "" && !has[name] {
							has[name] = true
							cs = append(cs, name)
						}
					}
				}
				return n
			}
			if add(true) == 0 {
				add(false)
			}
		}
		if len(cs) > 0 {
			s.Enums[e] = cs
		}
	}
	for _, d := range a.Env.Decls {
		if d.Kind != "union" || strings.HasSuffix(d.Q, "#2") || len(d.TArgs) > 0 {
			continue
		}
		u := expr(d)
		if u == "" {
			continue
		}
		// the members values are drawn from come from the go/types facts (every named type of the
		// package that implements the interface, promoted methods included), NOT from the analysis
		// under test: a member the analysis lost is still put into union positions
		var ms []string
		ok := true
		if a.FB != nil {
			for _, pf := range a.FB.Pkgs {
				for _, tq := range pf.Types {
					for _, iq := range pf.Implements[tq] {
						if iq != d.Q {
							continue
						}
						tf := a.FB.Types[tq]
						if tf == nil || len(tf.TArgs) > 0 || tf.HasTParams {
							ok = false
							continue
						}
						e := ""
						if tf.PkgPath == a.Env.PkgPath {
							e = tf.Name
						} else if n, has := importName[tf.PkgPath]; has && exportedName(tf.Name) {
							e = n + "." + tf.Name
						}
						if e == "" {
							ok = false
							continue
						}
						ms = append(ms, e)
					}
				}
			}
		} else {
			for _, m := range d.UMembers {
				md := decl[m.Q]
				if md == nil || expr(md) == "" || len(md.TArgs) > 0 {
					ok = false
					break
				}
				ms = append(ms, expr(md))
			}
		}
		if ok && len(ms) > 0 {
			s.Unions[u] = ms
		}
	}
	return s
}

// supportedEnv: no pointer anywhere and only basic kinds gomacro knows (the quantifier of C02/C03/C15)
func supportedEnv(env *irdump.Env) bool { return supportedEnvOpt(env, false) }

// dupGoFieldNames: a struct whose flattened field list has two fields of one Go name (an outer field
// and a promoted one, kept apart by their JSON keys). The model's struct values are keyed by the Go
// field name, so the values of such a struct are outside its value representation.
func dupGoFieldNames(env *irdump.Env) bool {
	for _, d := range env.Decls {
		seen := map[string]bool{}
		for _, f := range d.Fields {
			if seen[f.Name] {
				return true
			}
			seen[f.Name] = true
		}
	}
	return false
}

// supportedEnvOpt: with pointers = true, pointer types are accepted (randdata generates them)
func supportedEnvOpt(env *irdump.Env, pointers bool) bool {
	var ok func(t *irdump.Ty) bool
	ok = func(t *irdump.Ty) bool {
		if t == nil {
			return true
		}
		switch t.K {
		case "ptr":
			if pointers {
				return ok(t.E)
			}
			return false
		case "basic":
			return t.BK != "none" && t.BK != ""
		}
		return ok(t.E) && ok(t.Key)
	}
	for _, d := range env.Decls {
		if !ok(d.Under) {
			return false
		}
		for _, f := range d.Fields {
			if !ok(f.T) {
				return false
			}
		}
		for _, m := range d.UMembers {
			if !ok(m) {
				return false
			}
		}
		// a map keyed by a union is legal Go but panics at run time for non-comparable members
		if d.Kind == "named" && d.Under != nil && d.Under.K == "map" && d.Under.Key != nil && d.Under.Key.K == "ref" {
			for _, o := range env.Decls {
				if o.Q == d.Under.Key.Q && o.Kind == "union" {
					return false
				}
			}
		}
	}
	return true
}

func runC02(r *rep.Report, thorough bool) error {
	r.Rule = "synthesised packages rich in unions (fields, named slices / maps of unions, nested structs, members shared by unions, tagged / json:\"-\" / unexported sibling fields) compiled together with the real gounions output; K random values per source type built by reflection with member values in every union position (nil and empty containers, zero values, unicode strings): json.Marshal, json.Unmarshal, deep equality modulo nil/empty; the marshalled document is compared with the Lean encoder (wire format). non-trivial = the value contains a union component"
	rng := rand.New(rand.NewSource(r.Seed))
	n, k := 50, 6
	if thorough {
		n, k = 300, 20
	}
	o := synth.DefaultOptions()
	o.Unions = 4
	o.Structs = 6
	cases := genCases(rng, n, "w", o)
	cases = append(cases, synth.HandWritten()...)
	l, err := load.Cases(cases)
	if err != nil {
		return err
	}
	defer l.Close()
	if err := gobuild.InstallPQ(l); err != nil {
		return err
	}
	as := analyseCases(l)
	var files []gobuild.GenFile
	var good []*analysed
	for _, a := range as {
		if a.Ana == nil || a.Env == nil {
			continue
		}
		if !supportedEnv(a.Env) {
			r.Hist("outside-quantifier(pointer / unsupported basic kind)")
			continue
		}
		t := runTarget("gounions", a, l.Mod.Root)
		r.Hist("gounions:" + t.Out.Class)
		if t.Out.Class != "ok" {
			continue
		}
		files = append(files, gobuild.GenFile{Case: a.Case.ID, Name: "gen_unions.go", Content: t.Text["gen_unions.go"]})
		good = append(good, a)
	}
	bad := map[string]string{}
	for _, p := range gobuild.Place(l, files) {
		bad[p.Case] = p.Msg
	}
	var ids []string
	for _, a := range good {
		ids = append(ids, a.Case.ID)
	}
	tc, err := gobuild.Check(l, ids)
	if err != nil {
		return err
	}
	for _, p := range tc {
		bad[p.Case] = p.Msg
	}
	r.Histogram["packages_not_compiling(C01)"] = len(bad)
	var specs []gorun.Spec
	byID := map[string]*analysed{}
	for _, a := range good {
		if _, isBad := bad[a.Case.ID]; isBad {
			continue
		}
		sp := buildSpec(a, "")
		if len(sp.Types) == 0 {
			continue
		}
		specs = append(specs, sp)
		byID[a.Case.ID] = a
	}
	bin, out, err := gorun.Build(l, specs)
	if err != nil {
		return fmt.Errorf("go build of the scratch module failed: %v\n%s", err, out)
	}
	lines, err := gorun.RunValues(bin, r.Seed, k)
	if err != nil {
		r.Note("runall: %v", err)
	}
	wrappersOf := map[string]map[string][]string{}
	for _, a := range good {
		wrappersOf[a.Case.ID] = wrapperSets(a, l.Mod.Root)
	}
	for _, ln := range lines {
		a := byID[ln.Case]
		hasUnion := strings.Contains(fmt.Sprint(ln.Val), "k:iface")
		r.Case(map[string]any{"case": ln.Case, "type": ln.Type, "doc": ln.Doc}, hasUnion)
		in := map[string]any{"case": ln.Case, "type": ln.Type, "value": ln.Val, "doc": ln.Doc}
		if a != nil {
			in["sources"] = a.Case.Sources()
		}
		// known shape: a type that needs generated JSON methods (struct with a union field, named
		// slice / map of unions) which the generator never visits (reached through an anonymous
		// container only, and not declared in the analysed file)
		missing := ""
		if a != nil {
			missing = missingWrapper(a, wrappersOf[a.Case.ID])
		}
		suffix := ""
		if missing != "" {
			suffix = ":wrapper-not-generated-behind-anonymous-container"
			in["type_without_wrapper"] = missing
		}
		switch {
		case ln.Panic != "":
			r.Fail(rep.Failure{Signature: "c02:panic", What: "marshalling / unmarshalling panics: " + ln.Panic, Input: in})
		case ln.MarshalErr != "":
			r.Fail(rep.Failure{Signature: "c02:marshal-error", What: "json.Marshal fails: " + ln.MarshalErr, Input: in})
		case ln.UnmarshalErr != "":
			r.Fail(rep.Failure{Signature: "c02:unmarshal-error" + suffix, What: "json.Unmarshal of the marshalled document fails: " + ln.UnmarshalErr, Input: in})
		case !ln.RoundTrip:
			in["back"] = ln.Back
			r.Fail(rep.Failure{Signature: "c02:round-trip" + suffix, What: "the value does not survive the JSON round trip", Input: in})
		}
	}
	r.Histogram["lines"] = len(lines)

	// ---- wire format: the marshalled document vs the Lean encoder (spec of encoding/json + wrappers)
	d, err := drv.Start()
	if err != nil {
		return err
	}
	defer d.Close()
	byCase := map[string][]gorun.Line{}
	for _, ln := range lines {
		if ln.Doc != "" && ln.Val != nil {
			byCase[ln.Case] = append(byCase[ln.Case], ln)
		}
	}
	for id, lns := range byCase {
		a := byID[id]
		if a == nil {
			continue
		}
		if dupGoFieldNames(a.Env) {
			r.Hist("wire-format:outside-the-value-representation(two fields of one Go name)")
			continue
		}
		var vals []map[string]any
		for _, ln := range lns {
			vals = append(vals, map[string]any{"type": map[string]any{"k": "ref", "q": a.Env.PkgPath + "." + ln.Type}, "val": ln.Val})
		}
		reply, err := d.Call(map[string]any{"op": "sem.encode", "env": a.Env, "wrappers": wrappersOf[id], "values": vals})
		if err != nil {
			return err
		}
		docs := reply["docs"].([]any)
		// the round-trip theorem (Props/C02E2E.lean) on this program: inside its fragment, every
		// strictly typed value is read back from its own document
		rt, err := d.Call(map[string]any{"op": "c02.roundtrip", "env": a.Env, "wrappers": wrappersOf[id], "values": vals})
		if err != nil {
			return err
		}
		inFrag, _ := rt["inFragment"].(bool)
		if inFrag {
			r.Hist("round-trip-theorem:program-inside-the-fragment")
		} else {
			r.Hist("round-trip-theorem:program-outside-the-fragment")
			if why, ok := rt["why"].([]any); ok {
				for _, w := range why {
					r.Hist("round-trip-theorem:outside-because:" + fmt.Sprint(w))
				}
			}
		}
		// the larger fragment (Props/C02Nil.lean): equality modulo nil, omitempty, []byte, wrapped
		// named slices / maps of unions
		inFragN, _ := rt["inFragmentN"].(bool)
		if inFragN {
			r.Hist("round-trip-mod-nil-theorem:program-inside-the-fragment")
		} else {
			r.Hist("round-trip-mod-nil-theorem:program-outside-the-fragment")
			if why, ok := rt["whyN"].([]any); ok {
				for _, w := range why {
					r.Hist("round-trip-mod-nil-theorem:outside-because:" + fmt.Sprint(w))
				}
			}
		}
		if rv, ok := rt["values"].([]any); ok && inFragN {
			for i, x := range rv {
				m, _ := x.(map[string]any)
				if typed, _ := m["wt"].(bool); !typed {
					r.Hist("round-trip-mod-nil-theorem:value-not-strictly-typed")
					continue
				}
				ln := lns[i]
				r.Hist("round-trip-mod-nil-theorem:value-covered")
				in := map[string]any{"case": id, "type": ln.Type, "value": ln.Val, "doc": ln.Doc, "sources": a.Case.Sources()}
				if same, _ := m["sameModNil"].(bool); !same {
					r.Disagree(rep.Disagreement{Tie: "c02.round-trip-mod-nil-theorem-instance", Input: in,
						Model: "theorem C02_round_trip_mod_nil: decode (encode v) = some v' with v' equal to v modulo nil", Impl: "the instance evaluates to something else (the driver is not the proved model)"})
				}
				if !ln.RoundTrip || ln.UnmarshalErr != "" || ln.Panic != "" {
					r.Disagree(rep.Disagreement{Tie: "c02.round-trip-mod-nil-theorem-vs-real-round-trip", Input: in,
						Model: "theorem C02_round_trip_mod_nil: a strictly typed value of a program in the fragment is read back, modulo nil, from its document", Impl: "json.Unmarshal(json.Marshal(v)) with the generated methods does not: " + ln.UnmarshalErr + ln.Panic})
				}
			}
		}
		if rv, ok := rt["values"].([]any); ok && inFrag {
			for i, x := range rv {
				m, _ := x.(map[string]any)
				if typed, _ := m["wt"].(bool); !typed {
					r.Hist("round-trip-theorem:value-not-strictly-typed")
					continue
				}
				ln := lns[i]
				r.Hist("round-trip-theorem:value-covered")
				in := map[string]any{"case": id, "type": ln.Type, "value": ln.Val, "doc": ln.Doc, "sources": a.Case.Sources()}
				if same, _ := m["same"].(bool); !same {
					r.Disagree(rep.Disagreement{Tie: "c02.round-trip-theorem-instance", Input: in,
						Model: "theorem C02_round_trip: decode (encode v) = some v", Impl: "the instance evaluates to something else (the driver is not the proved model)"})
				}
				if !ln.RoundTrip || ln.UnmarshalErr != "" || ln.Panic != "" {
					r.Disagree(rep.Disagreement{Tie: "c02.round-trip-theorem-vs-real-round-trip", Input: in,
						Model: "theorem C02_round_trip: a strictly typed value of a program in the fragment is read back from its document", Impl: "json.Unmarshal(json.Marshal(v)) with the generated wrappers does not give v back: " + ln.UnmarshalErr + ln.Panic})
				}
			}
		}
		for i, ln := range lns {
			var real any
			dec := json.NewDecoder(strings.NewReader(ln.Doc))
			dec.UseNumber()
			if err := dec.Decode(&real); err != nil {
				continue
			}
			r.Hist("wire_compared")
			if !reflect.DeepEqual(canonJSON(real), canonJSON(docs[i])) {
				mb, _ := json.Marshal(docs[i])
				r.Fail(rep.Failure{Signature: "c02:wire-format", What: "the marshalled document differs from the specified wire format (encoding/json keys and encodings with struct tags; unions as {Kind, Data})",
					Input: map[string]any{"case": id, "type": ln.Type, "value": ln.Val, "sources": a.Case.Sources()}, Expected: string(mb), Observed: ln.Doc})
			}
		}
	}
	return nil
}

// wrapperSets: which named types got JSON methods from the real gounions run
func wrapperSets(a *analysed, root string) map[string][]string {
	t := runTarget("gounions", a, root)
	w := map[string][]string{"structs": {}, "nameds": {}}
	kinds := map[string]string{}
	for _, dd := range a.Env.Decls {
		if dd.PkgPath == a.Env.PkgPath {
			kinds[dd.Name] = dd.Kind
		}
	}
	for _, ds := range t.Decls {
		for _, dcl := range ds {
			if n := strings.TrimSuffix(dcl.ID, "_json"); n != dcl.ID && kinds[n] == "struct" {
				w["structs"] = append(w["structs"], a.Env.PkgPath+"."+n)
			} else if kinds[dcl.ID] == "named" {
				w["nameds"] = append(w["nameds"], a.Env.PkgPath+"."+dcl.ID)
			}
		}
	}
	return w
}

// missingWrapper returns a local type that needs generated JSON methods but did not get them
func missingWrapper(a *analysed, w map[string][]string) string {
	has := map[string]bool{}
	for _, q := range w["structs"] {
		has[q] = true
	}
	for _, q := range w["nameds"] {
		has[q] = true
	}
	isUnion := map[string]bool{}
	for _, d := range a.Env.Decls {
		if d.Kind == "union" {
			isUnion[d.Q] = true
		}
	}
	// what gounions visits: the source types and what they reach without crossing an anonymous
	// slice / array / map (the recorded finding is about types only reachable behind one)
	byQ := map[string]*irdump.Decl{}
	for _, d := range a.Env.Decls {
		byQ[d.Q] = d
	}
	visited := map[string]bool{}
	var visit func(q string)
	visit = func(q string) {
		d := byQ[q]
		if d == nil || visited[q] {
			return
		}
		visited[q] = true
		// gounions.generate: a struct recurses into the types of its (non ignored) fields when they
		// are named types, unions or structs; anonymous containers, the elements of named containers
		// and the members of unions are not followed
		if d.Kind == "struct" {
			for _, f := range d.Fields {
				if f.T != nil && f.T.K == "ref" && reflect.StructTag(f.Tag).Get("gomacro") != "ignore" {
					visit(f.T.Q)
				}
			}
		}
	}
	for _, t := range a.Env.Source {
		if t.K == "ref" {
			visit(t.Q)
		}
	}
	for _, d := range a.Env.Decls {
		if d.PkgPath != a.Env.PkgPath || has[d.Q] || strings.HasSuffix(d.Q, "#2") || visited[d.Q] {
			continue
		}
		switch d.Kind {
		case "struct":
			for _, f := range d.Fields {
				if f.T.K == "ref" && isUnion[f.T.Q] && f.GoExported && !strings.Contains(f.Tag, `json:"-"`) {
					return d.Q
				}
			}
		case "named":
			if d.Under != nil && (d.Under.K == "arr" || d.Under.K == "map") && d.Under.E != nil && d.Under.E.K == "ref" && isUnion[d.Under.E.Q] {
				return d.Q
			}
		}
	}
	return ""
}

// canonJSON normalises numbers (json.Number and the model's {"$num": text}) for comparison
func canonJSON(v any) any {
	switch x := v.(type) {
	case json.Number:
		return "num:" + normNum(string(x))
	case map[string]any:
		if n, ok := x["$num"]; ok && len(x) == 1 {
			return "num:" + normNum(fmt.Sprint(n))
		}
		out := map[string]any{}
		for k, e := range x {
			out[k] = canonJSON(e)
		}
		return out
	case []any:
		out := make([]any, len(x))
		for i, e := range x {
			out[i] = canonJSON(e)
		}
		return out
	case string:
		return "str:" + x
	}
	return v
}

func normNum(s string) string {
	f, _, err := big.ParseFloat(s, 10, 200, big.ToNearestEven)
	if err != nil {
		return s
	}
	return f.Text('g', 30)
}
