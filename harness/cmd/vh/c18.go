package main

import (
	"bufio"
	"encoding/json"
	"flag"
	"fmt"
	"math/rand"
	"os"
	"os/exec"
	"regexp"
	"runtime/debug"
	"strings"

	"verifharness/internal/load"
	"verifharness/internal/rep"
	"verifharness/internal/synth"
)

func init() { runners["C18"] = runC18 }

// one line of the child's output
type c18Line struct {
	Kind    string            `json:"kind"` // start | done | info
	Case    string            `json:"case"`
	Stage   string            `json:"stage"` // analysis | <target>
	Class   string            `json:"class,omitempty"`
	Msg     string            `json:"msg,omitempty"`
	Site    string            `json:"site,omitempty"`
	Feat    []string          `json:"feat,omitempty"`
	Sources map[string]string `json:"sources,omitempty"`
	Total   int               `json:"total,omitempty"`
}

func c18Cases(seed int64, thorough bool) []*synth.Case {
	rng := rand.New(rand.NewSource(seed))
	n := 70
	if thorough {
		n = 500
	}
	var cases []*synth.Case
	// stream 1: supported forms in unusual spellings
	o1 := synth.DefaultOptions()
	o1.Risky = true
	cases = append(cases, genCases(rng, n, "r", o1)...)
	// stream 2: unsupported forms in every position
	o2 := synth.DefaultOptions()
	o2.Unsupported = true
	cases = append(cases, genCases(rng, n, "u", o2)...)
	// stream 3: sql-flavoured programs (comment directives, guards)
	o3 := synth.DefaultOptions()
	o3.SQL = true
	o3.Risky = true
	cases = append(cases, genCases(rng, n/2, "s", o3)...)
	cases = append(cases, synth.HandWritten()...)
	return cases
}

// c18Child processes cases from index `skip` on, printing a start line before and a done line
// after every stage, so that the parent knows what was running if the process dies.
func c18Child(args []string) error {
	fs := flag.NewFlagSet("c18child", flag.ExitOnError)
	seed := fs.Int64("seed", 1, "")
	tier := fs.String("tier", "quick", "")
	skip := fs.Int("skip", 0, "")
	fs.Parse(args)
	debug.SetMaxStack(48 << 20)
	cases := c18Cases(*seed, *tier == "thorough")
	w := bufio.NewWriter(os.Stdout)
	emit := func(l c18Line) {
		b, _ := json.Marshal(l)
		w.Write(b)
		w.WriteByte('\n')
		w.Flush()
	}
	emit(c18Line{Kind: "info", Total: len(cases)})
	if *skip >= len(cases) {
		return nil
	}
	sub := cases[*skip:]
	l, err := load.Cases(sub)
	if err != nil {
		return err
	}
	defer l.Close()
	for id, e := range l.Bad {
		emit(c18Line{Kind: "info", Case: id, Msg: "ill-typed: " + e})
	}
	for _, c := range sub {
		p := l.Pkgs[c.ID]
		if p == nil {
			emit(c18Line{Kind: "done", Case: c.ID, Stage: "load", Class: "ill-typed"})
			continue
		}
		a := &analysed{Case: c, Pkg: p, File: l.Mod.MainFile(c)}
		emit(c18Line{Kind: "start", Case: c.ID, Stage: "analysis", Feat: c.Feat, Sources: c.Sources()})
		var site string
		a.Out, site = guardSite(func() { a.Ana = analysisNew(p, a.File) })
		emit(c18Line{Kind: "done", Case: c.ID, Stage: "analysis", Class: a.Out.Class, Msg: a.Out.Msg, Site: site})
		if a.Out.Class != "ok" {
			continue
		}
		for _, tg := range allTargets {
			emit(c18Line{Kind: "start", Case: c.ID, Stage: tg})
			t := runTarget(tg, a, l.Mod.Root)
			emit(c18Line{Kind: "done", Case: c.ID, Stage: tg, Class: t.Out.Class, Msg: t.Out.Msg, Site: t.Site})
		}
	}
	return nil
}

func runC18(r *rep.Report, thorough bool) error {
	r.Rule = "three synthesiser streams (supported forms in unusual spellings: one-letter names, multi-name constant specs, []byte, zero-length arrays, generic instantiations over basic types; unsupported forms in every position: pointers, channels, functions, anonymous structs, complex numbers, empty interfaces, anonymous containers of unions; sql-flavoured programs) plus hand-written corner programs; analysis and the seven targets run in a child process with a stack limit, every panic classified as diagnostic (string/error) or crash (runtime.Error, fatal error). non-trivial = program contains a risky or unsupported feature"
	self, _ := os.Executable()
	skip := 0
	total := -1
	caseIdx := map[string]int{}
	for round := 0; round < 40; round++ {
		cmd := exec.Command(self, "c18child", "-seed", fmt.Sprint(r.Seed), "-tier", r.Tier, "-skip", fmt.Sprint(skip))
		cmd.Env = os.Environ()
		out, err := cmd.StdoutPipe()
		if err != nil {
			return err
		}
		var stderr strings.Builder
		cmd.Stderr = &stderr
		if err := cmd.Start(); err != nil {
			return err
		}
		sc := bufio.NewScanner(out)
		sc.Buffer(make([]byte, 1<<20), 1<<26)
		var inflight *c18Line
		var lastSources map[string]string
		var lastFeat []string
		n := 0
		for sc.Scan() {
			var l c18Line
			if json.Unmarshal(sc.Bytes(), &l) != nil {
				continue
			}
			switch l.Kind {
			case "info":
				if l.Total > 0 {
					total = l.Total
				}
				if l.Msg != "" {
					r.Note("%s %s", l.Case, l.Msg)
				}
			case "start":
				cp := l
				inflight = &cp
				if l.Stage == "analysis" {
					lastSources, lastFeat = l.Sources, l.Feat
					if _, ok := caseIdx[l.Case]; !ok {
						caseIdx[l.Case] = skip + n
						n++
					}
				}
			case "done":
				inflight = nil
				if l.Stage == "load" {
					n++
					continue
				}
				r.Hist(l.Stage + ":" + l.Class)
				if l.Stage == "analysis" {
					risky := false
					for _, f := range lastFeat {
						r.Hist("feat:" + f)
						if strings.HasPrefix(f, "unsupported") || strings.Contains(f, "one-letter") || strings.Contains(f, "multi-name") || f == "bytes" || f == "array0" || f == "generic-basic-arg" || strings.HasPrefix(f, "hand:") {
							risky = true
						}
					}
					r.Case(map[string]any{"case": l.Case, "features": lastFeat}, risky)
				}
				if l.Class == "diag" {
					r.Hist("diag:" + l.Stage + ":" + digitsRe.ReplaceAllString(firstWords(l.Msg, 5), "N"))
				}
				if l.Class == "crash" {
					r.Fail(rep.Failure{Signature: "c18:crash:" + l.Site, What: fmt.Sprintf("%s dies with a Go runtime error instead of a diagnostic: %s", l.Stage, l.Msg),
						Input: map[string]any{"case": l.Case, "stage": l.Stage, "features": lastFeat, "sources": lastSources}, Observed: l.Msg})
				}
			}
		}
		werr := cmd.Wait()
		if inflight != nil {
			// the child died while running a stage: fatal error (stack overflow, ...)
			msg := stderr.String()
			kind := "fatal"
			if strings.Contains(msg, "stack overflow") || strings.Contains(msg, "goroutine stack exceeds") {
				kind = "unbounded-recursion"
			}
			if len(msg) > 1500 {
				msg = msg[:1500]
			}
			site := "?"
			for _, line := range strings.Split(stderr.String(), "\n") {
				if strings.HasPrefix(line, "github.com/benoitkugler/gomacro/") {
					site = strings.TrimPrefix(line, "github.com/benoitkugler/gomacro/")
					if j := strings.LastIndex(site, "("); j > 0 {
						site = site[:j]
					}
					break
				}
			}
			r.Fail(rep.Failure{Signature: "c18:" + kind + ":" + site, What: inflight.Stage + " kills the process (" + kind + ") instead of reporting a diagnostic",
				Input: map[string]any{"case": inflight.Case, "stage": inflight.Stage, "features": lastFeat, "sources": lastSources}, Observed: msg})
			r.Hist(inflight.Stage + ":fatal")
			skip = caseIdx[inflight.Case] + 1
			continue
		}
		if werr != nil {
			return fmt.Errorf("c18 child: %v\n%s", werr, stderr.String())
		}
		break
	}
	_ = total
	return nil
}

var digitsRe = regexp.MustCompile(`[0-9]+`)

func firstWords(s string, n int) string {
	f := strings.Fields(s)
	if len(f) > n {
		f = f[:n]
	}
	return strings.Join(f, " ")
}
