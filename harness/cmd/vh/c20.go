package main

import (
	"bytes"
	"encoding/json"
	"fmt"
	"math/rand"
	"os"
	"os/exec"
	"path/filepath"
	"strings"
	"sync"

	"github.com/benoitkugler/gomacro/generator"

	"verifharness/internal/drv"
	"verifharness/internal/rep"
)

func init() { runners["C20"] = runC20 }

// tool modes
const (
	mOK        = "ok"        // probe succeeds, run succeeds
	mFailing   = "failing"   // probe succeeds, run fails
	mAbsent    = "absent"    // no executable on PATH
	mProbeFail = "probefail" // executable present but the probe command fails
)

var c20Tools = []string{"goimports", "dart", "npx", "pg_format"}

type c20Scenario struct {
	Modes      [4]string `json:"modes"`
	Goroutines int       `json:"goroutines"`
	Reqs       [][]int   `json:"reqs"` // per goroutine: formats 0..4 (0 = NoFormat)
}

type c20Result struct {
	Scenario  c20Scenario `json:"scenario"`
	Probes    [4]int      `json:"probes"`
	Runs      [4]int      `json:"runs"`
	Errs      [][]bool    `json:"errs"`
	Untouched bool        `json:"untouched"`
	Panic     string      `json:"panic,omitempty"`
}

func writeScript(path, body string) error {
	return os.WriteFile(path, []byte("#!/bin/sh\n"+body), 0o755)
}

// installTools creates the stand-in executables for one configuration.
func installTools(dir string, modes [4]string) error {
	os.RemoveAll(dir)
	if err := os.MkdirAll(dir, 0o755); err != nil {
		return err
	}
	// `which goimports` is the Go probe
	if err := writeScript(filepath.Join(dir, "which"), `echo "probe $1" >> "$VH_LOG"
[ -x "$VH_DIR/$1" ]
`); err != nil {
		return err
	}
	for i, tool := range c20Tools {
		mode := modes[i]
		if mode == mAbsent || (tool == "goimports" && mode == mProbeFail) {
			continue
		}
		probeRC, runRC := 0, 0
		if mode == mProbeFail {
			probeRC = 1
		}
		if mode == mFailing {
			runRC = 1
		}
		var body string
		switch tool {
		case "goimports":
			body = fmt.Sprintf(`echo "run goimports" >> "$VH_LOG"
exit %d
`, runRC)
		case "dart":
			body = fmt.Sprintf(`if [ "$2" = "--help" ]; then echo "probe dart" >> "$VH_LOG"; exit %d; fi
echo "run dart" >> "$VH_LOG"
exit %d
`, probeRC, runRC)
		case "npx":
			body = fmt.Sprintf(`if [ "$2" = "-v" ]; then echo "probe npx" >> "$VH_LOG"; exit %d; fi
echo "run npx" >> "$VH_LOG"
exit %d
`, probeRC, runRC)
		case "pg_format":
			body = fmt.Sprintf(`if [ "$1" = "-v" ]; then echo "probe pg_format" >> "$VH_LOG"; exit %d; fi
echo "run pg_format" >> "$VH_LOG"
exit %d
`, probeRC, runRC)
		}
		if err := writeScript(filepath.Join(dir, tool), body); err != nil {
			return err
		}
	}
	return nil
}

// c20Child runs inside the -race binary: executes the scenarios against the real Formatters.
func c20Child(args []string) error {
	var scenarios []c20Scenario
	if err := json.NewDecoder(os.Stdin).Decode(&scenarios); err != nil {
		return err
	}
	tmp, err := os.MkdirTemp("", "vh-c20-")
	if err != nil {
		return err
	}
	defer os.RemoveAll(tmp)
	enc := json.NewEncoder(os.Stdout)
	for k, sc := range scenarios {
		dir := filepath.Join(tmp, fmt.Sprintf("bin%d", k))
		if err := installTools(dir, sc.Modes); err != nil {
			return err
		}
		logf := filepath.Join(tmp, fmt.Sprintf("log%d", k))
		os.WriteFile(logf, nil, 0o644)
		// one output file per goroutine, each in a directory of its own (a configuration writing into
		// several projects): the probes are per cache, not per directory
		content := []byte("package x // untouched\n")
		targets := make([]string, len(sc.Reqs))
		for g := range sc.Reqs {
			td := filepath.Join(tmp, fmt.Sprintf("out%d", k), fmt.Sprintf("project%d", g))
			os.MkdirAll(td, 0o755)
			targets[g] = filepath.Join(td, "file.txt")
			os.WriteFile(targets[g], content, 0o644)
		}
		os.Setenv("PATH", dir)
		os.Setenv("VH_LOG", logf)
		os.Setenv("VH_DIR", dir)

		res := c20Result{Scenario: sc, Errs: make([][]bool, len(sc.Reqs))}
		var fmts generator.Formatters // the shared cache (zero value is ready to use)
		var wg sync.WaitGroup
		start := make(chan struct{})
		var pmu sync.Mutex
		for g := range sc.Reqs {
			res.Errs[g] = make([]bool, len(sc.Reqs[g]))
			wg.Add(1)
			go func(g int) {
				defer wg.Done()
				defer func() {
					if e := recover(); e != nil {
						pmu.Lock()
						res.Panic = fmt.Sprint(e)
						pmu.Unlock()
					}
				}()
				<-start
				for ri, f := range sc.Reqs[g] {
					err := fmts.FormatFile(generator.Format(f), targets[g])
					res.Errs[g][ri] = err != nil
				}
			}(g)
		}
		close(start)
		wg.Wait()
		logb, _ := os.ReadFile(logf)
		for _, line := range strings.Split(string(logb), "\n") {
			f := strings.Fields(line)
			if len(f) < 2 {
				continue
			}
			for i, tool := range c20Tools {
				if f[1] == tool {
					if f[0] == "probe" {
						res.Probes[i]++
					} else {
						res.Runs[i]++
					}
				}
			}
		}
		res.Untouched = true
		for _, t := range targets {
			if after, _ := os.ReadFile(t); !bytes.Equal(after, content) {
				res.Untouched = false
			}
		}
		if err := enc.Encode(res); err != nil {
			return err
		}
	}
	return nil
}

func runC20(r *rep.Report, thorough bool) error {
	d, err := drv.Start()
	if err != nil {
		return err
	}
	defer d.Close()
	r.Rule = "scenarios = (mode per tool in {ok, failing, absent, probefail}) x goroutines x requests per goroutine over the four formats and NoFormat, run on one shared generator.Formatters in a -race build with recording stand-in tools first on PATH; oracle: probes per tool <= 1, formatter runs = requests when installed and 0 otherwise, error iff failing run, file untouched when absent; small scenarios are also compared with the Lean protocol model. non-trivial = at least two goroutines requesting the same format"
	rng := rand.New(rand.NewSource(r.Seed))
	modes := []string{mOK, mFailing, mAbsent, mProbeFail}
	var scenarios []c20Scenario
	mk := func(ms [4]string, g, maxReq int) c20Scenario {
		sc := c20Scenario{Modes: ms, Goroutines: g}
		for i := 0; i < g; i++ {
			n := 1 + rng.Intn(maxReq)
			rq := make([]int, n)
			for k := range rq {
				rq[k] = rng.Intn(5)
			}
			sc.Reqs = append(sc.Reqs, rq)
		}
		return sc
	}
	// every tool in every mode at least once (uniform configurations), then subsets
	for _, m := range modes {
		scenarios = append(scenarios, mk([4]string{m, m, m, m}, 24, 2))
	}
	if thorough {
		for a := 0; a < 4; a++ {
			for b := 0; b < 4; b++ {
				for c := 0; c < 4; c++ {
					for e := 0; e < 4; e++ {
						scenarios = append(scenarios, mk([4]string{modes[a], modes[b], modes[c], modes[e]}, 16+rng.Intn(48), 3))
					}
				}
			}
		}
	} else {
		for i := 0; i < 20; i++ {
			scenarios = append(scenarios, mk([4]string{modes[rng.Intn(4)], modes[rng.Intn(4)], modes[rng.Intn(4)], modes[rng.Intn(4)]}, 8+rng.Intn(40), 3))
		}
	}
	// small ones for the model tie
	nSmall := 30
	if thorough {
		nSmall = 200
	}
	for i := 0; i < nSmall; i++ {
		scenarios = append(scenarios, mk([4]string{modes[rng.Intn(4)], modes[rng.Intn(4)], modes[rng.Intn(4)], modes[rng.Intn(4)]}, 2+rng.Intn(4), 2))
	}

	bin := os.Getenv("VERIF_VH_RACE")
	if bin == "" {
		bin = "/verif/.build/vh-race"
	}
	if _, err := os.Stat(bin); err != nil {
		bin, _ = os.Executable()
		r.Note("no -race build available: scenarios run without the race detector")
	} else {
		r.Hist("race_detector_enabled")
	}
	in, _ := json.Marshal(scenarios)
	cmd := exec.Command(bin, "c20child")
	cmd.Stdin = bytes.NewReader(in)
	var stdout, stderr bytes.Buffer
	cmd.Stdout = &stdout
	cmd.Stderr = &stderr
	cmd.Env = append(os.Environ(), "GORACE=halt_on_error=0 exitcode=66")
	runErr := cmd.Run()
	if strings.Contains(stderr.String(), "DATA RACE") {
		txt := stderr.String()
		if len(txt) > 4000 {
			txt = txt[:4000]
		}
		r.Fail(rep.Failure{Signature: "c20:data-race", What: "the race detector reports a data race during concurrent FormatFile calls", Input: map[string]any{"scenarios": len(scenarios)}, Observed: txt})
	} else if runErr != nil {
		return fmt.Errorf("c20 child failed: %v\n%s", runErr, stderr.String())
	}
	dec := json.NewDecoder(&stdout)
	for dec.More() {
		var res c20Result
		if err := dec.Decode(&res); err != nil {
			return err
		}
		sc := res.Scenario
		// requests per tool
		var reqPerTool [4]int
		var flat []int // tool index per (non-NoFormat) request, in goroutine order
		var flatErr []bool
		for g, rq := range sc.Reqs {
			for ri, f := range rq {
				if f >= 1 && f <= 4 {
					reqPerTool[f-1]++
					flat = append(flat, f-1)
					flatErr = append(flatErr, res.Errs[g][ri])
				} else if res.Errs[g][ri] {
					r.Fail(rep.Failure{Signature: "c20:noformat-error", What: "a NoFormat request returned an error", Input: sc})
				}
			}
		}
		nontrivial := false
		for _, n := range reqPerTool {
			if n >= 2 && sc.Goroutines >= 2 {
				nontrivial = true
			}
		}
		r.Case(sc, nontrivial)
		if res.Panic != "" {
			r.Fail(rep.Failure{Signature: "c20:panic", What: "FormatFile panicked", Input: sc, Observed: res.Panic})
			continue
		}
		for t := 0; t < 4; t++ {
			mode := sc.Modes[t]
			r.Hist("mode:" + mode)
			if res.Probes[t] > 1 {
				r.Fail(rep.Failure{Signature: "c20:probed-more-than-once", What: "an external tool was probed more than once on one cache", Input: sc, Observed: res.Probes})
			}
			wantRuns := 0
			if mode == mOK || mode == mFailing {
				wantRuns = reqPerTool[t]
			}
			if res.Runs[t] != wantRuns {
				r.Fail(rep.Failure{Signature: "c20:wrong-run-count", What: "the formatter did not run exactly once per request when present (or ran although absent)", Input: sc, Expected: wantRuns, Observed: res.Runs})
			}
		}
		for k, t := range flat {
			wantErr := sc.Modes[t] == mFailing
			if flatErr[k] != wantErr {
				sig := "c20:failing-run-not-reported"
				if !wantErr {
					sig = "c20:spurious-error"
				}
				r.Fail(rep.Failure{Signature: sig, What: "FormatFile's returned error does not match (error iff the formatter run fails)", Input: sc, Expected: wantErr, Observed: flatErr[k]})
				break
			}
		}
		if !res.Untouched {
			r.Fail(rep.Failure{Signature: "c20:file-touched", What: "file content changed although the stand-in tools never write", Input: sc})
		}
		// tie with the Lean protocol model on small scenarios
		if len(flat) > 0 && len(flat) <= 12 {
			inst := make([]bool, 4)
			ok := make([]bool, 4)
			for t := 0; t < 4; t++ {
				inst[t] = sc.Modes[t] == mOK || sc.Modes[t] == mFailing
				ok[t] = sc.Modes[t] != mFailing
			}
			sched := make([]int, 40)
			for i := range sched {
				sched[i] = rng.Intn(len(flat))
			}
			reply, err := d.Call(map[string]any{"op": "c20.run", "installed": inst, "runOk": ok, "reqs": flat, "sched": sched})
			if err != nil {
				return err
			}
			r.Hist("model_compared")
			mErrs := reply["errs"].([]any)
			mRuns := reply["runs"].([]any)
			mProbes := reply["probes"].([]any)
			agree := reply["allDone"].(bool)
			var runsPerTool [4]int
			for k := range flat {
				if b, isB := mErrs[k].(bool); !isB || b != flatErr[k] {
					agree = false
				}
				n, _ := mRuns[k].(json.Number).Int64()
				runsPerTool[flat[k]] += int(n)
			}
			for t := 0; t < 4; t++ {
				n, _ := mProbes[t].(json.Number).Int64()
				// an absent executable leaves no probe trace on the implementation side
				observable := !(sc.Modes[t] == mAbsent && t != 0)
				if observable && int(n) != res.Probes[t] {
					agree = false
				}
				if runsPerTool[t] != res.Runs[t] {
					agree = false
				}
			}
			if !agree {
				r.Disagree(rep.Disagreement{Tie: "c20.protocol-model-vs-FormatFile", Input: sc, Model: reply, Impl: res})
			}
		}
	}
	return nil
}
