package main

import (
	"fmt"
	"go/ast"
	"go/parser"
	"go/token"
	"math/rand"
	"reflect"
	"regexp"
	"sort"
	"strconv"
	"strings"

	"verifharness/internal/drv"
	"verifharness/internal/load"
	"verifharness/internal/rep"
)

func init() { runners["C05"] = runC05 }

type crudStmt struct {
	Kind      string           `json:"kind"`
	Table     string           `json:"table"`
	Cols      []string         `json:"cols"`
	Phs       []int            `json:"phs"`
	Conds     []map[string]any `json:"conds"`
	Returning []string         `json:"returning"`
}

type crudFunc struct {
	Name  string    `json:"name"`
	SQL   string    `json:"sql"`
	Stmt  *crudStmt `json:"stmt,omitempty"`
	NArgs int       `json:"nargs"`
	Args  []string  `json:"args"` // Go arguments after the statement: field name for item.F, source text otherwise
	Scan  []string  `json:"scan"`
	Err   string    `json:"parseError,omitempty"`
	Call  string    `json:"call,omitempty"` // QueryRow | Query | Exec
}

var (
	customPhRe  = regexp.MustCompile(`\$(\d+)`)
	customVarRe = regexp.MustCompile(`\$[A-Za-z_]\w*\$`)
	wsRe      = regexp.MustCompile(`\s+`)
	selectRe  = regexp.MustCompile(`^SELECT (.*?) FROM (\w+)(?: WHERE (.*))?$`)
	insertRe  = regexp.MustCompile(`^INSERT INTO (\w+) \( ?(.*?) ?\) VALUES \( ?(.*?) ?\)(?: RETURNING (.*?))? ?;?$`)
	updateRe  = regexp.MustCompile(`^UPDATE (\w+) SET \( ?(.*?) ?\) = \( ?(.*?) ?\) WHERE (.*?) RETURNING (.*?) ?;?$`)
	deleteRe  = regexp.MustCompile(`^DELETE FROM (\w+) WHERE (.*?)(?: RETURNING (.*?))? ?;?$`)
	condEqRe  = regexp.MustCompile(`^(\w+) = \$(\d+)$`)
	condAnyRe = regexp.MustCompile(`^(\w+) = ANY\(\$(\d+)\)$`)
	condNulHead = regexp.MustCompile(`^\(\((\w+) IS NULL AND \$(\d+) IS NULL\) OR (\w+) = \$(\d+)\)`)
	condAnyHead = regexp.MustCompile(`^(\w+) = ANY\(\$(\d+)\)`)
	condEqHead  = regexp.MustCompile(`^(\w+) = \$(\d+)`)
	condNulRe = regexp.MustCompile(`^\(\((\w+) IS NULL AND \$(\d+) IS NULL\) OR (\w+) = \$(\d+)\)$`)
)

func splitList(s string) []string {
	s = strings.TrimSpace(s)
	if s == "" {
		return []string{}
	}
	var out []string
	for _, p := range strings.Split(s, ",") {
		out = append(out, strings.TrimSpace(p))
	}
	return out
}

func parseConds(s string) ([]map[string]any, error) {
	out := []map[string]any{}
	for _, c := range strings.Split(s, " AND ") {
		c = strings.TrimSpace(c)
		// the nullable-key guard contains " AND " itself
		if strings.HasPrefix(c, "((") && !strings.HasSuffix(c, ")") {
			return nil, fmt.Errorf("unsupported condition %q", s)
		}
		if m := condEqRe.FindStringSubmatch(c); m != nil {
			n, _ := strconv.Atoi(m[2])
			out = append(out, map[string]any{"k": "eq", "col": m[1], "ph": n})
		} else if m := condAnyRe.FindStringSubmatch(c); m != nil {
			n, _ := strconv.Atoi(m[2])
			out = append(out, map[string]any{"k": "any", "col": m[1], "ph": n})
		} else {
			return nil, fmt.Errorf("unsupported condition %q", c)
		}
	}
	return out, nil
}

// parseSQL: strict parser of the statement forms sqlcrud emits
func parseSQL(sql string) (*crudStmt, error) {
	s := strings.TrimSpace(wsRe.ReplaceAllString(sql, " "))
	phsOf := func(list string) ([]int, error) {
		var out []int
		for _, p := range splitList(list) {
			if !strings.HasPrefix(p, "$") {
				return nil, fmt.Errorf("not a placeholder: %q", p)
			}
			n, err := strconv.Atoi(p[1:])
			if err != nil {
				return nil, err
			}
			out = append(out, n)
		}
		if out == nil {
			out = []int{}
		}
		return out, nil
	}
	condsOf := func(w string) ([]map[string]any, error) {
		out := []map[string]any{}
		rest := strings.TrimSpace(strings.TrimSuffix(strings.TrimSpace(w), ";"))
		for rest != "" {
			var m []string
			if m = condNulHead.FindStringSubmatch(rest); m != nil && m[1] == m[3] && m[2] == m[4] {
				n, _ := strconv.Atoi(m[2])
				out = append(out, map[string]any{"k": "eqOrNull", "col": m[1], "ph": n})
			} else if m = condAnyHead.FindStringSubmatch(rest); m != nil {
				n, _ := strconv.Atoi(m[2])
				out = append(out, map[string]any{"k": "any", "col": m[1], "ph": n})
			} else if m = condEqHead.FindStringSubmatch(rest); m != nil {
				n, _ := strconv.Atoi(m[2])
				out = append(out, map[string]any{"k": "eq", "col": m[1], "ph": n})
			} else {
				return nil, fmt.Errorf("unsupported condition %q", rest)
			}
			rest = strings.TrimSpace(rest[len(m[0]):])
			if rest == "" {
				break
			}
			if !strings.HasPrefix(rest, "AND ") {
				return nil, fmt.Errorf("unsupported condition tail %q", rest)
			}
			rest = strings.TrimSpace(rest[4:])
		}
		return out, nil
	}
	if m := selectRe.FindStringSubmatch(s); m != nil {
		conds, err := condsOf(m[3])
		if err != nil {
			return nil, err
		}
		return &crudStmt{Kind: "select", Cols: splitList(m[1]), Table: m[2], Conds: conds, Phs: []int{}, Returning: []string{}}, nil
	}
	if m := insertRe.FindStringSubmatch(s); m != nil {
		ps, err := phsOf(m[3])
		if err != nil {
			return nil, err
		}
		return &crudStmt{Kind: "insert", Table: m[1], Cols: splitList(m[2]), Phs: ps, Returning: splitList(m[4]), Conds: []map[string]any{}}, nil
	}
	if m := updateRe.FindStringSubmatch(s); m != nil {
		ps, err := phsOf(m[3])
		if err != nil {
			return nil, err
		}
		conds, err := condsOf(m[4])
		if err != nil {
			return nil, err
		}
		return &crudStmt{Kind: "update", Table: m[1], Cols: splitList(m[2]), Phs: ps, Conds: conds, Returning: splitList(m[5])}, nil
	}
	if m := deleteRe.FindStringSubmatch(s); m != nil {
		conds, err := condsOf(m[2])
		if err != nil {
			return nil, err
		}
		return &crudStmt{Kind: "delete", Table: m[1], Conds: conds, Returning: splitList(m[3]), Cols: []string{}, Phs: []int{}}, nil
	}
	return nil, fmt.Errorf("statement form not recognised")
}

// extractCrud parses the generated Go text and lists every SQL call with its arguments
func extractCrud(text string) (map[string][]string, []crudFunc, error) {
	fset := token.NewFileSet()
	file, err := parser.ParseFile(fset, "gen_crud.go", text, 0)
	if err != nil {
		return nil, nil, err
	}
	scans := map[string][]string{}
	var funcs []crudFunc
	for _, decl := range file.Decls {
		fd, ok := decl.(*ast.FuncDecl)
		if !ok || fd.Body == nil {
			continue
		}
		name := fd.Name.Name
		if fd.Recv != nil && len(fd.Recv.List) == 1 {
			if id, ok := fd.Recv.List[0].Type.(*ast.Ident); ok {
				name = id.Name + "." + name
			}
		}
		ast.Inspect(fd.Body, func(n ast.Node) bool {
			call, ok := n.(*ast.CallExpr)
			if !ok {
				return true
			}
			sel, ok := call.Fun.(*ast.SelectorExpr)
			if !ok {
				return true
			}
			switch sel.Sel.Name {
			case "Scan":
				if strings.HasPrefix(fd.Name.Name, "scanOne") {
					var fields []string
					for _, a := range call.Args {
						if u, ok := a.(*ast.UnaryExpr); ok {
							if s, ok := u.X.(*ast.SelectorExpr); ok {
								fields = append(fields, s.Sel.Name)
							}
						}
					}
					scans[strings.TrimPrefix(fd.Name.Name, "scanOne")] = fields
				}
			case "QueryRow", "Query", "Exec":
				if len(call.Args) == 0 {
					return true
				}
				lit, ok := call.Args[0].(*ast.BasicLit)
				if !ok || lit.Kind != token.STRING {
					return true
				}
				sql, err := strconv.Unquote(lit.Value)
				if err != nil {
					return true
				}
				var args []string
				for _, a := range call.Args[1:] {
					if se, ok := a.(*ast.SelectorExpr); ok {
						if id, ok := se.X.(*ast.Ident); ok && id.Name == "item" {
							args = append(args, se.Sel.Name)
							continue
						}
					}
					args = append(args, "?")
				}
				funcs = append(funcs, crudFunc{Name: name, SQL: sql, NArgs: len(call.Args) - 1, Args: args, Call: sel.Sel.Name})
			}
			return true
		})
	}
	return scans, funcs, nil
}

func runC05(r *rep.Report, thorough bool) error {
	r.Rule = "sql-flavoured synthesised model files through the real sqlcrud.Generate (generate-sets off and on): the generated Go text is parsed with go/parser, every Query / QueryRow / Exec call is extracted with its SQL string and argument count and parsed by a strict parser of the statement forms; each statement is checked against the schema of the same file (tables and columns exist under identifier folding, placeholders are $1..$n with n arguments, returned columns are aligned with the scan destinations, guards never appear) and compared with the statement of the Lean model. non-trivial = statement with a WHERE clause or a RETURNING list"
	rng := rand.New(rand.NewSource(r.Seed))
	n := 80
	if thorough {
		n = 500
	}
	cases := sqlCases(rng, n, "q")
	l, err := load.Cases(cases)
	if err != nil {
		return err
	}
	defer l.Close()
	d, err := drv.Start()
	if err != nil {
		return err
	}
	defer d.Close()
	for _, a := range analyseCases(l) {
		if a.Ana == nil || a.Env == nil {
			continue
		}
		for _, tg := range []string{"sqlcrud", "sqlcrud-sets"} {
			t := runTarget(tg, a, l.Mod.Root)
			r.Hist(tg + ":" + t.Out.Class)
			if t.Out.Class != "ok" {
				continue
			}
			in := map[string]any{"case": a.Case.ID, "target": tg, "sources": a.Case.Sources()}
			var schemaText *string
			scans, funcs, err := extractCrud(t.Text["gen_crud.go"])
			if err != nil {
				r.Hist("crud-text-does-not-parse(C01)")
				continue
			}
			reply, err := d.Call(map[string]any{"op": "c05.gen", "env": a.Env})
			if err != nil {
				return err
			}
			// model statements by function name
			model := map[string]map[string]any{}
			modelScan := map[string][]string{}
			goTableOf := map[string]string{}
			if sc, ok := reply["schema"].([]any); ok {
				for i, tb := range reply["tables"].([]any) {
					if i < len(sc) {
						goTableOf[sc[i].(map[string]any)["table"].(string)] = tb.(map[string]any)["table"].(string)
					}
				}
			}
			for _, tb := range reply["tables"].([]any) {
				tm := tb.(map[string]any)
				modelScan[tm["table"].(string)] = strsOf(tm["scan"])
				for _, f := range tm["funcs"].([]any) {
					fm := f.(map[string]any)
					model[fm["name"].(string)] = fm
					for _, k := range []string{"namesExist", "placeholdersOk", "scanAligned"} {
						if ok, _ := fm[k].(bool); !ok {
							r.Disagree(rep.Disagreement{Tie: "c05.model-statement-violates-" + k, Input: in, Model: fm})
						}
					}
				}
			}
			for tname, fields := range scans {
				if ms, ok := modelScan[tname]; ok && !eqStrs(ms, fields) {
					r.Disagree(rep.Disagreement{Tie: "c05.scan-destinations", Input: in, Model: ms, Impl: fields})
				}
			}
			var toCheck []crudFunc
			seen := map[string]bool{}
			for i := range funcs {
				f := &funcs[i]
				if strings.HasPrefix(f.Name, "Query") || model[f.Name] == nil && !strings.Contains(f.SQL, " FROM ") && !strings.Contains(f.SQL, "INSERT") {
					r.Hist("custom-query-or-helper")
					// custom queries: the placeholders are $1..$n for the n arguments, no $name$ is left
					if strings.HasPrefix(f.Name, "Query") {
						seenPh := map[int]bool{}
						maxPh := 0
						for _, m := range customPhRe.FindAllStringSubmatch(f.SQL, -1) {
							k, _ := strconv.Atoi(m[1])
							seenPh[k] = true
							if k > maxPh {
								maxPh = k
							}
						}
						in2 := map[string]any{"case": a.Case.ID, "target": tg, "func": f.Name, "sql": wsRe.ReplaceAllString(f.SQL, " "), "nargs": f.NArgs, "sources": a.Case.Sources()}
						r.Case(map[string]any{"case": a.Case.ID, "func": f.Name, "sql": wsRe.ReplaceAllString(f.SQL, " ")}, true)
						if customVarRe.MatchString(f.SQL) {
							r.Fail(rep.Failure{Signature: "c05:custom-query-variable-left", What: "a $name$ variable is left in the statement of a custom query", Input: in2})
						} else if maxPh != f.NArgs || len(seenPh) != f.NArgs {
							r.Fail(rep.Failure{Signature: "c05:placeholders-vs-arguments", What: "custom query: placeholders are not $1..$n for the n arguments passed", Input: in2})
						}
					}
					continue
				}
				st, err := parseSQL(f.SQL)
				if err != nil && c01Triggers(a)["table-without-column"] {
					r.Fail(rep.Failure{Signature: "c05:malformed-statement:table-without-column", What: "a table struct without any CRUD column yields a malformed statement: " + wsRe.ReplaceAllString(f.SQL, " "), Input: in})
					continue
				}
				if err != nil {
					f.Err = err.Error()
					r.Disagree(rep.Disagreement{Tie: "c05.statement-form-not-recognised", Input: map[string]any{"case": a.Case.ID, "func": f.Name, "sql": f.SQL, "err": f.Err}})
					// whatever its form, the statement is executed with f.NArgs arguments: its
					// placeholders have to be exactly $1..$n
					seenPh := map[int]bool{}
					maxPh := 0
					for _, m := range customPhRe.FindAllStringSubmatch(f.SQL, -1) {
						k, _ := strconv.Atoi(m[1])
						seenPh[k] = true
						if k > maxPh {
							maxPh = k
						}
					}
					if maxPh != f.NArgs || len(seenPh) != f.NArgs {
						r.Fail(rep.Failure{Signature: "c05:placeholders-vs-arguments", What: "placeholders are not $1..$n for the n arguments passed (statement of an unrecognised form)",
							Input: map[string]any{"case": a.Case.ID, "target": tg, "func": f.Name, "sql": wsRe.ReplaceAllString(f.SQL, " "), "nargs": f.NArgs, "sources": a.Case.Sources()}})
					}
					continue
				}
				f.Stmt = st
				// a SELECT run with QueryRow returns one row: "exactly the matching rows" needs the
				// schema the SQL generator emits for the same file to allow at most one match
				if f.Call == "QueryRow" && st.Kind == "select" && len(st.Conds) > 0 {
					var cols []string
					for _, c := range st.Conds {
						if c["k"] == "eq" {
							cols = append(cols, strings.ToLower(fmt.Sprint(c["col"])))
						}
					}
					if schemaText == nil {
						// no schema (the SQL generator refuses the file): nothing to run against
						txt := ""
						if ts := runTarget("sql", a, l.Mod.Root); ts.Out.Class == "ok" {
							txt = ts.Text["gen.sql"]
						} else {
							r.Hist("single-row-select:no-schema(" + ts.Out.Class + ")")
						}
						schemaText = &txt
					}
					if *schemaText != "" && !(len(cols) == 1 && cols[0] == "id") {
						r.Hist("single-row-select:by-key-checked-against-the-schema")
					}
					if *schemaText != "" && !(len(cols) == 1 && cols[0] == "id") && !uniqueWithin(*schemaText, st.Table, cols) {
						r.Fail(rep.Failure{Signature: "c05:single-row-select-without-unique-constraint",
							What: f.Name + ": reads one row (QueryRow) by " + strings.Join(cols, ", ") + ", but the schema generated for the same file has no UNIQUE / PRIMARY KEY constraint within these columns: several rows can match and only one is returned",
							Input: map[string]any{"case": a.Case.ID, "target": tg, "func": f.Name, "sql": wsRe.ReplaceAllString(f.SQL, " "), "sources": a.Case.Sources()}, Observed: *schemaText})
					}
				}
				// the scan destinations of the statement's table
				f.Scan = scans[goTableOf[st.Table]]
				toCheck = append(toCheck, *f)
				r.Case(map[string]any{"case": a.Case.ID, "func": f.Name, "sql": wsRe.ReplaceAllString(f.SQL, " ")}, len(st.Conds) > 0 || len(st.Returning) > 0)
				if m := model[f.Name]; m != nil {
					seen[f.Name] = true
					ms := m["stmt"].(map[string]any)
					if !sameStmt(ms, st) || int(numOf(m["nargs"])) != f.NArgs {
						r.Disagree(rep.Disagreement{Tie: "c05.statement-vs-model", Input: map[string]any{"case": a.Case.ID, "func": f.Name, "sources": a.Case.Sources()}, Model: m, Impl: f})
					}
				} else {
					r.Disagree(rep.Disagreement{Tie: "c05.function-unknown-to-the-model", Input: map[string]any{"case": a.Case.ID, "func": f.Name, "sql": f.SQL}})
				}
			}
			var missing []string
			for name := range model {
				if !seen[name] {
					missing = append(missing, name)
				}
			}
			sort.Strings(missing)
			if len(missing) > 0 && !c01Triggers(a)["table-without-column"] && !c01Triggers(a)["table-with-only-an-id"] {
				r.Disagree(rep.Disagreement{Tie: "c05.model-function-missing-from-the-code", Input: in, Model: missing})
			}
			if len(toCheck) == 0 {
				continue
			}
			chk, err := d.Call(map[string]any{"op": "c05.check", "env": a.Env, "funcs": toCheck})
			if err != nil {
				return err
			}
			for i, res := range chk["results"].([]any) {
				rm := res.(map[string]any)
				f := toCheck[i]
				in2 := map[string]any{"case": a.Case.ID, "target": tg, "func": f.Name, "sql": wsRe.ReplaceAllString(f.SQL, " "), "nargs": f.NArgs, "sources": a.Case.Sources()}
				// the Go side directly: INSERT / UPDATE of a table write every column but the serial id,
				// column i from the field the scan reads column i into; UPDATE's last argument is the id
				if st := f.Stmt; (st.Kind == "insert" || st.Kind == "update") && len(st.Returning) == len(f.Scan) && len(f.Scan) > 0 {
					fieldOf := map[string]string{}
					var wantCols []string
					for k, c := range st.Returning {
						fieldOf[c] = f.Scan[k]
						if c != "id" {
							wantCols = append(wantCols, c)
						}
					}
					msg := ""
					if strings.Join(st.Cols, ",") != strings.Join(wantCols, ",") {
						msg = fmt.Sprintf("writes the columns %v, the table's columns without the serial id are %v", st.Cols, wantCols)
					} else {
						for k, c := range st.Cols {
							if k < len(f.Args) && f.Args[k] != fieldOf[c] {
								msg = fmt.Sprintf("column %s receives item.%s, the scan reads it into %s", c, f.Args[k], fieldOf[c])
							}
						}
						if idf, ok := fieldOf["id"]; ok && st.Kind == "update" && (len(f.Args) != len(st.Cols)+1 || f.Args[len(f.Args)-1] != idf) {
							msg = "the last argument of UPDATE is not the id field"
						}
					}
					if msg != "" {
						r.Fail(rep.Failure{Signature: "c05:written-columns-vs-fields", What: f.Name + ": " + msg, Input: in2})
					}
				}
				if ok, _ := rm["namesExist"].(bool); !ok {
					r.Fail(rep.Failure{Signature: "c05:unknown-table-or-column", What: "a generated statement names a table or column that the generated schema does not define", Input: in2})
				}
				if ok, _ := rm["placeholdersOk"].(bool); !ok {
					r.Fail(rep.Failure{Signature: "c05:placeholders-vs-arguments", What: "placeholders are not $1..$n for the n arguments passed", Input: in2})
				}
				if ok, _ := rm["scanAligned"].(bool); !ok {
					r.Fail(rep.Failure{Signature: "c05:returned-columns-vs-scan-destinations", What: "the columns a statement returns are not in the order of the scan destinations", Input: in2})
				}
			}
		}
	}
	return nil
}

var uniqueConstraintRe = regexp.MustCompile(`(?i)ALTER TABLE (\w+)\s+ADD\s+(?:CONSTRAINT\s+\w+\s+)?(?:UNIQUE|PRIMARY KEY)\s*\(([^)]*)\)`)

// uniqueWithin: the schema has a UNIQUE / PRIMARY KEY constraint on table whose columns all belong to cols
func uniqueWithin(schema, table string, cols []string) bool {
	has := map[string]bool{}
	for _, c := range cols {
		has[strings.ToLower(c)] = true
	}
	for _, m := range uniqueConstraintRe.FindAllStringSubmatch(schema, -1) {
		if !strings.EqualFold(m[1], table) {
			continue
		}
		ok := true
		for _, c := range splitList(m[2]) {
			if !has[strings.ToLower(strings.Trim(c, `"`))] {
				ok = false
			}
		}
		if ok && len(splitList(m[2])) > 0 {
			return true
		}
	}
	return false
}

func numOf(v any) float64 {
	switch x := v.(type) {
	case float64:
		return x
	case interface{ Float64() (float64, error) }:
		f, _ := x.Float64()
		return f
	}
	return -1
}

func sameStmt(m map[string]any, s *crudStmt) bool {
	if m["kind"] != s.Kind || m["table"] != s.Table {
		return false
	}
	norm := func(v any) []string {
		out := strsOf(v)
		if out == nil {
			out = []string{}
		}
		return out
	}
	if s.Kind != "delete" && !reflect.DeepEqual(norm(m["cols"]), s.Cols) {
		return false
	}
	if (s.Kind == "insert" || s.Kind == "update" || s.Kind == "delete") && !reflect.DeepEqual(norm(m["returning"]), s.Returning) {
		return false
	}
	if s.Kind == "insert" || s.Kind == "update" {
		var ps []int
		if l, ok := m["phs"].([]any); ok {
			for _, x := range l {
				ps = append(ps, int(numOf(x)))
			}
		}
		if len(ps) != len(s.Phs) {
			return false
		}
		for i := range ps {
			if ps[i] != s.Phs[i] {
				return false
			}
		}
	}
	if s.Kind != "insert" {
		mc, _ := m["conds"].([]any)
		if len(mc) != len(s.Conds) {
			return false
		}
		for i, c := range mc {
			cm := c.(map[string]any)
			if cm["k"] != s.Conds[i]["k"] || cm["col"] != s.Conds[i]["col"] || int(numOf(cm["ph"])) != s.Conds[i]["ph"].(int) {
				return false
			}
		}
	}
	return true
}
