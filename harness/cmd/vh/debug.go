package main

import (
	"encoding/json"
	"flag"
	"fmt"
	"math/rand"
	"os"

	"verifharness/internal/load"
	"verifharness/internal/synth"
)

// `vh case -seed S -n N -id ID`: regenerate the ANprobe stream and print one case (sources, IR dump, facts)
func runCaseDebug(args []string) error {
	fs := flag.NewFlagSet("case", flag.ExitOnError)
	seed := fs.Int64("seed", 1, "")
	n := fs.Int("n", 60, "")
	id := fs.String("id", "c0000", "")
	what := fs.String("what", "src,dump", "")
	fs.Parse(args)
	rng := rand.New(rand.NewSource(*seed))
	cases := genCases(rng, *n, "c", synth.DefaultOptions())
	var sel []*synth.Case
	for _, c := range cases {
		if c.ID == *id {
			sel = append(sel, c)
		}
	}
	l, err := load.Cases(sel)
	if err != nil {
		return err
	}
	defer l.Close()
	for _, a := range analyseCases(l) {
		for name, src := range a.Case.Sources() {
			fmt.Printf("==== %s\n%s\n", name, src)
		}
		fmt.Println("outcome:", a.Out)
		enc := json.NewEncoder(os.Stdout)
		enc.SetIndent("", " ")
		if contains(*what, "dump") {
			enc.Encode(a.Env)
		}
		if contains(*what, "facts") {
			enc.Encode(a.FB)
		}
	}
	return nil
}

func contains(s, sub string) bool {
	for i := 0; i+len(sub) <= len(s); i++ {
		if s[i:i+len(sub)] == sub {
			return true
		}
	}
	return false
}
