package main

import (
	"verifharness/internal/gobuild"
	"encoding/json"
	"flag"
	"fmt"
	"math/rand"
	"os"

	"verifharness/internal/drv"
	"verifharness/internal/load"
	"verifharness/internal/synth"
)

// `vh case -seed S -n N -id ID`: regenerate the ANprobe stream and print one case (sources, IR dump, facts)
func runCaseDebug(args []string) error {
	fs := flag.NewFlagSet("case", flag.ExitOnError)
	seed := fs.Int64("seed", 1, "")
	n := fs.Int("n", 60, "")
	id := fs.String("id", "c0000", "")
	what := fs.String("what", "src,dump", "")
	hand := fs.Bool("hand", false, "select among the hand-written programs")
	fs.Parse(args)
	rng := rand.New(rand.NewSource(*seed))
	cases := genCases(rng, *n, "c", synth.DefaultOptions())
	if *hand {
		cases = synth.HandWritten()
	}
	var sel []*synth.Case
	for _, c := range cases {
		if c.ID == *id {
			sel = append(sel, c)
		}
	}
	l, err := load.Cases(sel)
	if err != nil {
		return err
	}
	defer l.Close()
	for _, a := range analyseCases(l) {
		for name, src := range a.Case.Sources() {
			fmt.Printf("==== %s\n%s\n", name, src)
		}
		fmt.Println("outcome:", a.Out)
		enc := json.NewEncoder(os.Stdout)
		enc.SetIndent("", " ")
		if contains(*what, "dump") {
			enc.Encode(a.Env)
		}
		if contains(*what, "model") {
			if d, err := drv.Start(); err == nil {
				if m, err := callAnalyse(d, a); err == nil {
					fmt.Println("model outcome:", m.Class, m.Msg)
					enc.Encode(m.Env)
					for _, mm := range compareAnalysis(a, m) {
						fmt.Println("MISMATCH", mm.String())
					}
				}
				d.Close()
			}
		}
		if contains(*what, "facts") {
			enc.Encode(a.FB)
		}
		if contains(*what, "compile") && a.Ana != nil {
			gobuild.InstallPQ(l)
			var files []gobuild.GenFile
			for _, tg := range []string{"randdata", "gounions"} {
				tt := runTarget(tg, a, l.Mod.Root)
				for n, txt := range tt.Text {
					files = append(files, gobuild.GenFile{Case: a.Case.ID, Name: n, Content: txt})
				}
			}
			for _, p := range gobuild.Place(l, files) {
				fmt.Println("place problem:", p.Stage, p.File, p.Msg)
			}
			probs, err := gobuild.Check(l, []string{a.Case.ID})
			fmt.Println("check:", err)
			for _, p := range probs {
				fmt.Println("problem:", p.Stage, p.File, p.Msg)
			}
		}
		if contains(*what, "targets") && a.Ana != nil {
			fmt.Println("supportedEnv:", a.Env != nil && supportedEnv(a.Env))
			for _, tg := range allTargets {
				tt := runTarget(tg, a, l.Mod.Root)
				fmt.Println("target", tg, tt.Out.Class, tt.Out.Msg)
			}
		}
	}
	return nil
}

func contains(s, sub string) bool {
	for i := 0; i+len(sub) <= len(s); i++ {
		if s[i:i+len(sub)] == sub {
			return true
		}
	}
	return false
}
