package main

import (
	"strings"
	"encoding/json"
	"fmt"
	"reflect"
	"sort"

	"verifharness/internal/drv"
	"verifharness/internal/irdump"
)

// mismatch between the analysis model (Lean) and the real analysis, attributed to a part.
type mismatch struct {
	Part   string `json:"part"` // enum | union | graph | fields | comments | outcome
	Q      string `json:"q,omitempty"`
	Detail string `json:"detail"`
	Model  any    `json:"model,omitempty"`
	Impl   any    `json:"impl,omitempty"`
}

type modelAnalysis struct {
	Class    string
	Msg      string
	Env      *irdump.Env
	Failures []struct{ Q, Class string }
}

func callAnalyse(d *drv.Driver, a *analysed) (*modelAnalysis, error) {
	reply, err := d.Call(map[string]any{"op": "an.analyse", "facts": a.FB})
	if err != nil {
		return nil, err
	}
	out := &modelAnalysis{Class: reply["class"].(string)}
	if m, ok := reply["msg"].(string); ok {
		out.Msg = m
	}
	if e, ok := reply["env"]; ok {
		b, _ := json.Marshal(e)
		out.Env = &irdump.Env{}
		if err := json.Unmarshal(b, out.Env); err != nil {
			return nil, err
		}
	}
	if fs, ok := reply["failures"].([]any); ok {
		for _, f := range fs {
			m := f.(map[string]any)
			out.Failures = append(out.Failures, struct{ Q, Class string }{m["q"].(string), m["class"].(string)})
		}
	}
	return out, nil
}

// withSpecEnums returns a copy of env in which the members of every enum are those of the
// specification model of the analysis (computed from the go/types facts), when it has the enum.
func withSpecEnums(d *drv.Driver, a *analysed, env *irdump.Env) *irdump.Env {
	return withSpecDecls(d, a, env, false)
}

// withSpecDecls: the same, and with specStructs the field lists of the structs as well
func withSpecDecls(d *drv.Driver, a *analysed, env *irdump.Env, specStructs bool) *irdump.Env {
	m, err := callAnalyse(d, a)
	if err != nil || m == nil || m.Env == nil {
		return env
	}
	spec := map[string]*irdump.Decl{}
	for _, md := range m.Env.Decls {
		spec[md.Q] = md
	}
	b, _ := json.Marshal(env)
	out := &irdump.Env{}
	if json.Unmarshal(b, out) != nil {
		return env
	}
	for i, dd := range out.Decls {
		sd := spec[dd.Q]
		if sd != nil && sd.Kind == "struct" && dd.Kind == "struct" && specStructs {
			// the fields (flattened, with their tags) as the specification model lists them; key and
			// selection of each field by the rules of encoding/json
			for k := range sd.Fields {
				f := &sd.Fields[k]
				tag := reflect.StructTag(f.Tag)
				name, _, _ := strings.Cut(tag.Get("json"), ",")
				f.JSONName = f.Name
				if name != "" {
					f.JSONName = name
				}
				f.Exported = f.GoExported && tag.Get("json") != "-" && tag.Get("gomacro") != "ignore"
			}
			dd.Fields = sd.Fields
			continue
		}
		if sd == nil || sd.Kind != "enum" {
			continue
		}
		if dd.Kind == "enum" {
			dd.Members = sd.Members
		} else {
			// an enum of the specification that the analysis took for a plain named type
			out.Decls[i] = sd
		}
	}
	return out
}

func sortedMembers(ms []irdump.Member) []irdump.Member {
	out := append([]irdump.Member(nil), ms...)
	sort.SliceStable(out, func(i, j int) bool {
		if out[i].Int != out[j].Int {
			return out[i].Int < out[j].Int
		}
		return out[i].Name < out[j].Name
	})
	return out
}

func fieldsCore(fs []irdump.Field) []irdump.Field {
	out := make([]irdump.Field, len(fs))
	for i, f := range fs {
		f.JSONName, f.Exported = "", false
		out[i] = f
	}
	return out
}

// compareAnalysis lists where model and implementation differ.
func compareAnalysis(a *analysed, m *modelAnalysis) []mismatch {
	var out []mismatch
	// outcome classes: the descent stops at the first failing declaration it meets; the model
	// reports the classes of all failing reachable declarations
	modelClasses := map[string]bool{}
	if m.Class != "ok" {
		modelClasses[m.Class] = true
	}
	for _, f := range m.Failures {
		modelClasses[f.Class] = true
	}
	if len(modelClasses) == 0 {
		if a.Out.Class != "ok" {
			out = append(out, mismatch{Part: "outcome", Detail: "model accepts, implementation stops", Impl: a.Out})
		}
	} else {
		if !modelClasses[a.Out.Class] {
			out = append(out, mismatch{Part: "outcome", Detail: "implementation outcome not among the model's failure classes", Model: modelClasses, Impl: a.Out})
		}
		return out
	}
	if a.Out.Class != "ok" || m.Env == nil {
		return out
	}
	impl := a.Env
	if !reflect.DeepEqual(impl.Source, m.Env.Source) {
		out = append(out, mismatch{Part: "graph", Detail: "source list differs (order or content)", Model: m.Env.Source, Impl: impl.Source})
	}
	mdl := map[string]*irdump.Decl{}
	for _, d := range m.Env.Decls {
		mdl[d.Q] = d
	}
	seen := map[string]bool{}
	for _, d := range impl.Decls {
		q := d.Q
		base := q
		if len(q) > 2 && q[len(q)-2:] == "#2" {
			base = q[:len(q)-2]
		}
		seen[base] = true
		md := mdl[base]
		if md == nil {
			out = append(out, mismatch{Part: "graph", Q: q, Detail: "declaration present in the implementation's result, absent from the model's reachable set"})
			continue
		}
		if d.Kind != md.Kind {
			part := "graph"
			if d.Kind == "enum" || md.Kind == "enum" {
				part = "enum"
			} else if d.Kind == "union" || md.Kind == "union" {
				part = "union"
			}
			out = append(out, mismatch{Part: part, Q: q, Detail: "kind differs", Model: md.Kind, Impl: d.Kind})
			continue
		}
		if d.Name != md.Name || d.PkgPath != md.PkgPath || d.PkgName != md.PkgName || d.Exported != md.Exported || !reflect.DeepEqual(d.TArgs, md.TArgs) {
			out = append(out, mismatch{Part: "graph", Q: q, Detail: "name / package / type arguments differ", Model: md, Impl: d})
		}
		switch d.Kind {
		case "named":
			if !reflect.DeepEqual(d.Under, md.Under) {
				out = append(out, mismatch{Part: "graph", Q: q, Detail: "underlying type differs", Model: md.Under, Impl: d.Under})
			}
		case "struct":
			if !reflect.DeepEqual(fieldsCore(d.Fields), fieldsCore(md.Fields)) {
				out = append(out, mismatch{Part: "graph", Q: q, Detail: "fields differ", Model: fieldsCore(md.Fields), Impl: fieldsCore(d.Fields)})
			}
			if !reflect.DeepEqual(d.Comments, md.Comments) {
				out = append(out, mismatch{Part: "comments", Q: q, Detail: "special comments differ", Model: md.Comments, Impl: d.Comments})
			}
			if !reflect.DeepEqual(d.Implements, md.Implements) {
				out = append(out, mismatch{Part: "union", Q: q, Detail: "Implements differs", Model: md.Implements, Impl: d.Implements})
			}
		case "enum":
			// the package of the constants is not part of the model's members
			noPkg := func(ms []irdump.Member) []irdump.Member {
				out := make([]irdump.Member, len(ms))
				for i, m := range ms {
					m.Pkg = ""
					out[i] = m
				}
				return out
			}
			im, mm := noPkg(d.Members), noPkg(md.Members)
			if d.IsIota && md.IsIota {
				im, mm = sortedMembers(im), sortedMembers(mm) // unstable sort: order among equal values is free
			}
			if d.IsIota != md.IsIota || d.EnumUnder != md.EnumUnder || d.EnumBK != md.EnumBK || !reflect.DeepEqual(im, mm) {
				out = append(out, mismatch{Part: "enum", Q: q, Detail: "enum differs (members / order / IsIota)", Model: md, Impl: d})
			}
			if d.IsIota {
				// the order actually reported must be sorted by value
				for i := 1; i < len(d.Members); i++ {
					if d.Members[i-1].Int > d.Members[i].Int {
						out = append(out, mismatch{Part: "enum", Q: q, Detail: "iota-like enum members not sorted by value", Impl: d.Members})
						break
					}
				}
			}
		case "union":
			if !reflect.DeepEqual(d.UMembers, md.UMembers) {
				out = append(out, mismatch{Part: "union", Q: q, Detail: "members differ", Model: md.UMembers, Impl: d.UMembers})
			}
		}
	}
	for q := range mdl {
		if !seen[q] {
			out = append(out, mismatch{Part: "graph", Q: q, Detail: "declaration reachable in the model, missing from the implementation's result"})
		}
	}
	// several nodes for one named type (impl.Conflicts) are not a mismatch by themselves: each of
	// them was compared with the model's declaration above (the second one under the key q#2)
	return out
}

func (m mismatch) String() string { return fmt.Sprintf("[%s] %s: %s", m.Part, m.Q, m.Detail) }
