package main

import (
	"fmt"
	"math/rand"
	"os"
	"path/filepath"
	"strings"

	"github.com/benoitkugler/gomacro/analysis"

	"verifharness/internal/drv"
	"verifharness/internal/rep"
)

func init() { runners["C17"] = runC17 }

func isAncestorOrSelf(root, dir string) bool {
	if root == "" {
		return false
	}
	rel, err := filepath.Rel(root, dir)
	if err != nil {
		return false
	}
	return rel == "." || !(rel == ".." || strings.HasPrefix(rel, "../"))
}

// componentwise ancestor test on cleaned absolute strings, without touching the disk
func isAncestorStr(root, dir string) bool {
	if root == "" || !strings.HasPrefix(root, "/") {
		return false
	}
	if root == "/" {
		return true
	}
	return dir == root || strings.HasPrefix(dir, root+"/")
}

type c17Layout struct {
	Name  string   `json:"name"`
	Files []string `json:"files"` // relative to the module root
	Rel   bool     `json:"relative_spelling,omitempty"`
	Spell string   `json:"spelling,omitempty"` // "", dotdot, dot, dslash : non-canonical spellings of the same files
	Err   string   `json:"error_case,omitempty"` // "", "missing", "txt", "typeerror"
}

func runC17(r *rep.Report, thorough bool) error {
	d, err := drv.Start()
	if err != nil {
		return err
	}
	defer d.Close()
	r.Rule = "pure: every set of 1..3 absolute directories of depth <= 3 over components {a,ab,b} through the commonPrefix hook, the Lean model and an independent ancestor oracle; on-disk: real LoadSources on synthesised module layouts (siblings sharing a name prefix, nested packages, one file, duplicates, same directory, relative spellings) and error cases (missing file, non-Go file, type error). non-trivial = at least two distinct directories"
	rng := rand.New(rand.NewSource(r.Seed))

	// ---- pure part (needs the hook)
	if hooksEnabled {
		comps := []string{"a", "ab", "b"}
		var dirs []string
		var gen func(prefix string, depth int)
		gen = func(prefix string, depth int) {
			p := prefix
			if p == "" {
				p = "/"
			}
			dirs = append(dirs, p)
			if depth == 0 {
				return
			}
			for _, c := range comps {
				gen(prefix+"/"+c, depth-1)
			}
		}
		gen("", 3)
		checkSet := func(paths []string) error {
			var implRoot string
			var pan any
			func() {
				defer func() { pan = recover() }()
				implRoot = hookCommonPrefix(append([]string(nil), paths...))
			}()
			distinct := map[string]bool{}
			for _, p := range paths {
				distinct[p] = true
			}
			r.Case(paths, len(distinct) > 1)
			if pan != nil {
				r.Fail(rep.Failure{Signature: "c17:commonPrefix-panic", What: "commonPrefix panicked", Input: paths, Observed: fmt.Sprint(pan)})
				return nil
			}
			reply, err := d.Call(map[string]any{"op": "c17.root", "paths": paths})
			if err != nil {
				return err
			}
			model := reply["root"].(string)
			okAnc := true
			for _, p := range paths {
				if !isAncestorStr(implRoot, p) {
					okAnc = false
				}
			}
			if !okAnc {
				r.Fail(rep.Failure{Signature: "c17:root-not-ancestor", What: "common root is not an ancestor directory of every source directory", Input: paths, Expected: model, Observed: implRoot})
			} else if implRoot != model {
				r.Disagree(rep.Disagreement{Tie: "c17.commonPrefix-vs-model", Input: paths, Model: model, Impl: implRoot})
			}
			return nil
		}
		sub := dirs
		if !thorough {
			// all singletons and pairs, triples over a seeded sample of the third element
			sub = dirs
		}
		for _, a := range dirs {
			if err := checkSet([]string{a}); err != nil {
				return err
			}
			for _, b := range dirs {
				if err := checkSet([]string{a, b}); err != nil {
					return err
				}
				if thorough {
					for _, c := range sub {
						if err := checkSet([]string{a, b, c}); err != nil {
							return err
						}
					}
				} else {
					for k := 0; k < 4; k++ {
						if err := checkSet([]string{a, b, dirs[rng.Intn(len(dirs))]}); err != nil {
							return err
						}
					}
				}
			}
		}
		// longer names / unicode / shared prefixes
		pool := []string{"foo", "foo1", "foo2", "fo", "f", "日本", "日", "x-y", "x", "go", "src"}
		for i := 0; i < 3000; i++ {
			n := 1 + rng.Intn(4)
			paths := make([]string, n)
			for k := range paths {
				depth := rng.Intn(4)
				p := ""
				for j := 0; j < depth; j++ {
					p += "/" + pool[rng.Intn(len(pool))]
				}
				if p == "" {
					p = "/"
				}
				paths[k] = p
			}
			if err := checkSet(paths); err != nil {
				return err
			}
		}
		r.Hist("pure_hook_part")
	} else {
		r.Note("hooks disabled: pure enumeration of commonPrefix skipped")
	}

	// ---- on-disk part: real LoadSources
	tmp, err := os.MkdirTemp("", "vh-c17-")
	if err != nil {
		return err
	}
	defer os.RemoveAll(tmp)
	tmp, _ = filepath.EvalSymlinks(tmp)

	layouts := []c17Layout{
		{Name: "siblings-sharing-name-prefix", Files: []string{"foo1/a.go", "foo2/b.go"}},
		{Name: "siblings-prefix-of-other", Files: []string{"foo/a.go", "foo2/b.go"}},
		{Name: "nested", Files: []string{"p/a.go", "p/q/b.go"}},
		{Name: "one-file", Files: []string{"p/a.go"}},
		{Name: "duplicates", Files: []string{"p/a.go", "p/a.go"}},
		{Name: "same-dir-two-files", Files: []string{"p/a.go", "p/b.go"}},
		{Name: "three-levels", Files: []string{"a/b/c/x.go", "a/b/y.go", "a/z.go"}},
		// a sibling named like a directory plus a character that sorts before the separator, next to
		// that directory and one of its sub-directories (every order of the three)
		{Name: "dashed-sibling-of-nested-1", Files: []string{"server/a.go", "server/api/b.go", "server-utils/c.go"}},
		{Name: "dashed-sibling-of-nested-2", Files: []string{"server-utils/c.go", "server/api/b.go", "server/a.go"}},
		{Name: "dashed-sibling-of-nested-3", Files: []string{"server/api/b.go", "server-utils/c.go", "server/a.go"}},
		{Name: "dotted-sibling-of-nested", Files: []string{"lib/a.go", "lib.v2/c.go", "lib/x/b.go"}},
		{Name: "four-dirs-middle-outside", Files: []string{"q/a.go", "q/r/b.go", "q+/c.go", "q/r/s/d.go"}},
		{Name: "relative-spelling", Files: []string{"rel1/a.go", "rel2/b.go"}, Rel: true},
		{Name: "spelling-dotdot", Files: []string{"m1/a.go", "m2/b.go"}, Spell: "dotdot"},
		{Name: "spelling-dot", Files: []string{"m1/a.go", "m1/sub/b.go"}, Spell: "dot"},
		{Name: "spelling-double-slash", Files: []string{"m1/a.go", "m2/b.go"}, Spell: "dslash"},
		{Name: "spelling-relative-dotdot", Files: []string{"m1/a.go", "m2/b.go"}, Spell: "dotdot", Rel: true},
		{Name: "missing-file", Files: []string{"p/a.go", "p/nope.go"}, Err: "missing"},
		{Name: "non-go-file", Files: []string{"p/a.go", "p/notes.txt"}, Err: "txt"},
		{Name: "type-error", Files: []string{"bad/a.go"}, Err: "typeerror"},
	}
	nRandom := 10
	if thorough {
		nRandom = 40
	}
	names := []string{"foo", "foo1", "foo2", "fo", "ab", "abc", "a", "pkg", "pkg_x", "foo-x", "foo.d", "a+"}
	for i := 0; i < nRandom; i++ {
		n := 1 + rng.Intn(4)
		var files []string
		for k := 0; k < n; k++ {
			depth := 1 + rng.Intn(3)
			var parts []string
			for j := 0; j < depth; j++ {
				parts = append(parts, names[rng.Intn(len(names))])
			}
			files = append(files, strings.Join(parts, "/")+fmt.Sprintf("/f%d.go", rng.Intn(2)))
		}
		layouts = append(layouts, c17Layout{Name: fmt.Sprintf("random-%d", i), Files: files, Rel: rng.Intn(4) == 0, Spell: []string{"", "", "dotdot", "dot", "dslash"}[rng.Intn(5)]})
	}

	for li, lay := range layouts {
		root := filepath.Join(tmp, fmt.Sprintf("m%d", li))
		if err := os.MkdirAll(root, 0o755); err != nil {
			return err
		}
		os.WriteFile(filepath.Join(root, "go.mod"), []byte("module acme.org/synth\n\ngo 1.23\n"), 0o644)
		for _, f := range lay.Files {
			abs := filepath.Join(root, f)
			os.MkdirAll(filepath.Dir(abs), 0o755)
			pkgName := "p" + strings.Map(func(r rune) rune {
				if r >= 'a' && r <= 'z' || r >= 'A' && r <= 'Z' || r >= '0' && r <= '9' {
					return r
				}
				return -1
			}, filepath.Base(filepath.Dir(abs)))
			body := fmt.Sprintf("package %s\n\ntype T%s struct{ A int }\n", pkgName, strings.TrimSuffix(filepath.Base(f), ".go"))
			switch {
			case lay.Err == "missing" && strings.HasSuffix(f, "nope.go"):
				continue
			case lay.Err == "txt" && strings.HasSuffix(f, ".txt"):
				body = "just text\n"
			case lay.Err == "typeerror":
				body = fmt.Sprintf("package %s\n\nvar X int = \"s\"\n", pkgName)
			}
			os.WriteFile(abs, []byte(body), 0o644)
		}
		args := make([]string, len(lay.Files))
		absFiles := make([]string, len(lay.Files))
		for i, f := range lay.Files {
			absFiles[i] = filepath.Join(root, f)
			args[i] = absFiles[i]
			if lay.Rel {
				args[i] = f
			}
			// non-canonical spellings of the same file
			dir, base := filepath.Dir(args[i]), filepath.Base(args[i])
			switch lay.Spell {
			case "dotdot":
				args[i] = dir + "/../" + filepath.Base(dir) + "/" + base
			case "dot":
				args[i] = dir + "/./" + base
			case "dslash":
				args[i] = dir + "//" + base
			}
		}
		cwd, _ := os.Getwd()
		if lay.Rel {
			os.Chdir(root)
		}
		var (
			pan      any
			gotRoot  string
			loadErr  error
			pkgFiles [][]string
		)
		func() {
			defer func() { pan = recover() }()
			pkgs, rt, err := analysis.LoadSources(args)
			gotRoot, loadErr = rt, err
			for _, p := range pkgs {
				if p == nil {
					pkgFiles = append(pkgFiles, nil)
				} else {
					pkgFiles = append(pkgFiles, p.GoFiles)
				}
			}
		}()
		if lay.Rel {
			os.Chdir(cwd)
		}
		dset := map[string]bool{}
		for _, f := range absFiles {
			dset[filepath.Dir(f)] = true
		}
		r.Case(lay, len(dset) > 1 || lay.Err != "")
		r.Hist("layout:" + strings.SplitN(lay.Name, "-", 2)[0])
		in := map[string]any{"layout": lay, "module_root": root}
		if pan != nil {
			r.Fail(rep.Failure{Signature: "c17:LoadSources-panic", What: "LoadSources panicked", Input: in, Observed: fmt.Sprint(pan)})
			continue
		}
		if lay.Err != "" {
			if loadErr == nil {
				r.Fail(rep.Failure{Signature: "c17:error-case-accepted:" + lay.Err, What: "an invalid file set was not reported as an error", Input: in})
			}
			continue
		}
		if loadErr != nil {
			sig := "c17:valid-layout-rejected"
			// classify the known shape: byte-wise prefix gives a non-existing directory
			r.Fail(rep.Failure{Signature: sig, What: "LoadSources fails on a valid file set (common root is not an existing directory)", Input: in, Observed: loadErr.Error()})
			continue
		}
		// root: existing directory, ancestor of every file
		st, serr := os.Stat(gotRoot)
		if serr != nil || !st.IsDir() {
			r.Fail(rep.Failure{Signature: "c17:root-not-existing-dir", What: "returned root is not an existing directory", Input: in, Observed: gotRoot})
			continue
		}
		bad := false
		for _, f := range absFiles {
			if !isAncestorOrSelf(gotRoot, filepath.Dir(f)) {
				bad = true
			}
		}
		if bad {
			r.Fail(rep.Failure{Signature: "c17:root-not-ancestor", What: "returned root is not an ancestor of every file", Input: in, Observed: gotRoot})
			continue
		}
		// package per file, in order
		if len(pkgFiles) != len(absFiles) {
			r.Fail(rep.Failure{Signature: "c17:wrong-package-count", What: "not one package per file", Input: in, Observed: len(pkgFiles)})
			continue
		}
		for i, f := range absFiles {
			found := false
			for _, g := range pkgFiles[i] {
				if g == f {
					found = true
				}
			}
			if !found {
				r.Fail(rep.Failure{Signature: "c17:wrong-package-for-file", What: "the i-th returned package does not contain the i-th file", Input: in, Observed: pkgFiles[i], Expected: f})
			}
		}
		// tie with the model
		var ds []string
		for _, f := range absFiles {
			ds = append(ds, filepath.Dir(f))
		}
		reply, err := d.Call(map[string]any{"op": "c17.root", "paths": ds})
		if err != nil {
			return err
		}
		if m := reply["root"].(string); m != gotRoot {
			r.Disagree(rep.Disagreement{Tie: "c17.LoadSources-root-vs-model", Input: in, Model: m, Impl: gotRoot})
		}
	}
	return nil
}
