package main

import (
	"reflect"
	"encoding/json"
	"fmt"
	"math/rand"
	"regexp"
	"strings"

	"verifharness/internal/drv"
	"verifharness/internal/gobuild"
	"verifharness/internal/gorun"
	"verifharness/internal/irdump"
	"verifharness/internal/load"
	"verifharness/internal/rep"
	"verifharness/internal/synth"
)

func init() { runners["C03"] = runC03 }

var lineCommentRe = regexp.MustCompile(`(?m)//.*$`)
var tokenRe = regexp.MustCompile(`"(?:[^"\\]|\\.)*"|'(?:[^'\\]|\\.)*'|[A-Za-z_$][A-Za-z0-9_$]*|[0-9]+(?:\.[0-9]+)?|\S`)

// tsTokens: the token sequence of a TypeScript fragment, comments and semicolons dropped
func tsTokens(s string) []string {
	s = lineCommentRe.ReplaceAllString(s, "")
	var out []string
	for _, t := range tokenRe.FindAllString(s, -1) {
		if t == ";" {
			continue
		}
		out = append(out, t)
	}
	return out
}

var tsArAliasRe = regexp.MustCompile(`\bAr[0-9]+_[A-Za-z0-9_]+`)

var tsDeclNameRe = regexp.MustCompile(`(?m)^\s*export\s+(?:type|interface|const)\s+([A-Za-z_$][A-Za-z0-9_$]*)`)

func runC03(r *rep.Report, thorough bool) error {
	r.Rule = "synthesised packages (no pointer types): (1) every declaration of the real typescript.Generate compared token-wise (comments / layout / semicolons aside) with the declaration printed from the Lean model, per declaration ID; (2) the assembled real text: every declared name once, every mentioned name declared; (3) documents marshalled by the compiled package (with the real gounions wrappers) for random values of every source type, checked for structural inhabitation of the generated type by the Lean semantics. non-trivial = document with a container, union or enum component"
	rng := rand.New(rand.NewSource(r.Seed))
	n, k := 50, 6
	if thorough {
		n, k = 300, 20
	}
	o := synth.DefaultOptions()
	o.Structs = 6
	o.Risky = true
	cases := genCases(rng, n, "t", o)
	cases = append(cases, synth.HandWritten()...)
	cases = append(cases, synth.KnownDefects()...)
	cases = append(cases, synth.CaseOnlyNames()...)
	l, err := load.Cases(cases)
	if err != nil {
		return err
	}
	defer l.Close()
	if err := gobuild.InstallPQ(l); err != nil {
		return err
	}
	d, err := drv.Start()
	if err != nil {
		return err
	}
	defer d.Close()
	realTextOf := map[string]string{}
	as := analyseCases(l)
	var files []gobuild.GenFile
	var good []*analysed
	for _, a := range as {
		if a.Ana == nil || a.Env == nil {
			continue
		}
		t := runTarget("typescript", a, l.Mod.Root)
		r.Hist("typescript:" + t.Out.Class)
		in := map[string]any{"case": a.Case.ID, "sources": a.Case.Sources()}
		if t.Out.Class != "ok" {
			continue
		}
		reply, err := d.Call(map[string]any{"op": "c03.gen", "env": a.Env})
		if err != nil {
			return err
		}
		// (1) declaration by declaration
		model := map[string]string{}
		for _, x := range reply["decls"].([]any) {
			m := x.(map[string]any)
			if _, dup := model[m["id"].(string)]; !dup {
				model[m["id"].(string)] = m["text"].(string)
			}
		}
		real := map[string]string{}
		for _, dd := range t.Decls["gen.ts"] {
			if _, dup := real[dd.ID]; !dup {
				real[dd.ID] = dd.Content
			}
		}
		r.Case(map[string]any{"case": a.Case.ID, "decls": len(real)}, len(real) > 2)
		for id, txt := range real {
			mt, ok := model[id]
			if !ok {
				r.Disagree(rep.Disagreement{Tie: "c03.ts-declaration-set", Input: in, Impl: id, Model: "declaration absent from the model"})
				continue
			}
			if strings.Join(tsTokens(txt), " ") != strings.Join(tsTokens(mt), " ") {
				r.Disagree(rep.Disagreement{Tie: "c03.ts-declaration-text", Input: map[string]any{"case": a.Case.ID, "id": id, "sources": a.Case.Sources()}, Model: mt, Impl: txt})
			}
		}
		for id := range model {
			if _, ok := real[id]; !ok {
				r.Disagree(rep.Disagreement{Tie: "c03.ts-declaration-set", Input: in, Model: id, Impl: "declaration absent from the real output"})
			}
		}
		// (2) the assembled file: names declared once, mentions resolved
		text := t.Text["gen.ts"]
		realTextOf[a.Case.ID] = text
		declared := map[string]int{}
		for _, m := range tsDeclNameRe.FindAllStringSubmatch(lineCommentRe.ReplaceAllString(text, ""), -1) {
			declared[m[1]]++
		}
		for name, cnt := range declared {
			// an enum / union Kind legitimately declares a const and a type of the same name
			if cnt > 2 {
				r.Fail(rep.Failure{Signature: "c03:name-declared-several-times" + c03Shape(a, gorun.Line{}), What: "TypeScript name " + name + " is declared " + fmt.Sprint(cnt) + " times", Input: in})
			}
		}
		// every fixed-array alias the real text mentions is declared in it
		for _, m := range tsArAliasRe.FindAllString(lineCommentRe.ReplaceAllString(text, ""), -1) {
			if declared[m] == 0 {
				r.Fail(rep.Failure{Signature: "c03:mentioned-name-not-declared" + c03Shape(a, gorun.Line{}), What: "the TypeScript text mentions the tuple alias " + m + " and does not declare it", Input: in})
				break
			}
		}
		if strings.Contains(text, "export type ( ") {
			r.Fail(rep.Failure{Signature: "c03:invalid-alias-name:zero-length-array", What: "a type alias is declared with a type expression as its name (zero-length fixed array)", Input: in})
		}
		if closed, _ := reply["closedOnce"].(bool); !closed {
			r.Fail(rep.Failure{Signature: "c03:not-closed-or-duplicate-name" + c03Shape(a, gorun.Line{}), What: "the generated declarations mention an undeclared name or declare a name twice (evaluated on the model, which agrees with the real declarations): " + strings.Join(strsOf(reply["closedReport"]), "; "), Input: in})
		}
		if supportedEnv(a.Env) {
			if u := runTarget("gounions", a, l.Mod.Root); u.Out.Class == "ok" {
				files = append(files, gobuild.GenFile{Case: a.Case.ID, Name: "gen_unions.go", Content: u.Text["gen_unions.go"]})
				good = append(good, a)
			}
		}
	}
	// (3) documents
	bad := map[string]bool{}
	for _, p := range gobuild.Place(l, files) {
		bad[p.Case] = true
	}
	var ids []string
	for _, a := range good {
		ids = append(ids, a.Case.ID)
	}
	tc, err := gobuild.Check(l, ids)
	if err != nil {
		return err
	}
	for _, p := range tc {
		bad[p.Case] = true
	}
	var specs []gorun.Spec
	byID := map[string]*analysed{}
	for _, a := range good {
		if bad[a.Case.ID] {
			continue
		}
		if sp := buildSpec(a, ""); len(sp.Types) > 0 {
			specs = append(specs, sp)
			byID[a.Case.ID] = a
		}
	}
	bin, out, err := gorun.Build(l, specs)
	if err != nil {
		return fmt.Errorf("go build of the scratch module failed: %v\n%s", err, out)
	}
	lines, err := gorun.RunValues(bin, r.Seed, k)
	if err != nil {
		r.Note("runall: %v", err)
	}
	byCase := map[string][]gorun.Line{}
	for _, ln := range lines {
		if ln.Doc != "" {
			byCase[ln.Case] = append(byCase[ln.Case], ln)
		}
	}
	for id, lns := range byCase {
		a := byID[id]
		if a == nil {
			continue
		}
		var vals []map[string]any
		for _, ln := range lns {
			var doc any
			json.Unmarshal([]byte(ln.Doc), &doc)
			vals = append(vals, map[string]any{"type": map[string]any{"k": "ref", "q": a.Env.PkgPath + "." + ln.Type}, "doc": doc})
		}
		reply, err := d.Call(map[string]any{"op": "c03.check", "env": a.Env, "values": vals})
		if err != nil {
			return err
		}
		// the same documents against the types DECLARED BY THE REAL TEXT: the generated file is
		// parsed (tsparse.go) into the type environment of the Lean semantics
		var realInh []any
		if txt := realTextOf[id]; txt != "" {
			if tenv, perr := tsParseEnv(txt); perr != nil {
				r.Hist("real-declarations:outside-the-parsed-grammar")
				r.Note("typescript parse (%s): %v", id, perr)
			} else {
				rr, err := d.Call(map[string]any{"op": "c03.checkReal", "env": a.Env, "tenv": tenv, "values": vals})
				if err != nil {
					return err
				}
				realInh, _ = rr["inhabits"].([]any)
				r.Hist("real-declarations:parsed-and-evaluated")
			}
		}
		// the end-to-end theorem (Props/C03E2E.lean) on this program: is it inside the fragment, are
		// the dumped values well-typed — then the theorem says the documents inhabit their types
		var tvals []map[string]any
		for _, ln := range lns {
			tvals = append(tvals, map[string]any{"type": map[string]any{"k": "ref", "q": a.Env.PkgPath + "." + ln.Type}, "val": ln.Val})
		}
		frag, err := d.Call(map[string]any{"op": "c03.fragment", "env": a.Env, "wrappers": wrapperSets(a, l.Mod.Root), "values": tvals})
		if err != nil {
			return err
		}
		inFrag, _ := frag["inFragment"].(bool)
		if inFrag {
			r.Hist("end-to-end-theorem:program-inside-the-fragment")
		} else {
			r.Hist("end-to-end-theorem:program-outside-the-fragment")
		}
		for i, ok := range reply["inhabits"].([]any) {
			ln := lns[i]
			if ht, _ := frag["hasType"].([]any)[i].(bool); inFrag && ht {
				r.Hist("end-to-end-theorem:document-covered")
				// (a program showing a recorded shape is reported through that finding below: there the
				// real document is not the model's encoding of the value)
				if !ok.(bool) && c03Shape(a, ln) == "" {
					r.Disagree(rep.Disagreement{Tie: "c03.end-to-end-theorem-vs-real-document", Input: map[string]any{"case": id, "type": ln.Type, "doc": ln.Doc, "sources": a.Case.Sources()},
						Model: "theorem C03_end_to_end: the document of a well-typed value of a program in the fragment inhabits its type", Impl: "the real document does not"})
				}
			}
			// a document the model's types admit and the REAL declarations do not: the real text
			// differs from the model in a way documents see
			if realInh != nil && i < len(realInh) && ok.(bool) {
				if rok, _ := realInh[i].(bool); !rok {
					r.Fail(rep.Failure{Signature: "c03:document-not-inhabitant-of-the-real-declarations" + c03Shape(a, ln), What: "a JSON document emitted by Go for " + ln.Type + " inhabits the type the model generates but not the type the real text declares (parsed from the generated file)", Input: map[string]any{"case": id, "type": ln.Type, "doc": ln.Doc, "sources": a.Case.Sources()}})
				}
			}
			nontrivial := strings.ContainsAny(ln.Doc, "[{") && len(ln.Doc) > 20
			r.Case(map[string]any{"case": id, "type": ln.Type, "doc": ln.Doc}, nontrivial)
			if !ok.(bool) {
				r.Fail(rep.Failure{Signature: "c03:document-not-inhabitant" + c03Shape(a, ln), What: "a JSON document emitted by Go for " + ln.Type + " does not inhabit the generated TypeScript type", Input: map[string]any{"case": id, "type": ln.Type, "doc": ln.Doc, "sources": a.Case.Sources()}})
			}
		}
	}
	return nil
}

// c03Shape: the known shapes under which Go's documents leave the generated type
func c03Shape(a *analysed, ln gorun.Line) string {
	names := map[string]string{}
	for _, d := range a.Env.Decls {
		if prev, ok := names[d.Name]; ok && prev != d.Q && !strings.HasSuffix(d.Q, "#2") && len(d.TArgs) == 0 {
			return ":same-local-name-in-two-packages"
		}
		names[d.Name] = d.Q
	}
	declsByQ := map[string]*irdump.Decl{}
	for _, d := range a.Env.Decls {
		declsByQ[d.Q] = d
	}
	var hasBytes func(t *irdump.Ty) bool
	hasBytes = func(t *irdump.Ty) bool {
		if t == nil {
			return false
		}
		if t.K == "arr" && t.Len == -1 && isUint8Kind(t.E, declsByQ) {
			return true
		}
		return hasBytes(t.E) || hasBytes(t.Key)
	}
	for _, d := range a.Env.Decls {
		if hasBytes(d.Under) {
			return ":byte-slice"
		}
		for _, f := range d.Fields {
			if hasBytes(f.T) {
				return ":byte-slice"
			}
		}
	}
	if ln.Case != "" && missingWrapper(a, wrapperSets(a, "")) != "" {
		return ":wrapper-not-generated-behind-anonymous-container"
	}
	// an embedded struct of an UNEXPORTED type named by its json tag: encoding/json writes the key,
	// the analysis drops the (unexported) field
	for _, d := range a.Env.Decls {
		for _, f := range d.Fields {
			if f.Embedded && !f.GoExported {
				if name, _, _ := strings.Cut(reflect.StructTag(f.Tag).Get("json"), ","); name != "" && name != "-" {
					return ":embedded-unexported-struct-named-by-its-tag"
				}
			}
		}
	}
	for _, d := range a.Env.Decls {
		for _, f := range d.Fields {
			if !f.Exported {
				continue
			}
			if strings.Contains(f.Tag, ",omitempty") {
				return ":omitempty-field"
			}
		}
	}
	for _, d := range a.Env.Decls {
		for _, f := range d.Fields {
			if f.Exported && strings.Contains(f.Tag, ",string") {
				return ":string-option-field"
			}
		}
	}
	for _, d := range a.Env.Decls {
		for _, f := range d.Fields {
			if f.GoExported && strings.Contains(f.Tag, `gomacro:"ignore"`) && !strings.Contains(f.Tag, `json:"-"`) {
				return ":gomacro-ignore-field-still-serialised-by-go"
			}
		}
	}
	return ""
}
