package main

import (
	"fmt"
	"math/rand"
	"strings"

	"github.com/benoitkugler/gomacro/analysis"
	"golang.org/x/tools/go/packages"

	"verifharness/internal/drv"
	"verifharness/internal/facts"
	"verifharness/internal/irdump"
	"verifharness/internal/load"
	"verifharness/internal/rep"
	"verifharness/internal/synth"
)

// outcome of running real gomacro code: ok / diag (explicit panic with a message) / crash (runtime error)
type outcome struct {
	Class string `json:"class"`
	Msg   string `json:"msg,omitempty"`
}

func classify(e any) outcome {
	if e == nil {
		return outcome{Class: "ok"}
	}
	if re, ok := e.(interface{ RuntimeError() }); ok {
		_ = re
		return outcome{Class: "crash", Msg: fmt.Sprint(e)}
	}
	if err, ok := e.(error); ok {
		// runtime.Error implements error; other errors are diagnostics
		if strings.HasPrefix(fmt.Sprintf("%T", err), "runtime.") || strings.HasPrefix(fmt.Sprintf("%T", err), "*runtime.") {
			return outcome{Class: "crash", Msg: err.Error()}
		}
		return outcome{Class: "diag", Msg: err.Error()}
	}
	return outcome{Class: "diag", Msg: fmt.Sprint(e)}
}

func guard(f func()) (out outcome) {
	defer func() { out = classify(recover()) }()
	f()
	return outcome{Class: "ok"}
}

type analysed struct {
	Case *synth.Case
	Pkg  *packages.Package
	File string
	Ana  *analysis.Analysis
	Out  outcome
	Env  *irdump.Env
	FB   *facts.FactBase
	// the first of the two analyses (see analyseCases)
	FirstEnv *irdump.Env
	FirstOut outcome
}

// analyseCases analyses every case twice: once on the packages of l, then once more on a fresh load
// of the same sources in this process (same package paths, fresh go/types objects and positions).
// The analyses of the SECOND load are returned, so that every runner works on what the real code
// gives a process that has already analysed these packages (cmd/gomacro handles several files of
// one package in a row); FirstEnv keeps the dump of the first analysis.
func analyseCases(l *load.Loaded) []*analysed {
	fatal := preflightAnalysis(l)
	first := analyseCasesOnce(l, fatal)
	l2, err := l.Reload(l.Mod.Cases)
	if err != nil {
		return first
	}
	second := analyseCasesOnce(l2, fatal)
	byID := map[string]*analysed{}
	for _, a := range first {
		byID[a.Case.ID] = a
	}
	for _, a := range second {
		if f := byID[a.Case.ID]; f != nil {
			a.FirstEnv, a.FirstOut = f.Env, f.Out
		}
	}
	return second
}

func analyseCasesOnce(l *load.Loaded, fatal map[string]string) []*analysed {
	var out []*analysed
	for _, c := range l.Mod.Cases {
		p := l.Pkgs[c.ID]
		if p == nil {
			continue
		}
		a := &analysed{Case: c, Pkg: p, File: l.Mod.MainFile(c)}
		if msg, isFatal := fatal[c.ID]; isFatal {
			a.Out = outcome{Class: "fatal", Msg: msg}
			a.FB = facts.Walk(p, a.File)
			out = append(out, a)
			continue
		}
		a.Out = guard(func() { a.Ana = analysis.NewAnalysisFromFile(p, a.File) })
		if a.Out.Class == "ok" {
			a.Env = irdump.Dump(a.Ana)
		}
		a.FB = facts.Walk(p, a.File)
		out = append(out, a)
	}
	return out
}

func genCases(rng *rand.Rand, n int, prefix string, opt synth.Options) []*synth.Case {
	cases := make([]*synth.Case, n)
	for i := range cases {
		cases[i] = synth.Generate(rng, fmt.Sprintf("%s%04d", prefix, i), opt)
	}
	return cases
}

func init() { runners["ANprobe"] = runANProbe }

// ANprobe: smoke run of the pipeline (synthesise, load, analyse, dump); reports the feature histogram.
func runANProbe(r *rep.Report, thorough bool) error {
	rng := rand.New(rand.NewSource(r.Seed))
	n := 60
	if thorough {
		n = 400
	}
	cases := genCases(rng, n, "c", synth.DefaultOptions())
	l, err := load.Cases(cases)
	if err != nil {
		return err
	}
	defer l.Close()
	r.Note("%s", l.String())
	for id, e := range l.Bad {
		r.Note("ill-typed %s: %s", id, e)
		if len(r.Notes) > 8 {
			break
		}
	}
	d, err := drv.Start()
	if err != nil {
		return err
	}
	defer d.Close()
	for _, a := range analyseCases(l) {
		m, err := callAnalyse(d, a)
		if err != nil {
			return err
		}
		for _, mm := range compareAnalysis(a, m) {
			r.Hist("mismatch:" + mm.Part + ":" + mm.Detail)
			if r.Histogram["mismatch:"+mm.Part+":"+mm.Detail] <= 2 {
				r.Disagree(rep.Disagreement{Tie: "an." + mm.Part, Input: map[string]any{"case": a.Case.ID, "q": mm.Q, "detail": mm.Detail, "src": a.Case.Sources()["defs.go"]}, Model: mm.Model, Impl: mm.Impl})
			}
		}
		r.Case(a.Case.Feat, true)
		r.Hist("analysis:" + a.Out.Class)
		if a.Out.Class != "ok" {
			r.Hist("msg:" + a.Out.Msg)
		}
		for _, f := range a.Case.Feat {
			r.Hist("feat:" + f)
		}
		if a.Env != nil && len(a.Env.Conflicts) > 0 {
			r.Hist("conflicts")
		}
	}
	return nil
}
