package main

import (
	"fmt"
	"go/constant"
	"go/types"
	"math/rand"
	"reflect"
	"strings"

	"github.com/benoitkugler/gomacro/analysis"
	ansql "github.com/benoitkugler/gomacro/analysis/sql"
	"github.com/benoitkugler/gomacro/generator"
	gensql "github.com/benoitkugler/gomacro/generator/sql"

	"verifharness/internal/drv"
	"verifharness/internal/load"
	"verifharness/internal/rep"
	"verifharness/internal/synth"
)

func init() { runners["C16"] = runC16 }

func strsOf(v any) []string {
	var out []string
	if l, ok := v.([]any); ok {
		for _, x := range l {
			out = append(out, x.(string))
		}
	}
	return out
}

func eqStrs(a, b []string) bool {
	if len(a) == 0 && len(b) == 0 {
		return true
	}
	return reflect.DeepEqual(a, b)
}

// enumerate all strings over `alphabet` up to length n
func allStrings(alphabet []string, n int, f func(string) error) error {
	var rec func(prefix string, k int) error
	rec = func(prefix string, k int) error {
		if err := f(prefix); err != nil {
			return err
		}
		if k == 0 {
			return nil
		}
		for _, a := range alphabet {
			if err := rec(prefix+a, k-1); err != nil {
				return err
			}
		}
		return nil
	}
	return rec("", n)
}

// the SQL literal the property asks for: numbers as written, strings single-quoted
func sqlLiteral(c *types.Const) string {
	if c.Val().Kind() == constant.String {
		return "'" + strings.ReplaceAll(constant.StringVal(c.Val()), "'", "''") + "'"
	}
	return c.Val().ExactString()
}

const c16Fixture = `type IE int
const (
	IA IE = iota
	IB
	ic
)
type SE string
const (
	SA SE = "va"
	SB SE = "it's"
	SC SE = "Repas"
	SD SE = "a Table1 b"
)
type Repas struct {
	Id int64
	V IE
	S SE
	Order string
}
type Table1 struct {
	Id int64
	Ex1 int64
	IdRepas int64
}
// gomacro:SQL ADD UNIQUE(Ex1)
type RepasTable1 struct {
	IdRepas int64
	IdTable1 int64
	guard IE ` + "`gomacro-sql-guard:\"#[IE.IB]\"`" + `
}
`

func runC16(r *rep.Report, thorough bool) error {
	d, err := drv.Start()
	if err != nil {
		return err
	}
	defer d.Close()
	r.Rule = "pure (hooks): TableNameReplacer.Replace on every string up to length L over {A,b,_,space,$,.,(} with table names {A,Ab,bA}; ToSnakeCase on every string up to length L over {A,B,a,b,1,_}; isUniquesConstraint/isSelectKey/isUniqueConstraint and newCustomQuery on template-generated and mutated directive strings; generateCustomConstraint on directive strings against a real analysis holding int and string enums; end-to-end: synthesised model files (single/grouped declarations, documented neighbours) through sql.Generate — constraint lines vs model on the walker's own-declaration doc comments. non-trivial = the string contains a table name, placeholder or keyword"
	rng := rand.New(rand.NewSource(r.Seed))
	L := 5
	if thorough {
		L = 6
	}
	// ---- whole-word replacement (exported API, no hook needed)
	tables := []string{"A", "Ab", "bA"}
	rp := generator.TableNameReplacer{}
	for _, t := range tables {
		rp[t] = generator.SQLTableName(ansql.TableName(t))
	}
	err = allStrings([]string{"A", "b", "_", " ", "$", ".", "("}, L, func(s string) error {
		impl := rp.Replace(s)
		reply, err := d.Call(map[string]any{"op": "c16.words", "tables": tables, "s": s})
		if err != nil {
			return err
		}
		r.Case(s, strings.Contains(s, "A"))
		if m := reply["out"].(string); m != impl {
			r.Fail(rep.Failure{Signature: "c16:word-replacement", What: "table-name replacement differs from whole-word replacement", Input: map[string]any{"s": s, "tables": tables}, Expected: m, Observed: impl})
		}
		return nil
	})
	if err != nil {
		return err
	}
	// ---- snake case
	err = allStrings([]string{"A", "B", "a", "b", "1", "_"}, L, func(s string) error {
		impl := generator.ToSnakeCase(s)
		reply, err := d.Call(map[string]any{"op": "c16.snake", "s": s})
		if err != nil {
			return err
		}
		r.Case("snake:"+s, len(s) > 1)
		if m := reply["out"].(string); m != impl {
			r.Disagree(rep.Disagreement{Tie: "c16.ToSnakeCase-scanner-vs-regexp", Input: s, Model: m, Impl: impl})
		}
		return nil
	})
	if err != nil {
		return err
	}
	if !hooksEnabled {
		r.Note("hooks disabled: directive classification / custom query / custom constraint enumeration skipped")
	} else {
		// ---- classification of SQL comments
		kw := []string{"ADD UNIQUE", "add unique", "ADD PRIMARY KEY", "Add Primary Key", "_SELECT KEY", "_select key", "UNIQUE", "ADD CHECK", "ADD  UNIQUE", "XADD UNIQUE", "ADD UNIQUEX", "CREATE INDEX ON T"}
		seps := []string{"", " ", "  ", "\t"}
		groups := []string{"(A)", "(A, B)", "( A ,B )", "(A) REFERENCES T(id)", "(A", "A)", "()", "(A)) -- x)", "", "(A,)", "(a b)"}
		var directives []string
		for _, k := range kw {
			for _, s := range seps {
				for _, g := range groups {
					directives = append(directives, k+s+g, "x "+k+s+g+" y")
				}
			}
		}
		for i := 0; i < 400; i++ {
			b := []byte(directives[rng.Intn(len(directives))])
			if len(b) > 0 {
				switch rng.Intn(3) {
				case 0:
					b[rng.Intn(len(b))] = "() ,A_"[rng.Intn(6)]
				case 1:
					k := rng.Intn(len(b))
					b = append(b[:k], b[k+1:]...)
				}
			}
			directives = append(directives, string(b))
		}
		for _, s := range directives {
			reply, err := d.Call(map[string]any{"op": "c16.one", "s": s})
			if err != nil {
				return err
			}
			iu, is := hookIsUniques(s), hookIsSelectKey(s)
			r.Case("directive:"+s, true)
			if !eqStrs(iu, strsOf(reply["uniques"])) || !eqStrs(is, strsOf(reply["selectKey"])) {
				r.Disagree(rep.Disagreement{Tie: "c16.directive-scanner-vs-regexp", Input: s, Model: reply, Impl: map[string]any{"uniques": iu, "selectKey": is}})
			}
			one := hookIsUnique(s)
			if (len(iu) == 1 && one != iu[0]) || (len(iu) != 1 && one != "") {
				r.Fail(rep.Failure{Signature: "c16:unique-column-detection", What: "isUniqueConstraint disagrees with isUniquesConstraint", Input: s})
			}
		}
		// ---- custom queries
		cols := map[string]types.Type{"A": types.Typ[types.Int64], "Bb": types.Typ[types.String], "c_1": types.Typ[types.Bool]}
		qt := []string{
			"Q UPDATE T SET A = $v$ WHERE Bb = $w$;", "Q UPDATE T SET A = $v$ WHERE Bb = $w$ OR A=$v$;", "Q SELECT 1 WHERE A=$x$ AND Bb  =  $x$",
			"Q2 DELETE FROM T WHERE c_1 = $flag$ AND A = $a1$ AND Bb = $flag$", "Q SELECT 1", "Q", "Q WHERE A = $v", "Q WHERE A = $$", "Q WHERE A = $v$$w$ AND Bb=$w$",
			"Q WHERE A = $ab$ AND Bb = $a$ AND c_1 = $abc$", "Q WHERE A\t=\n$v$", "Q WHERE xA = $v$",
		}
		// grammar: one to six `field = $name$` conditions, names drawn with repetition from a small
		// pool (every pattern of first occurrences and repetitions up to length six turns up)
		{
			fields := []string{"A", "Bb", "c_1"}
			names := []string{"v", "w", "x", "flag", "a1"}
			seps := []string{" AND ", " OR ", ", ", " AND (", ") OR "}
			for i := 0; i < 250; i++ {
				k := 1 + rng.Intn(6)
				q := fmt.Sprintf("Q%d UPDATE T SET ", i)
				for j := 0; j < k; j++ {
					if j > 0 {
						q += seps[rng.Intn(len(seps))]
					}
					eq := []string{" = ", "=", "  =  ", " =\t"}[rng.Intn(4)]
					q += fields[rng.Intn(len(fields))] + eq + "$" + names[rng.Intn(len(names))] + "$"
				}
				// further uses of the variables, not of the form `field = $name$`
				for j, m := 0, rng.Intn(3); j < m; j++ {
					op := []string{" < ", " >= ", " <> ", " LIKE "}[rng.Intn(4)]
					q += " AND " + fields[rng.Intn(len(fields))] + op + "$" + names[rng.Intn(len(names))] + "$"
				}
				qt = append(qt, q+";")
			}
		}
		for i := 0; i < 300; i++ {
			b := []byte(qt[rng.Intn(12)])
			if len(b) > 2 {
				switch rng.Intn(3) {
				case 0:
					b[2+rng.Intn(len(b)-2)] = "$= AvBb_"[rng.Intn(8)]
				case 1:
					k := 2 + rng.Intn(len(b)-2)
					b = append(b[:k], b[k+1:]...)
				}
			}
			qt = append(qt, string(b))
		}
		for _, s := range qt {
			reply, err := d.Call(map[string]any{"op": "c16.query", "comment": s})
			if err != nil {
				return err
			}
			var q ansql.CustomQuery
			out := guard(func() { q = hookNewCustomQuery(cols, s) })
			r.Case("query:"+s, strings.Contains(s, "$"))
			minputs := reply["inputs"].([]any)
			unknown := false
			for _, mi := range minputs {
				if _, ok := cols[mi.(map[string]any)["field"].(string)]; !ok {
					unknown = true
				}
			}
			if out.Class != "ok" {
				if !(unknown && out.Class == "diag") {
					r.Fail(rep.Failure{Signature: "c16:custom-query-" + out.Class, What: "newCustomQuery stops unexpectedly: " + out.Msg, Input: s})
				}
				continue
			}
			if unknown {
				r.Disagree(rep.Disagreement{Tie: "c16.custom-query-unknown-field", Input: s, Model: reply})
				continue
			}
			ok := q.GoFunctionName == reply["goName"].(string) && q.Query == reply["query"].(string) && len(q.Inputs) == len(minputs)
			for i := range q.Inputs {
				if !ok {
					break
				}
				mi := minputs[i].(map[string]any)
				if q.Inputs[i].VarName != mi["var"].(string) || q.Inputs[i].Type != cols[mi["field"].(string)] {
					ok = false
				}
			}
			if !ok {
				r.Fail(rep.Failure{Signature: "c16:custom-query-numbering", What: "custom query placeholders / inputs differ from first-occurrence numbering", Input: s, Expected: reply, Observed: fmt.Sprintf("%+v", q)})
			}
		}
	}

	// ---- custom constraints against a real analysis (enums of both kinds)
	fix := &synth.Case{ID: "c16fix", Main: &synth.Pkg{Name: "pc16", Imports: map[string]string{}}}
	fix.Main.Files = []*synth.File{{Name: "defs.go", Decls: []*synth.Decl{{Kind: "raw", Name: "fix", Text: c16Fixture}}}}
	rng2 := rand.New(rand.NewSource(r.Seed + 1))
	o := synth.DefaultOptions()
	o.SQL = true
	o.Structs = 4
	n := 60
	if thorough {
		n = 400
	}
	cases := append([]*synth.Case{fix}, genCases(rng2, n, "t", o)...)
	l, err := load.Cases(cases)
	if err != nil {
		return err
	}
	defer l.Close()
	for id, e := range l.Bad {
		r.Note("ill-typed %s: %s", id, e)
	}
	as := analyseCases(l)
	for _, a := range as {
		if a.Case.ID != "c16fix" || a.Ana == nil {
			continue
		}
		tablesAna := ansql.SelectTables(a.Ana)
		var tnames []string
		for _, t := range tablesAna {
			tnames = append(tnames, string(t.TableName()))
		}
		enums := map[string]string{}
		for _, dd := range a.Env.Decls {
			if dd.Kind == "enum" {
				en := a.Ana.GetByName(dd.Name).(*analysis.Enum)
				for _, m := range en.Members {
					enums[dd.Name+"."+m.Const.Name()] = sqlLiteral(m.Const)
				}
			}
		}
		contents := []string{
			"ADD CHECK (V = #[IE.IA] OR V = #[IE.IB])", "ADD CHECK (S = #[SE.SA])", "ADD CHECK (S <> #[SE.SB])", "ADD FOREIGN KEY (IdRepas) REFERENCES Repas ON DELETE CASCADE",
			"CREATE INDEX ON Repas (Order)", "ADD UNIQUE(IdRepas, IdTable1)", "ALTER TABLE RepasTable1 ADD x", "ADD CHECK (Repass = 1 AND MyRepas = 2 AND Repas_x = 3 AND Repas.Id = 4)",
			"ADD CHECK (V = #[IE.ic])", "ADD CHECK (V = #[IE.])", "ADD CHECK (V = #[IE.IA)", "ADDX", " ADD CHECK (x)", "add check (x)", "REFERENCES Table1 REFERENCES Repas", "x REFERENCES  Repas", "#[SE.SA]#[IE.IA]",
			// enum values that are themselves table names: literals are not rewritten
			"ADD CHECK (S = #[SE.SC])", "ADD CHECK (S IN (#[SE.SC], #[SE.SD]) AND Repas.Id > 0)", "CREATE INDEX ON Repas (S) WHERE S = #[SE.SD]",
		}
		for _, ta := range tablesAna {
			for _, c := range contents {
				reply, err := d.Call(map[string]any{"op": "c16.constraint", "tables": tnames, "owner": string(ta.TableName()), "content": c, "enums": enums})
				if err != nil {
					return err
				}
				in := map[string]any{"owner": string(ta.TableName()), "content": c, "fixture": c16Fixture}
				r.Case(in, true)
				if !hooksEnabled {
					continue
				}
				var impl string
				out := guard(func() { impl = hookCustomConstraint(a.Ana, ta, generator.NewTableNameReplacer(tablesAna), c) })
				if out.Class == "crash" {
					r.Fail(rep.Failure{Signature: "c16:custom-constraint-crash", What: "generateCustomConstraint dies with a runtime error: " + out.Msg, Input: in})
					continue
				}
				m, hasOut := reply["out"].(string)
				if out.Class == "diag" {
					if hasOut {
						r.Disagree(rep.Disagreement{Tie: "c16.custom-constraint-diag", Input: in, Model: m, Impl: out.Msg})
					}
					continue
				}
				if !hasOut || m != impl {
					sig := "c16:custom-constraint"
					if strings.Contains(impl, `"va"`) || strings.Contains(impl, `"it's"`) {
						sig = "c16:string-enum-literal-double-quoted"
					}
					r.Fail(rep.Failure{Signature: sig, What: "expanded constraint differs from the specified expansion (placeholders -> SQL literal, REFERENCES / whole-word table names, ADD -> ALTER TABLE owner)", Input: in, Expected: m, Observed: impl})
				}
			}
		}
	}
	// ---- end to end: ownership and hidden directives through sql.Generate
	for _, a := range as {
		if a.Ana == nil || a.Env == nil {
			continue
		}
		var decls []generator.Declaration
		out := guard(func() { decls = gensql.Generate(a.Ana) })
		if out.Class != "ok" {
			r.Hist("sql.Generate:" + out.Class)
			continue
		}
		var constraintsText string
		var all string
		for _, dd := range decls {
			all += dd.Content + "\n"
			if dd.ID == "ac_constraints" {
				constraintsText = dd.Content
			}
		}
		in := map[string]any{"case": a.Case.ID, "sources": a.Case.Sources()}
		if strings.Contains(strings.ToUpper(all), "_SELECT KEY") {
			r.Fail(rep.Failure{Signature: "c16:select-key-leaks", What: "an internal _SELECT KEY directive reaches the SQL output", Input: in})
		}
		// custom queries, end to end: the Go function takes one argument per distinct name, typed
		// like the struct field it is compared with (the field's type read from go/types directly)
		var tables []ansql.Table
		if tout := guard(func() { tables = ansql.SelectTables(a.Ana) }); tout.Class == "ok" {
			for _, ta := range tables {
				st, _ := ta.Name.Underlying().(*types.Struct)
				tf := a.FB.Types[types.TypeString(ta.Name, nil)]
				if st == nil || tf == nil {
					continue
				}
				fieldTy := map[string]types.Type{}
				for i := 0; i < st.NumFields(); i++ {
					fieldTy[st.Field(i).Name()] = st.Field(i).Type()
				}
				byName := map[string]ansql.CustomQuery{}
				for _, q := range ta.CustomQueries {
					byName[q.GoFunctionName] = q
				}
				for _, line := range tf.Doc {
					const pre = "// gomacro:QUERY "
					if !strings.HasPrefix(line, pre) {
						continue
					}
					comment := strings.TrimPrefix(line, pre)
					reply, err := d.Call(map[string]any{"op": "c16.query", "comment": comment})
					if err != nil {
						return err
					}
					goName, _ := reply["goName"].(string)
					q, has := byName[goName]
					minputs, _ := reply["inputs"].([]any)
					in2 := map[string]any{"case": a.Case.ID, "struct": ta.Name.Obj().Name(), "query": comment, "sources": a.Case.Sources()}
					r.Case(map[string]any{"case": a.Case.ID, "query": comment}, true)
					if !has || len(q.Inputs) != len(minputs) {
						r.Fail(rep.Failure{Signature: "c16:custom-query-arguments", What: "the custom query of the struct is missing from the table, or does not take one argument per distinct name", Input: in2, Expected: reply, Observed: fmt.Sprintf("%+v", q)})
						continue
					}
					for i, mi := range minputs {
						field, _ := mi.(map[string]any)["field"].(string)
						want := fieldTy[field]
						if want == nil {
							continue
						}
						if !types.Identical(q.Inputs[i].Type, want) {
							r.Fail(rep.Failure{Signature: "c16:custom-query-argument-type", What: fmt.Sprintf("argument %s of %s is typed %s, the struct field %s it is compared with has type %s", q.Inputs[i].VarName, goName, q.Inputs[i].Type, field, want), Input: in2})
						}
					}
				}
			}
		}
		// expected ADD-constraints per table from the walker's own-declaration doc comments
		var tnames []string
		for _, s := range a.FB.Source {
			if tf := a.FB.Types[a.FB.RootPath+"."+s.Name]; tf != nil && tf.Under.K == "struct" && !strings.HasPrefix(tf.UnderStr, "struct{wall") {
				tnames = append(tnames, s.Name)
			}
		}
		// guard values, end to end: DEFAULT and CHECK of every guard column carry the tag's value with
		// its enum placeholders expanded and nothing else changed (fields and tags from go/types,
		// literals of the constants from the go/types facts)
		factEnums := map[string]string{}
		for _, p := range a.FB.Pkgs {
			for _, c := range p.Consts {
				if c.TypeQ == "" || !strings.HasPrefix(c.TypeQ, p.Path+".") {
					continue
				}
				lit := c.Val
				if tf := a.FB.Types[c.TypeQ]; tf != nil && tf.Under != nil && tf.Under.Info == "string" {
					lit = "'" + strings.ReplaceAll(c.Str, "'", "''") + "'"
				}
				factEnums[strings.TrimPrefix(c.TypeQ, p.Path+".")+"."+c.Name] = lit
			}
		}
		for _, name := range tnames {
			tf := a.FB.Types[a.FB.RootPath+"."+name]
			if tf.Under == nil {
				continue
			}
			for _, f := range tf.Under.Fields {
				val := reflect.StructTag(f.Tag).Get("gomacro-sql-guard")
				if val == "" {
					continue
				}
				reply, err := d.Call(map[string]any{"op": "c16.guard", "owner": name, "column": f.Name, "value": val, "enums": factEnums})
				if err != nil {
					return err
				}
				r.Case(map[string]any{"case": a.Case.ID, "owner": name, "guard": val}, true)
				for _, want := range strsOf(reply["out"]) {
					if !strings.Contains(constraintsText, want) {
						r.Fail(rep.Failure{Signature: "c16:guard-value-altered-or-missing", What: "the guard " + name + "." + f.Name + " should give the statement " + want + " (the tag's value with its enum placeholders expanded, no other word altered)",
							Input: map[string]any{"case": a.Case.ID, "struct": name, "field": f.Name, "value": val, "sources": a.Case.Sources()}, Expected: want, Observed: constraintsText})
					}
				}
			}
		}
		for _, name := range tnames {
			tf := a.FB.Types[a.FB.RootPath+"."+name]
			for _, line := range tf.Doc {
				const pre = "// gomacro:SQL "
				if !strings.HasPrefix(line, pre) {
					continue
				}
				content := strings.TrimPrefix(line, pre)
				if strings.Contains(strings.ToUpper(content), "_SELECT KEY") {
					continue
				}
				reply, err := d.Call(map[string]any{"op": "c16.constraint", "tables": tnames, "owner": name, "content": content, "enums": map[string]string{}})
				if err != nil {
					return err
				}
				want, ok := reply["out"].(string)
				if !ok {
					continue
				}
				r.Case(map[string]any{"case": a.Case.ID, "owner": name, "content": content}, true)
				if !strings.Contains(constraintsText, want) {
					sig := "c16:constraint-missing-or-wrong-owner"
					if tf.Grouped {
						sig = "c16:comment-of-grouped-declaration-lost"
					}
					r.Fail(rep.Failure{Signature: sig, What: "the constraint carried by struct " + name + " does not appear (attached to its table) in the SQL output: " + want, Input: in, Expected: want, Observed: constraintsText})
				}
			}
		}
	}
	return nil
}
