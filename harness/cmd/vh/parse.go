package main

import (
	"go/ast"
	"go/parser"
	"go/token"
)

func parserParse(fset *token.FileSet, path string) (*ast.File, error) {
	return parser.ParseFile(fset, path, nil, parser.ParseComments)
}
