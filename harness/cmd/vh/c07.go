package main

import (
	"bufio"
	"crypto/sha256"
	"encoding/hex"
	"encoding/json"
	"flag"
	"fmt"
	"math/rand"
	"os"
	"os/exec"
	"sort"
	"strings"

	"verifharness/internal/load"
	"verifharness/internal/rep"
	"verifharness/internal/synth"
)

func init() { runners["C07"] = runC07 }

func c07Cases(seed int64, thorough bool) []*synth.Case {
	rng := rand.New(rand.NewSource(seed))
	n := 40
	if thorough {
		n = 250
	}
	o := synth.DefaultOptions()
	o.Structs = 6
	cases := genCases(rng, n, "d", o)
	o.SQL = true
	cases = append(cases, genCases(rng, n/2, "q", o)...)
	cases = append(cases, synth.ManyImports()...)
	cases = append(cases, synth.HandWritten()...)
	return cases
}

func sha(s string) string {
	h := sha256.Sum256([]byte(s))
	return hex.EncodeToString(h[:8])
}

// generateAll runs a fresh analysis + every target on one case and returns target/file -> (hash, text)
func generateAll(l *load.Loaded, c *synth.Case) (map[string]string, map[string]string) {
	hashes, texts := map[string]string{}, map[string]string{}
	p := l.Pkgs[c.ID]
	if p == nil {
		return hashes, texts
	}
	a := &analysed{Case: c, Pkg: p, File: l.Mod.MainFile(c)}
	a.Out = guard(func() { a.Ana = analysisNew(p, a.File) })
	hashes["analysis"] = a.Out.Class
	if a.Out.Class != "ok" {
		return hashes, texts
	}
	for _, tg := range allTargets {
		t := runTarget(tg, a, l.Mod.Root)
		if t.Out.Class != "ok" {
			hashes[tg] = t.Out.Class
			continue
		}
		hashes[tg+"#files"] = strings.Join(sortedKeys(t.Text), ",")
		for f, txt := range t.Text {
			hashes[tg+"/"+f] = sha(txt)
			texts[tg+"/"+f] = txt
		}
	}
	return hashes, texts
}

// secondPass: every target generated twice from ONE analysis (all targets, then all targets again):
// a generator that leaves the analysis modified shows in the second pass
func secondPass(l *load.Loaded, c *synth.Case) (target, file, first, second string) {
	p := l.Pkgs[c.ID]
	if p == nil {
		return
	}
	a := &analysed{Case: c, Pkg: p, File: l.Mod.MainFile(c)}
	a.Out = guard(func() { a.Ana = analysisNew(p, a.File) })
	if a.Out.Class != "ok" {
		return
	}
	firsts := map[string]map[string]string{}
	for pass := 0; pass < 2; pass++ {
		for _, tg := range allTargets {
			t := runTarget(tg, a, l.Mod.Root)
			if t.Out.Class != "ok" {
				continue
			}
			if pass == 0 {
				firsts[tg] = t.Text
				continue
			}
			for f, txt := range t.Text {
				if prev, ok := firsts[tg][f]; ok && prev != txt {
					return tg, f, prev, txt
				}
			}
		}
	}
	return
}

// c07Child: generate everything once in this process and print the hashes (one JSON line per case)
func c07Child(args []string) error {
	fs := flag.NewFlagSet("c07child", flag.ExitOnError)
	seed := fs.Int64("seed", 1, "")
	tier := fs.String("tier", "quick", "")
	fs.Parse(args)
	cases := c07Cases(*seed, *tier == "thorough")
	l, err := load.Cases(cases)
	if err != nil {
		return err
	}
	defer l.Close()
	w := bufio.NewWriter(os.Stdout)
	defer w.Flush()
	enc := json.NewEncoder(w)
	for _, c := range cases {
		h, _ := generateAll(l, c)
		// the scratch directory differs between processes: it never appears in outputs
		enc.Encode(map[string]any{"case": c.ID, "hashes": h})
	}
	return nil
}

func firstDiff(a, b string) string {
	la, lb := strings.Split(a, "\n"), strings.Split(b, "\n")
	for i := 0; i < len(la) && i < len(lb); i++ {
		if la[i] != lb[i] {
			return fmt.Sprintf("line %d: %q vs %q", i+1, la[i], lb[i])
		}
	}
	return fmt.Sprintf("lengths %d vs %d lines", len(la), len(lb))
}

func runC07(r *rep.Report, thorough bool) error {
	r.Rule = "every target generated twice from one analysis (all targets, then all again), K times in this process (fresh analysis each time), again after each of R fresh loads of the same sources in this process, and once in each of P separate processes, sha256 per output file and the set of file names compared; programs from the synthesiser (general + sql-flavoured) plus hand-written programs whose types come from three and more packages, so that map iteration orders actually differ. non-trivial = program references at least two imported packages"
	K, P := 8, 3
	if thorough {
		K, P = 40, 8
	}
	cases := c07Cases(r.Seed, thorough)
	l, err := load.Cases(cases)
	if err != nil {
		return err
	}
	defer l.Close()
	ref := map[string]map[string]string{}
	for _, c := range cases {
		base, baseTexts := generateAll(l, c)
		ref[c.ID] = base
		nontrivial := false
		for _, f := range c.Feat {
			if f == "subpackage-type" || f == "sql-null" || strings.HasPrefix(f, "hand:") {
				nontrivial = true
			}
		}
		r.Case(map[string]any{"case": c.ID, "features": c.Feat}, nontrivial)
		if tg, f, first, second := secondPass(l, c); tg != "" {
			r.Fail(rep.Failure{Signature: "c07:output-depends-on-earlier-generations:" + tg, What: "generating every target twice from one analysis gives a different " + tg + "/" + f + " the second time (" + firstDiff(first, second) + "): a generator leaves the analysis modified",
				Input: map[string]any{"case": c.ID, "output": tg + "/" + f, "sources": c.Sources()}, Expected: first, Observed: second})
		}
		reported := map[string]bool{}
		for k := 1; k < K; k++ {
			again, texts := generateAll(l, c)
			keys := map[string]bool{}
			for x := range base {
				keys[x] = true
			}
			for x := range again {
				keys[x] = true
			}
			var ks []string
			for x := range keys {
				ks = append(ks, x)
			}
			sort.Strings(ks)
			for _, x := range ks {
				if base[x] != again[x] && !reported[x] {
					reported[x] = true
					tg := strings.SplitN(strings.SplitN(x, "/", 2)[0], "#", 2)[0]
					r.Fail(rep.Failure{Signature: "c07:in-process-nondeterminism:" + tg, What: "two generations of the same sources in one process give different output for " + x + " (" + firstDiff(baseTexts[x], texts[x]) + ")",
						Input: map[string]any{"case": c.ID, "output": x, "sources": c.Sources()}, Expected: baseTexts[x], Observed: texts[x]})
				}
			}
		}
		r.HistN("in_process_generations", K)
	}
	// the same sources loaded again in this process: fresh go/types objects and token positions,
	// same package paths — anything remembered from the first load, or derived from the order in
	// which the files happened to be parsed, shows here
	R := 2
	if thorough {
		R = 8
	}
	for k := 0; k < R; k++ {
		l2, err := l.Reload(cases)
		if err != nil {
			return err
		}
		for _, c := range cases {
			base := ref[c.ID]
			again, texts := generateAll(l2, c)
			var ks []string
			for x := range base {
				ks = append(ks, x)
			}
			for x := range again {
				if _, ok := base[x]; !ok {
					ks = append(ks, x)
				}
			}
			sort.Strings(ks)
			for _, x := range ks {
				if base[x] != again[x] {
					tg := strings.SplitN(strings.SplitN(x, "/", 2)[0], "#", 2)[0]
					_, baseTexts := map[string]string{}, map[string]string{}
					if texts[x] != "" {
						_, baseTexts = generateAll(l, c)
					}
					r.Fail(rep.Failure{Signature: "c07:nondeterminism-after-reload:" + tg, What: "the same sources loaded and generated a second time in one process give different output for " + x + " (" + firstDiff(baseTexts[x], texts[x]) + ")",
						Input: map[string]any{"case": c.ID, "output": x, "sources": c.Sources()}, Expected: baseTexts[x], Observed: texts[x]})
					break
				}
			}
		}
		r.Hist("reloads_in_process")
	}
	// separate processes
	self, _ := os.Executable()
	for p := 0; p < P; p++ {
		cmd := exec.Command(self, "c07child", "-seed", fmt.Sprint(r.Seed), "-tier", r.Tier)
		cmd.Env = os.Environ()
		cmd.Stderr = nil
		out, err := cmd.Output()
		if err != nil {
			return fmt.Errorf("c07 child: %v", err)
		}
		sc := bufio.NewScanner(strings.NewReader(string(out)))
		sc.Buffer(make([]byte, 1<<20), 1<<26)
		for sc.Scan() {
			var line struct {
				Case   string
				Hashes map[string]string
			}
			if json.Unmarshal(sc.Bytes(), &line) != nil {
				continue
			}
			base := ref[line.Case]
			for x, h := range line.Hashes {
				if base[x] != h {
					tg := strings.SplitN(strings.SplitN(x, "/", 2)[0], "#", 2)[0]
					r.Fail(rep.Failure{Signature: "c07:cross-process-nondeterminism:" + tg, What: "two processes generate different output for " + x,
						Input: map[string]any{"case": line.Case, "output": x}})
				}
			}
			for x := range base {
				if _, ok := line.Hashes[x]; !ok {
					r.Fail(rep.Failure{Signature: "c07:cross-process-file-set", What: "output " + x + " missing in another process", Input: map[string]any{"case": line.Case}})
				}
			}
		}
		r.Hist("processes")
	}
	return nil
}
