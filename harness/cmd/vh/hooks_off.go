//go:build !verif

package main

const hooksEnabled = false

func hookCommonPrefix(paths []string) string { panic("hooks disabled") }
