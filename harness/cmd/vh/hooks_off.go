//go:build !verif

package main

import (
	"go/types"

	"github.com/benoitkugler/gomacro/analysis"
	ansql "github.com/benoitkugler/gomacro/analysis/sql"
	"github.com/benoitkugler/gomacro/generator"
)

const hooksEnabled = false

func hookCommonPrefix(paths []string) string { panic("hooks disabled") }

func hookIsUniques(ct string) []string   { panic("hooks disabled") }
func hookIsUnique(ct string) string      { panic("hooks disabled") }
func hookIsSelectKey(ct string) []string { panic("hooks disabled") }
func hookNewCustomQuery(cols map[string]types.Type, comment string) ansql.CustomQuery {
	panic("hooks disabled")
}
func hookCustomConstraint(ana *analysis.Analysis, ta ansql.Table, rep generator.TableNameReplacer, content string) string {
	panic("hooks disabled")
}
