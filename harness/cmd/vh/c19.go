package main

import (
	"fmt"
	"math/rand"
	"sort"
	"strings"

	"github.com/benoitkugler/gomacro/generator"

	"verifharness/internal/drv"
	"verifharness/internal/rep"
)

func init() { runners["C19"] = runC19 }

type jDecl struct {
	ID      string `json:"id"`
	Content string `json:"content"`
	Prio    bool   `json:"prio"`
}

// implWrite assembles the list, then assembles the caller's very same slice a second time (a
// generator's list is assembled again after more declarations are appended, or by a second target):
// again = the text of the second assembly.
func implWrite(ds []jDecl) (out string, again string, panicked any) {
	defer func() {
		if e := recover(); e != nil {
			panicked = fmt.Sprint(e)
		}
	}()
	in := make([]generator.Declaration, len(ds))
	for i, d := range ds {
		in[i] = generator.Declaration{ID: d.ID, Content: d.Content, Priority: d.Prio}
	}
	out = generator.WriteDeclarations(in)
	again = generator.WriteDeclarations(in)
	return out, again, nil
}

func multisetKey(ds []jDecl) string {
	keys := make([]string, len(ds))
	for i, d := range ds {
		keys[i] = fmt.Sprintf("%q|%q|%v", d.ID, d.Content, d.Prio)
	}
	sort.Strings(keys)
	return strings.Join(keys, ";")
}

func runC19(r *rep.Report, thorough bool) error {
	d, err := drv.Start()
	if err != nil {
		return err
	}
	defer d.Close()
	r.Rule = "exhaustive: every list up to length L over 3 ids x 2 contents (one of them empty) x 2 priorities (every permutation of a list is itself enumerated and grouped by multiset); random: lists up to 200 over ids with shared prefixes/unicode, 3 shuffles each. non-trivial = at least two declarations sharing an id or differing in priority; distinct by content hash"

	permOut := map[string]string{} // multiset -> impl output (consistent lists only)
	check := func(ds []jDecl, track bool) error {
		if ds == nil {
			ds = []jDecl{}
		}
		implOut, implAgain, pan := implWrite(append([]jDecl(nil), ds...))
		reply, err := d.Call(map[string]any{"op": "c19.write", "decls": ds})
		if err != nil {
			return err
		}
		consistent := reply["consistent"].(bool)
		spec := reply["spec"].(string)
		model := reply["out"].(string)
		nontrivial := false
		ids := map[string]bool{}
		for _, x := range ds {
			if ids[x.ID] || x.Prio {
				nontrivial = true
			}
			ids[x.ID] = true
		}
		r.Case(ds, nontrivial)
		if pan != nil {
			r.Fail(rep.Failure{Signature: "c19:panic", What: "WriteDeclarations panicked", Input: ds, Observed: pan})
			return nil
		}
		if pan == nil && consistent && implAgain != implOut {
			r.Fail(rep.Failure{Signature: "c19:depends-on-an-earlier-assembly", What: "assembling the same slice of declarations a second time gives another text: the first call altered the caller's list", Input: ds, Expected: implOut, Observed: implAgain})
		}
		if consistent {
			r.Hist("consistent")
			if model != spec { // cannot happen: C19_writeDecls_eq_spec
				r.Disagree(rep.Disagreement{Tie: "c19.lean-model-vs-spec", Input: ds, Model: model, Impl: spec})
			}
			if implOut != spec {
				r.Fail(rep.Failure{Signature: "c19:spec-mismatch", What: "WriteDeclarations output differs from the specification (each id once, priority group first, ascending ids)", Input: ds, Expected: spec, Observed: implOut})
			}
			if track {
				k := multisetKey(ds)
				if prev, ok := permOut[k]; ok {
					if prev != implOut {
						r.Fail(rep.Failure{Signature: "c19:perm-dependence", What: "two orderings of the same declarations give different text", Input: ds, Expected: prev, Observed: implOut})
					}
				} else {
					permOut[k] = implOut
				}
			}
		} else {
			r.Hist("inconsistent(outside proviso)")
			if implOut == model {
				r.Hist("inconsistent:impl=model")
			}
		}
		return nil
	}

	// exhaustive part
	var alphabet []jDecl
	for _, id := range []string{"a", "ab", "b"} {
		for _, c := range []string{"X", ""} { // an empty content is a declaration like any other
			for _, p := range []bool{false, true} {
				alphabet = append(alphabet, jDecl{id, c, p})
			}
		}
	}
	maxLen := 4
	if thorough {
		maxLen = 5
	}
	var rec func(cur []jDecl, n int) error
	rec = func(cur []jDecl, n int) error {
		if err := check(cur, true); err != nil {
			return err
		}
		if n == 0 {
			return nil
		}
		for _, a := range alphabet {
			if err := rec(append(cur, a), n-1); err != nil {
				return err
			}
		}
		return nil
	}
	if err := rec(nil, maxLen); err != nil {
		return err
	}
	r.Hist("exhaustive_lists")
	r.Histogram["exhaustive_lists"] = r.Evaluations
	r.Histogram["exhaustive_multisets"] = len(permOut)
	r.Exhaustive = false

	// random part
	rng := rand.New(rand.NewSource(r.Seed))
	nRandom := 1500
	if thorough {
		nRandom = 30000
	}
	idPool := []string{"", "a", "A", "a.b", "a.b.C", "ab", "b", "é", "é", "日本", "z", "Z9", "_", "a_", "pkg.Type", "pkg.Type2", "pkg.T", "0", "~", " "}
	for i := 0; i < nRandom; i++ {
		n := rng.Intn(12)
		if rng.Intn(10) == 0 {
			n = rng.Intn(200)
		}
		ds := make([]jDecl, n)
		incons := rng.Intn(8) == 0
		for k := range ds {
			id := idPool[rng.Intn(len(idPool))]
			if rng.Intn(4) == 0 {
				id += idPool[rng.Intn(len(idPool))]
			}
			content := "<" + id + ">"
			if rng.Intn(5) == 0 {
				content += "\n  body\n"
			}
			if incons && rng.Intn(3) == 0 {
				content = fmt.Sprint("v", rng.Intn(3))
			}
			if rng.Intn(6) == 0 {
				content = "" // several generators emit empty declarations
			}
			ds[k] = jDecl{id, content, rng.Intn(3) == 0}
		}
		// content must be a function of id for the consistent stream
		if !incons {
			byID := map[string]string{}
			for k := range ds {
				if c, ok := byID[ds[k].ID]; ok {
					ds[k].Content = c
				} else {
					byID[ds[k].ID] = ds[k].Content
				}
			}
		}
		permOut = map[string]string{}
		if err := check(ds, true); err != nil {
			return err
		}
		for s := 0; s < 3; s++ {
			sh := append([]jDecl(nil), ds...)
			rng.Shuffle(len(sh), func(i, j int) { sh[i], sh[j] = sh[j], sh[i] })
			if err := check(sh, true); err != nil {
				return err
			}
		}
	}
	r.Histogram["random_lists"] = nRandom * 4
	return nil
}
