package main

import (
	"encoding/json"
	"fmt"
	"math/rand"
	"strings"

	"verifharness/internal/drv"
	"verifharness/internal/gobuild"
	"verifharness/internal/gorun"
	"verifharness/internal/irdump"
	"verifharness/internal/load"
	"verifharness/internal/rep"
	"verifharness/internal/synth"
)

func init() { runners["C15"] = runC15 }

// recursiveTypes: named types that can reach themselves (the generated function then recurses
// without bound: every container is populated, every union member generator is evaluated)
func recursiveTypes(env *irdump.Env) map[string]bool {
	adj := map[string][]string{}
	var refs func(t *irdump.Ty, acc *[]string)
	refs = func(t *irdump.Ty, acc *[]string) {
		if t == nil {
			return
		}
		if t.K == "ref" {
			*acc = append(*acc, t.Q)
		}
		refs(t.E, acc)
		refs(t.Key, acc)
	}
	for _, d := range env.Decls {
		var out []string
		refs(d.Under, &out)
		for _, f := range d.Fields {
			if f.GoExported && !strings.Contains(f.Tag, `gomacro-data:"ignore"`) {
				refs(f.T, &out)
			}
		}
		for _, m := range d.UMembers {
			refs(m, &out)
		}
		adj[d.Q] = out
	}
	rec := map[string]bool{}
	for q := range adj {
		seen := map[string]bool{}
		stack := append([]string(nil), adj[q]...)
		for len(stack) > 0 {
			x := stack[len(stack)-1]
			stack = stack[:len(stack)-1]
			if x == q {
				rec[q] = true
				break
			}
			if seen[x] {
				continue
			}
			seen[x] = true
			stack = append(stack, adj[x]...)
		}
	}
	// types that reach a recursive type do not return either
	changed := true
	for changed {
		changed = false
		for q, out := range adj {
			if rec[q] {
				continue
			}
			for _, x := range out {
				if rec[x] {
					rec[q] = true
					changed = true
				}
			}
		}
	}
	return rec
}

func enumWithoutExportedMember(env *irdump.Env) bool {
	for _, d := range env.Decls {
		if d.Kind != "enum" {
			continue
		}
		n := 0
		for _, m := range d.Members {
			if m.Exported {
				n++
			}
		}
		if n == 0 {
			return true
		}
	}
	return false
}

func runC15(r *rep.Report, thorough bool) error {
	r.Rule = "synthesised packages (types from other packages, enums with unexported members, unions, containers, data-ignore tags; a separate share with recursive types) compiled with the real randdata and gounions output; every generated rand function of a source type is called K times in its own child process (timeout, stack limit); returned values are dumped by reflection and judged by the Lean predicate wellFormed; variation and JSON round trip are checked on the same calls. non-trivial = the type has an enum, union or container component"
	rng := rand.New(rand.NewSource(r.Seed))
	n, k := 40, 8
	if thorough {
		n, k = 250, 24
	}
	o := synth.DefaultOptions()
	o.NoRecursion = true
	cases := genCases(rng, n, "n", o)
	o.NoRecursion = false
	cases = append(cases, genCases(rng, n/4, "y", o)...)
	cases = append(cases, synth.HandWritten()...)
	l, err := load.Cases(cases)
	if err != nil {
		return err
	}
	defer l.Close()
	if err := gobuild.InstallPQ(l); err != nil {
		return err
	}
	as := analyseCases(l)
	var files []gobuild.GenFile
	var good []*analysed
	randText := map[string]string{}
	for _, a := range as {
		// pointers are inside C15's quantifier: randdata generates them (rand<T>Ptr)
		if a.Ana == nil || a.Env == nil || !supportedEnvOpt(a.Env, true) {
			continue
		}
		t := runTarget("randdata", a, l.Mod.Root)
		r.Hist("randdata:" + t.Out.Class)
		if t.Out.Class != "ok" {
			continue
		}
		files = append(files, gobuild.GenFile{Case: a.Case.ID, Name: "gen_rand.go", Content: t.Text["gen_rand.go"]})
		randText[a.Case.ID] = t.Text["gen_rand.go"]
		u := runTarget("gounions", a, l.Mod.Root)
		if u.Out.Class != "ok" {
			r.Hist("outside-quantifier(gounions refuses the package)")
			continue
		}
		files = append(files, gobuild.GenFile{Case: a.Case.ID, Name: "gen_unions.go", Content: u.Text["gen_unions.go"]})
		good = append(good, a)
	}
	bad := map[string]bool{}
	for _, p := range gobuild.Place(l, files) {
		bad[p.Case] = true
	}
	var ids []string
	for _, a := range good {
		ids = append(ids, a.Case.ID)
	}
	tc, err := gobuild.Check(l, ids)
	if err != nil {
		return err
	}
	for _, p := range tc {
		bad[p.Case] = true
	}
	r.Histogram["packages_not_compiling(C01)"] = len(bad)
	var specs []gorun.Spec
	byID := map[string]*analysed{}
	for _, a := range good {
		if bad[a.Case.ID] {
			continue
		}
		sp := buildSpec(a, randText[a.Case.ID])
		if len(sp.Rand) == 0 {
			continue
		}
		specs = append(specs, sp)
		byID[a.Case.ID] = a
	}
	bin, out, err := gorun.Build(l, specs)
	if err != nil {
		return fmt.Errorf("go build of the scratch module failed: %v\n%s", err, out)
	}
	d, err := drv.Start()
	if err != nil {
		return err
	}
	defer d.Close()
	specEnums := map[string]*irdump.Env{}
	for _, sp := range specs {
		a := byID[sp.Case]
		rec := recursiveTypes(a.Env)
		for tname := range sp.Rand {
			q := a.Env.PkgPath + "." + tname
			in := map[string]any{"case": sp.Case, "type": tname, "sources": a.Case.Sources()}
			// the termination theorem (C15_terminates) on this function: does the static check hold
			// for the type as analysed from a fresh load
			staticEnv := a.Env
			if a.FirstEnv != nil {
				staticEnv = a.FirstEnv
			}
			returns := false
			if st, err := d.Call(map[string]any{"op": "c15.judge", "env": staticEnv, "type": map[string]any{"k": "ref", "q": q}, "values": []any{}}); err == nil {
				returns, _ = st["returns"].(bool)
			}
			if returns {
				r.Hist("termination-theorem:function-covered")
			} else {
				r.Hist("termination-theorem:static-check-fails(recursive type, enum without exported constant, ...)")
			}
			lines, fatal := gorun.RunRand(bin, sp.Case, tname, k)
			if returns && fatal != "" {
				r.Disagree(rep.Disagreement{Tie: "c15.termination-theorem-vs-real-function", Input: in,
					Model: "theorem C15_terminates: the static check holds, the generated function returns whatever the draws", Impl: "the compiled function does not return: " + fatal})
			}
			nontrivial := strings.Contains(fmt.Sprint(lines), "iface") || strings.Contains(fmt.Sprint(lines), "list") || strings.Contains(fmt.Sprint(lines), "map")
			r.Case(map[string]any{"case": sp.Case, "type": tname, "calls": len(lines), "fatal": fatal}, nontrivial || fatal != "")
			if fatal != "" {
				sig := "c15:does-not-return:" + slug(fatal)
				if rec[q] {
					sig = "c15:does-not-return:recursive-type"
				}
				r.Fail(rep.Failure{Signature: sig, What: "the generated rand function does not return a value: " + fatal, Input: in, Observed: fatal})
				continue
			}
			var vals []any
			distinct := map[string]bool{}
			for _, ln := range lines {
				if ln.Panic != "" {
					sig := "c15:panic:" + slug(firstWords(ln.Panic, 6))
					if strings.Contains(ln.Panic, "invalid argument to Intn") && enumWithoutExportedMember(a.Env) {
						sig = "c15:panic:enum-without-exported-member"
					}
					r.Fail(rep.Failure{Signature: sig, What: "the generated rand function panics: " + ln.Panic, Input: in})
					if returns {
						r.Disagree(rep.Disagreement{Tie: "c15.termination-theorem-vs-real-function", Input: in,
							Model: "theorem C15_terminates: the static check holds, the generated function returns whatever the draws", Impl: "the compiled function panics: " + ln.Panic})
					}
					continue
				}
				if ln.MarshalErr != "" || ln.UnmarshalErr != "" || !ln.RoundTrip {
					missing := missingWrapper(a, wrapperSets(a, l.Mod.Root))
					sig := "c15:value-does-not-survive-json-round-trip"
					if missing != "" {
						sig += ":wrapper-not-generated-behind-anonymous-container"
					}
					r.Fail(rep.Failure{Signature: sig, What: "a generated value does not survive the JSON round trip: " + ln.MarshalErr + ln.UnmarshalErr, Input: in, Observed: ln.Doc})
				}
				if ln.Val != nil {
					vals = append(vals, ln.Val)
					b, _ := json.Marshal(ln.Val)
					distinct[string(b)] = true
				}
			}
			if len(vals) == 0 {
				continue
			}
			// the values are judged against the types as analysed from a fresh load of the sources
			// (the generated code comes from the analysis of the second load in this process)
			judgeEnv := a.Env
			if a.FirstEnv != nil {
				judgeEnv = a.FirstEnv
			}
			// … with the constants of each enum as the specification model of the analysis lists
			// them (from the go/types facts): an enum the analysis truncated is judged against
			// its real constants
			if je, ok := specEnums[sp.Case]; ok {
				judgeEnv = je
			} else {
				je := withSpecDecls(d, a, judgeEnv, true)
				specEnums[sp.Case] = je
				judgeEnv = je
			}
			reply, err := d.Call(map[string]any{"op": "c15.judge", "env": judgeEnv, "type": map[string]any{"k": "ref", "q": q}, "values": vals})
			if err != nil {
				return err
			}
			for i, ok := range reply["wellFormed"].([]any) {
				if !ok.(bool) {
					in["value"] = vals[i]
					r.Fail(rep.Failure{Signature: "c15:ill-formed-value", What: "a generated value is not well-formed (enum component outside the exported constants, nil union, empty container, or a skipped field that is not zero)", Input: in})
					break
				}
			}
			if reply["admitsMany"].(bool) && len(vals) >= 6 && len(distinct) < 2 {
				// k identical draws from a two-valued type happen once in 2^(k-1) types: before
				// calling it a failure, draw 200 more (a uniform two-valued generator then
				// shows one value with probability 2^-199)
				more, _ := gorun.RunRand(bin, sp.Case, tname, 200)
				for _, ln := range more {
					if ln.Val != nil {
						b, _ := json.Marshal(ln.Val)
						distinct[string(b)] = true
					}
				}
				r.Hist("variation-retried-with-200-calls")
			}
			if reply["admitsMany"].(bool) && len(vals) >= 6 && len(distinct) < 2 {
				r.Fail(rep.Failure{Signature: "c15:no-variation", What: fmt.Sprintf("%d calls returned the same value although the type admits several", len(vals)+200), Input: in})
			}
		}
	}
	return nil
}
