package main

import (
	"reflect"
	"fmt"
	"math/rand"
	"path"
	"regexp"
	"sort"
	"strings"

	"github.com/benoitkugler/gomacro/analysis"
	"github.com/benoitkugler/gomacro/generator/dart"

	"verifharness/internal/drv"
	"verifharness/internal/irdump"
	"verifharness/internal/load"
	"verifharness/internal/rep"
	"verifharness/internal/synth"
)

func init() { runners["C06"] = runC06 }

// mergeEnvs: the union of the analyses given to dart.Generate (sources in order, declarations by name)
func mergeEnvs(envs []*irdump.Env) *irdump.Env {
	out := &irdump.Env{PkgPath: envs[0].PkgPath, PkgName: envs[0].PkgName, Source: []*irdump.Ty{}, Decls: []*irdump.Decl{}, TypeKeys: []string{}, Conflicts: []irdump.Conflict{}}
	seen := map[string]bool{}
	for _, e := range envs {
		out.Source = append(out.Source, e.Source...)
		for _, d := range e.Decls {
			if !seen[d.Q] {
				seen[d.Q] = true
				out.Decls = append(out.Decls, d)
			}
		}
	}
	return out
}

type dartOut struct {
	imports string
	decls   map[string][]string // every declaration given under an ID (WriteDeclarations keeps one of them)
}

var dartImportRe = regexp.MustCompile(`import '([^']*)';`)

// c06Shape names the shape behind a known defect
func c06Shape(env *irdump.Env) string {
	for _, d := range env.Decls {
		if len(d.TArgs) > 0 {
			return ":generic-instantiation"
		}
	}
	title := func(s string) string { return strings.ToUpper(s[:1]) + s[1:] }
	pkgs := map[string]map[string]bool{}
	inPkg := map[string]int{}
	for _, d := range env.Decls {
		n := title(d.Name)
		if pkgs[n] == nil {
			pkgs[n] = map[string]bool{}
		}
		pkgs[n][d.PkgPath] = true
		inPkg[d.PkgPath+"."+n]++
	}
	for _, ps := range pkgs {
		if len(ps) > 1 {
			return ":same-name-in-two-packages"
		}
	}
	for _, n := range inPkg {
		if n > 1 {
			return ":names-differing-by-first-letter-case"
		}
	}
	return ""
}

var (
	dartKeyReadRe  = regexp.MustCompile(`json\['([^']*)'\]`)
	dartKeyWriteRe = regexp.MustCompile(`(?m)^\s*("(?:[^"\\]|\\.)*") :`)
	dartCaseRe     = regexp.MustCompile(`case ("(?:[^"\\]|\\.)*"):`)
	dartEnumRe     = regexp.MustCompile(`(?s)enum\s+\w+\s*\{(.*?)\}`)
	dartValuesRe   = regexp.MustCompile(`(?s)_values = \[(.*?)\];`)
	dartCtorRe     = regexp.MustCompile(`const \w+\(([^)]*)\);`)
)

var dartImplementsRe = regexp.MustCompile(`class \w+ implements ([^{]+)\{`)

// c06Oracle checks a real declaration against the Go side directly: keys, constructor
// arguments, union tags, enum tables ("" = fine).
func c06Oracle(env *irdump.Env, d *irdump.Decl, text string) string {
	byQ := map[string]*irdump.Decl{}
	for _, x := range env.Decls {
		byQ[x.Q] = x
	}
	list := func(s string) []string {
		out := []string{}
		for _, p := range strings.Split(s, ",") {
			if p = strings.TrimSpace(p); p != "" {
				out = append(out, p)
			}
		}
		return out
	}
	switch d.Kind {
	case "struct":
		var keys, quoted []string
		for _, f := range d.Fields {
			if f.Exported {
				keys = append(keys, f.JSONName)
				quoted = append(quoted, fmt.Sprintf("%q", f.JSONName))
			}
		}
		var read, written []string
		for _, m := range dartKeyReadRe.FindAllStringSubmatch(text, -1) {
			read = append(read, m[1])
		}
		for _, m := range dartKeyWriteRe.FindAllStringSubmatch(text, -1) {
			written = append(written, m[1])
		}
		if strings.Join(read, "\x00") != strings.Join(keys, "\x00") {
			return fmt.Sprintf("fromJson reads the keys %q, Go writes %q", read, keys)
		}
		if strings.Join(written, "\x00") != strings.Join(quoted, "\x00") {
			return fmt.Sprintf("toJson writes the keys %v, Go reads %v", written, quoted)
		}
		if m := dartCtorRe.FindStringSubmatch(text); m == nil || len(list(m[1])) != len(keys) {
			return fmt.Sprintf("constructor arguments do not match the %d exported fields", len(keys))
		}
		// the class implements exactly the unions the struct is a member of, each once
		var impl []string
		if m := dartImplementsRe.FindStringSubmatch(text); m != nil {
			impl = list(m[1])
		}
		want := map[string]bool{}
		for _, q := range d.Implements {
			if u := byQ[q]; u != nil && u.Name != "" {
				want[strings.ToUpper(u.Name[:1])+u.Name[1:]] = true
			}
		}
		seen := map[string]bool{}
		for _, n := range impl {
			if seen[n] {
				return fmt.Sprintf("the class implements %s twice: %v", n, impl)
			}
			seen[n] = true
			if !want[n] {
				return fmt.Sprintf("the class implements %s, which is not a union the struct is a member of (%v)", n, d.Implements)
			}
		}
		if len(seen) != len(want) {
			return fmt.Sprintf("the class implements %v, the struct is a member of %v", impl, d.Implements)
		}
	case "union":
		var tags []string
		for _, m := range d.UMembers {
			if md := byQ[m.Q]; md != nil {
				tags = append(tags, fmt.Sprintf("%q", md.Name))
			}
		}
		var cases []string
		for _, m := range dartCaseRe.FindAllStringSubmatch(text, -1) {
			cases = append(cases, m[1])
		}
		if strings.Join(cases, ",") != strings.Join(tags, ",") {
			return fmt.Sprintf("fromJson dispatches on %v, the Go members are %v", cases, tags)
		}
		if strings.Count(text, "'Kind': ") != len(tags) {
			return "toJson does not have one Kind branch per member"
		}
	case "enum":
		var vals []string
		n := 0
		for _, m := range d.Members {
			if m.Exported {
				n++
				vals = append(vals, m.ValStr)
			}
		}
		if m := dartEnumRe.FindStringSubmatch(text); m == nil || len(list(m[1])) != n {
			return fmt.Sprintf("the enum does not list the %d exported constants", n)
		}
		// the iota form converts by position (`values[i]` / `index`): the i-th listed constant has to
		// be the one whose Go value is i, or member <-> value is not the identity on the wire
		if strings.Contains(text, ".values[i]") {
			i := int64(0)
			for _, m := range d.Members {
				if !m.Exported {
					continue
				}
				if !m.IsInt || m.Int != i {
					return fmt.Sprintf("the enum converts by position, but its constant number %d is %s = %s", i, m.Name, m.ValStr)
				}
				i++
			}
		}
		if m := dartValuesRe.FindStringSubmatch(text); m != nil && strings.Join(list(m[1]), ",") != strings.Join(vals, ",") && !strings.Contains(strings.Join(vals, ","), ", ") {
			return fmt.Sprintf("the value table %v is not the list of exported values %v", list(m[1]), vals)
		}
	}
	return ""
}

func runC06(r *rep.Report, thorough bool) error {
	r.Rule = "synthesised packages (root package, sub-packages, standard library types; no pointer types), analysed from one source file and from two source files of the package: every output file of the real dart.Generate compared with the Lean model — same file set, same imports, same declaration IDs per file, every declaration token-wise (comments / layout aside); linking evaluated on the model, which agrees with the real text: every class, typedef and JSON helper a file uses is defined exactly once in the file and its imports, no file imports itself. non-trivial = generation with two output files or more besides predefined.dart"
	rng := rand.New(rand.NewSource(r.Seed))
	n := 60
	if thorough {
		n = 400
	}
	o := synth.DefaultOptions()
	o.Structs = 5
	cases := genCases(rng, n, "d", o)
	cases = append(cases, synth.HandWritten()...)
	cases = append(cases, synth.CaseOnlyNames()...)
	l, err := load.Cases(cases)
	if err != nil {
		return err
	}
	defer l.Close()
	d, err := drv.Start()
	if err != nil {
		return err
	}
	defer d.Close()
	root := l.Mod.Root
	_, cut, _ := strings.Cut(root, "go/src/")
	prefix := path.Dir(cut) + "/"
	for _, a := range analyseCases(l) {
		if a.Ana == nil || a.Env == nil || !supportedEnv(a.Env) {
			continue
		}
		configs := [][]*analysis.Analysis{{a.Ana}}
		envs := []*irdump.Env{a.Env}
		// a second source file of the same package, when the case has one
		if len(a.Case.Main.Files) > 1 {
			var a2 *analysis.Analysis
			f2 := strings.TrimSuffix(a.File, a.Case.Main.Files[0].Name) + a.Case.Main.Files[1].Name
			if guard(func() { a2 = analysis.NewAnalysisFromFile(a.Pkg, f2) }).Class == "ok" && a2 != nil {
				configs = append(configs, []*analysis.Analysis{a.Ana, a2})
				envs = append(envs, mergeEnvs([]*irdump.Env{a.Env, irdump.Dump(a2)}))
			}
		}
		for ci, cfg := range configs {
			env := envs[ci]
			in := map[string]any{"case": a.Case.ID, "sources": a.Case.Sources(), "analysed_files": len(cfg)}
			var outs []dart.Output
			out, site := guardSite(func() { outs = dart.Generate(root, cfg) })
			r.Hist("dart:" + out.Class)
			if out.Class != "ok" {
				if out.Class == "crash" {
					r.Fail(rep.Failure{Signature: "c06:panic:" + slug(firstWords(out.Msg, 5)), What: "dart.Generate panics: " + out.Msg + " at " + site, Input: in})
				}
				continue
			}
			real := map[string]*dartOut{}
			for _, o := range outs {
				do := &dartOut{decls: map[string][]string{}}
				for _, dc := range o.Content {
					switch dc.ID {
					case "aa_header":
					case "aa_imports":
						do.imports = dc.Content
					default:
						do.decls[dc.ID] = append(do.decls[dc.ID], dc.Content)
					}
				}
				real[o.Filename] = do
			}
			// what the Dart routines are compared with: the declarations of the SPECIFICATION model of
			// the analysis (computed from the go/types facts), when it has them — so that a field, a
			// member or a constant the analysis lost is missed in the Dart text as well
			specDecl := map[string]*irdump.Decl{}
			if m, err := callAnalyse(d, a); err == nil && m != nil && m.Env != nil {
				for _, md := range m.Env.Decls {
					// the key and the selection of each field, by the rules of encoding/json (C09)
					for i := range md.Fields {
						f := &md.Fields[i]
						tag := reflect.StructTag(f.Tag)
						name, _, _ := strings.Cut(tag.Get("json"), ",")
						f.JSONName = f.Name
						if name != "" {
							f.JSONName = name
						}
						f.Exported = f.GoExported && tag.Get("json") != "-" && tag.Get("gomacro") != "ignore"
					}
					specDecl[md.Q] = md
				}
			}
			for _, dd := range env.Decls {
				implDecl := dd
				if sd := specDecl[dd.Q]; sd != nil && sd.Kind == dd.Kind {
					dd = sd
				}
				fname := strings.ReplaceAll(strings.TrimPrefix(dd.PkgPath, prefix), "/", "_") + ".dart"
				ro := real[fname]
				if ro == nil || dd.Name == "" {
					continue
				}
				for _, txt := range ro.decls[strings.ToUpper(dd.Name[:1])+dd.Name[1:]] {
					msg := c06Oracle(env, dd, txt)
					// an enum converted by position lists its constants in the order the analysis hands
					// them over: that order too has to be the order of the values
					if msg == "" && dd.Kind == "enum" && implDecl != dd {
						msg = c06Oracle(env, implDecl, txt)
					}
					if msg != "" {
						r.Fail(rep.Failure{Signature: "c06:" + dd.Kind + "-routine-vs-go" + c06Shape(env), What: "Dart declaration of " + dd.Q + ": " + msg, Input: in, Observed: txt})
					}
				}
			}
			realImports := map[string][]string{}
			for fname, ro := range real {
				imps := []string{}
				for _, m := range dartImportRe.FindAllStringSubmatch(ro.imports, -1) {
					imps = append(imps, m[1])
				}
				realImports[fname] = imps
			}
			reply, err := d.Call(map[string]any{"op": "c06.gen", "env": env, "prefix": prefix, "imports": realImports})
			if err != nil {
				return err
			}
			files := reply["files"].([]any)
			r.Case(map[string]any{"case": a.Case.ID, "files": len(files), "analysed_files": len(cfg)}, len(files) > 2)
			seen := map[string]bool{}
			for _, f := range files {
				fm := f.(map[string]any)
				name := fm["name"].(string)
				seen[name] = true
				ro := real[name]
				if ro == nil {
					r.Disagree(rep.Disagreement{Tie: "c06.file-set", Input: in, Model: name, Impl: "file absent from the real output"})
					continue
				}
				var rimports []string
				for _, m := range dartImportRe.FindAllStringSubmatch(ro.imports, -1) {
					rimports = append(rimports, m[1])
				}
				mimports := strsOf(fm["imports"])
				sort.Strings(mimports)
				sort.Strings(rimports)
				if strings.Join(mimports, ",") != strings.Join(rimports, ",") {
					r.Disagree(rep.Disagreement{Tie: "c06.imports", Input: map[string]any{"case": a.Case.ID, "file": name, "sources": a.Case.Sources()}, Model: mimports, Impl: rimports})
				}
				for _, imp := range rimports {
					if imp == name {
						r.Fail(rep.Failure{Signature: "c06:file-imports-itself", What: name + " imports itself", Input: in})
					}
				}
				mdecls := map[string][]string{}
				for _, dd := range fm["decls"].([]any) {
					dm := dd.(map[string]any)
					mdecls[dm["id"].(string)] = append(mdecls[dm["id"].(string)], dm["text"].(string))
				}
				for id, txts := range ro.decls {
					mts, ok := mdecls[id]
					if !ok {
						r.Disagree(rep.Disagreement{Tie: "c06.declaration-set", Input: map[string]any{"case": a.Case.ID, "file": name, "sources": a.Case.Sources()}, Impl: id, Model: "declaration absent from the model"})
						continue
					}
					// the same candidates on both sides (as sets of token sequences)
					set := func(l []string) string {
						m := map[string]bool{}
						for _, t := range l {
							m[strings.Join(dartTokens(t), " ")] = true
						}
						var ks []string
						for k := range m {
							ks = append(ks, k)
						}
						sort.Strings(ks)
						return strings.Join(ks, "\n")
					}
					if set(txts) != set(mts) {
						r.Disagree(rep.Disagreement{Tie: "c06.declaration-text", Input: map[string]any{"case": a.Case.ID, "file": name, "id": id, "sources": a.Case.Sources()}, Model: mts, Impl: txts})
					}
				}
				for id := range mdecls {
					if _, ok := ro.decls[id]; !ok {
						r.Disagree(rep.Disagreement{Tie: "c06.declaration-set", Input: map[string]any{"case": a.Case.ID, "file": name, "sources": a.Case.Sources()}, Model: id, Impl: "declaration absent from the real output"})
					}
				}
				if cl := strsOf(fm["clashes"]); len(cl) > 0 {
					r.Fail(rep.Failure{Signature: "c06:two-declarations-one-id" + c06Shape(env), What: fmt.Sprintf("file %s holds, under one ID, declarations that are not interchangeable (one of them is dropped, which one depends on an unstable sort): %v", name, cl), Input: in})
				}
				if closed, _ := fm["closed"].(bool); closed {
					if cr, _ := fm["closedReal"].(bool); !cr {
						r.Fail(rep.Failure{Signature: "c06:symbol-not-resolved-with-the-real-imports" + c06Shape(env), What: fmt.Sprintf("file %s, with the imports the real generator gives it, uses symbols that do not resolve: %v", name, strsOf(fm["undefinedReal"])), Input: in})
					}
				}
				if closed, _ := fm["closed"].(bool); !closed {
					r.Fail(rep.Failure{Signature: "c06:symbol-not-resolved" + c06Shape(env), What: fmt.Sprintf("file %s: symbols that do not resolve (Dart scoping: the file's own declaration, else the only import declaring it) to the declaration meant for them, or are declared twice: %v (evaluated on the model, which agrees with the real declarations)", name, strsOf(fm["undefined"])), Input: in})
				}
			}
			for name := range real {
				if !seen[name] {
					r.Disagree(rep.Disagreement{Tie: "c06.file-set", Input: in, Impl: name, Model: "file absent from the model"})
				}
			}
		}
	}
	return nil
}

// dartTokens: the tokens of a Dart declaration, comments dropped, and the operand of every `throw`
// replaced by one placeholder: the wording of a diagnostic is no part of what C06 states.
func dartTokens(s string) []string {
	var out []string
	toks := jsTokensKeepSemi(s)
	for i := 0; i < len(toks); i++ {
		if toks[i] == ";" {
			continue
		}
		out = append(out, toks[i])
		if toks[i] == "throw" {
			for i+1 < len(toks) && toks[i+1] != ";" {
				i++
			}
			out = append(out, "<diagnostic>")
		}
	}
	return out
}
