// Command vh is the correspondence harness: it runs the real gomacro code (from /repo, via the
// module replace) and the Lean model driver on the same inputs and reports where they differ.
package main

import (
	"flag"
	"fmt"
	"os"
	"sort"
	"strconv"

	"verifharness/internal/rep"
)

type runner func(r *rep.Report, thorough bool) error

var runners = map[string]runner{}

func main() {
	if len(os.Args) < 2 {
		var names []string
		for k := range runners {
			names = append(names, k)
		}
		sort.Strings(names)
		fmt.Fprintln(os.Stderr, "usage: vh <runner> -out file [-tier quick|thorough] [-seed n]; runners:", names)
		os.Exit(2)
	}
	name := os.Args[1]
	if name == "c20child" {
		if err := c20Child(os.Args[2:]); err != nil {
			fmt.Fprintln(os.Stderr, "c20child error:", err)
			os.Exit(3)
		}
		return
	}
	if name == "preflight" {
		if err := preflightChild(); err != nil {
			fmt.Fprintln(os.Stderr, "preflight error:", err)
			os.Exit(3)
		}
		return
	}
	if name == "c07child" {
		if err := c07Child(os.Args[2:]); err != nil {
			fmt.Fprintln(os.Stderr, "c07child error:", err)
			os.Exit(3)
		}
		return
	}
	if name == "c18child" {
		if err := c18Child(os.Args[2:]); err != nil {
			fmt.Fprintln(os.Stderr, "c18child error:", err)
			os.Exit(3)
		}
		return
	}
	if name == "case" {
		if err := runCaseDebug(os.Args[2:]); err != nil {
			fmt.Fprintln(os.Stderr, err)
			os.Exit(3)
		}
		return
	}
	if name == "extract" {
		if err := runExtract(os.Args[2:]); err != nil {
			fmt.Fprintln(os.Stderr, "extract error:", err)
			os.Exit(3)
		}
		return
	}
	fs := flag.NewFlagSet(name, flag.ExitOnError)
	out := fs.String("out", "", "report file")
	tier := fs.String("tier", "quick", "quick|thorough")
	seed := fs.Int64("seed", envSeed(), "PRNG seed")
	fs.Parse(os.Args[2:])
	run, ok := runners[name]
	if !ok {
		fmt.Fprintln(os.Stderr, "unknown runner", name)
		os.Exit(2)
	}
	r := rep.New(name, *seed, *tier)
	if err := run(r, *tier == "thorough"); err != nil {
		fmt.Fprintln(os.Stderr, "harness error:", err)
		os.Exit(3)
	}
	if *out != "" {
		if err := r.Write(*out); err != nil {
			fmt.Fprintln(os.Stderr, err)
			os.Exit(3)
		}
	}
	fmt.Printf("%s: evaluations=%d distinct=%d failures=%d disagreements=%d\n", name, r.Evaluations, r.Distinct, len(r.Failures), len(r.Disagreements))
}

func envSeed() int64 {
	if s := os.Getenv("VERIF_SEED"); s != "" {
		if n, err := strconv.ParseInt(s, 10, 64); err == nil {
			return n
		}
	}
	return 1
}
