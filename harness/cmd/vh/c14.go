package main

import (
	"encoding/json"
	"fmt"
	"io"
	"log"
	"math/rand"
	"os"
	"os/exec"
	"path/filepath"
	"reflect"
	"regexp"
	"sort"
	"strings"

	an "github.com/benoitkugler/gomacro/analysis"
	"github.com/benoitkugler/gomacro/analysis/httpapi"
	"github.com/benoitkugler/gomacro/generator/typescript"

	"verifharness/internal/drv"
	"verifharness/internal/irdump"
	"verifharness/internal/load"
	"verifharness/internal/rep"
	"verifharness/internal/routes"
	"verifharness/internal/synth"
)

func init() { runners["C14"] = runC14 }

// jsTokens: token sequence of a TypeScript / JavaScript fragment: strings are scanned first (a
// "//" inside a string is not a comment), line comments and semicolons are dropped.
func jsTokens(s string) []string {
	var out []string
	for _, t := range jsTokensKeepSemi(s) {
		if t != ";" {
			out = append(out, t)
		}
	}
	return out
}

// jsTokensKeepSemi: the same, semicolons kept as tokens
func jsTokensKeepSemi(s string) []string {
	var out []string
	i := 0
	isId := func(c byte) bool {
		return c == '_' || c == '$' || c >= 'a' && c <= 'z' || c >= 'A' && c <= 'Z' || c >= '0' && c <= '9' || c >= 0x80
	}
	for i < len(s) {
		c := s[i]
		switch {
		case c == ' ' || c == '\t' || c == '\n' || c == '\r':
			i++
		case c == '"' || c == '\'':
			j := i + 1
			for j < len(s) && s[j] != c {
				if s[j] == '\\' {
					j++
				}
				j++
			}
			if j >= len(s) {
				j = len(s) - 1
			}
			out = append(out, s[i:j+1])
			i = j + 1
		case c == '/' && i+1 < len(s) && s[i+1] == '/':
			for i < len(s) && s[i] != '\n' {
				i++
			}
		case isId(c):
			j := i
			for j < len(s) && isId(s[j]) {
				j++
			}
			out = append(out, s[i:j])
			i = j
		default:
			out = append(out, string(c))
			i++
		}
	}
	return out
}

// canonLocals renames the block-scoped locals (const / let / var) of a method to $v1, $v2, … in
// the order they are declared: the name of a generated local is no part of what C14 states.
// Property names (after a dot) and object keys (before a colon inside a literal) are left alone.
func canonLocals(toks []string) []string {
	names := map[string]string{}
	out := append([]string(nil), toks...)
	isIdent := func(t string) bool {
		return t != "" && (t[0] == '_' || t[0] == '$' || t[0] >= 'a' && t[0] <= 'z' || t[0] >= 'A' && t[0] <= 'Z')
	}
	for i, t := range toks {
		if (t == "const" || t == "let" || t == "var") && i+1 < len(toks) && isIdent(toks[i+1]) {
			if _, ok := names[toks[i+1]]; !ok {
				names[toks[i+1]] = fmt.Sprintf("$v%d", len(names)+1)
			}
		}
	}
	for i, t := range toks {
		c, ok := names[t]
		if !ok {
			continue
		}
		if i > 0 && toks[i-1] == "." {
			continue
		}
		declared := i > 0 && (toks[i-1] == "const" || toks[i-1] == "let" || toks[i-1] == "var")
		if !declared && i+1 < len(toks) && toks[i+1] == ":" && i > 0 && (toks[i-1] == "{" || toks[i-1] == ",") {
			continue
		}
		out[i] = c
	}
	return out
}

func sameMethodTokens(a, b string) bool {
	return strings.Join(canonLocals(jsTokens(a)), " ") == strings.Join(canonLocals(jsTokens(b)), " ")
}

func sameTokens(a, b string) bool { return strings.Join(jsTokens(a), " ") == strings.Join(jsTokens(b), " ") }

// ---- endpoints as data for the model ----

type c14Param struct {
	Name string     `json:"name"`
	Ty   *irdump.Ty `json:"ty"`
	kind string
}

type c14Endpoint struct {
	URL        string     `json:"url"`
	Method     string     `json:"method"`
	Name       string     `json:"name"`
	Input      *irdump.Ty `json:"input"`
	Ret        *irdump.Ty `json:"ret"`
	Blob       bool       `json:"blob"`
	FormFile   string     `json:"formFile"`
	FormValues []string   `json:"formValues"`
	FormJSON   *c14Param  `json:"formJSON"`
	Query      []c14Param `json:"query"`
}

func (e *c14Endpoint) withForm() bool { return e.FormFile != "" || len(e.FormValues) > 0 || e.FormJSON != nil }

func queryKind(t an.Type) string {
	var b *an.Basic
	var kind an.BasicKind
	switch t := t.(type) {
	case *an.Basic:
		b = t
	case *an.Named:
		b, _ = t.Underlying.(*an.Basic)
	case *an.Enum:
		kind = t.Kind()
	}
	if b != nil {
		kind = b.Kind()
	} else if _, isEnum := t.(*an.Enum); !isEnum {
		return "other"
	}
	switch kind {
	case an.BKInt:
		return "int"
	case an.BKFloat:
		return "float"
	case an.BKBool:
		return "bool"
	case an.BKString:
		return "string"
	}
	return "other"
}

func c14Endpoints(eps []httpapi.Endpoint, pkgPath, pkgName string) ([]c14Endpoint, *irdump.Env) {
	r := irdump.NewRoots(pkgPath, pkgName)
	var out []c14Endpoint
	for _, e := range eps {
		c := c14Endpoint{URL: e.Url, Method: e.Method, Name: e.Contract.Name, Input: r.Ty(e.Contract.InputBody), Ret: r.Ty(e.Contract.Return),
			Blob: e.Contract.IsReturnBlob, FormFile: e.Contract.InputForm.File, FormValues: append([]string{}, e.Contract.InputForm.ValueNames...), Query: []c14Param{}}
		if j := e.Contract.InputForm.JSON; j.Name != "" {
			c.FormJSON = &c14Param{Name: j.Name, Ty: r.Ty(j.Type)}
		}
		for _, q := range e.Contract.InputQueryParams {
			c.Query = append(c.Query, c14Param{Name: q.Name, Ty: r.Ty(q.Type), kind: queryKind(q.Type)})
		}
		out = append(out, c)
	}
	return out, r.Env()
}

func realAxios(eps []httpapi.Endpoint) (text string, crash string) {
	defer func() {
		if r := recover(); r != nil {
			crash = fmt.Sprint(r)
		}
	}()
	return typescript.GenerateAxios(eps), ""
}

// ---- splitting the generated text ----

var methodHeadRe = regexp.MustCompile(`/\*\* (\S+) performs the request and handles the error \*/`)

const axiosFrameHead = `
	// Code generated by gomacro/typescript/axios_api.go. DO NOT EDIT
	import type { AxiosResponse } from "axios";
	import Axios from "axios";
`

const axiosFrameClass = `
	/** AbstractAPI provides auto-generated API calls and should be used
		as base class for an app controller.
	*/
	export abstract class AbstractAPI {
		constructor(protected baseUrl: string, protected authToken: string) {}

		abstract protected handleError(error: any): void

		abstract protected startRequest(): void

		getHeaders() {
			return { Authorization: "Bearer " + this.authToken }
		}
`

type axiosParts struct {
	types   string
	methods []string // text of each method, in order
	names   []string
	frameOK bool
}

func splitAxios(text string) (axiosParts, error) {
	var p axiosParts
	i := strings.Index(text, `import Axios from "axios";`)
	j := strings.Index(text, "/** AbstractAPI provides")
	if i < 0 || j < 0 {
		return p, fmt.Errorf("frame not found")
	}
	head := text[:i+len(`import Axios from "axios";`)]
	p.types = text[i+len(`import Axios from "axios";`) : j]
	rest := text[j:]
	locs := methodHeadRe.FindAllStringSubmatchIndex(rest, -1)
	classEnd := strings.LastIndex(rest, "}")
	if classEnd < 0 {
		return p, fmt.Errorf("class end not found")
	}
	frame := rest[:classEnd]
	if len(locs) > 0 {
		frame = rest[:locs[0][0]]
	}
	p.frameOK = sameTokens(head, axiosFrameHead) && sameTokens(frame, axiosFrameClass)
	for k, l := range locs {
		end := classEnd
		if k+1 < len(locs) {
			end = locs[k+1][0]
		}
		p.methods = append(p.methods, rest[l[0]:end])
		p.names = append(p.names, rest[l[2]:l[3]])
	}
	return p, nil
}

// paramNames: the parameter names of `async name(<params>)` (type annotations skipped by bracket depth)
func paramNames(method string) (names []string, open, close int, err error) {
	k := strings.Index(method, "async ")
	if k < 0 {
		return nil, 0, 0, fmt.Errorf("no async")
	}
	open = k + strings.Index(method[k:], "(")
	depth := 0
	start := open + 1
	var chunks []string
	for i := open; i < len(method); i++ {
		c := method[i]
		switch {
		case c == '"':
			for i++; i < len(method) && method[i] != '"'; i++ {
				if method[i] == '\\' {
					i++
				}
			}
		case c == '(' || c == '{' || c == '[' || c == '<':
			depth++
		case c == ')' || c == '}' || c == ']' || c == '>':
			depth--
			if depth == 0 {
				chunks = append(chunks, method[start:i])
				close = i
				for _, ch := range chunks {
					if n := strings.TrimSpace(strings.SplitN(ch, ":", 2)[0]); n != "" {
						names = append(names, n)
					}
				}
				return names, open, close, nil
			}
		case c == ',' && depth == 1:
			chunks = append(chunks, method[start:i])
			start = i + 1
		}
	}
	return nil, 0, 0, fmt.Errorf("unbalanced parameter list")
}

// the annotated local holding the response (whatever its name and the spacing)
var repAnnotRe = regexp.MustCompile(`(const|let|var)\s+(\w+)\s*:\s*AxiosResponse<.*>\s*=\s*`)

// toJS strips the type annotations of one generated method.
func toJS(method string) (string, []string, error) {
	names, open, close, err := paramNames(method)
	if err != nil {
		return "", nil, err
	}
	js := method[:open+1] + strings.Join(names, ", ") + method[close:]
	return repAnnotRe.ReplaceAllString(js, "$1 $2 = "), names, nil
}

const nodeRunner = `
const fs = require("fs");
class FormData { constructor(){ this.e = [] } append(k, v, fn){ this.e.push(fn === undefined ? [k, v] : [k, v, fn]) } }
function ser(v) {
  if (v === undefined) return {"$undefined": true};
  if (v === null) return null;
  if (v instanceof FormData) return {"$form": v.e.map(x => x.map(ser))};
  if (Array.isArray(v)) return v.map(ser);
  if (typeof v === "object") { const o = {"$entries": []}; for (const k of Object.keys(v)) o["$entries"].push([k, ser(v[k])]); return o; }
  return v;
}
let last = null;
function rec(verb, a) {
  last = {verb: verb, nargs: a.length, args: a.map(ser)};
  return Promise.resolve({data: "PAYLOAD", headers: {"content-disposition": "attachment; filename=f%20x.bin"}});
}
const Axios = { get(...a){ return rec("get", a) }, delete(...a){ return rec("delete", a) }, post(...a){ return rec("post", a) }, put(...a){ return rec("put", a) } };
class API {
  constructor(baseUrl, authToken) { this.baseUrl = baseUrl; this.authToken = authToken; this.started = 0 }
  getHeaders() { return { Authorization: "Bearer " + this.authToken } }
  handleError(error) { throw error }
  startRequest() { this.started++ }
  //METHODS
}
(async () => {
  const calls = JSON.parse(fs.readFileSync(process.argv[2], "utf8"));
  const out = [];
  for (const c of calls) {
    const api = new API("http://base", "TOKEN");
    last = null;
    const r = {};
    try {
      r.result = ser(await api[c.name](...c.args));
    } catch (e) {
      r.error = String(e && e.name ? e.name + ": " + e.message : e);
    }
    r.call = last; r.started = api.started;
    out.push(r);
  }
  process.stdout.write(JSON.stringify(out));
})();
`

// ---- argument sets ----

func c14Args(rng *rand.Rand, e *c14Endpoint) map[string]any {
	a := map[string]any{}
	q := map[string]any{}
	for _, p := range e.Query {
		switch p.kind {
		case "int":
			q[p.Name] = []any{42, -7, 0}[rng.Intn(3)]
		case "float":
			q[p.Name] = []any{1.5, 42}[rng.Intn(2)]
		case "bool":
			q[p.Name] = rng.Intn(2) == 0
		default:
			q[p.Name] = []any{"s v&é", "", "x"}[rng.Intn(3)]
		}
	}
	if e.Input != nil {
		a["params"] = map[string]any{"k": []any{1, "two"}, "n": nil}
	} else if len(e.Query) > 0 {
		a["params"] = q
	}
	if len(e.FormValues) > 0 {
		fp := map[string]any{}
		for _, v := range e.FormValues {
			fp[v] = "val " + v
		}
		a["formParams"] = fp
	}
	if e.FormFile != "" {
		a["file"] = map[string]any{"name": "f.bin"}
	}
	if e.FormJSON != nil {
		a["formValue"] = map[string]any{"j": []any{true, 3}}
	}
	return a
}

// ---- requests, at call level ----

type c14Req struct {
	Verb        string   `json:"verb"`
	URL         string   `json:"url"`
	Body        any      `json:"body"` // {"k": absent|null|json|form, ...}
	Query       [][2]any `json:"query"` // nil = no params entry
	Arraybuffer bool     `json:"arraybuffer"`
	Result      string   `json:"result"`
	Error       string   `json:"error,omitempty"`
}

// unser maps the runner's serialisation to plain JSON values (objects by sorted keys are fine
// for bodies; query objects keep their order through entriesOf).
func unser(v any) any {
	switch x := v.(type) {
	case map[string]any:
		if _, ok := x["$undefined"]; ok {
			return nil
		}
		if es, ok := x["$entries"]; ok {
			o := map[string]any{}
			for _, e := range es.([]any) {
				kv := e.([]any)
				o[kv[0].(string)] = unser(kv[1])
			}
			return o
		}
		if n, ok := x["$num"]; ok { // the model's numbers
			var f any
			json.Unmarshal([]byte(n.(string)), &f)
			return f
		}
		o := map[string]any{}
		for k, e := range x {
			o[k] = unser(e)
		}
		return o
	case []any:
		o := make([]any, len(x))
		for i, e := range x {
			o[i] = unser(e)
		}
		return o
	}
	return v
}

func entriesOf(v any) [][2]any {
	m, ok := v.(map[string]any)
	if !ok {
		return nil
	}
	es, ok := m["$entries"].([]any)
	if !ok {
		return nil
	}
	out := [][2]any{}
	for _, e := range es {
		kv := e.([]any)
		out = append(out, [2]any{kv[0], unser(kv[1])})
	}
	return out
}

func lookupEntry(v any, k string) any {
	for _, e := range entriesOf(v) {
		if e[0] == k {
			return e[1]
		}
	}
	return nil
}

func hasEntry(v any, k string) bool {
	m, _ := v.(map[string]any)
	es, _ := m["$entries"].([]any)
	for _, e := range es {
		if e.([]any)[0] == k {
			return true
		}
	}
	return false
}

// formEntries normalises a recorded FormData: [key, kind, value]
func formEntries(v any, e *c14Endpoint) []any {
	m, _ := v.(map[string]any)
	es, _ := m["$form"].([]any)
	out := []any{}
	for _, x := range es {
		t := x.([]any)
		k, _ := t[0].(string)
		switch {
		case len(t) == 3:
			out = append(out, []any{k, "file", unser(t[1])})
		case e.FormJSON != nil && k == e.FormJSON.Name && !hasStr(e.FormValues, k):
			var j any
			if s, ok := t[1].(string); ok {
				json.Unmarshal([]byte(s), &j)
			}
			out = append(out, []any{k, "json", j})
		default:
			out = append(out, []any{k, "text", unser(t[1])})
		}
	}
	return out
}

func hasStr(l []string, s string) bool {
	for _, x := range l {
		if x == s {
			return true
		}
	}
	return false
}

// callLevel reads a recorded call the way the generator lays it out: (url, config) or (url, body, config)
func callLevel(r map[string]any, e *c14Endpoint) c14Req {
	out := c14Req{}
	if s, ok := r["error"].(string); ok {
		out.Error = s
		return out
	}
	call, _ := r["call"].(map[string]any)
	if call == nil {
		out.Error = "no axios call"
		return out
	}
	out.Verb, _ = call["verb"].(string)
	args := call["args"].([]any)
	out.URL, _ = args[0].(string)
	var cfg any
	if len(args) == 3 {
		cfg = args[2]
		switch b := args[1].(type) {
		case nil:
			out.Body = map[string]any{"k": "null"}
		case map[string]any:
			if _, ok := b["$form"]; ok {
				out.Body = map[string]any{"k": "form", "entries": formEntries(b, e)}
			} else {
				out.Body = map[string]any{"k": "json", "v": unser(b)}
			}
		default:
			out.Body = map[string]any{"k": "json", "v": unser(b)}
		}
	} else {
		out.Body = map[string]any{"k": "absent"}
		if len(args) > 1 {
			cfg = args[1]
		}
	}
	if hasEntry(cfg, "params") {
		m := cfg.(map[string]any)
		for _, en := range m["$entries"].([]any) {
			if en.([]any)[0] == "params" {
				out.Query = entriesOf(en.([]any)[1])
			}
		}
	}
	out.Arraybuffer = lookupEntry(cfg, "responseType") == "arraybuffer"
	switch res := unser(r["result"]).(type) {
	case bool:
		out.Result = "true"
	case string:
		out.Result = "data"
	case map[string]any:
		if res["filename"] == "f x.bin" && res["blob"] == "PAYLOAD" {
			out.Result = "blob"
		} else {
			out.Result = "?"
		}
	default:
		out.Result = "?"
	}
	return out
}

func modelReq(m map[string]any) c14Req {
	if m["panic"] == true {
		return c14Req{Error: "panic"}
	}
	if m["undeclared"] == true {
		return c14Req{Error: "ReferenceError"}
	}
	out := c14Req{Verb: m["verb"].(string), URL: m["url"].(string), Arraybuffer: m["arraybuffer"].(bool), Result: m["result"].(string)}
	b := m["body"].(map[string]any)
	switch b["k"] {
	case "json":
		out.Body = map[string]any{"k": "json", "v": unser(b["v"])}
	case "form":
		es := []any{}
		for _, e := range b["entries"].([]any) {
			em := e.(map[string]any)
			es = append(es, []any{em["key"], em["kind"], unser(em["value"])})
		}
		out.Body = map[string]any{"k": "form", "entries": es}
	default:
		out.Body = map[string]any{"k": b["k"]}
	}
	if q, ok := m["query"].([]any); ok {
		out.Query = [][2]any{}
		for _, e := range q {
			em := e.(map[string]any)
			out.Query = append(out.Query, [2]any{em["name"], unser(em["value"])})
		}
	}
	return out
}

func canon(v any) string {
	b, _ := json.Marshal(v)
	var x any
	json.Unmarshal(b, &x)
	b, _ = json.Marshal(x)
	return string(b)
}

func sameReq(a, b c14Req) bool {
	if a.Error != "" || b.Error != "" {
		return strings.HasPrefix(a.Error, "ReferenceError") == strings.HasPrefix(b.Error, "ReferenceError") && (a.Error != "") == (b.Error != "")
	}
	return canon(a) == canon(b)
}

// oracle: the request the endpoint's contract asks for, given the arguments
func oracleReq(e *c14Endpoint, args map[string]any, queryArgs map[string]any) c14Req {
	out := c14Req{Verb: strings.ToLower(e.Method), URL: "http://base" + e.URL, Arraybuffer: e.Blob}
	switch {
	case e.Input != nil:
		out.Body = map[string]any{"k": "json", "v": args["params"]}
	case e.withForm():
		es := []any{}
		if e.FormFile != "" {
			es = append(es, []any{e.FormFile, "file", args["file"]})
		}
		for _, v := range e.FormValues {
			es = append(es, []any{v, "text", args["formParams"].(map[string]any)[v]})
		}
		if e.FormJSON != nil {
			es = append(es, []any{e.FormJSON.Name, "json", args["formValue"]})
		}
		out.Body = map[string]any{"k": "form", "entries": es}
	case e.Method == "POST" || e.Method == "PUT":
		out.Body = map[string]any{"k": "null"}
	default:
		out.Body = map[string]any{"k": "absent"}
	}
	if len(e.Query) > 0 {
		out.Query = [][2]any{}
		for _, p := range e.Query {
			v := queryArgs[p.Name]
			var s any
			switch p.kind {
			case "int", "float":
				s = strings.TrimSuffix(fmt.Sprint(v), ".0")
			case "bool":
				s = ""
				if v == true {
					s = "ok"
				}
			default:
				s = v
			}
			out.Query = append(out.Query, [2]any{p.Name, s})
		}
	}
	switch {
	case e.Ret == nil:
		out.Result = "true"
	case e.Blob:
		out.Result = "blob"
	default:
		out.Result = "data"
	}
	return out
}

// axiosLevel re-reads a recorded call with the real axios API: get / delete take (url, config)
func axiosLevel(r map[string]any, e *c14Endpoint, cl c14Req) c14Req {
	call, _ := r["call"].(map[string]any)
	if cl.Error != "" || call == nil {
		return cl
	}
	args := call["args"].([]any)
	if (cl.Verb == "get" || cl.Verb == "delete") && len(args) == 3 {
		// the "body" is taken for the config, the config is ignored
		out := c14Req{Verb: cl.Verb, URL: cl.URL, Body: map[string]any{"k": "absent"}, Result: cl.Result}
		if hasEntry(args[1], "params") {
			out.Query = [][2]any{{"<the body read as the config>", nil}}
		}
		return out
	}
	return cl
}

// c14Shapes: the endpoint shapes with a known defect, the one that shows first in front
func c14Shapes(e *c14Endpoint, dup map[string]bool) []string {
	var out []string
	if dup[e.Name] {
		out = append(out, "same-handler-name-on-two-endpoints")
	}
	if e.Input != nil && e.withForm() {
		out = append(out, "json-body-with-form-data")
	}
	if e.Input != nil && len(e.Query) > 0 {
		out = append(out, "json-body-with-query-parameters")
	}
	if (e.Input != nil || e.withForm()) && (e.Method == "GET" || e.Method == "DELETE") {
		out = append(out, "body-on-get-or-delete")
	}
	return out
}

func runC14(r *rep.Report, thorough bool) error {
	r.Rule = "endpoint lists extracted by the real ParseEcho from synthesised route files (all verbs; JSON body, form data with file / values / JSON field, query parameters of every basic kind and of named types, blob / JSON / no return) through the real GenerateAxios: (1) frame, every method and the type section compared token-wise with the Lean model's text; (2) the real methods, type annotations stripped, run under Node against a recording stand-in for axios with generated arguments: the recorded call vs the Lean request semantics (correspondence) and vs the request the contract asks for under the axios API (failure); (3) named types mentioned by the signatures are declared in the file. non-trivial = endpoint with a body, form data or query parameters"
	log.SetOutput(io.Discard)
	rng := rand.New(rand.NewSource(r.Seed))
	n := 100
	if thorough {
		n = 400
	}
	var tables []*routes.Table
	var cases []*synth.Case
	for i := 0; i < n; i++ {
		t := routes.NewWith(rng, fmt.Sprintf("x%04d", i), i%8 == 7)
		tables = append(tables, t)
		cases = append(cases, t.Case)
	}
	l, err := load.Cases(cases)
	if err != nil {
		return err
	}
	defer l.Close()
	d, err := drv.Start()
	if err != nil {
		return err
	}
	defer d.Close()
	work, err := os.MkdirTemp("", "vh-c14-")
	if err != nil {
		return err
	}
	defer os.RemoveAll(work)
	for _, t := range tables {
		pkg := l.Pkgs[t.Case.ID]
		if pkg == nil {
			r.Disagree(rep.Disagreement{Tie: "c14.synthesised-file-ill-typed", Input: map[string]any{"case": t.Case.ID, "errors": l.Bad[t.Case.ID]}})
			continue
		}
		var eps []httpapi.Endpoint
		func() {
			defer func() { recover() }()
			eps = httpapi.ParseEcho(pkg, l.Mod.MainFile(t.Case), "")
		}()
		if len(eps) == 0 {
			r.Hist("no-endpoint")
			continue
		}
		ceps, env := c14Endpoints(eps, pkg.PkgPath, pkg.Name)
		in := map[string]any{"case": t.Case.ID, "sources": t.Case.Sources()}
		// the contract handed to the generator carries a type in every slot the registered handler
		// fills (body, JSON / blob return, JSON form field, query parameters): a slot without its
		// type makes the client drop the body, the payload or the declaration
		lost := ""
		if len(eps) == len(t.Routes) {
			for i, e := range eps {
				h := t.Routes[i].Handler
				for _, it := range h.Items() {
					if it.K == "bind" && e.Contract.InputBody == nil {
						lost = fmt.Sprintf("endpoint %d (%s): the handler binds a %s body, the contract has no input type", i, e.Contract.Name, it.Ty)
					}
				}
				if h.Ret.K == "json" && e.Contract.Return == nil {
					lost = fmt.Sprintf("endpoint %d (%s): the handler returns JSON of type %s, the contract has no return type", i, e.Contract.Name, h.Ret.Ty)
				}
			}
		}
		for i := range ceps {
			if ceps[i].FormJSON != nil && ceps[i].FormJSON.Ty == nil {
				lost = fmt.Sprintf("endpoint %d (%s): the JSON form field %s has no type", i, ceps[i].Name, ceps[i].FormJSON.Name)
			}
			for _, q := range ceps[i].Query {
				if q.Ty == nil {
					lost = fmt.Sprintf("endpoint %d (%s): the query parameter %s has no type", i, ceps[i].Name, q.Name)
				}
			}
		}
		if lost != "" {
			r.Case(map[string]any{"case": t.Case.ID, "endpoints": len(ceps), "lost": lost}, true)
			r.Fail(rep.Failure{Signature: "c14:contract-slot-without-its-type", What: "the endpoint list given to GenerateAxios lost a type: " + lost, Input: in})
			continue
		}
		reply, err := d.Call(map[string]any{"op": "c14.gen", "env": env, "endpoints": ceps})
		if err != nil {
			return err
		}
		mm := reply["methods"].([]any)
		modelPanics := false
		for _, m := range mm {
			if m.(map[string]any)["panic"] == true {
				modelPanics = true
			}
		}
		text, crash := realAxios(eps)
		if crash != "" {
			sig := "c14:panic:" + slug(firstWords(crash, 5))
			r.Case(map[string]any{"case": t.Case.ID, "endpoints": len(ceps), "crash": crash}, true)
			r.Fail(rep.Failure{Signature: sig, What: "GenerateAxios panics on an extracted endpoint list: " + crash, Input: in})
			if !modelPanics {
				r.Disagree(rep.Disagreement{Tie: "c14.model-vs-generateaxios(panic)", Input: in, Impl: crash})
			}
			continue
		}
		if modelPanics {
			r.Disagree(rep.Disagreement{Tie: "c14.model-vs-generateaxios(model panics)", Input: in})
			continue
		}
		parts, err := splitAxios(text)
		if err != nil || len(parts.methods) != len(ceps) {
			r.Fail(rep.Failure{Signature: "c14:method-count", What: fmt.Sprintf("%d methods for %d endpoints (%v)", len(parts.methods), len(ceps), err), Input: in, Observed: text})
			continue
		}
		if !parts.frameOK {
			r.Disagree(rep.Disagreement{Tie: "c14.client-frame-text", Input: in, Impl: text})
		}
		if !sameTokens(parts.types, reply["types"].(string)) {
			r.Disagree(rep.Disagreement{Tie: "c14.type-section-text", Input: in, Model: reply["types"], Impl: parts.types})
		}
		// the real text: every named type a signature mentions is declared in the type section
		{
			declared := map[string]bool{}
			for _, m := range tsDeclNameRe.FindAllStringSubmatch(parts.types, -1) {
				declared[m[1]] = true
			}
			builtin := map[string]bool{"File": true, "Blob": true, "Record": true, "AxiosResponse": true, "FormData": true, "Promise": true}
			undeclared := map[string]bool{}
			for _, mth := range parts.methods {
				if _, open, close, err := paramNames(mth); err == nil {
					sig := mth[open : close+1]
					// names in type position: after a colon, inside brackets — skip the quoted keys
					sig = regexp.MustCompile(`"(?:[^"\\]|\\.)*"`).ReplaceAllString(sig, "")
					for _, id := range regexp.MustCompile(`\b[A-Z][A-Za-z0-9_]*\b`).FindAllString(sig, -1) {
						if !builtin[id] && !declared[id] {
							undeclared[id] = true
						}
					}
				}
			}
			if len(undeclared) > 0 {
				var ns []string
				for n := range undeclared {
					ns = append(ns, n)
				}
				sort.Strings(ns)
				r.Fail(rep.Failure{Signature: "c14:type-mentioned-by-a-signature-not-declared", What: "the generated file mentions, in method signatures, types it does not declare: " + strings.Join(ns, ", "), Input: in, Observed: parts.types})
			}
		}
		if missing := strsOf(reply["missing"]); len(missing) > 0 {
			sort.Strings(missing)
			kinds := map[string]bool{}
			for _, e := range ceps {
				for _, q := range e.Query {
					if q.Ty != nil && q.Ty.K == "ref" && hasStr(missing, q.Ty.Q) {
						kinds["query-parameter-type"] = true
					}
				}
				if e.FormJSON != nil {
					kinds["json-form-field-type"] = true
				}
			}
			var ks []string
			for k := range kinds {
				ks = append(ks, k)
			}
			sort.Strings(ks)
			r.Fail(rep.Failure{Signature: "c14:type-not-declared:" + strings.Join(ks, "+"), What: "the signatures mention named types the file does not declare: " + strings.Join(missing, ", "), Input: in})
		}
		// handlers of the same name (List of two controllers) give two methods of one name
		dup := map[string]bool{}
		{
			cnt := map[string]int{}
			for _, e := range ceps {
				cnt[e.Name]++
			}
			for n, c := range cnt {
				if c > 1 {
					dup[n] = true
				}
			}
		}
		if len(dup) > 0 {
			var ns []string
			for n := range dup {
				ns = append(ns, n)
			}
			sort.Strings(ns)
			r.Fail(rep.Failure{Signature: "c14:wrong-request:same-handler-name-on-two-endpoints", What: "the client class declares several methods named " + strings.Join(ns, ", ") + ": the last one replaces the others", Input: in})
		}
		// the methods: text tie, then execution
		var js []string
		var calls []map[string]any
		type pending struct {
			e         *c14Endpoint
			args      map[string]any
			queryArgs map[string]any
		}
		var pend []pending
		for i := range ceps {
			e := &ceps[i]
			m := mm[i].(map[string]any)
			nontrivial := e.Input != nil || e.withForm() || len(e.Query) > 0
			r.Case(map[string]any{"case": t.Case.ID, "endpoint": e.Name, "verb": e.Method, "shapes": c14Shapes(e, dup)}, nontrivial)
			r.Hist("verb:" + e.Method)
			if parts.names[i] != e.Name {
				r.Fail(rep.Failure{Signature: "c14:method-name", What: "method " + parts.names[i] + " for handler " + e.Name, Input: in})
			}
			if !sameMethodTokens(parts.methods[i], m["text"].(string)) {
				r.Disagree(rep.Disagreement{Tie: "c14.method-text", Input: map[string]any{"case": t.Case.ID, "endpoint": e}, Model: m["text"], Impl: parts.methods[i]})
			}
			code, names, err := toJS(parts.methods[i])
			if err != nil {
				r.Fail(rep.Failure{Signature: "c14:unparsable-method", What: err.Error(), Input: in, Observed: parts.methods[i]})
				continue
			}
			if !reflect.DeepEqual(names, strsOf(m["sig"])) && !(len(names) == 0 && len(strsOf(m["sig"])) == 0) {
				r.Disagree(rep.Disagreement{Tie: "c14.method-signature", Input: map[string]any{"case": t.Case.ID, "endpoint": e}, Model: m["sig"], Impl: names})
			}
			// run every method under a name of its own (two methods of one name: recorded below)
			uniq := fmt.Sprintf("%s__%d", e.Name, i)
			code = strings.Replace(code, "async "+e.Name+"(", "async "+uniq+"(", 1)
			js = append(js, code)
			for k := 0; k < 2; k++ {
				args := c14Args(rng, e)
				qa, _ := args["params"].(map[string]any)
				if e.Input != nil {
					qa = map[string]any{}
				}
				pos := []any{}
				for _, nme := range names {
					pos = append(pos, args[nme])
				}
				calls = append(calls, map[string]any{"name": uniq, "args": pos})
				pend = append(pend, pending{e, args, qa})
			}
		}
		script := strings.Replace(nodeRunner, "//METHODS", strings.Join(js, "\n"), 1)
		sp := filepath.Join(work, t.Case.ID+".js")
		cp := filepath.Join(work, t.Case.ID+".json")
		cb, _ := json.Marshal(calls)
		os.WriteFile(sp, []byte(script), 0o644)
		os.WriteFile(cp, cb, 0o644)
		outb, err := exec.Command("node", sp, cp).CombinedOutput()
		var recs []map[string]any
		if err != nil || json.Unmarshal(outb, &recs) != nil || len(recs) != len(pend) {
			r.Fail(rep.Failure{Signature: "c14:not-valid-javascript", What: "the generated methods (type annotations stripped) do not load under Node: " + firstWords(string(outb), 40), Input: in, Observed: text})
			continue
		}
		var mcalls []map[string]any
		for _, p := range pend {
			mcalls = append(mcalls, map[string]any{"endpoint": p.e, "args": p.args})
		}
		preply, err := d.Call(map[string]any{"op": "c14.perform", "env": env, "base": "http://base", "calls": mcalls})
		if err != nil {
			return err
		}
		for i, p := range pend {
			cl := callLevel(recs[i], p.e)
			mr := modelReq(preply["requests"].([]any)[i].(map[string]any))
			cin := map[string]any{"case": t.Case.ID, "endpoint": p.e, "args": p.args, "sources": t.Case.Sources()}
			if !sameReq(mr, cl) {
				r.Disagree(rep.Disagreement{Tie: "c14.request-semantics-vs-node", Input: cin, Model: mr, Impl: cl})
			}
			want := oracleReq(p.e, p.args, p.queryArgs)
			got := axiosLevel(recs[i], p.e, cl)
			if got.Error != "" || canon(want) != canon(got) {
				sh := c14Shapes(p.e, dup)
				sig := "c14:wrong-request:untriaged"
				if len(sh) > 0 {
					sig = "c14:wrong-request:" + sh[0]
				}
				r.Fail(rep.Failure{Signature: sig, What: "calling the generated method does not issue the request of the contract", Input: cin, Expected: want, Observed: got})
			}
			if recs[i]["started"] != float64(1) {
				r.Fail(rep.Failure{Signature: "c14:start-request-not-called-once", What: "startRequest calls: " + fmt.Sprint(recs[i]["started"]), Input: cin})
			}
		}
	}
	return nil
}
