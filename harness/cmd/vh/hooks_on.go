//go:build verif

package main

import (
	"go/types"

	"github.com/benoitkugler/gomacro/analysis"
	ansql "github.com/benoitkugler/gomacro/analysis/sql"
	"github.com/benoitkugler/gomacro/generator"
	gensql "github.com/benoitkugler/gomacro/generator/sql"
)

const hooksEnabled = true

func hookCommonPrefix(paths []string) string { return analysis.VerifCommonPrefix(paths) }

func hookIsUniques(ct string) []string { return ansql.VerifIsUniquesConstraint(ct) }
func hookIsUnique(ct string) string    { return ansql.VerifIsUniqueConstraint(ct) }
func hookIsSelectKey(ct string) []string { return ansql.VerifIsSelectKey(ct) }
func hookNewCustomQuery(cols map[string]types.Type, comment string) ansql.CustomQuery {
	return ansql.VerifNewCustomQuery(cols, comment)
}
func hookCustomConstraint(ana *analysis.Analysis, ta ansql.Table, rep generator.TableNameReplacer, content string) string {
	return gensql.VerifGenerateCustomConstraint(ana, ta, rep, content)
}
