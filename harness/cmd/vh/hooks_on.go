//go:build verif

package main

import (
	"github.com/benoitkugler/gomacro/analysis"
)

const hooksEnabled = true

func hookCommonPrefix(paths []string) string { return analysis.VerifCommonPrefix(paths) }
