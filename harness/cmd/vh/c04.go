package main

import (
	"sort"
	"reflect"
	"encoding/json"
	"fmt"
	"math/rand"
	"regexp"
	"strings"

	gen "github.com/benoitkugler/gomacro/generator"

	"verifharness/internal/drv"
	"verifharness/internal/gobuild"
	"verifharness/internal/gorun"
	"verifharness/internal/irdump"
	"verifharness/internal/load"
	"verifharness/internal/rep"
	"verifharness/internal/synth"
)

func init() {
	runners["C04"] = runC04
	runners["C08"] = runC08
}

var sqlCommentRe = regexp.MustCompile(`(?m)--.*$`)
var sqlTokenRe = regexp.MustCompile(`'(?:[^']|'')*'|\$\$|[A-Za-z_][A-Za-z0-9_]*|[0-9]+|->>|->|#>>|!=|::|:=|\S`)

func sqlTokens(s string) string {
	s = sqlCommentRe.ReplaceAllString(s, "")
	return strings.Join(sqlTokenRe.FindAllString(s, -1), " ")
}

func sqlCases(rng *rand.Rand, n int, prefix string) []*synth.Case {
	o := synth.DefaultOptions()
	o.SQL = true
	o.Structs = 5
	o.Unions = 2
	cases := genCases(rng, n, prefix, o)
	for _, c := range synth.HandWritten() {
		// a struct with two columns of one name (an outer field and a promoted field of the same
		// Go name) is no table a database can implement: outside the SQL properties' quantifier
		if c.HasFeat("hand:outer-field-with-the-go-name-of-a-promoted-field") {
			continue
		}
		cases = append(cases, c)
	}
	return cases
}

// realSQLDecls runs the real generator and indexes its declarations
func realSQLDecls(a *analysed, root string) (map[string]string, string, outcome) {
	t := runTarget("sql", a, root)
	out := map[string]string{}
	constraints := ""
	for _, d := range t.Decls["gen.sql"] {
		if _, dup := out[d.ID]; !dup {
			out[d.ID] = d.Content
		}
		if d.ID == "ac_constraints" {
			constraints = d.Content
		}
	}
	out["__assembled__"] = t.Text["gen.sql"]
	return out, constraints, t.Out
}

// compareSchema: tie of the model's tables / validators with the real declarations
func compareSchema(r *rep.Report, a *analysed, reply map[string]any, real map[string]string, constraints string, wantFuncs bool) {
	in := map[string]any{"case": a.Case.ID, "sources": a.Case.Sources()}
	// validators of all columns together: one name must have one body
	modelFn := map[string]string{}
	clash := map[string]bool{}
	for _, tb := range reply["tables"].([]any) {
		tm := tb.(map[string]any)
		if _, isDiag := tm["diag"]; isDiag {
			continue
		}
		for _, jc := range tm["json"].([]any) {
			for _, f := range jc.(map[string]any)["funcs"].([]any) {
				fm := f.(map[string]any)
				id, txt := fm["id"].(string), sqlTokens(fm["text"].(string))
				if prev, ok := modelFn[id]; ok && prev != txt {
					clash[id] = true
				}
				modelFn[id] = txt
			}
		}
	}
	if wantFuncs {
		for id := range clash {
			r.Fail(rep.Failure{Signature: "c04:two-types-one-validator-name", What: "two different JSON shapes get the validator name " + id + " (e.g. two instantiations of one generic struct, or equal type names in packages sharing a four-letter prefix): the assembled script keeps only one body", Input: in})
		}
	}
	for _, tb := range reply["tables"].([]any) {
		tm := tb.(map[string]any)
		if _, isDiag := tm["diag"]; isDiag {
			continue
		}
		name := tm["name"].(string)
		if !wantFuncs {
			// CREATE TABLE
			want := sqlTokens(tm["create"].(string))
			found := false
			var got string
			for id, c := range real {
				if strings.HasPrefix(id, "ab_") && strings.Contains(sqlTokens(c), "CREATE TABLE "+strings.Fields(want)[2]+" (") {
					got = c
					found = sqlTokens(c) == want
				}
			}
			if !found {
				r.Disagree(rep.Disagreement{Tie: "c08.create-table", Input: map[string]any{"case": a.Case.ID, "table": name, "sources": a.Case.Sources()}, Model: tm["create"], Impl: got})
				// column by column against the documented mapping (the model's statement is the
				// mapping of the C08 theorems, and agrees with the real text on the unchanged tree)
				if got != "" {
					colLines := func(txt string) map[string]string {
						out := map[string]string{}
						i, j := strings.Index(txt, "("), strings.LastIndex(txt, ")")
						if i < 0 || j <= i {
							return out
						}
						depth, start := 0, i+1
						body := txt[:j]
						for k := i + 1; k <= len(body); k++ {
							if k == len(body) || (body[k] == ',' && depth == 0) {
								if fl := strings.Fields(body[start:k]); len(fl) > 0 {
									out[fl[0]] = strings.Join(fl[1:], " ")
								}
								start = k + 1
								continue
							}
							switch body[k] {
							case '(':
								depth++
							case ')':
								depth--
							}
						}
						return out
					}
					mc, rc := colLines(tm["create"].(string)), colLines(got)
					var cols []string
					for c := range mc {
						cols = append(cols, c)
					}
					sort.Strings(cols)
					for _, c := range cols {
						if sqlTokens(mc[c]) != sqlTokens(rc[c]) {
							r.Fail(rep.Failure{Signature: "c08:column-differs-from-the-documented-mapping", What: fmt.Sprintf("table %s, column %s is declared `%s`; the Go→SQL mapping of the property gives `%s`", name, c, rc[c], mc[c]), Input: in, Observed: got})
						}
					}
				}
			}
			// the Go side directly: the id field, and only it, is `serial PRIMARY KEY`
			if got != "" {
				idField := ""
				for _, dd := range a.Env.Decls {
					if dd.Kind == "struct" && dd.Name == name && dd.PkgPath == a.Env.PkgPath {
						for _, f := range dd.Fields {
							if f.GoExported && strings.EqualFold(f.Name, "id") && idField == "" {
								idField = f.Name
							}
						}
					}
				}
				var pk []string
				for _, line := range strings.Split(got, "\n") {
					if strings.Contains(line, "PRIMARY KEY") {
						if fl := strings.Fields(line); len(fl) > 0 {
							pk = append(pk, fl[0])
						}
					}
				}
				wantPK := []string{}
				if idField != "" {
					wantPK = append(wantPK, idField)
				}
				if strings.Join(pk, ",") != strings.Join(wantPK, ",") {
					r.Fail(rep.Failure{Signature: "c08:primary-key-column", What: fmt.Sprintf("table %s: PRIMARY KEY on %v, the id field is %v", name, pk, wantPK), Input: in, Observed: got})
				} else if idField != "" && !strings.Contains(sqlTokens(got), idField+" serial PRIMARY KEY") {
					r.Fail(rep.Failure{Signature: "c08:primary-key-column", What: "table " + name + ": the id column is not `serial PRIMARY KEY`", Input: in, Observed: got})
				}
			}
			for _, c := range tm["composites"].([]any) {
				cm := c.(map[string]any)
				if sqlTokens(real["aaa_"+cm["name"].(string)]) != sqlTokens(cm["text"].(string)) {
					r.Disagree(rep.Disagreement{Tie: "c08.composite-type", Input: in, Model: cm["text"], Impl: real["aaa_"+cm["name"].(string)]})
				}
			}
			ctoks := sqlTokens(constraints)
			for _, fk := range strsOf(tm["fks"]) {
				if !strings.Contains(ctoks, sqlTokens(fk)) {
					r.Disagree(rep.Disagreement{Tie: "c08.foreign-key", Input: in, Model: fk, Impl: constraints})
				}
			}
			// the Go side directly: a field tagged gomacro-sql-foreign:"T" (of a plain integer type)
			// has exactly one FOREIGN KEY to T's table, with the tagged ON DELETE action
			sqlNameOf := map[string]string{}
			for _, tb2 := range reply["tables"].([]any) {
				if tm2 := tb2.(map[string]any); tm2["create"] != nil {
					if fl := strings.Fields(sqlTokens(tm2["create"].(string))); len(fl) > 2 {
						sqlNameOf[tm2["name"].(string)] = fl[2]
					}
				}
			}
			for _, dd := range a.Env.Decls {
				if dd.Kind != "struct" || dd.Name != name || dd.PkgPath != a.Env.PkgPath {
					continue
				}
				for _, f := range dd.Fields {
					tag := reflect.StructTag(f.Tag)
					target := tag.Get("gomacro-sql-foreign")
					plain := f.T != nil && (f.T.K == "basic" || f.T.K == "ref" && strings.HasSuffix(f.T.Q, "sql.NullInt64"))
					// … or of the table's own id type (a named int64): Parent IdNode tagged "Node"
					if f.T != nil && f.T.K == "ref" && target == name {
						for _, td := range a.Env.Decls {
							if td.Q == f.T.Q && td.Kind == "named" && td.Under != nil && td.Under.K == "basic" && td.Name == "Id"+name {
								plain = true
							}
						}
					}
					if target == "" || !plain || sqlNameOf[target] == "" || !f.GoExported {
						continue
					}
					stmt := "ALTER TABLE " + strings.Fields(want)[2] + " ADD FOREIGN KEY ( " + f.Name + " ) REFERENCES " + sqlNameOf[target]
					if od := tag.Get("gomacro-sql-on-delete"); od != "" {
						stmt += " ON DELETE " + od
					}
					aliased := false // an alias of the table struct in the analysed file: everything twice (recorded below)
					seenSrc := map[string]int{}
					for _, sq := range a.Env.Source {
						seenSrc[sq.Q]++
						if seenSrc[sq.Q] > 1 {
							aliased = true
						}
					}
					if n := strings.Count(ctoks+" ", sqlTokens(stmt)+" ;"); n != 1 && !(aliased && n == 2) {
						shape := ""
						if target == name {
							shape = ":self-reference"
						}
						r.Fail(rep.Failure{Signature: "c08:foreign-key-of-tagged-field" + shape, What: fmt.Sprintf("field %s.%s is tagged gomacro-sql-foreign:%q: %d statements `%s` in the schema, expected exactly one", name, f.Name, target, n, stmt), Input: in, Observed: constraints})
					}
				}
			}
			// exactly one FK per foreign-key field
			nReal := strings.Count(ctoks, "ALTER TABLE "+strings.Fields(want)[2]+" ADD FOREIGN KEY")
			if nReal != len(strsOf(tm["fks"])) {
				// a struct declared once but listed twice in Source (an alias of it in the analysed file)
				twice := false
				seenQ := map[string]int{}
				for _, s := range a.Env.Source {
					seenQ[s.Q]++
					if seenQ[s.Q] > 1 {
						twice = true
					}
				}
				if twice && nReal == 2*len(strsOf(tm["fks"])) {
					r.Fail(rep.Failure{Signature: "c08:constraints-emitted-twice:alias-of-table-struct", What: "the constraints of table " + name + " are emitted twice: the analysed file also declares an alias of the table struct, which is treated as a second table", Input: in, Observed: constraints})
				} else {
					r.Disagree(rep.Disagreement{Tie: "c08.foreign-key-count", Input: in, Model: tm["fks"], Impl: constraints})
				}
			}
		}
		for _, jc := range tm["json"].([]any) {
			jm := jc.(map[string]any)
			if !wantFuncs {
				foundCheck := false
				for _, c := range real {
					if sqlTokens(c) == sqlTokens(jm["check"].(string)) {
						foundCheck = true
					}
				}
				if !foundCheck {
					r.Disagree(rep.Disagreement{Tie: "c08.json-check-constraint", Input: in, Model: jm["check"]})
				}
				continue
			}
			// the assembled script wires the column to its validator (declarations are merged by ID:
			// a constraint whose ID collides with another one is dropped)
			if chk, _ := jm["check"].(string); chk != "" && !strings.Contains(sqlTokens(real["__assembled__"]), sqlTokens(chk)) {
				r.Fail(rep.Failure{Signature: "c04:json-column-without-check-constraint", What: "table " + name + ": the assembled script does not contain `" + strings.TrimSpace(chk) + "`: any document is accepted in that column", Input: in})
			}
			for _, f := range jm["funcs"].([]any) {
				fm := f.(map[string]any)
				rc, ok := real[fm["id"].(string)]
				if !ok {
					r.Disagree(rep.Disagreement{Tie: "c04.validator-set", Input: in, Model: fm["id"], Impl: "missing from the real script"})
					continue
				}
				if sqlTokens(rc) != sqlTokens(fm["text"].(string)) {
					// equal IDs with different bodies: the model lists both, the real script kept one
					if c, _ := jm["consistent"].(bool); !c || clash[fm["id"].(string)] {
						continue
					}
					r.Disagree(rep.Disagreement{Tie: "c04.validator-text", Input: map[string]any{"case": a.Case.ID, "fn": fm["id"], "sources": a.Case.Sources()}, Model: fm["text"], Impl: rc})
				}
			}
		}
	}
}

func runC08(r *rep.Report, thorough bool) error {
	r.Rule = "sql-flavoured synthesised model files (every column kind: basics of all widths, time/date, []byte, typed arrays, fixed arrays, enums, composites, nullable wrappers, jsonb; ids in every spelling and position; foreign keys by ID type and by tag with ON DELETE; guards) through the real sql.Generate: CREATE TABLE / CREATE TYPE statements, jsonb CHECK constraints and FOREIGN KEY constraints compared token-wise with the Lean schema model. non-trivial = table with a non-builtin column or a foreign key"
	rng := rand.New(rand.NewSource(r.Seed))
	n := 80
	if thorough {
		n = 500
	}
	cases := sqlCases(rng, n, "m")
	l, err := load.Cases(cases)
	if err != nil {
		return err
	}
	defer l.Close()
	d, err := drv.Start()
	if err != nil {
		return err
	}
	defer d.Close()
	for _, a := range analyseCases(l) {
		if a.Ana == nil || a.Env == nil {
			continue
		}
		real, constraints, out := realSQLDecls(a, l.Mod.Root)
		r.Hist("sql:" + out.Class)
		if out.Class != "ok" {
			continue
		}
		reply, err := d.Call(map[string]any{"op": "c04.gen", "env": a.Env})
		if err != nil {
			return err
		}
		txt := fmt.Sprint(reply)
		r.Case(map[string]any{"case": a.Case.ID, "features": a.Case.Feat}, strings.Contains(txt, "FOREIGN KEY") || strings.Contains(txt, "jsonb") || strings.Contains(txt, "[]"))
		compareSchema(r, a, reply, real, constraints, false)
	}
	return nil
}

// ---- corruption of a document along its Go type (five classes)
type corruptor struct {
	env  *irdump.Env
	decl map[string]*irdump.Decl
	rng  *rand.Rand
}

// sites lists (path, class) positions where a single-point corruption applies
func (c *corruptor) corrupt(t *irdump.Ty, v any, depth int) (any, string, bool) {
	if depth > 8 || t == nil {
		return nil, "", false
	}
	switch t.K {
	case "basic":
		switch v.(type) {
		case float64, json.Number:
			return "corrupted", "wrong-kind", true
		case string:
			return 12345, "wrong-kind", true
		case bool:
			return "corrupted", "wrong-kind", true
		}
	case "time":
		if _, ok := v.(string); ok {
			return 7, "wrong-kind", true
		}
	case "arr":
		arr, ok := v.([]any)
		if !ok {
			return nil, "", false
		}
		if t.Len >= 1 && len(arr) == t.Len && c.rng.Intn(2) == 0 {
			return arr[:len(arr)-1], "wrong-fixed-length", true
		}
		if len(arr) > 0 {
			i := c.rng.Intn(len(arr))
			if nv, cls, ok := c.corrupt(t.E, arr[i], depth+1); ok {
				out := append([]any(nil), arr...)
				out[i] = nv
				return out, cls, true
			}
		}
		if t.Len >= 1 && len(arr) == t.Len {
			return arr[:len(arr)-1], "wrong-fixed-length", true
		}
		return map[string]any{}, "wrong-kind", true
	case "map":
		obj, ok := v.(map[string]any)
		if !ok {
			return nil, "", false
		}
		for k, e := range obj {
			if nv, cls, ok := c.corrupt(t.E, e, depth+1); ok {
				out := map[string]any{}
				for kk, vv := range obj {
					out[kk] = vv
				}
				out[k] = nv
				return out, cls, true
			}
		}
		return []any{}, "wrong-kind", true
	case "ref":
		d := c.decl[t.Q]
		if d == nil {
			return nil, "", false
		}
		switch d.Kind {
		case "named":
			return c.corrupt(d.Under, v, depth+1)
		case "enum":
			switch v.(type) {
			case string:
				return "not-a-member-zz", "non-member-enum-value", true
			case float64, json.Number:
				return 987654, "non-member-enum-value", true
			case bool:
				return "corrupted", "wrong-kind", true
			}
		case "struct":
			obj, ok := v.(map[string]any)
			if !ok {
				return nil, "", false
			}
			if c.rng.Intn(2) == 0 {
				out := map[string]any{"zz_unknown_key": 1}
				for kk, vv := range obj {
					out[kk] = vv
				}
				return out, "unknown-object-key", true
			}
			for _, f := range d.Fields {
				if !f.Exported {
					continue
				}
				if e, has := obj[f.JSONName]; has {
					if nv, cls, ok := c.corrupt(f.T, e, depth+1); ok {
						out := map[string]any{}
						for kk, vv := range obj {
							out[kk] = vv
						}
						out[f.JSONName] = nv
						return out, cls, true
					}
				}
			}
			out := map[string]any{"zz_unknown_key": 1}
			for kk, vv := range obj {
				out[kk] = vv
			}
			return out, "unknown-object-key", true
		case "union":
			obj, ok := v.(map[string]any)
			if !ok {
				return nil, "", false
			}
			out := map[string]any{}
			for kk, vv := range obj {
				out[kk] = vv
			}
			out["Kind"] = "NoSuchMember"
			return out, "unknown-union-kind", true
		}
	}
	return nil, "", false
}

// omitVariant: the document Go writes for the same value with every `omitempty` field of basic,
// slice or map type set to its zero value: those keys are absent (the validators see SQL NULL)
func (c *corruptor) omitVariant(t *irdump.Ty, v any, depth int) (any, bool) {
	if depth > 8 || t == nil {
		return v, false
	}
	switch t.K {
	case "arr":
		arr, ok := v.([]any)
		if !ok {
			return v, false
		}
		out := make([]any, len(arr))
		changed := false
		for i, e := range arr {
			nv, ch := c.omitVariant(t.E, e, depth+1)
			out[i] = nv
			changed = changed || ch
		}
		return out, changed
	case "map":
		obj, ok := v.(map[string]any)
		if !ok {
			return v, false
		}
		out := map[string]any{}
		changed := false
		for k, e := range obj {
			nv, ch := c.omitVariant(t.E, e, depth+1)
			out[k] = nv
			changed = changed || ch
		}
		return out, changed
	case "ref":
		d := c.decl[t.Q]
		if d == nil {
			return v, false
		}
		switch d.Kind {
		case "named":
			return c.omitVariant(d.Under, v, depth+1)
		case "struct":
			obj, ok := v.(map[string]any)
			if !ok {
				return v, false
			}
			out := map[string]any{}
			for kk, vv := range obj {
				out[kk] = vv
			}
			changed := false
			for _, f := range d.Fields {
				if !f.Exported {
					continue
				}
				e, has := out[f.JSONName]
				if !has {
					continue
				}
				opts := strings.Split(reflect.StructTag(f.Tag).Get("json"), ",")
				omit := false
				for _, o := range opts[1:] {
					if o == "omitempty" {
						omit = true
					}
				}
				ft := f.T
				for ft != nil && ft.K == "ref" && c.decl[ft.Q] != nil && c.decl[ft.Q].Kind == "named" {
					ft = c.decl[ft.Q].Under
				}
				if omit && ft != nil && (ft.K == "basic" || ft.K == "map" || (ft.K == "arr" && ft.Len < 0)) {
					delete(out, f.JSONName)
					changed = true
					continue
				}
				nv, ch := c.omitVariant(f.T, e, depth+1)
				out[f.JSONName] = nv
				changed = changed || ch
			}
			return out, changed
		case "union":
			obj, ok := v.(map[string]any)
			if !ok {
				return v, false
			}
			kind, _ := obj["Kind"].(string)
			for _, m := range d.UMembers {
				if m.K == "ref" && c.decl[m.Q] != nil && c.decl[m.Q].Name == kind {
					nv, ch := c.omitVariant(m, obj["Data"], depth+1)
					return map[string]any{"Kind": kind, "Data": nv}, ch
				}
			}
		}
	}
	return v, false
}

func runC04(r *rep.Report, thorough bool) error {
	r.Rule = "sql-flavoured synthesised model files compiled with the real gounions wrappers: (1) every validation function of the real sql.Generate compared token-wise with the function printed from the Lean model, per function name; closure of each script; (2) for every jsonb column, the JSON written by Go for random values of the column's Go type is evaluated by the Lean plpgsql semantics: the CHECK must admit it (TRUE or NULL); (3) single-point corruptions of those documents from the five classes (unknown object key, wrong JSON kind, unknown union Kind, non-member enum value, wrong fixed-array length), generated along the Go type, must evaluate to FALSE. non-trivial = document of a struct, union, map or array column"
	rng := rand.New(rand.NewSource(r.Seed))
	n, k := 60, 5
	if thorough {
		n, k = 350, 16
	}
	cases := sqlCases(rng, n, "v")
	l, err := load.Cases(cases)
	if err != nil {
		return err
	}
	defer l.Close()
	if err := gobuild.InstallPQ(l); err != nil {
		return err
	}
	d, err := drv.Start()
	if err != nil {
		return err
	}
	defer d.Close()
	as := analyseCases(l)
	var files []gobuild.GenFile
	var good []*analysed
	jsonCols := map[string]map[string][]string{} // case -> table -> json column names
	realByCase := map[string]map[string]string{}
	astReported := map[string]bool{}
	nameClash := map[string]bool{}
	for _, a := range as {
		if a.Ana == nil || a.Env == nil {
			continue
		}
		real, constraints, out := realSQLDecls(a, l.Mod.Root)
		realByCase[a.Case.ID] = real
		r.Hist("sql:" + out.Class)
		if out.Class != "ok" {
			continue
		}
		reply, err := d.Call(map[string]any{"op": "c04.gen", "env": a.Env})
		if err != nil {
			return err
		}
		compareSchema(r, a, reply, real, constraints, true)
		in := map[string]any{"case": a.Case.ID, "sources": a.Case.Sources()}
		jsonCols[a.Case.ID] = map[string][]string{}
		{
			// two JSON shapes under one validator name anywhere in the file (a recorded finding)
			bodies := map[string]string{}
			for _, tb := range reply["tables"].([]any) {
				tm := tb.(map[string]any)
				if tm["json"] == nil {
					continue
				}
				for _, jc := range tm["json"].([]any) {
					for _, f := range jc.(map[string]any)["funcs"].([]any) {
						fm := f.(map[string]any)
						id, txt := fm["id"].(string), sqlTokens(fm["text"].(string))
						if prev, ok := bodies[id]; ok && prev != txt {
							nameClash[a.Case.ID] = true
						}
						bodies[id] = txt
					}
				}
			}
		}
		for _, tb := range reply["tables"].([]any) {
			tm := tb.(map[string]any)
			if _, isDiag := tm["diag"]; isDiag {
				continue
			}
			for _, jc := range tm["json"].([]any) {
				jm := jc.(map[string]any)
				jsonCols[a.Case.ID][tm["name"].(string)] = append(jsonCols[a.Case.ID][tm["name"].(string)], jm["col"].(string))
				if c, _ := jm["closed"].(bool); !c {
					r.Fail(rep.Failure{Signature: "c04:script-not-closed", What: "a validation function calls a function that the script does not define (column " + jm["col"].(string) + ")", Input: in})
				}
				if c, _ := jm["consistent"].(bool); !c {
					r.Fail(rep.Failure{Signature: "c04:two-types-one-validator-name", What: "two different JSON shapes get the same validator name (column " + jm["col"].(string) + "): the assembled script keeps only one body", Input: in})
				}
				// the real script must define every function its CHECK and bodies call
				for _, f := range jm["funcs"].([]any) {
					if _, ok := real[f.(map[string]any)["id"].(string)]; !ok {
						r.Fail(rep.Failure{Signature: "c04:validator-missing-from-script", What: "validator " + f.(map[string]any)["id"].(string) + " is called but not defined in the generated script", Input: in})
					}
				}
			}
		}
		if supportedEnv(a.Env) && len(jsonCols[a.Case.ID]) > 0 {
			if u := runTarget("gounions", a, l.Mod.Root); u.Out.Class == "ok" {
				files = append(files, gobuild.GenFile{Case: a.Case.ID, Name: "gen_unions.go", Content: u.Text["gen_unions.go"]})
				good = append(good, a)
			}
		}
		_ = gen.Declaration{}
	}
	bad := map[string]bool{}
	for _, p := range gobuild.Place(l, files) {
		bad[p.Case] = true
	}
	var ids []string
	for _, a := range good {
		ids = append(ids, a.Case.ID)
	}
	tc, err := gobuild.Check(l, ids)
	if err != nil {
		return err
	}
	for _, p := range tc {
		bad[p.Case] = true
	}
	var specs []gorun.Spec
	byID := map[string]*analysed{}
	for _, a := range good {
		if bad[a.Case.ID] {
			continue
		}
		if sp := buildSpec(a, ""); len(sp.Types) > 0 {
			specs = append(specs, sp)
			byID[a.Case.ID] = a
		}
	}
	bin, out, err := gorun.Build(l, specs)
	if err != nil {
		return fmt.Errorf("go build of the scratch module failed: %v\n%s", err, out)
	}
	lines, err := gorun.RunValues(bin, r.Seed, k)
	if err != nil {
		r.Note("runall: %v", err)
	}
	specEnvOf := map[string]*irdump.Env{}
	for _, ln := range lines {
		a := byID[ln.Case]
		cols := jsonCols[ln.Case][ln.Type]
		if a == nil || len(cols) == 0 || ln.Fields == nil {
			continue
		}
		// the types the documents are judged against: the analysis' own, with every enum as the
		// specification model of the analysis lists it (from the go/types facts) — an enum the
		// analysis lost or truncated is still an enum for the corruptions and for the model's verdict
		evalEnv := specEnvOf[ln.Case]
		if evalEnv == nil {
			evalEnv = withSpecEnums(d, a, a.Env)
			specEnvOf[ln.Case] = evalEnv
		}
		decl := map[string]*irdump.Decl{}
		for _, dd := range evalEnv.Decls {
			decl[dd.Q] = dd
		}
		td := decl[a.Env.PkgPath+"."+ln.Type]
		if td == nil {
			continue
		}
		co := &corruptor{env: evalEnv, decl: decl, rng: rng}
		for _, col := range cols {
			var ft *irdump.Ty
			for _, f := range td.Fields {
				// a field tagged json:"-" is left zero by the value generator (it cannot survive a
				// round trip): its zero value is not a document to judge the validators with
				if f.Name == col && reflect.StructTag(f.Tag).Get("json") != "-" {
					ft = f.T
				}
			}
			raw, ok := ln.Fields[col]
			if ft == nil || !ok {
				continue
			}
			var doc any
			if json.Unmarshal([]byte(raw), &doc) != nil {
				continue
			}
			docs := []any{doc}
			var classes []string
			for i := 0; i < 3; i++ {
				if cd, cls, ok := co.corrupt(ft, doc, 0); ok {
					docs = append(docs, cd)
					classes = append(classes, cls)
				}
			}
			// one more document Go really writes: the same value with its omitempty fields zeroed
			omitIdx := -1
			if ov, ok := co.omitVariant(ft, doc, 0); ok {
				omitIdx = len(docs)
				docs = append(docs, ov)
				r.Hist("documents-with-omitted-empty-fields")
			}
			reply, err := d.Call(map[string]any{"op": "c04.eval", "env": evalEnv, "type": ft, "docs": docs})
			if err != nil {
				return err
			}
			res := strsOf(reply["results"])
			// the end-to-end theorem (Props/C04E2E.lean) on this column: program inside the fragment,
			// column type covered, value well-typed — then the theorem says the CHECK admits the document
			if fv := fieldDump(ln.Val, col); fv != nil {
				var colTys []*irdump.Ty
				for _, tcols := range jsonCols[ln.Case] {
					_ = tcols
				}
				for _, dd := range a.Env.Decls {
					if dd.Kind != "struct" || dd.PkgPath != a.Env.PkgPath {
						continue
					}
					for _, c2 := range jsonCols[ln.Case][dd.Name] {
						for _, f := range dd.Fields {
							if f.Name == c2 {
								colTys = append(colTys, f.T)
							}
						}
					}
				}
				frag, err := d.Call(map[string]any{"op": "c04.fragment", "env": a.Env, "wrappers": wrapperSets(a, l.Mod.Root), "columns": append([]*irdump.Ty{ft}, colTys...),
					"values": []map[string]any{{"type": ft, "val": fv}}})
				if err != nil {
					return err
				}
				inFrag, _ := frag["inFragment"].(bool)
				colOK, _ := frag["columns"].([]any)[0].(bool)
				ht, _ := frag["hasType"].([]any)[0].(bool)
				switch {
				case !inFrag:
					r.Hist("end-to-end-theorem:program-outside-the-fragment")
					for _, wy := range strsOf(frag["why"]) {
						r.Hist("end-to-end-theorem:outside-because:" + wy)
					}
				case !colOK || !ht:
					r.Hist("end-to-end-theorem:column-or-value-not-covered")
				default:
					r.Hist("end-to-end-theorem:document-covered")
					if res[0] != "true" && res[0] != "null" {
						r.Disagree(rep.Disagreement{Tie: "c04.end-to-end-theorem-vs-evaluation", Input: map[string]any{"case": ln.Case, "table": ln.Type, "column": col, "document": raw, "sources": a.Case.Sources()},
							Model: "theorem C04_check_admits: the CHECK admits the document of a well-typed value of a covered column", Impl: res[0]})
					}
				}
			}
			in := map[string]any{"case": ln.Case, "table": ln.Type, "column": col, "document": raw, "sources": a.Case.Sources()}
			r.Case(map[string]any{"case": ln.Case, "column": ln.Type + "." + col, "doc": raw}, strings.ContainsAny(raw, "[{"))
			if res[0] != "true" && res[0] != "null" {
				shape := c04Shape(a, ft, decl)
				if shape == "" && strings.Contains(raw, `"Data":null`) {
					shape = ":nil-container-member-of-union"
				}
				r.Fail(rep.Failure{Signature: "c04:go-document-rejected" + shape, What: "the CHECK constraint of a jsonb column evaluates to " + res[0] + " on a document Go emits for the column's type", Input: in, Observed: res[0]})
			}
			if omitIdx >= 0 && res[0] != "false" && res[omitIdx] != "true" && res[omitIdx] != "null" {
				ob, _ := json.Marshal(docs[omitIdx])
				r.Fail(rep.Failure{Signature: "c04:go-document-rejected:omitted-empty-field" + c04Shape(a, ft, decl), What: "the CHECK evaluates to " + res[omitIdx] + " on the document Go writes when the omitempty fields of the value are empty (keys absent)", Input: map[string]any{"case": ln.Case, "table": ln.Type, "column": col, "document": string(ob), "sources": a.Case.Sources()}, Observed: res[omitIdx]})
			}
			// the same documents through the *real* script: every validator text of the real output
			// is parsed into a syntax tree (PgParse) and evaluated by the semantics of the plpgsql
			// fragment (PgAst.evalFunc, refined by the template-level semantics: C04_ast_refines);
			// the trees are compared with those of the model's functions
			if fn, _ := reply["fn"].(string); fn != "" && realByCase[ln.Case] != nil {
				var texts []string
				var names []string
				for name := range realByCase[ln.Case] {
					names = append(names, name)
				}
				sort.Strings(names)
				for _, name := range names {
					if strings.HasPrefix(strings.TrimSpace(realByCase[ln.Case][name]), "CREATE OR REPLACE FUNCTION") {
						texts = append(texts, realByCase[ln.Case][name])
					}
				}
				rr, err := d.Call(map[string]any{"op": "c04.evalAst", "texts": texts, "fn": fn, "docs": docs, "env": a.Env, "type": ft})
				if err != nil {
					return err
				}
				if pe := strsOf(rr["parseErrors"]); len(pe) > 0 {
					r.Hist("real-script:outside-the-parsed-fragment")
					// float / bool backed enums (a recorded finding: their comparison is a type error in
					// PostgreSQL) are outside the embedded fragment
					oddEnum := false
					for _, ed := range a.Env.Decls {
						if ed.Kind == "enum" && (ed.EnumBK == "float" || ed.EnumBK == "bool") {
							oddEnum = true
						}
					}
					if !astReported[ln.Case+"/parse"] && !oddEnum {
						astReported[ln.Case+"/parse"] = true
						r.Disagree(rep.Disagreement{Tie: "c04.real-validator-parses", Input: map[string]any{"case": ln.Case, "sources": a.Case.Sources()},
							Model: "every generated validator is in the plpgsql fragment of PgAst (six templates)", Impl: strings.Join(pe, " | ")})
					}
				}
				if tie, ok := rr["tie"].(map[string]any); ok {
					if differ := strsOf(tie["differ"]); len(differ) > 0 && !nameClash[ln.Case] && !strings.Contains(c04Shape(a, ft, decl), "float-or-bool-backed-enum") {
						r.Hist("real-script:syntax-tree-differs-from-the-model")
						key := ln.Case + "/" + strings.Join(differ, ",")
						if !astReported[key] {
							astReported[key] = true
							r.Disagree(rep.Disagreement{Tie: "c04.validator-syntax-tree", Input: map[string]any{"case": ln.Case, "column": ln.Type + "." + col, "functions": differ, "sources": a.Case.Sources()},
								Model: "astOf of the model's template instance", Impl: "the parsed real text of the function is a different tree (or the function is missing)"})
						}
					} else {
						r.Hist("real-script:syntax-trees-equal-the-model")
					}
					if wf, _ := tie["wf"].(bool); !wf && strings.Contains(c04Shape(a, ft, decl), "float-or-bool-backed-enum") {
						// a recorded finding: the comparison is a type error in PostgreSQL, outside the fragment
						r.Hist("real-script:refinement-theorem-not-applicable(float-or-bool-backed-enum)")
					} else if !wf {
						r.Disagree(rep.Disagreement{Tie: "c04.template-instances-well-formed", Input: map[string]any{"case": ln.Case, "column": ln.Type + "." + col},
							Model: "hypothesis wf of theorem C04_ast_refines", Impl: "a function of the model's script is not well-formed"})
					}
				}
				r.Hist("real-script:evaluated")
				rres := strsOf(rr["results"])
				if len(rres) == len(res) {
					if omitIdx >= 0 && (res[omitIdx] == "true" || res[omitIdx] == "null") && rres[omitIdx] != "true" && rres[omitIdx] != "null" {
						ob, _ := json.Marshal(docs[omitIdx])
						r.Fail(rep.Failure{Signature: realSig(nameClash[ln.Case], "c04:go-document-rejected-by-the-real-script:omitted-empty-field"+c04Shape(a, ft, decl)), What: "the validators of the real script give " + rres[omitIdx] + " on the document Go writes when the omitempty fields of the value are empty (keys absent: the field validators are called on SQL NULL); the model's validators give " + res[omitIdx], Input: map[string]any{"case": ln.Case, "table": ln.Type, "column": col, "document": string(ob), "sources": a.Case.Sources()}, Observed: rres[omitIdx]})
					}
					// (when the model's validators refuse the document too, that is reported above)
					if (res[0] == "true" || res[0] == "null") && rres[0] != "true" && rres[0] != "null" {
						r.Fail(rep.Failure{Signature: realSig(nameClash[ln.Case], "c04:go-document-rejected-by-the-real-script"+c04Shape(a, ft, decl)), What: "the validators of the real script (parsed, evaluated by the semantics of the plpgsql fragment) give " + rres[0] + " on a document Go emits for the column's type; the model's validators give " + res[0], Input: in, Observed: rres[0]})
					}
					for i, cls := range classes {
						if rres[i+1] != res[i+1] && rres[i+1] != "false" && rres[i+1] != "error" {
							cb, _ := json.Marshal(docs[i+1])
							r.Fail(rep.Failure{Signature: realSig(nameClash[ln.Case], "c04:corruption-not-rejected-by-the-real-script:"+cls+c04Shape(a, ft, decl)), What: "the validators of the real script do not reject a document corrupted by " + cls + " (" + rres[i+1] + "); the model's validators give " + res[i+1], Input: map[string]any{"case": ln.Case, "table": ln.Type, "column": col, "corrupted": string(cb), "sources": a.Case.Sources()}, Observed: rres[i+1]})
						}
					}
				}
			}
			for i, cls := range classes {
				r.Hist("corruption:" + cls)
				// corrupting a document that the validators already refuse says nothing
				if res[0] != "true" && res[0] != "null" {
					continue
				}
				if res[i+1] != "false" {
					cb, _ := json.Marshal(docs[i+1])
					in2 := map[string]any{"case": ln.Case, "table": ln.Type, "column": col, "document": raw, "corrupted": string(cb), "class": cls, "sources": a.Case.Sources()}
					r.Fail(rep.Failure{Signature: "c04:corruption-not-rejected:" + cls + c04Shape(a, ft, decl), What: "a document corrupted by " + cls + " is not rejected by the CHECK (evaluates to " + res[i+1] + ")", Input: in2, Observed: res[i+1]})
				}
			}
		}
	}
	return nil
}

// realSig: when two JSON shapes share a validator name in the file (a recorded finding), what the
// surviving body does to the other shape's documents is that finding seen through a document
func realSig(clash bool, sig string) string {
	if clash {
		return "c04:real-script-verdict-differs:two-types-one-validator-name"
	}
	return sig
}

// fieldDump returns the dumped value of a field of a dumped struct value
func fieldDump(v any, field string) any {
	m, _ := v.(map[string]any)
	fs, _ := m["f"].([]any)
	for _, f := range fs {
		fm, _ := f.(map[string]any)
		if fm["n"] == field {
			return fm["v"]
		}
	}
	return nil
}

// c04Shape: known shapes of the column type under which validators and Go disagree
func c04Shape(a *analysed, t *irdump.Ty, decl map[string]*irdump.Decl) string {
	seen := map[string]bool{}
	var shape string
	if t != nil && t.K == "ref" {
		if d := decl[t.Q]; d != nil && d.Kind == "union" {
			return ":union-typed-column"
		}
	}
	if missingWrapper(a, wrapperSets(a, "")) != "" {
		return ":wrapper-not-generated-behind-anonymous-container"
	}
	var walk func(t *irdump.Ty)
	walk = func(t *irdump.Ty) {
		if t == nil || shape != "" {
			return
		}
		if t.K == "arr" && t.Len == -1 && isUint8Kind(t.E, decl) {
			shape = ":byte-slice"
			return
		}
		walk(t.E)
		walk(t.Key)
		if t.K == "ref" && !seen[t.Q] {
			seen[t.Q] = true
			d := decl[t.Q]
			if d == nil {
				return
			}
			walk(d.Under)
			if d.Kind == "enum" && (d.EnumBK == "float" || d.EnumBK == "bool") {
				shape = ":float-or-bool-backed-enum"
				return
			}
			if d.Kind == "struct" {
				nsel := 0
				for _, f := range d.Fields {
					if f.Exported {
						nsel++
					}
				}
				if nsel == 0 {
					shape = ":struct-without-selected-field"
					return
				}
			}
			for _, f := range d.Fields {
				if f.Exported && strings.Contains(f.Tag, ",omitempty") {
					// not a defect for the validators (missing keys are admitted); kept for reference
				}
				if f.GoExported && strings.Contains(f.Tag, `gomacro:"ignore"`) && !strings.Contains(f.Tag, `json:"-"`) {
					shape = ":gomacro-ignore-field-still-serialised-by-go"
					return
				}
				if f.Exported && strings.Contains(f.Tag, ",string") {
					shape = ":string-option-field"
					return
				}
				if f.Exported {
					walk(f.T)
				}
			}
			for _, m := range d.UMembers {
				walk(m)
			}
		}
	}
	walk(t)
	return shape
}

// isUint8Kind: encoding/json writes any slice whose element KIND is uint8 as a base64 string
func isUint8Kind(t *irdump.Ty, decl map[string]*irdump.Decl) bool {
	if t == nil {
		return false
	}
	if t.K == "basic" {
		return t.B == "uint8" || t.B == "byte"
	}
	if t.K == "ref" {
		if d := decl[t.Q]; d != nil {
			if d.Kind == "enum" {
				return d.EnumUnder == "uint8" || d.EnumUnder == "byte"
			}
			if d.Kind == "named" {
				return isUint8Kind(d.Under, decl)
			}
		}
	}
	return false
}
