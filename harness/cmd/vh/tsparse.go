package main

import (
	"fmt"
	"strings"
)

// A parser of the TypeScript the generator writes (type aliases, interfaces, `as const` objects,
// Kind/Data unions), into the type environment of the Lean semantics (`TsGen.TsType`), so that the
// REAL declarations — not only the model's — are what real documents are checked against.
// Trusted (part of the tie); anything outside the grammar is an error, never a default.

type tsTok struct {
	kind string // id | num | str | punct
	text string // identifiers and punctuation verbatim, numbers verbatim, strings unquoted
}

func tsLex(s string) ([]tsTok, error) {
	var out []tsTok
	rs := []rune(s)
	i := 0
	isIDStart := func(r rune) bool { return r == '_' || r == '$' || (r >= 'a' && r <= 'z') || (r >= 'A' && r <= 'Z') || r > 127 }
	isID := func(r rune) bool { return isIDStart(r) || (r >= '0' && r <= '9') }
	for i < len(rs) {
		r := rs[i]
		switch {
		case r == ' ' || r == '\t' || r == '\n' || r == '\r':
			i++
		case r == '/' && i+1 < len(rs) && rs[i+1] == '/':
			for i < len(rs) && rs[i] != '\n' {
				i++
			}
		case isIDStart(r):
			j := i
			for j < len(rs) && isID(rs[j]) {
				j++
			}
			out = append(out, tsTok{"id", string(rs[i:j])})
			i = j
		case (r >= '0' && r <= '9') || (r == '-' && i+1 < len(rs) && rs[i+1] >= '0' && rs[i+1] <= '9'):
			j := i + 1
			for j < len(rs) && ((rs[j] >= '0' && rs[j] <= '9') || rs[j] == '.' || rs[j] == 'e' || rs[j] == 'E' || ((rs[j] == '+' || rs[j] == '-') && (rs[j-1] == 'e' || rs[j-1] == 'E'))) {
				j++
			}
			out = append(out, tsTok{"num", string(rs[i:j])})
			i = j
		case r == '"' || r == '\'':
			q := r
			j := i + 1
			var b strings.Builder
			for j < len(rs) && rs[j] != q {
				if rs[j] == '\\' && j+1 < len(rs) {
					j++
					switch rs[j] {
					case 'n':
						b.WriteRune('\n')
					case 't':
						b.WriteRune('\t')
					case 'r':
						b.WriteRune('\r')
					case 'u':
						// \uXXXX
						if j+4 < len(rs) {
							var v rune
							fmt.Sscanf(string(rs[j+1:j+5]), "%04x", &v)
							b.WriteRune(v)
							j += 4
						}
					case 'x':
						if j+2 < len(rs) {
							var v rune
							fmt.Sscanf(string(rs[j+1:j+3]), "%02x", &v)
							b.WriteRune(v)
							j += 2
						}
					default:
						b.WriteRune(rs[j])
					}
					j++
					continue
				}
				b.WriteRune(rs[j])
				j++
			}
			if j >= len(rs) {
				return nil, fmt.Errorf("unterminated string")
			}
			out = append(out, tsTok{"str", b.String()})
			i = j + 1
		default:
			out = append(out, tsTok{"punct", string(r)})
			i++
		}
	}
	return out, nil
}

type tsParser struct {
	toks   []tsTok
	pos    int
	consts map[string][]map[string]any // `as const` objects: name -> literal types of the values
}

func (p *tsParser) peek() *tsTok {
	if p.pos < len(p.toks) {
		return &p.toks[p.pos]
	}
	return nil
}
func (p *tsParser) is(kind, text string) bool {
	t := p.peek()
	return t != nil && t.kind == kind && t.text == text
}
func (p *tsParser) expect(kind, text string) error {
	if !p.is(kind, text) {
		got := "end of input"
		if t := p.peek(); t != nil {
			got = t.kind + " " + t.text
		}
		return fmt.Errorf("expected %s, got %s (token %d)", text, got, p.pos)
	}
	p.pos++
	return nil
}
func (p *tsParser) ident() (string, error) {
	t := p.peek()
	if t == nil || t.kind != "id" {
		return "", fmt.Errorf("expected an identifier at token %d", p.pos)
	}
	p.pos++
	return t.text, nil
}

func tsBase(k string) map[string]any { return map[string]any{"k": k} }

// key of an object type / literal: the raw tokens up to the colon
func (p *tsParser) key() (string, error) {
	var b strings.Builder
	for {
		t := p.peek()
		if t == nil {
			return "", fmt.Errorf("unterminated key")
		}
		if t.kind == "punct" && t.text == ":" {
			break
		}
		b.WriteString(t.text)
		p.pos++
	}
	p.pos++ // the colon
	return b.String(), nil
}

func (p *tsParser) union() (map[string]any, error) {
	if p.is("punct", "|") {
		p.pos++
	}
	first, err := p.inter()
	if err != nil {
		return nil, err
	}
	alts := []any{first}
	for p.is("punct", "|") {
		p.pos++
		n, err := p.inter()
		if err != nil {
			return nil, err
		}
		alts = append(alts, n)
	}
	if len(alts) == 1 {
		return first, nil
	}
	return map[string]any{"k": "union", "ts": alts}, nil
}

func (p *tsParser) inter() (map[string]any, error) {
	t, err := p.postfix()
	if err != nil {
		return nil, err
	}
	for p.is("punct", "&") {
		p.pos++
		rhs, err := p.postfix()
		if err != nil {
			return nil, err
		}
		// the brand idiom: X & { __opaque__: 'Tag' }
		fs, _ := rhs["fields"].([]any)
		if rhs["k"] == "obj" && len(fs) == 1 {
			f := fs[0].([]any)
			if f[0] == "__opaque__" {
				if lt, ok := f[1].(map[string]any); ok && lt["k"] == "litStr" {
					t = map[string]any{"k": "brand", "base": t, "tag": lt["s"]}
					continue
				}
			}
		}
		return nil, fmt.Errorf("an intersection that is not the brand idiom")
	}
	return t, nil
}

func (p *tsParser) postfix() (map[string]any, error) {
	t, err := p.primary()
	if err != nil {
		return nil, err
	}
	for p.is("punct", "[") && p.pos+1 < len(p.toks) && p.toks[p.pos+1].text == "]" {
		p.pos += 2
		t = map[string]any{"k": "arr", "e": t}
	}
	return t, nil
}

func (p *tsParser) primary() (map[string]any, error) {
	t := p.peek()
	if t == nil {
		return nil, fmt.Errorf("unexpected end of input in a type")
	}
	switch {
	case t.kind == "str":
		p.pos++
		return map[string]any{"k": "litStr", "s": t.text}, nil
	case t.kind == "num":
		p.pos++
		return map[string]any{"k": "litNum", "s": t.text}, nil
	case t.kind == "punct" && t.text == "(":
		p.pos++
		// (typeof X)[keyof typeof X]
		if p.is("id", "typeof") {
			p.pos++
			name, err := p.ident()
			if err != nil {
				return nil, err
			}
			for _, e := range []string{")", "["} {
				if err := p.expect("punct", e); err != nil {
					return nil, err
				}
			}
			if err := p.expect("id", "keyof"); err != nil {
				return nil, err
			}
			if err := p.expect("id", "typeof"); err != nil {
				return nil, err
			}
			name2, err := p.ident()
			if err != nil {
				return nil, err
			}
			if err := p.expect("punct", "]"); err != nil {
				return nil, err
			}
			vals, ok := p.consts[name]
			if !ok || name2 != name {
				return nil, fmt.Errorf("values of an unknown constant object %s", name)
			}
			var ts []any
			for _, v := range vals {
				ts = append(ts, v)
			}
			if ts == nil {
				ts = []any{}
			}
			return map[string]any{"k": "union", "ts": ts}, nil
		}
		inner, err := p.union()
		if err != nil {
			return nil, err
		}
		if err := p.expect("punct", ")"); err != nil {
			return nil, err
		}
		return inner, nil
	case t.kind == "punct" && t.text == "[":
		p.pos++
		es := []any{}
		for !p.is("punct", "]") {
			e, err := p.union()
			if err != nil {
				return nil, err
			}
			es = append(es, e)
			if p.is("punct", ",") {
				p.pos++
			} else if !p.is("punct", "]") {
				return nil, fmt.Errorf("expected , or ] in a tuple")
			}
		}
		p.pos++
		return map[string]any{"k": "tuple", "es": es}, nil
	case t.kind == "punct" && t.text == "{":
		p.pos++
		fs := []any{}
		for !p.is("punct", "}") {
			k, err := p.key()
			if err != nil {
				return nil, err
			}
			ft, err := p.union()
			if err != nil {
				return nil, err
			}
			fs = append(fs, []any{k, ft})
			if p.is("punct", ",") || p.is("punct", ";") {
				p.pos++
			}
		}
		p.pos++
		return map[string]any{"k": "obj", "fields": fs}, nil
	case t.kind == "id":
		p.pos++
		switch t.text {
		case "string":
			return tsBase("str"), nil
		case "number":
			return tsBase("num"), nil
		case "boolean":
			return tsBase("bool"), nil
		case "null":
			return tsBase("null"), nil
		case "unknown":
			return tsBase("unknown"), nil
		case "never":
			return tsBase("never"), nil
		case "true":
			return map[string]any{"k": "litBool", "b": true}, nil
		case "false":
			return map[string]any{"k": "litBool", "b": false}, nil
		case "Record":
			if err := p.expect("punct", "<"); err != nil {
				return nil, err
			}
			k, err := p.union()
			if err != nil {
				return nil, err
			}
			if err := p.expect("punct", ","); err != nil {
				return nil, err
			}
			v, err := p.union()
			if err != nil {
				return nil, err
			}
			if err := p.expect("punct", ">"); err != nil {
				return nil, err
			}
			return map[string]any{"k": "record", "key": k, "v": v}, nil
		}
		return map[string]any{"k": "ref", "name": t.text}, nil
	}
	return nil, fmt.Errorf("unexpected token %s %q in a type (token %d)", t.kind, t.text, p.pos)
}

// literal value of an `as const` object entry
func (p *tsParser) literal() (map[string]any, error) {
	t := p.peek()
	if t == nil {
		return nil, fmt.Errorf("unexpected end of input in a constant object")
	}
	p.pos++
	switch {
	case t.kind == "str":
		return map[string]any{"k": "litStr", "s": t.text}, nil
	case t.kind == "num":
		return map[string]any{"k": "litNum", "s": t.text}, nil
	case t.kind == "id" && (t.text == "true" || t.text == "false"):
		return map[string]any{"k": "litBool", "b": t.text == "true"}, nil
	}
	return nil, fmt.Errorf("unexpected value %s %q in a constant object", t.kind, t.text)
}

func (p *tsParser) skipBalanced(open, close string) error {
	depth := 0
	for p.pos < len(p.toks) {
		t := p.toks[p.pos]
		p.pos++
		if t.kind == "punct" && t.text == open {
			depth++
		} else if t.kind == "punct" && t.text == close {
			depth--
			if depth == 0 {
				return nil
			}
		}
	}
	return fmt.Errorf("unbalanced %s", open)
}

// tsParseEnv: the type environment declared by a generated TypeScript text, in declaration order
func tsParseEnv(text string) ([][2]any, error) {
	toks, err := tsLex(text)
	if err != nil {
		return nil, err
	}
	p := &tsParser{toks: toks, consts: map[string][]map[string]any{}}
	var env [][2]any
	for p.pos < len(p.toks) {
		if p.is("punct", ";") {
			p.pos++
			continue
		}
		if err := p.expect("id", "export"); err != nil {
			return nil, err
		}
		kw, err := p.ident()
		if err != nil {
			return nil, err
		}
		name, err := p.ident()
		if err != nil {
			return nil, err
		}
		switch kw {
		case "type":
			if err := p.expect("punct", "="); err != nil {
				return nil, err
			}
			t, err := p.union()
			if err != nil {
				return nil, fmt.Errorf("type %s: %v", name, err)
			}
			env = append(env, [2]any{name, t})
		case "interface":
			if !p.is("punct", "{") {
				return nil, fmt.Errorf("interface %s: expected {", name)
			}
			t, err := p.primary()
			if err != nil {
				return nil, fmt.Errorf("interface %s: %v", name, err)
			}
			env = append(env, [2]any{name, t})
		case "const":
			if p.is("punct", ":") {
				// an annotated constant (the labels of an enum): no type is declared
				for !p.is("punct", "=") && p.peek() != nil {
					p.pos++
				}
			}
			if err := p.expect("punct", "="); err != nil {
				return nil, err
			}
			if !p.is("punct", "{") {
				return nil, fmt.Errorf("const %s: expected {", name)
			}
			if strings.HasSuffix(name, "Labels") {
				if err := p.skipBalanced("{", "}"); err != nil {
					return nil, err
				}
			} else {
				p.pos++
				vals := []map[string]any{}
				for !p.is("punct", "}") {
					if _, err := p.key(); err != nil {
						return nil, err
					}
					v, err := p.literal()
					if err != nil {
						return nil, fmt.Errorf("const %s: %v", name, err)
					}
					vals = append(vals, v)
					if p.is("punct", ",") {
						p.pos++
					}
				}
				p.pos++
				p.consts[name] = vals
			}
			if p.is("id", "as") {
				p.pos++
				if err := p.expect("id", "const"); err != nil {
					return nil, err
				}
			}
		default:
			return nil, fmt.Errorf("unexpected declaration keyword %s", kw)
		}
	}
	return env, nil
}
