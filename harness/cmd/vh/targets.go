package main

import (
	"fmt"
	"runtime/debug"
	"sort"
	"strings"

	"github.com/benoitkugler/gomacro/analysis"
	gen "github.com/benoitkugler/gomacro/generator"
	"github.com/benoitkugler/gomacro/generator/dart"
	"github.com/benoitkugler/gomacro/generator/go/gounions"
	"github.com/benoitkugler/gomacro/generator/go/randdata"
	"github.com/benoitkugler/gomacro/generator/go/sqlcrud"
	gensql "github.com/benoitkugler/gomacro/generator/sql"
	"github.com/benoitkugler/gomacro/generator/typescript"
)

var allTargets = []string{"typescript", "dart", "sql", "gounions", "randdata", "sqlcrud", "sqlcrud-sets"}

type targetOut struct {
	Target string
	Out    outcome
	Site   string                       // first gomacro frame of the panic stack
	Decls  map[string][]gen.Declaration // file -> declarations (one file except dart)
	Text   map[string]string            // file -> assembled text
}

// guardSite is guard() plus the gomacro function in which the panic was raised
func guardSite(f func()) (out outcome, site string) {
	defer func() {
		if e := recover(); e != nil {
			out = classify(e)
			site = panicSite(string(debug.Stack()))
		}
	}()
	f()
	return outcome{Class: "ok"}, ""
}

func panicSite(stack string) string {
	lines := strings.Split(stack, "\n")
	seenPanic := false
	for _, l := range lines {
		if strings.HasPrefix(l, "panic(") {
			seenPanic = true
			continue
		}
		if seenPanic && strings.HasPrefix(l, "github.com/benoitkugler/gomacro/") {
			f := strings.TrimPrefix(l, "github.com/benoitkugler/gomacro/")
			if i := strings.Index(f, "("); i > 0 && !strings.HasPrefix(f[i:], "(*") && !strings.Contains(f[:i], ".") {
				f = f[:i]
			} else if j := strings.LastIndex(f, "("); j > 0 {
				f = f[:j]
			}
			return strings.TrimSuffix(f, "...")
		}
	}
	return "?"
}

func runTarget(target string, a *analysed, root string) *targetOut {
	t := &targetOut{Target: target, Decls: map[string][]gen.Declaration{}, Text: map[string]string{}}
	t.Out, t.Site = guardSite(func() {
		switch target {
		case "typescript":
			t.Decls["gen.ts"] = typescript.Generate(a.Ana)
		case "sql":
			t.Decls["gen.sql"] = gensql.Generate(a.Ana)
		case "gounions":
			t.Decls["gen_unions.go"] = gounions.Generate(a.Ana)
		case "randdata":
			t.Decls["gen_rand.go"] = randdata.Generate(a.Ana)
		case "sqlcrud":
			t.Decls["gen_crud.go"] = sqlcrud.Generate(a.Ana, false)
		case "sqlcrud-sets":
			t.Decls["gen_crud.go"] = sqlcrud.Generate(a.Ana, true)
		case "dart":
			for _, o := range dart.Generate(root, []*analysis.Analysis{a.Ana}) {
				t.Decls[o.Filename] = o.Content
			}
		default:
			panic("unknown target " + target)
		}
		for f, ds := range t.Decls {
			cp := append([]gen.Declaration(nil), ds...)
			t.Text[f] = gen.WriteDeclarations(cp)
		}
	})
	return t
}

func sortedKeys[V any](m map[string]V) []string {
	var ks []string
	for k := range m {
		ks = append(ks, k)
	}
	sort.Strings(ks)
	return ks
}

func (t *targetOut) String() string { return fmt.Sprintf("%s:%s", t.Target, t.Out.Class) }
